------------------------------ MODULE Announce ------------------------------
(***************************************************************************)
(* Tracker announcing of cenkalti/rain: properties C15 (identity + event   *)
(* discipline + minimum announce gap) and C16 (tier fail-over, retry after *)
(* every announce that ends without a reply, reply robustness).            *)
(*                                                                         *)
(* The module has two halves.                                              *)
(*                                                                         *)
(*  MONITOR  (variables mon, mt, mk, viol).  The obligations of C15/C16    *)
(*  stated on what a tracker receives.  One operator per observable event: *)
(*  StartF / StopF / EventF (download complete) / AnnViol+AnnUpdF (an      *)
(*  announce arrives at tracker k) / ResUpd (what the tracker answered) /  *)
(*  StoppedViol ("stopped" arrives) / UpF (a tracker starts answering).    *)
(*  A failed obligation never blocks: its tag is returned (first failed    *)
(*  one) and stored in `viol`.  The monitor is an ENVELOPE: it fixes no    *)
(*  schedule, only the rules of the property text.                         *)
(*                                                                         *)
(*  MACHINE  (variables tor, an, rq, idx, up, uc).  A transcription of     *)
(*  internal/announcer/periodic.go (PeriodicalAnnouncer.Run), announce.go, *)
(*  stop.go (torrent.stop: "stopped" only if HasAnnounced),                *)
(*  internal/tracker/tier.go (Tier.Announce/loadIndex) and the connection  *)
(*  sharing of internal/tracker/udptracker/transport.go (one connect per   *)
(*  destination, tied to the context of the first requester).  Every       *)
(*  announce the machine emits is shown to the monitor, so TLC proves      *)
(*  "machine => obligations" for every environment (MC_Announce*.cfg).     *)
(*  cfg.asis selects the behaviour of the unchanged tree for three places  *)
(*  where it differs from the repaired design:                             *)
(*     "gap"    timer armed with the raw reply interval (<= 0 included)    *)
(*     "tier"   CompareAndSwap(index, index+1) with an unwrapped index     *)
(*     "cancel" announce() drops ANY context.Canceled, also a foreign one  *)
(*     "add"    the tier advances on EVERY failure (no compare-and-swap with *)
(*              the index that was used): overlapping failures skip members *)
(*     "stopmember" "stopped" goes to the tier's current member, accepted  *)
(*              or not (no repair proposed; recorded as a finding)         *)
(* and two seeded faults of the UDP transport (design mutants that the     *)
(* obligations must reject; MC_Announce_udp_mut_*.cfg):                    *)
(*     "connid0" "connection established" is decided by connection id # 0  *)
(*              instead of by the connect having completed                 *)
(*     "errkeep" a transaction answered by an ERROR packet is not finished: *)
(*              its datagram keeps being retransmitted                     *)
(*     "connkeep" the connect transaction stays registered until the run    *)
(*              loop has handled the connect result: a DUPLICATE of the    *)
(*              connect reply that arrives in between is matched again     *)
(*              (second SetResponse: close of a closed channel)            *)
(* and one seeded fault of the periodic announcer (.._ev_mut_recomplete.cfg): *)
(*     "recomplete" a "completed" whose announce ended without an accepted *)
(*              reply stays pending and is sent again by the retry         *)
(*                                                                         *)
(* Trace_Announce.tla drives the MONITOR with events recorded from the     *)
(* real code (harness/c15, harness/c16); the machine variables are idle    *)
(* there.  Configuration is a variable (cfg) so that each recorded         *)
(* scenario brings its own trackers/torrents/timing constants.             *)
(*                                                                         *)
(* Time.  `now`, `dur`, cmin, bo, lat, slk are in milliseconds in traces;  *)
(* the design configs use abstract units and pass the PLANNED gap of the   *)
(* timer instead of a measured one (a lower bound of the real gap).        *)
(* Tracker intervals are in units of cfg.unit ms (1000 for real trackers). *)
(***************************************************************************)
EXTENDS Integers, FiniteSets, Sequences, TLC

VARIABLES cfg,                 \* configuration record (constant after Init)
          mon, mt, mk, viol,   \* monitor: per announcer, per torrent, per tracker, first failed obligation of the step
          tor, an, rq, idx, up, uc   \* machine

mvars == <<mon, mt, mk, viol>>
xvars == <<tor, an, rq, idx, up, uc>>
vars  == <<cfg, mvars, xvars>>

(* cfg = [ ann  : Seq([t, ks : Seq(tracker)])   one announcer per (torrent, tier)            *)
(*         tor  : Seq([ih, pid, port, total, left0, dmax, umax])                            *)
(*         trk  : Seq([udp : BOOLEAN, dest : Int])  trackers; same dest = shared UDP conn   *)
(*         cmin : client TrackerMinAnnounceInterval, unit, gslack (max slack of the gap),   *)
(*         gapk : consecutive short gaps that violate C15.gap, timed : deadlines judged,    *)
(*         bo   : initial back-off, lat : scripted latency budget, slk : slack of deadlines,*)
(*         asis : SUBSET {"gap","tier","cancel",...} (machine only),                        *)
(*         cids : connection ids a UDP tracker may hand out (machine only; BEP 15 reserves  *)
(*                no value: 0 is a legal id, and the id changes from connect to connect) ]  *)

A == 1 .. Len(cfg.ann)
T == 1 .. Len(cfg.tor)
K == 1 .. Len(cfg.trk)
SeqSet(s) == {s[i] : i \in 1 .. Len(s)}
Ks(a) == SeqSet(cfg.ann[a].ks)
AnnOf(t) == {a \in A : cfg.ann[a].t = t}
AnnFor(t, k) == {a \in AnnOf(t) : k \in Ks(a)}

Min2(x, y) == IF x <= y THEN x ELSE y
Max2(x, y) == IF x >= y THEN x ELSE y

-----------------------------------------------------------------------------
(*                               MONITOR                                    *)

MonA0(c) ==
    LET KK == 1 .. Len(c.trk) IN
    [ run |-> FALSE, first |-> TRUE, csent |-> FALSE, sseen |-> FALSE,   \* sseen: a "started" arrived in this run
      lastm |-> 0, lastres |-> "none", lastend |-> 0, evs |-> TRUE,
      succ |-> [k \in KK |-> 0],        \* learned cyclic order of the tier (0 = not seen yet)
      lastat |-> [k \in KK |-> -1],     \* arrival time of the previous announce at k
      kev |-> [k \in KK |-> TRUE],      \* a torrent event happened since that announce
      acc |-> [k \in KK |-> FALSE],     \* k accepted (answered ok to) an earlier announce
      cnt |-> [k \in KK |-> 0],         \* failed announces elsewhere since k is up and unvisited
      short |-> [k \in KK |-> 0],       \* consecutive too-short gaps seen at k
      sdone |-> [k \in KK |-> FALSE],   \* "stopped" already seen at k since the last stop
      rdue |-> -1,                      \* deadline for the retransmission of a datagram the tracker ignored
      tp |-> 0,                         \* shadow of the tier pointer (position in the tier's member order)
      bound |-> c.cmin,                 \* min(client minimum, positive tracker intervals so far)
      due |-> -1, nfail |-> 0 ]

MonT0(c, t) ==
    [ run |-> FALSE, cdone |-> c.tor[t].left0 = 0, cinrun |-> FALSE,
      exp |-> FALSE, eup |-> 0, edown |-> 0, eleft |-> 0 ]

MonInit(c) ==
    [ mon |-> [a \in 1 .. Len(c.ann) |-> MonA0(c)],
      mt  |-> [t \in 1 .. Len(c.tor) |-> MonT0(c, t)],
      mk  |-> [k \in 1 .. Len(c.trk) |-> c.trk[k].up0] ]

\* positive tracker interval folded into the bound (overflow-safe: 2^31-1 seconds never lowers it)
Fold(b, iv) == IF iv <= 0 \/ iv >= 1000000 THEN b ELSE Min2(b, iv * cfg.unit)
Slack(b)    == Min2(b \div 2, cfg.gslack)
\* upper end of the n-th consecutive back-off (ExponentialBackOff: initial*2^(n-1), randomisation 0.5)
BoHi(n)     == (cfg.bo * (2 ^ (Min2(Max2(n, 1), 8) - 1)) * 3) \div 2

RECURSIVE Orb(_, _, _, _)
Orb(f, x, seen, n) == IF n = 0 \/ x = 0 \/ x \in seen THEN seen ELSE Orb(f, f[x], seen \cup {x}, n - 1)

\* the previous announce of this announcer has a known outcome and nothing happened since
Strict(m, now) == ~m.evs /\ m.lastm # 0 /\ now >= m.lastend

\* @obligation C16.tier.next    after a failed announce the next one goes to the next member, cyclically
\* @obligation C16.tier.sticky  an answering member keeps being used
\* @obligation C16.tier.reach   a member that answers is reached within one cycle of failures
TierViol(m, a, k, now) ==
    LET n == Cardinality(Ks(a)) IN
    IF ~Strict(m, now) THEN ""
    ELSE IF m.lastres = "ok" THEN (IF k = m.lastm THEN "" ELSE "C16.tier.sticky")
    ELSE IF m.lastres # "fail" THEN ""
    ELSE IF m.succ[m.lastm] # 0 THEN (IF k = m.succ[m.lastm] THEN "" ELSE "C16.tier.next")
    ELSE IF (k = m.lastm /\ n > 1) \/ (\E j \in Ks(a) : m.succ[j] = k) THEN "C16.tier.next"
    ELSE LET f == [m.succ EXCEPT ![m.lastm] = k]
             o == Orb(f, k, {}, Len(cfg.trk) + 1)
         IN IF (\A j \in o : f[j] # 0) /\ o # Ks(a) THEN "C16.tier.next"        \* closes a cycle that skips a member
            ELSE ""

ReachViol(m, a, k, now) ==
    IF Strict(m, now) /\ m.lastres = "fail"
       /\ \E j \in Ks(a) \ {k} : mk[j] /\ m.cnt[j] >= Cardinality(Ks(a)) - 1
    THEN "C16.tier.reach" ELSE ""

\* @obligation C15.id.*   info-hash, peer id (as seen in the BT handshake), listening port
IdViol(t, e) ==
    IF e.ih # cfg.tor[t].ih THEN "C15.id.infohash"
    ELSE IF e.pid # cfg.tor[t].pid THEN "C15.id.peerid"
    ELSE IF e.port # cfg.tor[t].port THEN "C15.id.port"
    ELSE ""

\* @obligation C15.cnt.*  uploaded/downloaded/left consistent with the torrent's progress
CntViol(t, e) ==
    LET c == cfg.tor[t]  s == mt[t] IN
    IF e.left < 0 \/ e.left > c.left0 \/ e.down < 0 \/ e.up < 0 THEN "C15.cnt.range"
    ELSE IF e.left < c.left0 - e.down THEN "C15.cnt.left"          \* cannot have completed more than was downloaded
    ELSE IF e.down > c.dmax \/ e.up > c.umax THEN "C15.cnt.transfer"   \* more than the scripted peers moved
    \* complete before this run began (a request issued just before the completion may still arrive after it)
    ELSE IF s.cdone /\ ~s.cinrun /\ e.left # 0 THEN "C15.cnt.leftdone"
    ELSE IF e.ev = "completed" /\ (e.left # 0 \/ e.down < c.left0) THEN "C15.cnt.completed"
    ELSE ""

\* @obligation C15.ev.started    first announce of a run says "started"
\* @obligation C15.ev.completed  "completed" at most once, only when the download finished during that run
\* @obligation C15.gap           consecutive announces to one tracker without an intervening event are never closer
\*                               than min(positive tracker intervals, client minimum) (minus the stated slack)
\* a gap is "short" when it follows an answered announce to k without intervening event and is below the bound minus
\* the slack; the obligation is violated by cfg.gapk consecutive short gaps (1 at design level; 3 on real-time traces,
\* where ONE short gap can be an artefact: the client counts from its send time and a request may be slow to arrive)
ShortGap(m, k, gap) == ~m.kev[k] /\ m.lastat[k] >= 0 /\ gap < m.bound - Slack(m.bound)

EvViol(m, k, e, gap, cin) ==
    IF ~m.run THEN ""                                         \* late arrival of a cancelled request: not judged
    \* ("completed" may be the first one to ARRIVE: the download can finish while "started" is still on its way, and
    \*  the announcer then cancels that request in favour of "completed")
    ELSE IF m.first /\ e.ev # "started" /\ ~(e.ev = "completed" /\ cin) THEN "C15.ev.started"
    \* at most one "started" per tracker per run (when "completed" was the first to arrive, the "started" it overtook - the
    \*  cancelled request was already on its way - may still arrive behind it: once)
    ELSE IF ~m.first /\ e.ev = "started" /\ (m.sseen \/ ~m.csent) THEN "C15.ev.started.repeat"
    ELSE IF e.ev = "completed" /\ m.csent THEN "C15.ev.completed.twice"
    ELSE IF e.ev = "completed" /\ ~cin THEN "C15.ev.completed.notinrun"
    ELSE IF ShortGap(m, k, gap) /\ m.short[k] + 1 >= cfg.gapk THEN "C15.gap"
    ELSE ""

\* @obligation C16.retry  an announce that ended without a reply (error, timeout, foreign abort) is followed by
\*                        another one within the back-off bound while the torrent runs; the first announce of a
\*                        run and the periodic ones of an answering tracker arrive within their deadline
DueViol(M, now) == IF \E a \in A : M[a].run /\ M[a].due >= 0 /\ now > M[a].due THEN "C16.retry" ELSE ""

\* all failed obligations of a step, comma separated (the trace specification reports every one of them)
RECURSIVE Join(_)
Join(tags) == IF tags = <<>> THEN ""
              ELSE LET r == Join(Tail(tags)) IN
                   IF Head(tags) = "" THEN r ELSE IF r = "" THEN Head(tags) ELSE Head(tags) \o "," \o r

First(tags) == IF \E i \in 1 .. Len(tags) : tags[i] # ""
               THEN tags[CHOOSE i \in 1 .. Len(tags) : tags[i] # "" /\ \A j \in 1 .. (i - 1) : tags[j] = ""]
               ELSE ""

\* a periodic announce (started / none / completed) of torrent t arrives at tracker k
\* e = [ev, ih, pid, port, up, down, left]; gap = distance to the previous arrival at k; cin = completion in this run
AnnViol(M, a, k, t, e, now, gap, cin) ==
    <<IdViol(t, e), CntViol(t, e), EvViol(M[a], k, e, gap, cin), TierViol(M[a], a, k, now), ReachViol(M[a], a, k, now)>>

AnnUpdF(M, a, k, ev, now, gap) ==
    LET m == M[a]
        learn == Strict(m, now) /\ m.lastres = "fail" /\ m.succ[m.lastm] = 0
                 /\ TierViol(m, a, k, now) = ""
    IN [M EXCEPT ![a] =
          [m EXCEPT !.first = IF m.run THEN FALSE ELSE @,
                    !.csent = @ \/ (m.run /\ ev = "completed"),
                    !.sseen = @ \/ (m.run /\ ev = "started"),
                    !.succ = IF learn THEN [@ EXCEPT ![m.lastm] = k] ELSE @,
                    !.lastm = k, !.lastres = "open", !.lastend = now, !.evs = FALSE,
                    !.lastat = [@ EXCEPT ![k] = now],
                    !.kev = [@ EXCEPT ![k] = FALSE],
                    !.short = [@ EXCEPT ![k] = IF ShortGap(m, k, gap) THEN Min2(@ + 1, 9) ELSE 0],
                    !.due = -1 ]]

\* what the tracker answered to the announce just seen: res in {"ok","fail","retry","never"}; iv/miv in tracker units
\* ("retry" = failure with an explicit retry-in, "never" = a UDP request that is never answered: no deadline follows)
ResUpd(M, a, k, res, iv, miv, now, dur) ==
    LET m == M[a]
        nf == IF res = "ok" \/ ~cfg.timed THEN 0 ELSE Min2(m.nfail + 1, 8)
        d == IF ~m.run \/ ~cfg.timed \/ res \in {"retry", "never"} THEN -1
             ELSE IF res = "ok" THEN (IF iv > 0 /\ iv <= 60 THEN now + dur + iv * cfg.unit + cfg.lat + cfg.slk ELSE -1)
             ELSE now + dur + BoHi(nf) + cfg.lat + cfg.slk
    IN [M EXCEPT ![a] =
          [m EXCEPT !.lastres = IF res = "ok" THEN "ok" ELSE IF res = "never" THEN "open" ELSE "fail",
                    !.lastend = now + dur,
                    !.acc = [@ EXCEPT ![k] = @ \/ res = "ok"],
                    \* the minimum gap speaks about what follows an ANSWERED announce; the retry after an announce
                    \* that ended without reply is governed by the back-off (C16.retry), not by the minimum interval
                    !.kev = [@ EXCEPT ![k] = @ \/ res # "ok"],
                    !.short = [@ EXCEPT ![k] = IF res # "ok" THEN 0 ELSE @],
                    !.bound = IF res = "ok" THEN Fold(Fold(@, iv), miv) ELSE @,
                    !.cnt = [j \in K |-> IF j = k \/ ~mk[j] THEN 0
                                         ELSE IF res = "ok" THEN @[j] ELSE Min2(@[j] + 1, 9)],
                    !.nfail = nf, !.due = d ]]

\* @obligation C15.ev.stopped  "stopped" only to trackers that accepted an earlier announce
\* (a late "stopped" may arrive after the next start: when it arrives is not part of the property)
StoppedViol(M, a, k, t, e) ==
    LET m == M[a]  s == mt[t] IN
         <<IdViol(t, e),
            IF m.sdone[k] THEN "C15.ev.stopped.twice" ELSE "",
            IF ~m.acc[k] THEN (IF \E j \in Ks(a) : m.acc[j] THEN "C15.ev.stopped.member" ELSE "C15.ev.stopped.unaccepted") ELSE "",
            IF s.exp /\ (e.up # s.eup \/ e.down # s.edown \/ e.left # s.eleft) THEN "C15.cnt.stats" ELSE "",
            IF e.left < 0 \/ e.left > cfg.tor[t].left0 \/ (s.cdone /\ e.left # 0) THEN "C15.cnt.leftdone" ELSE "">>

StoppedF(M, a, k) == [M EXCEPT ![a] = [@ EXCEPT !.sdone = [@ EXCEPT ![k] = TRUE]]]

StartF(M, t, now) ==
    [a \in A |-> IF a \in AnnOf(t)
       THEN [M[a] EXCEPT !.run = TRUE, !.first = TRUE, !.csent = FALSE, !.sseen = FALSE, !.lastm = 0, !.lastres = "none",
                         !.evs = TRUE, !.kev = [k \in K |-> TRUE], !.cnt = [k \in K |-> 0], !.short = [k \in K |-> 0],
                         !.nfail = 0, !.due = IF cfg.timed THEN now + cfg.lat + cfg.slk ELSE -1]
       ELSE M[a]]
StartT(MT, t) == [MT EXCEPT ![t] = [@ EXCEPT !.run = TRUE, !.cinrun = FALSE, !.exp = FALSE]]

\* a stop also aborts a UDP connect that is shared with other torrents: their retry deadline is extended by one back-off
SharesDest(a, t) == \E k \in Ks(a), a2 \in AnnOf(t) : \E k2 \in Ks(a2) :
                       cfg.trk[k].udp /\ cfg.trk[k2].udp /\ cfg.trk[k].dest = cfg.trk[k2].dest
StopF(M, t, now) ==
    [a \in A |-> IF a \in AnnOf(t)
       THEN [M[a] EXCEPT !.run = FALSE, !.evs = TRUE, !.kev = [k \in K |-> TRUE], !.short = [k \in K |-> 0], !.due = -1,
                         !.rdue = -1, !.sdone = [k \in K |-> FALSE]]
       ELSE IF M[a].run /\ M[a].due >= 0 /\ SharesDest(a, t)
       THEN [M[a] EXCEPT !.due = Max2(@, now + BoHi(M[a].nfail + 1) + cfg.lat + cfg.slk),
                         !.nfail = Min2(@ + 1, 8), !.evs = TRUE]
       ELSE M[a]]
StopT(MT, t) == [MT EXCEPT ![t] = [@ EXCEPT !.run = FALSE]]

EventF(M, t) ==          \* the download completed (an event in the sense of C15.gap)
    [a \in A |-> IF a \in AnnOf(t)
       THEN [M[a] EXCEPT !.evs = TRUE, !.kev = [k \in K |-> TRUE], !.cnt = [k \in K |-> 0], !.short = [k \in K |-> 0]]
       ELSE M[a]]
CompleteT(MT, t) == [MT EXCEPT ![t] = [@ EXCEPT !.cdone = TRUE, !.cinrun = @ \/ MT[t].run]]

UpF(M, k) == [a \in A |-> [M[a] EXCEPT !.cnt = [@ EXCEPT ![k] = 0]]]

\* @obligation C15.id.retransmit  every datagram that reaches a UDP tracker, retransmissions included, carries the identity of
\*   the torrent that has that transaction outstanding: a datagram with a known transaction id is byte-identical to the first
\*   one (same), is not sent for a transaction answered long ago (late), and a datagram the tracker ignored is retransmitted
RtxViol(same, late) == <<IF ~same THEN "C15.id.retransmit" ELSE "", IF late THEN "C15.id.retransmit.stale" ELSE "">>
RDueViol(M, now) == IF \E a \in A : M[a].run /\ M[a].rdue >= 0 /\ now > M[a].rdue THEN "C15.id.retransmit.lost" ELSE ""
RDueSet(M, a, d) == [M EXCEPT ![a] = [@ EXCEPT !.rdue = d]]

\* @obligation C16.tier.conc  concurrent announces on one tier: every announce goes to the member at the tier pointer, and the
\*   pointer moves by exactly one member when an announce that used the CURRENT member fails (a failure of an announce that
\*   used an older member moves nothing): the member after a failed one is tried before the failed one is tried again,
\*   however many overlapping announces failed on it.  ord = member order of the tier, li = position the announce used.
PosIn(ord, k) == (CHOOSE i \in 1 .. Len(ord) : ord[i] = k) - 1
TLoadViol(m, ord, k) == IF ord[m.tp + 1] = k THEN "" ELSE "C16.tier.conc"
TLoadF(M, a, ord, k) == [M EXCEPT ![a] = [@ EXCEPT !.tp = PosIn(ord, k)]]          \* follow the code after a report
TRetF(M, a, ord, li, ok) == [M EXCEPT ![a] = [@ EXCEPT !.tp = IF ~ok /\ li = @ THEN (@ + 1) % Len(ord) ELSE @]]
TNewF(M, a) == [M EXCEPT ![a] = [@ EXCEPT !.tp = 0]]
Overlap(M, a) == [M EXCEPT ![a] = [@ EXCEPT !.evs = TRUE]]      \* an overlapping announce ended: the sequential rules pause

ClearDue(M, now) == [a \in A |-> [M[a] EXCEPT !.due = IF M[a].run /\ @ >= 0 /\ now > @ THEN -1 ELSE @,
                                               !.rdue = IF M[a].run /\ @ >= 0 /\ now > @ THEN -1 ELSE @]]

-----------------------------------------------------------------------------
(*                               MACHINE                                    *)
(* One tier per torrent: announcer a = torrent t, members cfg.ann[t].ks.    *)

NMem(t) == Len(cfg.ann[t].ks)
Asis(x) == x \in cfg.asis
IVals == cfg.ivals                 \* interval / min interval values a reply may carry (0 = absent)

\* pend: (seeded fault "recomplete" only) the "completed" event has not been acknowledged by a tracker yet
An0 == [st |-> "none", carm |-> FALSE, has |-> FALSE, iv |-> 0, miv |-> 0, need |-> FALSE, tmr |-> FALSE, gap |-> 0, pend |-> FALSE]
\* ans: the connect reply has ARRIVED at the transport (transaction answered), the run loop has not handled the result yet
NoConn == [st |-> "none", owner |-> 0, id |-> 0, ans |-> FALSE]
\* transport.go requestC branch: an announce is sent at once iff the destination's connect has COMPLETED (connectedAt set);
\* otherwise it waits in the connection's request list, which is flushed exactly once, when the connect ends
Established(c) == IF Asis("connid0") THEN c.st # "none" /\ c.id # 0 ELSE c.st = "connected"

Load(t) == IF idx[t] >= NMem(t) THEN 0 ELSE idx[t]              \* tier.go loadIndex
Cur(t)  == cfg.ann[t].ks[Load(t) + 1]
\* tier.go Announce: on error CompareAndSwap(index, index+1) with the LOADED index
Cas(ix, t, li) == IF Asis("add") THEN [ix EXCEPT ![t] = (@ + 1) % NMem(t)]       \* unconditional advance (seeded fault)
                  ELSE IF ix[t] # li THEN ix
                  ELSE [ix EXCEPT ![t] = IF Asis("tier") THEN li + 1 ELSE (li + 1) % NMem(t)]

\* periodic.go getNextInterval (+ the clamp of the repaired design)
NextGap(x) == LET g == IF x.need THEN x.miv ELSE x.iv
              IN IF Asis("gap") THEN g ELSE IF g <= 0 THEN x.miv ELSE g

NoEv == [ev |-> "none", ih |-> "", pid |-> "", port |-> 0, up |-> 0, down |-> 0, left |-> 0]
EvOf(t, ev) == [ev |-> ev, ih |-> cfg.tor[t].ih, pid |-> cfg.tor[t].pid, port |-> cfg.tor[t].port,
                up |-> 0, down |-> 0, left |-> IF tor[t].done \/ ev = "completed" THEN 0 ELSE cfg.tor[t].left0]

\* requests of torrent t are cancelled (announcer closed, or "completed" while contacting):
\* the cancelled Announce returns an error -> tier CAS; a UDP connect owned by t is aborted and the
\* requests of OTHER torrents waiting for it receive context.Canceled (transport.go connectDone branch)
LiveRq(r) == r.ph \in {"conn", "sent", "cerr"}
\* ("ghost": a transaction that was answered but - seeded fault "errkeep" - not finished; it dies with the announcer's context)
CancelRq(t) ==
    LET aborted == {k \in K : uc[k].st = "connecting" /\ uc[k].owner = t}
    IN {IF r.t = t /\ LiveRq(r) THEN [r EXCEPT !.ph = "zombie"]      \* still inside Tier.Announce: returns an error later
        ELSE IF r.k \in aborted /\ r.ph = "conn" THEN [r EXCEPT !.ph = "cerr", !.err = "canceled"] ELSE r
        : r \in {x \in rq : ~(x.t = t /\ x.ph = "ghost")}}
CancelUc(t) == [k \in K |-> IF uc[k].st = "connecting" /\ uc[k].owner = t THEN NoConn ELSE uc[k]]

\* doAnnounce: a new request goes to the current member (rq0/uc0/ix0 = state after a possible cancel)
SendRq(t, ev, rq0, uc0, ix0) ==
    LET li == IF ix0[t] >= NMem(t) THEN 0 ELSE ix0[t]
        k == cfg.ann[t].ks[li + 1]
        udp == cfg.trk[k].udp
        ph == IF udp /\ ~Established(uc0[k]) THEN "conn" ELSE "sent"
    IN /\ rq' = rq0 \cup {[t |-> t, k |-> k, li |-> li, ev |-> ev, ph |-> ph, err |-> ""]}
       /\ uc' = IF udp /\ uc0[k].st = "none" THEN [uc0 EXCEPT ![k] = [st |-> "connecting", owner |-> t, id |-> 0, ans |-> FALSE]] ELSE uc0
       /\ idx' = ix0

\* the monitor sees the announce (design level: at the moment it is issued; announcer a = torrent t)
Observe(t, ev, ix0, gap, M, MT) ==
    LET li == IF ix0[t] >= NMem(t) THEN 0 ELSE ix0[t]
        k == cfg.ann[t].ks[li + 1]
        v == First(<<EvViol(M[t], k, EvOf(t, ev), gap, MT[t].cinrun), TierViol(M[t], t, k, 0), ReachViol(M[t], t, k, 0),
                     TLoadViol(M[t], cfg.ann[t].ks, k)>>)
    IN /\ viol' = IF viol # "" THEN viol ELSE v
       /\ mon' = TLoadF(AnnUpdF(M, t, k, ev, 0, gap), t, cfg.ann[t].ks, k)
       /\ mt' = MT

Start(t) ==                                       \* torrent.start -> startAnnouncers -> Run: doAnnounce(started)
    /\ ~tor[t].run
    /\ tor' = [tor EXCEPT ![t].run = TRUE]
    /\ an' = [an EXCEPT ![t] = [An0 EXCEPT !.st = "contacting", !.carm = ~tor[t].done, !.miv = cfg.cmin]]
    /\ SendRq(t, "started", rq, uc, idx)
    /\ Observe(t, "started", idx, 0, StartF(mon, t, 0), StartT(mt, t))
    /\ UNCHANGED <<cfg, mk, up>>

Fire(t) ==                                        \* case <-timer.C
    /\ tor[t].run /\ an[t].tmr
    /\ IF an[t].st = "contacting"
       THEN /\ an' = [an EXCEPT ![t].tmr = FALSE]
            /\ UNCHANGED <<rq, uc, idx, mon, mt, viol>>
       \* the timer-driven announce carries NO event - also when the announce that carried "completed" ended without an
       \* accepted reply (error, timeout, lost or undecodable reply): the tracker may have counted it, "completed" is sent once
       ELSE LET ev == IF an[t].pend THEN "completed" ELSE "none" IN
            /\ an' = [an EXCEPT ![t].tmr = FALSE, ![t].st = "contacting"]
            /\ SendRq(t, ev, rq, uc, idx)
            /\ Observe(t, ev, idx, an[t].gap, mon, mt)
    /\ UNCHANGED <<cfg, mk, tor, up>>

FireSend(t) == Fire(t) /\ an[t].st # "contacting"

Need(t, v) ==                                     \* NeedMorePeers(v) + case <-needMorePeersC
    /\ tor[t].run /\ an[t].need # v
    /\ LET x == [an[t] EXCEPT !.need = v] IN
       an' = [an EXCEPT ![t] = IF x.st = "working" THEN [x EXCEPT !.tmr = TRUE, !.gap = NextGap(x)] ELSE x]
    /\ UNCHANGED <<cfg, mvars, tor, rq, idx, up, uc>>

Complete(t) ==                                    \* checkCompletion: close(completeC)
    /\ tor[t].run /\ ~tor[t].done
    /\ tor' = [tor EXCEPT ![t].done = TRUE]
    /\ mon' = EventF(mon, t)
    /\ mt' = CompleteT(mt, t)
    /\ UNCHANGED <<cfg, mk, viol, an, rq, idx, up, uc>>

AnnComplete(t) ==                                 \* case <-a.completedC
    /\ tor[t].run /\ tor[t].done /\ an[t].carm
    /\ an' = [an EXCEPT ![t].carm = FALSE, ![t].st = "contacting", ![t].pend = Asis("recomplete")]
    /\ IF an[t].st = "contacting"
       THEN SendRq(t, "completed", CancelRq(t), CancelUc(t), idx)
       ELSE SendRq(t, "completed", rq, uc, idx)
    /\ Observe(t, "completed", idx, 0, EventF(mon, t), mt)
    /\ UNCHANGED <<cfg, mk, tor, up>>

Stop(t) ==                                        \* torrent.stop: close announcers, "stopped" iff HasAnnounced
    /\ tor[t].run
    /\ tor' = [tor EXCEPT ![t].run = FALSE]
    /\ an' = [an EXCEPT ![t] = An0]
    /\ uc' = CancelUc(t) /\ idx' = idx
    /\ LET li == Load(t)
           cur == Cur(t)
           m == StopF(mon, t, 0)[t]
           \* stop.go announces through the Tier, i.e. to its CURRENT member ("stopmember": even if that
           \* member never accepted anything); the repaired design picks a member that did
           tgt == IF Asis("stopmember") \/ m.acc[cur] THEN cur
                  ELSE IF \E j \in Ks(t) : m.acc[j] THEN CHOOSE j \in Ks(t) : m.acc[j] ELSE 0
           v == IF ~an[t].has \/ tgt = 0 \/ m.acc[tgt] THEN ""
                ELSE IF \E j \in Ks(t) : m.acc[j] THEN "C15.ev.stopped.member" ELSE "C15.ev.stopped.unaccepted"
       IN /\ mon' = StopF(mon, t, 0)
          /\ viol' = IF viol # "" THEN viol ELSE v
          \* the StopAnnouncer's request runs concurrently with whatever comes next (e.g. the announce of a restart)
          /\ rq' = IF an[t].has
                   THEN CancelRq(t) \cup {[t |-> t, k |-> cur, li |-> li, ev |-> "stopped", ph |-> "stop", err |-> ""]}
                   ELSE CancelRq(t)
    /\ mt' = StopT(mt, t)
    /\ UNCHANGED <<cfg, mk, up>>

\* a cancelled announce (or the "stopped" one) comes back from Tier.Announce: error -> the tier's advance rule applies
SideEnd(r) ==
    /\ r \in rq /\ r.ph \in {"zombie", "stop"}
    /\ rq' = rq \ {r}
    /\ LET ok == r.ph = "stop" /\ up[r.k] IN
       /\ idx' = IF ok THEN idx ELSE Cas(idx, r.t, r.li)
       /\ mon' = Overlap(TRetF(mon, r.t, cfg.ann[r.t].ks, r.li, ok), r.t)
    /\ UNCHANGED <<cfg, mt, mk, viol, tor, an, up, uc>>

\* result handling of Run: case resp := <-responseC / case err := <-errC
Okd(x, iv, miv) == LET y == [x EXCEPT !.st = "working", !.iv = iv, !.miv = IF miv > 0 THEN miv ELSE @, !.has = TRUE, !.pend = FALSE]
                   IN [y EXCEPT !.tmr = TRUE, !.gap = NextGap(y)]
Failed(x) == [x EXCEPT !.st = "notworking", !.tmr = TRUE, !.gap = cfg.bo]

Reply(r) ==                                       \* the tracker answers a request that reached it
    /\ r \in rq /\ r.ph = "sent"
    \* (UDP: an ERROR packet finishes the transaction exactly like a data packet: transport.go readC branch, trx.cancel())
    /\ rq' = IF ~up[r.k] /\ cfg.trk[r.k].udp /\ Asis("errkeep") THEN (rq \ {r}) \cup {[r EXCEPT !.ph = "ghost"]} ELSE rq \ {r}
    /\ IF up[r.k]
       THEN \E iv \in IVals, miv \in IVals :
              /\ an' = [an EXCEPT ![r.t] = Okd(@, iv, miv)]
              /\ mon' = TRetF(ResUpd(mon, r.t, r.k, "ok", iv, miv, 0, 0), r.t, cfg.ann[r.t].ks, r.li, TRUE)
              /\ idx' = idx
       ELSE /\ an' = [an EXCEPT ![r.t] = Failed(@)]     \* failure reason / timeout / undecodable reply: all take errC
            /\ mon' = TRetF(ResUpd(mon, r.t, r.k, "fail", 0, 0, 0, 0), r.t, cfg.ann[r.t].ks, r.li, FALSE)
            /\ idx' = Cas(idx, r.t, r.li)
    /\ UNCHANGED <<cfg, mt, mk, viol, tor, up, uc>>

\* The connect reply ARRIVES (transport.go readC branch: the transaction is looked up, REMOVED from the map, SetResponse closes
\* its done channel); the run loop handles the result later (connectDone branch = ConnStep).  Between the two the tracker - or
\* the network - may deliver the same connect reply again, any number of times, back to back.
ConnReply(k) ==
    /\ uc[k].st = "connecting" /\ ~uc[k].ans /\ up[k]
    /\ uc' = [uc EXCEPT ![k].ans = TRUE]
    /\ UNCHANGED <<cfg, mvars, tor, an, rq, idx, up>>

\* @obligation C16.reply.crash (design level)  a duplicated connect reply is a datagram with an unknown transaction id: ignored.
\* (seeded fault "connkeep": the transaction is still registered, the duplicate is matched, SetResponse runs a second time)
DupConnReply(k) ==
    /\ uc[k].st = "connecting" /\ uc[k].ans
    /\ viol' = IF viol # "" THEN viol ELSE IF Asis("connkeep") THEN "C16.reply.crash" ELSE ""
    /\ UNCHANGED <<cfg, mon, mt, mk, xvars>>

ConnStep(k) ==                                    \* the UDP connect transaction ends (connectDone branch)
    /\ uc[k].st = "connecting"
    /\ IF up[k] \/ uc[k].ans
       THEN /\ \E id \in cfg.cids : uc' = [uc EXCEPT ![k].st = "connected", ![k].id = id, ![k].ans = FALSE]   \* the tracker picks the id
            /\ rq' = {IF r.k = k /\ r.ph = "conn" THEN [r EXCEPT !.ph = "sent"] ELSE r : r \in rq}
       ELSE /\ uc' = [uc EXCEPT ![k] = NoConn]
            /\ rq' = {IF r.k = k /\ r.ph = "conn" THEN [r EXCEPT !.ph = "cerr", !.err = "other"] ELSE r : r \in rq}
    /\ UNCHANGED <<cfg, mvars, tor, an, idx, up>>

ConnExpire(k) ==                                  \* connectionIDInterval
    /\ uc[k].st = "connected"
    /\ uc' = [uc EXCEPT ![k] = NoConn]
    /\ UNCHANGED <<cfg, mvars, tor, an, rq, idx, up>>

DeliverErr(r) ==                                  \* a waiting request is told that the connect failed
    /\ r \in rq /\ r.ph = "cerr"
    /\ rq' = rq \ {r}
    /\ idx' = Cas(idx, r.t, r.li)
    /\ IF r.err = "canceled" /\ Asis("cancel")
       THEN /\ an' = an                          \* announce.go: errors.Is(err, context.Canceled) -> return
            /\ mon' = TRetF(mon, r.t, cfg.ann[r.t].ks, r.li, FALSE)
       ELSE /\ an' = [an EXCEPT ![r.t] = Failed(@)]
            /\ mon' = TRetF(ResUpd(mon, r.t, r.k, "fail", 0, 0, 0, 0), r.t, cfg.ann[r.t].ks, r.li, FALSE)
    /\ UNCHANGED <<cfg, mt, mk, viol, tor, up, uc>>

\* BEP 15 retransmission timer (udptracker/backoff.go, retryTransaction): the datagram of a transaction is sent again while the
\* transaction is outstanding.  The tracker sees a datagram with a known transaction id (monitor: RtxViol): same bytes, and
\* never for a transaction it has already answered - by data OR by an error packet.
Retransmit(r) ==
    /\ r \in rq /\ cfg.trk[r.k].udp /\ r.ph \in {"sent", "ghost"}
    /\ viol' = IF viol # "" THEN viol ELSE First(RtxViol(TRUE, r.ph = "ghost"))
    /\ UNCHANGED <<cfg, mon, mt, mk, xvars>>

Flip(k) ==                                        \* environment: a tracker starts / stops answering
    /\ up' = [up EXCEPT ![k] = ~up[k]]
    /\ mk' = [mk EXCEPT ![k] = ~up[k]]
    /\ mon' = UpF(mon, k)
    /\ UNCHANGED <<cfg, mt, viol, tor, an, rq, idx, uc>>

Emits(t) == Start(t) \/ FireSend(t) \/ AnnComplete(t)

-----------------------------------------------------------------------------
(* Design-level invariants                                                  *)

NoViolation == viol = ""

\* no announce is lost while the torrent runs: a contacting announcer always has a request under way
NoLostAnnounce == \A t \in T : (tor[t].run /\ an[t].st = "contacting") => \E r \in rq : r.t = t /\ LiveRq(r)
\* an announcer that is not contacting has its timer armed (so it announces again)
TimerArmed == \A t \in T : (tor[t].run /\ an[t].st \in {"working", "notworking"}) => an[t].tmr
\* the tier can always advance: the stored index is a member position
TierIndexOK == \A t \in T : idx[t] \in 0 .. (NMem(t) - 1)
\* @obligation C16.retry.hang (design level)  an announce waits for a connection only while the connect is under way:
\* nothing is parked behind an established (or vanished) connection, whatever connection id the tracker handed out
NoParked == \A r \in rq : r.ph = "conn" => uc[r.k].st = "connecting"
\* at most one live request per announcer
OneRequest == \A t \in T : Cardinality({r \in rq : r.t = t /\ LiveRq(r)}) <= 1
=============================================================================
