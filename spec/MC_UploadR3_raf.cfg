SPECIFICATION MCSpec
CONSTANTS
  NP = 2
  PLEN <- PLEN_43
  MAXBLK = 3
  MAXQ = 2
  CB = 2
  NCONN = 1
  HAVE0 = {0, 1}
  REQS <- REQS_AF
  AFP = {0}
  PAF = {0, 1}
  NSEND = 3
  NFLIP = 1
  NOPEN = 1
  NTRUNC = 0
  AFCHECK = "sent"
  SHORTREAD = "error"
  TWOPHASE = FALSE
  BUFS = "fresh"
INVARIANT NoBad
INVARIANT QueueBound
INVARIANT QueuedValid
INVARIANT CacheTruth
INVARIANT ViewSound
CHECK_DEADLOCK FALSE
