SPECIFICATION ALiveSpec
CONSTANTS
  SECS <- Secs_plain3
  BS = 2
  QLENS = {1, 2}
  FAST = TRUE
  AF = FALSE
  REJ = "choked"
  UNREQ = TRUE
  ENDS = FALSE
  VARIANT = "fixed"
  IGNORE = {}
INVARIANT AInv
VIEW AView
CHECK_DEADLOCK FALSE
PROPERTY Completes
