---------------------------- MODULE MC_StatsGen ----------------------------
(***************************************************************************)
(* TLC as generator (run with -simulate) of accounting histories for the   *)
(* X07 driver: a walk through the well-formedness automaton of the         *)
(* driver's operations (what can be asked of a torrent that is running /   *)
(* stopped, complete / incomplete, in a session lifetime that ends by a    *)
(* clean Close or by SIGKILL).  props/x07.py expands every abstract step   *)
(* into driver operations (peers, policies, addresses).                    *)
(***************************************************************************)
EXTENDS Integers, Sequences, FiniteSets, TLC, Json
CONSTANTS K, LIVES
VARIABLES h, comp, run, life, fresh

gvars == <<h, comp, run, life, fresh>>
Dice(k) == RandomElement(1 .. (k + 0 * Len(h)))
Pick(S) == RandomElement({x \in S : Len(h) >= 0})

DlKinds == {"honest", "dup", "unreq", "chokere", "corrupt", "oob", "oobbegin", "split", "endgame", "listen"}

GenInit == h = <<>> /\ comp = FALSE /\ run = TRUE /\ life = 1 /\ fresh = TRUE

Emit(op) == h' = Append(h, op)

Step ==
    \E d \in {Dice(20)} :
    IF run /\ ~comp /\ d <= 9
    THEN \E k \in {Pick(DlKinds \cup {"half"})} :
            /\ Emit(IF k = "half" THEN "dlhalf" ELSE "dl:" \o k)
            /\ comp' = (k # "half") /\ UNCHANGED <<run, life>> /\ fresh' = FALSE
    ELSE IF run /\ comp /\ d <= 6
    THEN \E k \in {Pick({"ul", "ul", "ulhang", "uldup"})} : Emit(k) /\ UNCHANGED <<comp, run, life>> /\ fresh' = FALSE
    ELSE IF d <= 8
    THEN IF run THEN Emit("stop") /\ run' = FALSE /\ UNCHANGED <<comp, life>> /\ fresh' = FALSE
                ELSE Emit("start") /\ run' = TRUE /\ UNCHANGED <<comp, life>> /\ fresh' = FALSE
    ELSE IF d <= 10 THEN Emit(Pick({"wait", "waitquiet", "drop"})) /\ UNCHANGED <<comp, run, life>> /\ fresh' = FALSE
    ELSE IF d = 11 /\ run THEN Emit("verify") /\ run' = FALSE /\ UNCHANGED <<comp, life>> /\ fresh' = FALSE   \* a manual verification leaves the torrent stopped
    ELSE IF d = 12 /\ run THEN Emit("half") /\ UNCHANGED <<comp, run, life>> /\ fresh' = FALSE
    ELSE IF d <= 14 THEN Emit("resume") /\ UNCHANGED <<comp, run, life>> /\ fresh' = FALSE
    ELSE IF d <= 18 /\ life < LIVES /\ ~fresh
    THEN Emit(Pick({"close", "crash", "crash"})) /\ life' = life + 1 /\ UNCHANGED <<comp, run>> /\ fresh' = TRUE
    ELSE Emit("sample") /\ UNCHANGED <<comp, run, life>> /\ fresh' = FALSE

GenNext == Len(h) < K /\ Step
GenSpec == GenInit /\ [][GenNext]_gvars
GenPrint == IF Len(h) = K THEN PrintT("@@" \o ToJson([ops |-> h])) ELSE TRUE
=============================================================================
