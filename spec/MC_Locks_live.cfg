SPECIFICATION FairSpec
CONSTANTS
  TorrentSeq <- T1
  NClients = 2
  Choices <- ChoicesCore
  BgSeq <- BgOne
  Fixed = {"StartAll", "StopAll", "resolveAndAddPeer", "moveTorrent", "reserveID", "cleanLive", "cleanReset", "compactLocks", "dhtDropOnStop"}
  Budget = 0
  Unbuffered = {}
  SrcOver <- NoOver
  Allowed <- AnyPick
PROPERTY Returns
CHECK_DEADLOCK FALSE
