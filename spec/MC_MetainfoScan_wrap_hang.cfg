SPECIFICATION Spec
CONSTANTS
  MaxLen = 5
  Mod = 16
  IMax = 3
  MaxDepth = 2
  RULE = "wrap"
INVARIANT Bounded
CHECK_DEADLOCK FALSE
