SPECIFICATION MCSpec
CONSTANTS
  U = 2
  RANGE = {1, 2}
  FIX = {"restart", "flush", "cleanup", "reserve", "self", "walk"}
  MAXF = 1
  FAULTS = {"refuse", "cut", "crash", "disk", "dbfail", "srm", "sclose", "tadd"}
  BINITS = {"empty", "dupsame", "dupother", "dupih", "full"}
  RUNS = {TRUE, FALSE}
  DIRTYS = {TRUE, FALSE}
  DSTS = {"A", "B"}
  FINAL = TRUE
INVARIANT TypeOK
INVARIANT SafetyFixed
INVARIANT NoStuckMove
CHECK_DEADLOCK FALSE
