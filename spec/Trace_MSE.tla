----------------------------- MODULE Trace_MSE -----------------------------
(***************************************************************************)
(* Trace specification: judges the ndjson lines recorded from the REAL     *)
(* code by harness/c12 against MSE.tla.                                    *)
(*                                                                         *)
(*   "HS"  line = one handshake between two real mse.Stream endpoints on   *)
(*           an in-memory pipe with scripted fragmentation;                *)
(*   "POL" line = one btconn.Dial / btconn.Accept scenario over loopback   *)
(*           TCP through a recording tap;                                  *)
(*   "SES" line = one real torrent.Session (encryption switches of its     *)
(*           Config) dialing a raw scripted listener that records how      *)
(*           every connection attempt starts.                              *)
(*                                                                         *)
(* For every line the scenario is loaded (TrLoad), the step machine of     *)
(* MSE.tla is run to its end with the pads / first-read sizes of the line  *)
(* (no line is consumed by these steps), and TrJudge compares what the     *)
(* real endpoints reported with the obligations of C12 and with the final  *)
(* state of the machine.  A failed obligation does not block: its tag goes *)
(* to `viol` (INVARIANT NoViolation reports it with the position l).       *)
(* "C12.model" means that the line is not explained by the specification   *)
(* although no stated obligation is broken - the driver treats that as a   *)
(* machinery error, never as a verdict.                                    *)
(***************************************************************************)
EXTENDS MSE, Json

VARIABLES l, viol, ph
tvars == <<vars, l, viol, ph>>

Trace == ndJsonDeserialize("trace.ndjson")
Ev == Trace[l]

Base == [dk |-> "raw", ck |-> "raw", enable |-> TRUE, force |-> FALSE, forceIn |-> FALSE, provide |-> 3, ia |-> 0,
         keymode |-> "same", selpol |-> "preferRC4", trunc |-> FALSE, loose |-> FALSE]

ScOf(e) ==
    IF e.op = "HS"
    THEN [Base EXCEPT !.provide = e.provide, !.ia = e.ia, !.keymode = e.keymode, !.selpol = e.selpol, !.loose = e.loose = 1]
    ELSE [dk |-> e.dk, ck |-> e.ck, enable |-> e.enable = 1, force |-> e.force = 1, forceIn |-> e.forceIn = 1,
          provide |-> e.provide, ia |-> e.ia, keymode |-> e.keymode, selpol |-> e.selpol, trunc |-> e.trunc = 1, loose |-> e.loose = 1]

\* first-read size observed on the transport; policy lines (kernel TCP) do not observe it - any value gives the
\* same outcome (checked exhaustively by MC_MSE), 96 is used
FrOf(e, f, av) == IF e.op = "HS" /\ f \in 96 .. Min2(FirstBuf, av) THEN f ELSE 96

TraceInit ==
    /\ l = 1 /\ viol = "" /\ ph = "idle"
    /\ InitWith(Base)
    /\ TLCSet(1, 1)

TrLoad ==
    /\ ph = "idle" /\ l <= Len(Trace)
    /\ Ev.op \in {"HS", "POL", "SES"}
    /\ (Ev.op = "SES" => (Ev.dk = "rain" /\ Ev.ck \in {"plainonly", "mse", "any"} /\ Ev.natt >= 1))
    /\ ScOK(ScOf(Ev))
    /\ (Ev.op = "HS" => Ev.steer = 1)          \* the pad hook steered the real run as recorded
    /\ ResetWith(ScOf(Ev))
    /\ ph' = "run"
    /\ UNCHANGED <<l, viol>>

TrRun ==
    /\ ph = "run" /\ ~Done
    /\ \/ DPlainStart \/ DPlainRead \/ A4 \/ A5 \/ A6 \/ DBtRead \/ CPeek \/ B3 \/ B4
       \/ A1(Ev.padA) \/ B2(Ev.padB) \/ A3(Ev.padC) \/ B5(Ev.padD)
       \/ A2(FrOf(Ev, Ev.frA, Avail(ba)))
       \/ B1(FrOf(Ev, Ev.frB, Avail(ab)))
    /\ UNCHANGED <<l, viol, ph>>

OK(x) == x = "ok"
\* a hostile scripted receiver that "completes" alone is not under any obligation
BOK(e) == OK(e.rb) /\ (sc.loose => OK(e.ra))
ModelOK == d.res = "ok" /\ c.res = "ok"

\* ---- one handshake between bare streams
JudgeHS(e) ==
    LET aok == OK(e.ra)
        bok == BOK(e)
    IN
    IF sc.ia > MaxIA /\ aok THEN "C12.payload"                       \* @obligation C12.payload
    ELSE IF sc.keymode # "same" /\ (aok \/ bok) THEN "C12.wrongkey"  \* @obligation C12.wrongkey
    ELSE IF ModelOK /\ "sync" \in {e.ra, e.rb} THEN "C12.sync"       \* @obligation C12.sync
    ELSE IF aok # bok THEN "C12.agree"                               \* @obligation C12.agree
    ELSE IF aok THEN
         IF e.ca # e.cb THEN "C12.agree"
         ELSE IF ~IsPow2(e.ca) \/ ~Has(sc.provide, e.ca) THEN "C12.cipher"   \* @obligation C12.cipher
         ELSE IF e.iaok = 0 THEN "C12.payload"
         ELSE IF e.sab = 0 \/ e.sba = 0 THEN "C12.stream"            \* @obligation C12.stream
         ELSE IF ((e.ca = RC4) # (e.wab = 0)) \/ ((e.ca = RC4) # (e.wba = 0)) THEN "C12.cipher"
         ELSE IF ~ModelOK THEN "C12.model"
         ELSE IF e.ca # d.cipher THEN "C12.cipher"                   \* not the method cryptoSelect chose
         ELSE ""
    ELSE IF ModelOK                                                  \* a handshake that has to complete failed
         THEN IF "timeout" \in {e.ra, e.rb} THEN "C12.sync" ELSE "C12.agree"       \* a hang counts as "not found"
    ELSE ""

\* ---- one Dial / Accept scenario.  wab / wba = 1: the marker written after the handshake by the dialer /
\* acceptor was seen in clear on the wire of the last connection; natt = connections made by the dialer.
JudgePOL(e) ==
    LET aok == OK(e.ra)
        bok == BOK(e)
    IN
    IF sc.dk = "rain" /\ sc.force /\ (e.natt > 1 \/ (aok /\ (e.ca # RC4 \/ e.wab = 1 \/ e.wba = 1)))
    THEN "C12.forced.out"                                            \* @obligation C12.forced.out
    ELSE IF sc.ck = "rain" /\ sc.forceIn /\ bok /\ (e.cb # RC4 \/ e.wba = 1 \/ e.wab = 1)
    THEN "C12.forced.in"                                             \* @obligation C12.forced.in
    ELSE IF sc.ck = "rain" /\ sc.forceIn /\ OK(e.rb1) /\ (e.cb1 # RC4 \/ e.w1 = 1)
    THEN "C12.forced.in"
    ELSE IF sc.keymode # "same" /\ ((aok /\ e.ca # 0 /\ e.natt = 1) \/ (bok /\ e.cb # 0)) THEN "C12.wrongkey"
    ELSE IF aok /\ e.natt > 1 /\ e.ca # 0 THEN "C12.cipher"          \* the plaintext redial reported as negotiated
    ELSE IF aok # bok THEN "C12.agree"
    ELSE IF aok THEN
         IF e.sab = 0 \/ e.sba = 0 THEN "C12.stream"
         ELSE IF ((e.ca = RC4) # (e.wab = 0)) \/ ((e.cb = RC4) # (e.wba = 0)) THEN "C12.cipher"
         ELSE IF e.ca # e.cb THEN "C12.agree"
         ELSE IF ~ModelOK \/ e.ca # d.cipher \/ e.natt # att THEN "C12.model"
         ELSE ""
    ELSE IF ModelOK THEN "C12.agree"                                 \* a connection that has to be established fails
    ELSE IF e.natt # att THEN "C12.model"
    ELSE ""

\* ---- one real torrent.Session (configuration switches Disable/ForceOutgoingEncryption -> enable / force) that was told
\* the address of a raw scripted listener of kind ck.  natt = connection attempts seen by the listener, nplain = how many of
\* them started with the plaintext BitTorrent handshake, p1 / p2 = 1 iff the first / second attempt did (-1: no such attempt
\* or fewer than 20 bytes sent), rb = result of the listener on the last attempt.
\* Stated obligation: forced => no attempt is ever made in plaintext.  The other expectations of the policy layer (default:
\* MSE first, plaintext only as the retry; disabled: plaintext only; number of attempts) are conformance with the model,
\* not obligations of C12: "C12.model".
JudgeSES(e) ==
    LET firstPlain == IF UseMSE THEN 0 ELSE 1
        wantPlain  == firstPlain + (IF att = 2 THEN 1 ELSE 0)
    IN
    IF sc.force /\ (e.nplain > 0 \/ e.p1 = 1 \/ e.p2 = 1) THEN "C12.forced.out"      \* @obligation C12.forced.out
    ELSE IF e.natt # att \/ e.p1 # firstPlain \/ e.nplain # wantPlain THEN "C12.model"
    ELSE IF att = 2 /\ e.p2 # 1 THEN "C12.model"
    ELSE IF OK(e.rb) # (c.res = "ok") THEN "C12.model"
    ELSE IF OK(e.rb) /\ e.cb # c.cipher THEN "C12.model"
    ELSE ""

\* The tag is also printed: with Trace_MSE_all.cfg (no INVARIANT NoViolation) one TLC run judges every line of
\* the file and the driver collects all "@@VIOL <line> <tag>" lines instead of re-running after each violation.
TrJudge ==
    /\ ph = "run" /\ Done
    /\ LET tag == IF Ev.op = "HS" THEN JudgeHS(Ev) ELSE IF Ev.op = "POL" THEN JudgePOL(Ev) ELSE JudgeSES(Ev) IN
       /\ viol' = tag
       /\ (tag # "" => PrintT("@@VIOL " \o ToString(l) \o " " \o tag))
    /\ l' = l + 1
    /\ ph' = "idle"
    /\ UNCHANGED vars

TraceNext == TrLoad \/ TrRun \/ TrJudge

TraceSpec == TraceInit /\ [][TraceNext]_tvars

HighWater == TLCSet(1, IF l > TLCGet(1) THEN l ELSE TLCGet(1))
NoViolation == viol = ""
TraceAccepted ==
    LET hw == TLCGet(1) IN
    IF hw = Len(Trace) + 1 THEN TRUE
    ELSE /\ PrintT("@@REJECT " \o ToString(hw - 1) \o " " \o ToString(Len(Trace)))
         /\ FALSE
=============================================================================
