SPECIFICATION GenSpec
CONSTANTS
  NPEERS = 5
  K = 60
  RMAX = 3
INVARIANT GenPrint
CHECK_DEADLOCK FALSE
