SPECIFICATION Spec
CONSTANTS
  NP = 3
  MaxCmds = 10
INVARIANT Inv
PROPERTY StopLeadsToStopped
PROPERTY VerifyEnds
PROPERTY Converges
CHECK_DEADLOCK FALSE
