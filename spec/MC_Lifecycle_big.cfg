SPECIFICATION Spec
CONSTANTS
  NP = 3
  MaxCmds = 8
INVARIANT Inv
PROPERTY StopLeadsToStopped
PROPERTY VerifyEnds
PROPERTY Converges
CHECK_DEADLOCK FALSE
