SPECIFICATION LiveSpec
CONSTANTS
  NPEERS = 3
  NN = 1
  MM = 1
  RMAX = 1
  VICTIM = 3
INVARIANT TypeOK
PROPERTY EventuallyUnchoked
CHECK_DEADLOCK FALSE
