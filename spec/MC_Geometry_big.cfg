SPECIFICATION MCSpecStatic
CONSTANTS
  MaxFiles = 4
  MaxLen = 4
  MaxPL = 5
  BSS = {2, 3}
INVARIANT Thm1
INVARIANT Thm2
INVARIANT Thm3
INVARIANT Thm4
INVARIANT Thm5
INVARIANT Thm6
INVARIANT Thm7
CHECK_DEADLOCK FALSE
