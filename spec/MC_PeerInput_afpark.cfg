SPECIFICATION MCSpec
CONSTANTS
  N = 4
  NPE = 1
  K = 4
  ASIS = FALSE
  ALPHA = "af"
  MAXLEN = 10
  GUARD = TRUE
  AFPARK = TRUE
INVARIANT InvSnub
VIEW MCView
CHECK_DEADLOCK FALSE
