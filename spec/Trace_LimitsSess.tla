-------------------------- MODULE Trace_LimitsSess --------------------------
(***************************************************************************)
(* Trace specification for the session-level limits of C17: judges the     *)
(* histories recorded by harness/c17 (sub-drivers uploadq, pipeline, ram,   *)
(* webseed, rate, config) on a real torrent.Session against LimitsSess.tla. *)
(* Every history starts with an Init line naming its sub-driver and its     *)
(* configuration; the lines are observations of the scripted side and of    *)
(* the loop snapshots in occurrence order.  Deterministic: one state per    *)
(* line.  Acceptance / verdict lines: see LimitsTrace.tla.                  *)
(* (Crash / Hang lines end a history and use the terminal-tag mechanism.)   *)
(***************************************************************************)
EXTENDS LimitsSess, LimitsTrace

VARIABLES c,     \* the Init line of the running history
          s      \* counters of the running history
tvars == <<c, s, l, viol, vl>>

S0 == [reqs |-> {}, answered |-> {}, cancelled |-> {}, pieces |-> 0, rejects |-> 0, tw |-> -1, tm |-> -1,     \* uploadq
       out |-> <<>>, choking |-> TRUE]                                                      \* pipeline

TraceInit == TraceInit0 /\ c = Trace[1] /\ s = S0
TrReset == Ev.op = "Init" /\ Boundary /\ c' = Ev /\ s' = S0
TrEnd == Ev.op = "End" /\ Boundary /\ UNCHANGED <<c, s>>
Keep == UNCHANGED <<c, s>>
\* The specification is deterministic (one state per line), so a failed obligation is a verdict at once: it is printed
\* (same @@VERDICT form as the terminal events of LimitsTrace) and judging continues with the next line.
Step(v) == /\ IF v = "" THEN TRUE ELSE PrintT("@@VERDICT " \o ToString(l) \o " " \o v)
           /\ KeepViol /\ Advance /\ UNCHANGED c

\* ---------------------------------------------------------------- uploadq
\* The token bucket of the seeding session holds one second of the upload rate = 4 blocks; the warm-up of c.warm = 5
\* blocks (first request at tw) therefore cannot be written out before tw + period, and from then on one block per
\* period leaves the writer.  All requests of the flood have been processed when the marker shows up in a loop snapshot
\* (tm, read late at worst).  So at most  (tm - tw - period) / period  blocks left the queue while the flood was
\* processed - whatever the scripted reader's own delays are.
Early == IF s.tw < 0 \/ s.tm - s.tw - c.period < 0 THEN 0 ELSE (s.tm - s.tw - c.period) \div c.period
TrUQWarm == Ev.op = "UQWarm" /\ s' = [s EXCEPT !.tw = Ev.t] /\ Step("")
\* a cancelled request may still be served (already in the writer's hand), refused, or simply never answered
TrUQCancel == Ev.op = "UQCancel" /\ s' = [s EXCEPT !.cancelled = @ \cup {Ev.i}] /\ Step("")
\* next round on the same connection, after a new warm-up: the accounting starts again, the connection state does not
TrUQRound == Ev.op = "UQRound" /\ s' = [s EXCEPT !.pieces = 0, !.tw = -1, !.tm = -1] /\ Step("")
TrUQReq == Ev.op = "UQReq" /\ s' = [s EXCEPT !.reqs = @ \cup {Ev.i}] /\ Step("")
TrUQMarker == Ev.op = "UQMarker" /\ s' = [s EXCEPT !.tm = Ev.t] /\ Step("")
TrUQPiece ==
    /\ Ev.op = "UQPiece"
    /\ s' = [s EXCEPT !.answered = @ \cup {Ev.i}, !.pieces = @ + 1]
    /\ Step(IF Ev.i \notin s.reqs \/ Ev.i \in s.answered THEN "C17.uploadq.answer"
            ELSE IF ~Ev.intact THEN "C17.uploadq.data" ELSE "")
TrUQReject ==
    /\ Ev.op = "UQReject"
    /\ s' = [s EXCEPT !.answered = @ \cup {Ev.i}, !.rejects = @ + 1]
    \* (with the fast extension rain answers every cancel with a reject, also for a request it has refused before)
    /\ Step(IF Ev.i \notin s.reqs \/ (Ev.i \in s.answered /\ Ev.i \notin s.cancelled) \/ ~c.fast THEN "C17.uploadq.answer" ELSE "")
\* @obligation C17.uploadq
TrUQEnd ==
    /\ Ev.op = "UQEnd" /\ UNCHANGED s
    /\ Step(IF c.cap = 0 /\ s.pieces > 0 THEN "C17.uploadq"
            ELSE IF c.rated /\ c.cap > 0 /\ s.tm >= 0 /\ s.pieces > UploadQBound(c.cap, Early) THEN "C17.uploadq"
            ELSE "")

\* ---------------------------------------------------------------- pipeline
Lim == PipelineLimit(c.reqq, c.defout, c.maxout)
\* Outstanding requests are counted ON THE WIRE, at the scripted seeder: s.out is the BAG (kept as a sequence) of the
\* request messages received on the connection and neither served, rejected nor cancelled - two open requests for the
\* same block are two outstanding requests.  (What the seeder has received and not answered is never more than what rain
\* has sent and not seen answered, so the bound must hold at the seeder at every moment, whatever the delays are.)
\* Without the fast extension a choke voids the seeder's queue and requests arriving while it chokes are void; with the
\* fast extension every request stays outstanding until the seeder answers it with a piece or a reject message.
RemoveOne(q, x) ==
    IF \E i \in 1 .. Len(q) : q[i] = x
    THEN LET i == CHOOSE i \in 1 .. Len(q) : q[i] = x /\ \A j \in 1 .. i - 1 : q[j] # x
         IN SubSeq(q, 1, i - 1) \o SubSeq(q, i + 1, Len(q))
    ELSE q
Void == s.choking /\ ~c.fast
\* @obligation C17.pipeline
TrPLReq ==
    /\ Ev.op = "PLReq"
    /\ IF Void THEN UNCHANGED s ELSE s' = [s EXCEPT !.out = Append(@, <<Ev.p, Ev.b>>)]
    /\ Step(IF ~Void /\ Len(s.out) + 1 > Lim THEN "C17.pipeline" ELSE "")
TrPLGone == Ev.op \in {"PLPiece", "PLReject", "PLCancel"} /\ s' = [s EXCEPT !.out = RemoveOne(@, <<Ev.p, Ev.b>>)] /\ Step("")
\* a reject message for a request that is NOT outstanding (hostile seeder; changes nothing on the wire)
TrPLHostile == Ev.op = "PLHostile" /\ UNCHANGED s /\ Step("")
TrPLChoke == Ev.op = "PLChoke" /\ s' = [s EXCEPT !.choking = TRUE, !.out = IF c.fast THEN @ ELSE <<>>] /\ Step("")
TrPLUnchoke == Ev.op = "PLUnchoke" /\ s' = [s EXCEPT !.choking = FALSE] /\ Step("")
TrPLEnd == Ev.op = "PLEnd" /\ UNCHANGED s /\ Step("")

\* ---------------------------------------------------------------- write cache
\* @obligation C17.ram
TrRamSnap == Ev.op = "RamSnap" /\ UNCHANGED s /\ Step(RamSnapViol(c.limit, c.plens[Ev.tid], Ev.downloads))
TrRamStats == Ev.op = "RamStats" /\ UNCHANGED s /\ Step(RamStatsViol(c.limit, Ev.size, Ev.objects, Ev.pending))
TrRamRest == Ev.op = "RamRest" /\ UNCHANGED s /\ Step(RamRestViol(Ev.size, Ev.objects))
TrRamDone == Ev.op = "RamDone" /\ UNCHANGED s /\ Step("")

\* ---------------------------------------------------------------- web seeds
\* @obligation C17.webseed.sources  @obligation C17.webseed.active
TrWsSnap == Ev.op = "WsSnap" /\ UNCHANGED s /\ Step(WsSnapViol(c.caps, c.capd, Ev.sources, Ev.active, Ev.ranges))
TrWsHttp == Ev.op = "WsHttp" /\ UNCHANGED s /\ Step("")
TrWsEnd == Ev.op = "WsEnd" /\ UNCHANGED s /\ Step(WsHttpViol(Ev.overms))

\* ---------------------------------------------------------------- rate limits
\* @obligation C17.rate
TrRate == Ev.op = "RateBuckets" /\ UNCHANGED s
          /\ Step(IF c.kind = "up"
                  THEN (IF RateOKReq(Ev.req, Ev.arr, Ev.blk, c.rate, Ev.slack) THEN "" ELSE "C17.rate.up")
                  ELSE (IF RateOK(Ev.b, c.rate, c.step, Ev.slack) THEN "" ELSE "C17.rate." \o c.kind))

\* ---------------------------------------------------------------- generated configurations
TrCfgDone == Ev.op = "CfgDone" /\ UNCHANGED s /\ Step("")
\* the scenario could not be set up (no observation about the limits; counted by props/c17.py)
TrSkip == Ev.op = "Skip" /\ UNCHANGED s /\ Step("")

\* ---------------------------------------------------------------- terminal events
\* @obligation C17.config.crash / C17.config.hang (and the same for every other session-level sub-driver)
TrCrash == Ev.op = "Crash" /\ UNCHANGED <<c, s>> /\ SetViol("C17.sess.crash") /\ Advance
TrHang == Ev.op = "Hang" /\ UNCHANGED <<c, s>> /\ SetViol("C17.sess.hang") /\ Advance

TraceNext ==
    /\ l <= Len(Trace)
    /\ \/ TrReset \/ TrEnd \/ TrCrash \/ TrHang
       \/ TrUQWarm \/ TrUQCancel \/ TrUQRound \/ TrUQReq \/ TrUQMarker \/ TrUQPiece \/ TrUQReject \/ TrUQEnd
       \/ TrPLReq \/ TrPLGone \/ TrPLHostile \/ TrPLChoke \/ TrPLUnchoke \/ TrPLEnd
       \/ TrRamSnap \/ TrRamStats \/ TrRamRest \/ TrRamDone
       \/ TrWsSnap \/ TrWsHttp \/ TrWsEnd \/ TrRate \/ TrCfgDone \/ TrSkip

TraceSpec == TraceInit /\ [][TraceNext]_tvars
=============================================================================
