-------------------------- MODULE Trace_LimitsAddr --------------------------
(* Trace specification: Push/Pop/Reset histories of the REAL internal/addrlist (harness/c17, sub-driver addr)  *)
(* judged against the counters of LimitsAddr.tla.  Sequential: the return of a call is its linearization point; *)
(* the observed counters become the shadow state.  Acceptance registers as in Trace_LimitsRM.                   *)
EXTENDS LimitsAddr, LimitsTrace

tvars == <<avars, l, viol, vl>>
Cnt(e) == [s \in Sources |-> e.cnt[s]]

TraceInit ==
    /\ TraceInit0
    /\ AddrInitWith([max |-> Trace[1].max])

TrReset == Ev.op = "Init" /\ Boundary /\ AddrResetWith([max |-> Ev.max])
TrPush == Ev.op = "Push" /\ SetViol(PushViol(Ev.src, Ev.n, Ev.len, Cnt(Ev))) /\ ASet(Cnt(Ev)) /\ l' = l + 1
TrPop == Ev.op = "Pop" /\ SetViol(PopViol(Ev.has, Ev.src, Ev.len, Cnt(Ev))) /\ ASet(Cnt(Ev)) /\ l' = l + 1
TrClr == Ev.op = "Reset" /\ SetViol(ResetViol(Ev.len, Cnt(Ev))) /\ ASet(Cnt(Ev)) /\ l' = l + 1
TrCrash == Ev.op = "Crash" /\ SetViol("C17.addr.crash") /\ UNCHANGED avars /\ l' = l + 1

TrEnd == Ev.op = "End" /\ Boundary /\ UNCHANGED avars

TraceNext == l <= Len(Trace) /\ (TrReset \/ TrEnd \/ TrPush \/ TrPop \/ TrClr \/ TrCrash)
TraceSpec == TraceInit /\ [][TraceNext]_tvars

=============================================================================
