------------------------------ MODULE Geometry ------------------------------
(***************************************************************************)
(* Property C02: piece/file geometry is exact for every accepted metainfo. *)
(*                                                                         *)
(* The oracle is the FLAT BYTE-ARRAY MODEL: the torrent's payload is the   *)
(* concatenation of all files (padding files included); byte k of it lives *)
(* in file F(k) at offset O(k); piece i is bytes [i*PL, min((i+1)*PL,T)).  *)
(* Everything the real code computes (internal/piece NewPieces and         *)
(* calculateBlocks, internal/filesection ReadAt/Write, internal/           *)
(* urldownloader createJobs, the metainfo size check, allocator, verifier) *)
(* is judged against this model; nothing of the code's cursor arithmetic   *)
(* is transcribed except CalcBlocks, which exists (a) to show that the     *)
(* block obligations are satisfiable and (b) with stale=TRUE to recognise  *)
(* the output of one known defect so that it is reported as that defect    *)
(* and nothing else.                                                       *)
(*                                                                         *)
(* A layout L is a record [files, pl, unit]:                               *)
(*   files : sequence of <<length, padflag>> (lengths in units, flag 0/1)  *)
(*   pl    : piece length in units                                         *)
(*   unit  : bytes per unit (1 in the exhaustive byte-granular space;      *)
(*           4096/5461/8192 in the scaled runs where BS = 16384 matters)   *)
(*   zero  : (optional, default {}) the set of unit-sized chunks, numbered *)
(*           from 1 along the concatenation, whose CONTENT is zero bytes   *)
(*           (sparse files, disk images, preallocated files); every other  *)
(*           chunk c carries the value c (so at unit = 1 byte k carries k) *)
(* All derived quantities below are in BYTES.                              *)
(*                                                                         *)
(* Runs are tuples <<file, offset, length, padflag>>; blocks are tuples    *)
(* <<begin, length>> (begin relative to the piece).                        *)
(* Obligations are tagged  @obligation C02.x                               *)
(***************************************************************************)
EXTENDS Integers, Sequences, FiniteSets, TLC

VARIABLES lay,     \* the layout (configuration carried in a variable, never changes after Init)
          disk,    \* [file -> sequence of bytes]  what is on disk (padding files: all zero, never written)
          wrote    \* set of pieces written so far
vars == <<lay, disk, wrote>>

Min(a, b) == IF a < b THEN a ELSE b
Max(a, b) == IF a > b THEN a ELSE b

-----------------------------------------------------------------------------
(* layout arithmetic                                                        *)
(* TLC does not memoise operator applications, so a layout is PREPARED once: *)
(* Prep(R) extends the raw record R = [files, pl, unit] by the derived      *)
(* fields st (byte offset at which each file starts in the concatenation,   *)
(* one extra entry = total), np, and - at unit = 1 only - flat and mask.    *)
(* Every operator below takes a prepared layout L.                          *)

RECURSIVE StartsOf(_, _, _)
StartsOf(R, f, acc) == IF f > Len(R.files) THEN <<acc>>
                       ELSE <<acc>> \o StartsOf(R, f + 1, acc + R.files[f][1] * R.unit)

\* the flat model (unit = 1 only: one entry per byte): flat[k+1] = <<F(k), O(k)>>
RECURSIVE FlatFrom(_, _)
FlatFrom(R, f) == IF f > Len(R.files) THEN <<>>
                  ELSE [o \in 1 .. R.files[f][1] |-> <<f, o - 1>>] \o FlatFrom(R, f + 1)

Prep(R) ==
    LET st    == StartsOf(R, 1, 0)
        total == st[Len(R.files) + 1]
        plb   == R.pl * R.unit
        fl    == IF R.unit = 1 THEN FlatFrom(R, 1) ELSE <<>>
        zs    == IF "zero" \in DOMAIN R THEN R.zero ELSE {}
    IN  [files |-> R.files, pl |-> R.pl, unit |-> R.unit, st |-> st, total |-> total, plb |-> plb, zero |-> zs,
         np    |-> IF plb >= 1 THEN (total + plb - 1) \div plb ELSE 0,
         flat  |-> fl,
         \* what a reader must see once every piece has been written with its flat index (1-based):
         \* zero in padding and in zero-content chunks, the flat index elsewhere
         mask  |-> [k \in 1 .. Len(fl) |-> IF R.files[fl[k][1]][2] = 1 \/ k \in zs THEN 0 ELSE k]]

NF(L)        == Len(L.files)
FStart(L, f) == L.st[f]                      \* bytes before file f
FEnd(L, f)   == L.st[f + 1]
FLen(L, f)   == L.st[f + 1] - L.st[f]
IsPad(L, f)  == L.files[f][2] = 1
PLen(L)      == L.plb
Total(L)     == L.total
Flat(L)      == L.flat
Val(L, c)    == IF c \in L.zero THEN 0 ELSE c     \* content of chunk c (1-based)

\* metainfo.NewInfo: piece length > 0, at least one piece, 0 <= np*PL - total < PL.
\* With np derived from the layout this is "there is at least one byte".
Accepted(L) == L.pl >= 1 /\ L.unit >= 1 /\ NF(L) >= 1 /\ Total(L) >= 1

NP(L)          == L.np
Pieces(L)      == 0 .. (NP(L) - 1)
Lo(L, i)       == i * PLen(L)
Hi(L, i)       == Min((i + 1) * PLen(L), Total(L))
PieceLen(L, i) == Hi(L, i) - Lo(L, i)

-----------------------------------------------------------------------------
(* runs: maximal file-homogeneous stretches of the byte interval [a, b)     *)

Runs(L, a, b) ==
    LET ov(f) == Min(b, FEnd(L, f)) - Max(a, FStart(L, f))
        fs    == SelectSeq([f \in 1 .. NF(L) |-> f], LAMBDA f : ov(f) > 0)
    IN  [k \in 1 .. Len(fs) |->
            <<fs[k], Max(a, FStart(L, fs[k])) - FStart(L, fs[k]), ov(fs[k]), L.files[fs[k]][2]>>]

Sections(L, i) == Runs(L, Lo(L, i), Hi(L, i))

\* expansion of a run list into one <<file, offset>> per byte
RECURSIVE Expand(_)
Expand(rs) == IF rs = <<>> THEN <<>>
              ELSE [j \in 1 .. Head(rs)[3] |-> <<Head(rs)[1], Head(rs)[2] + j - 1>>] \o Expand(Tail(rs))

\* Normal form used to compare run lists produced by the code with the oracle's:
\* zero-length entries dropped, padding made anonymous (which padding file a zero comes from is
\* unobservable: <<0, 0, len, 1>>, neighbours merged), contiguous stretches of one file merged.
RECURSIVE Norm(_)
Norm(rs) ==
    IF rs = <<>> THEN <<>>
    ELSE LET h == Head(rs)
             t == Norm(Tail(rs))
         IN  IF h[3] = 0 THEN t
             ELSE IF h[4] = 1
                  THEN IF t # <<>> /\ t[1][4] = 1
                       THEN <<<<0, 0, h[3] + t[1][3], 1>>>> \o Tail(t)
                       ELSE <<<<0, 0, h[3], 1>>>> \o t
                  ELSE IF t # <<>> /\ t[1][4] = 0 /\ t[1][1] = h[1] /\ t[1][2] = h[2] + h[3]
                       THEN <<<<h[1], h[2], h[3] + t[1][3], 0>>>> \o Tail(t)
                       ELSE <<<<h[1], h[2], h[3], 0>>>> \o t

\* @obligation C02.sections  the sections of piece i are the file-homogeneous runs of its byte interval
SectionsOK(L, i, obs) == Norm(obs) = Norm(Sections(L, i))

-----------------------------------------------------------------------------
(* blocks                                                                   *)

\* set formulation (ground truth, unit = 1)
NonPadPos(L, i) == {k \in 0 .. (PieceLen(L, i) - 1) : ~IsPad(L, L.flat[Lo(L, i) + k + 1][1])}
BlkPos(b) == b[1] .. (b[1] + b[2] - 1)

\* @obligation C02.blocks.len      every block is 1..BS bytes long
\* @obligation C02.blocks.overlap  blocks are pairwise disjoint
\* @obligation C02.blocks.cover    the union of the blocks is exactly the set of non-padding positions
BlocksLenOK(bl, bs) == \A j \in 1 .. Len(bl) : bl[j][2] >= 1 /\ bl[j][2] <= bs /\ bl[j][1] >= 0
BlocksDisjoint(bl)  == \A j, k \in 1 .. Len(bl) : j < k => BlkPos(bl[j]) \cap BlkPos(bl[k]) = {}
BlocksCover(L, i, bl) == UNION {BlkPos(bl[j]) : j \in 1 .. Len(bl)} = NonPadPos(L, i)

BlocksViolSet(L, i, bl, bs) ==
    IF ~BlocksLenOK(bl, bs) THEN "C02.blocks.len"
    ELSE IF ~BlocksDisjoint(bl) THEN "C02.blocks.overlap"
    ELSE IF ~BlocksCover(L, i, bl) THEN "C02.blocks.cover"
    ELSE ""

\* interval formulation (any unit): the same three obligations without enumerating positions.
\* MC_Geometry proves it equivalent to the set formulation on the byte-granular space.
RECURSIVE MergeIv(_)
MergeIv(iv) ==                       \* iv: sequence of <<begin, end>> sorted by begin; merge touching neighbours
    IF Len(iv) <= 1 THEN iv
    ELSE LET t == MergeIv(Tail(iv))
         IN  IF iv[1][2] = t[1][1] THEN <<<<iv[1][1], t[1][2]>>>> \o Tail(t) ELSE <<iv[1]>> \o t

RECURSIVE DataIv(_, _)
DataIv(rs, po) ==                    \* non-padding stretches of a run list, in piece coordinates
    IF rs = <<>> THEN <<>>
    ELSE LET h == Head(rs)
         IN  IF h[4] = 1 \/ h[3] = 0 THEN DataIv(Tail(rs), po + h[3])
             ELSE <<<<po, po + h[3]>>>> \o DataIv(Tail(rs), po + h[3])

BlocksViolIv(L, i, bl, bs) ==
    IF ~BlocksLenOK(bl, bs) THEN "C02.blocks.len"
    ELSE LET s  == SortSeq(bl, LAMBDA x, y : x[1] < y[1])
             iv == [j \in 1 .. Len(s) |-> <<s[j][1], s[j][1] + s[j][2]>>]
         IN  IF \E j \in 1 .. (Len(s) - 1) : iv[j][2] > iv[j + 1][1] THEN "C02.blocks.overlap"
             ELSE IF MergeIv(iv) # MergeIv(DataIv(Sections(L, i), 0)) THEN "C02.blocks.cover"
             ELSE ""

\* Transcription of piece.calculateBlocks over a section list (greedy split).  stale = FALSE is the
\* intended algorithm; stale = TRUE reproduces the defect "a padding section met while the current
\* block is empty leaves blk.Begin at its old value" (nextBlock returns early).
RECURSIVE CB(_, _, _, _, _, _, _, _, _)
CB(secs, bs, stale, k, blocks, bb, bl, po, so) ==
    IF k > Len(secs) THEN (IF bl = 0 THEN blocks ELSE Append(blocks, <<bb, bl>>))
    ELSE LET s == secs[k] IN
         IF s[4] = 1
         THEN LET po2 == po + s[3]
              IN  IF bl = 0
                  THEN CB(secs, bs, stale, k + 1, blocks, IF stale THEN bb ELSE po2, 0, po2, 0)
                  ELSE CB(secs, bs, stale, k + 1, Append(blocks, <<bb, bl>>), po2, 0, po2, 0)
         ELSE LET n     == Min(s[3] - so, bs - bl)
                  bl2   == bl + n
                  po2   == po + n
                  so2   == so + n
                  flush == bl2 = bs
                  blks2 == IF flush THEN Append(blocks, <<bb, bl2>>) ELSE blocks
                  bb2   == IF flush THEN po2 ELSE bb
                  bl3   == IF flush THEN 0 ELSE bl2
              IN  IF so2 = s[3]
                  THEN CB(secs, bs, stale, k + 1, blks2, bb2, bl3, po2, 0)
                  ELSE CB(secs, bs, stale, k, blks2, bb2, bl3, po2, so2)
CalcBlocks(secs, bs, stale) == CB(secs, bs, stale, 1, <<>>, 0, 0, 0, 0)

-----------------------------------------------------------------------------
(* reading and writing                                                      *)

PieceData(L, i) == [j \in 1 .. PieceLen(L, i) |-> Val(L, Lo(L, i) + j)]   \* what is written: flat index, 0 in zero-content chunks

\* @obligation C02.read  ReadAt(i, off, n) returns the flat bytes, padding as zeros
ReadAt(L, d, i, off, n) ==
    LET fl == Flat(L)
    IN  [j \in 1 .. n |-> LET fo == fl[Lo(L, i) + off + j]
                          IN  IF IsPad(L, fo[1]) THEN 0 ELSE d[fo[1]][fo[2] + 1]]

\* @obligation C02.write  Write puts every non-padding byte at (file, offset); padding is never written.
\* Defined the way the code's contract is stated: section by section.
RECURSIVE WriteSecs(_, _, _, _)
WriteSecs(d, secs, data, po) ==
    IF secs = <<>> THEN d
    ELSE LET s   == Head(secs)
             old == d[s[1]]
         IN  IF s[4] = 1 THEN WriteSecs(d, Tail(secs), data, po + s[3])
             ELSE WriteSecs([d EXCEPT ![s[1]] =
                                [o \in 1 .. Len(old) |-> IF o > s[2] /\ o <= s[2] + s[3] THEN data[po + o - s[2]] ELSE old[o]]],
                            Tail(secs), data, po + s[3])

\* the bytes a reader must see for piece i once it has been written
Masked(L, i) == SubSeq(L.mask, Lo(L, i) + 1, Hi(L, i))

\* disk contents after every piece has been written (closed form, any unit = 1 layout)
FinalDisk(L) == [f \in 1 .. NF(L) |-> IF IsPad(L, f) THEN <<>> ELSE [o \in 1 .. FLen(L, f) |-> Val(L, FStart(L, f) + o)]]

\* run-length form for scaled layouts: unit-sized chunk c (0-based) of the flat array carries the value
\* c+1 (0 if padding); the bytes of [a, b) as <<value, count>> pairs with equal neighbours merged
RECURSIVE MergeRLE(_)
MergeRLE(r) == IF Len(r) <= 1 THEN r
               ELSE LET t == MergeRLE(Tail(r))
                    IN  IF r[1][1] = t[1][1] THEN <<<<r[1][1], r[1][2] + t[1][2]>>>> \o Tail(t) ELSE <<r[1]>> \o t
ChunkFile(L, c) == CHOOSE f \in 1 .. NF(L) : FStart(L, f) <= c * L.unit /\ c * L.unit < FEnd(L, f)
ExpRLE(L, a, b) ==
    IF a >= b THEN <<>>
    ELSE LET c0 == a \div L.unit
             c1 == (b - 1) \div L.unit
         IN  MergeRLE([k \in 1 .. (c1 - c0 + 1) |->
                          LET c == c0 + k - 1
                          IN  <<IF IsPad(L, ChunkFile(L, c)) THEN 0 ELSE Val(L, c + 1),
                                Min(b, (c + 1) * L.unit) - Max(a, c * L.unit)>>])
\* file f after every piece has been written, run-length form
FinalDiskRLE(L, f) == IF IsPad(L, f) THEN <<>> ELSE
    MergeRLE([k \in 1 .. L.files[f][1] |-> <<Val(L, FStart(L, f) \div L.unit + k), L.unit>>])

-----------------------------------------------------------------------------
(* web-seed jobs for the piece range [b, e)                                 *)

JobRuns(L, b, e) == Runs(L, Lo(L, b), Hi(L, e - 1))

\* @obligation C02.jobs.tile   the jobs, in order, are exactly the bytes of pieces b..e-1 (padding flagged)
\* @obligation C02.jobs.zero   no zero-length job (zero-length files are skipped)
\* @obligation C02.jobs.merge  consecutive jobs never continue the same file (merged per file)
JobsViol(L, b, e, obs) ==
    IF Norm(obs) # Norm(JobRuns(L, b, e)) THEN "C02.jobs.tile"
    ELSE IF \E j \in 1 .. Len(obs) : obs[j][3] <= 0 THEN "C02.jobs.zero"
    ELSE IF \E j \in 1 .. (Len(obs) - 1) : obs[j][4] = 0 /\ obs[j + 1][4] = 0 /\ obs[j][1] = obs[j + 1][1] THEN "C02.jobs.merge"
    ELSE ""

-----------------------------------------------------------------------------
(* state machine: pieces are written one by one (any order) and read back   *)

ZeroDisk(L) == [f \in 1 .. NF(L) |-> [o \in 1 .. FLen(L, f) |-> 0]]

InitWith(L) == lay = L /\ disk = ZeroDisk(L) /\ wrote = {}
ResetWith(L) == lay' = L /\ disk' = ZeroDisk(L) /\ wrote' = {}

WritePiece(i) ==                                  \* filesection.Piece.Write(buffer of piece i)
    /\ i \in Pieces(lay) \ wrote
    /\ disk' = WriteSecs(disk, Sections(lay, i), PieceData(lay, i), 0)
    /\ wrote' = wrote \cup {i}
    /\ UNCHANGED lay

Next == \E i \in Pieces(lay) : WritePiece(i)

\* every sub-range of every piece reads back what was written (zeros before the write and in padding)
ReadBackInv ==
    \A i \in Pieces(lay) :
        LET exp == IF i \in wrote THEN Masked(lay, i) ELSE [j \in 1 .. PieceLen(lay, i) |-> 0]
        IN  \A off \in 0 .. PieceLen(lay, i), n \in 0 .. PieceLen(lay, i) :
                off + n <= PieceLen(lay, i) => ReadAt(lay, disk, i, off, n) = SubSeq(exp, off + 1, off + n)
\* a write touches exactly the bytes of its piece, at their (file, offset); padding stays untouched
DiskInv ==
    \A f \in 1 .. NF(lay) : \A o \in 1 .. FLen(lay, f) :
        disk[f][o] = IF ~IsPad(lay, f) /\ ((FStart(lay, f) + o - 1) \div PLen(lay)) \in wrote
                     THEN Val(lay, FStart(lay, f) + o) ELSE 0
\* VERIFICATION.  A piece is PRESENT iff what a reader sees of it equals its content (SHA-1 taken as collision free:
\* hash equality = content equality).  Content that is all zero bytes - a zero run covering the piece, a piece made of
\* padding only - is content like any other: such a piece is present on freshly allocated (zero-filled) storage.
Present(L, d, i)   == ReadAt(L, d, i, 0, PieceLen(L, i)) = Masked(L, i)
AllZeroPiece(L, i) == ExpRLE(L, Lo(L, i), Hi(L, i)) = <<<<0, PieceLen(L, i)>>>>       \* any unit
\* @obligation C02.verify       every piece whose on-disk content is its content is reported present: after all pieces
\*                              were written (or: the torrent was created from these files) every piece is present
\* @obligation C02.verify.zero  ... and before any write exactly the all-zero pieces are
VerifyInv ==
    \A i \in Pieces(lay) : Present(lay, disk, i) <=> (i \in wrote \/ AllZeroPiece(lay, i))
AllWrittenIsFinal ==
    (wrote = Pieces(lay)) =>
        \A f \in 1 .. NF(lay) : ~IsPad(lay, f) => disk[f] = FinalDisk(lay)[f]

-----------------------------------------------------------------------------
(* torrent creation from a directory tree (metainfo.NewInfoBytes)           *)
(*                                                                         *)
(* A TREE is a sequence of paths; a path is a non-empty sequence of         *)
(* component ids (small integers; the driver maps id k to the k-th name of  *)
(* a table sorted in byte order, so  <  on ids is the order in which        *)
(* filepath.Walk visits the entries of one directory).  Files only: a       *)
(* directory exists because a file lives below it.  The CREATION ARGUMENT   *)
(* (kind) is one of                                                         *)
(*   "file"   the single regular file itself is given                       *)
(*   "dir"    the directory is given (whatever the number and depth of the  *)
(*            files below it: one file directly inside, one file two levels *)
(*            down, several files, ...)                                     *)
(*   "paths"  the directory is given as root and its top-level entries are  *)
(*            given one by one (in directory order), name = the directory's *)
(* The files of the created torrent are the files of the tree in walk order;*)
(* "that same directory" = the parent of the argument is the storage root.  *)

PathLess(p, q) ==            \* component-wise lexical order (NOT the order of the joined strings)
    \/ \E i \in 1 .. Min(Len(p), Len(q)) : p[i] < q[i] /\ \A j \in 1 .. (i - 1) : p[j] = q[j]
    \/ Len(p) < Len(q) /\ \A j \in 1 .. Len(p) : p[j] = q[j]
IsPrefix(p, q) == Len(p) < Len(q) /\ \A j \in 1 .. Len(p) : p[j] = q[j]
\* no name is both a file and a directory, no file twice, at least one file
ValidTree(t) == /\ Len(t) >= 1
                /\ \A j \in 1 .. Len(t) : Len(t[j]) >= 1
                /\ \A j, k \in 1 .. Len(t) : j # k => t[j] # t[k] /\ ~IsPrefix(t[j], t[k])
\* positions of the tree's files in walk order
WalkOrder(t) == SortSeq([j \in 1 .. Len(t) |-> j], LAMBDA a, b : PathLess(t[a], t[b]))
TopLevel(t)  == {t[j][1] : j \in 1 .. Len(t)}
\* which argument kinds make sense for a tree
KindOK(kind, t) == CASE kind = "file"  -> Len(t) = 1 /\ Len(t[1]) = 1
                     [] kind = "dir"   -> TRUE
                     [] kind = "paths" -> Cardinality(TopLevel(t)) >= 2
                     [] OTHER          -> FALSE
\* @obligation C02.roundtrip.files   the created torrent lists the files of the tree, in walk order, with their lengths
CreatedLens(t, lens) == LET o == WalkOrder(t) IN [k \in 1 .. Len(t) |-> lens[o[k]]]
\* the walk order is a strict total order on a valid tree (so the expectation above is well defined)
ThmWalk(t) == LET o == WalkOrder(t) IN
    /\ Len(o) = Len(t) /\ {o[k] : k \in 1 .. Len(o)} = 1 .. Len(t)
    /\ \A j, k \in 1 .. Len(t) : j # k => (PathLess(t[j], t[k]) <=> ~PathLess(t[k], t[j]))
    /\ \A k \in 1 .. (Len(o) - 1) : PathLess(t[o[k]], t[o[k + 1]])

-----------------------------------------------------------------------------
(* theorems about the oracle itself (checked by TLC for every layout of the *)
(* enumerated space, see MC_Geometry)                                       *)

RECURSIVE ConcatPieces(_, _)
ConcatPieces(L, i) == IF i >= NP(L) THEN <<>> ELSE Expand(Sections(L, i)) \o ConcatPieces(L, i + 1)
RECURSIVE SumPieceLen(_, _)
SumPieceLen(L, i) == IF i >= NP(L) THEN 0 ELSE PieceLen(L, i) + SumPieceLen(L, i + 1)

\* the pieces in order cover the concatenation of all files once and only once
ThmCoverOnce(L) ==
    LET fl == Flat(L) IN
    /\ Len(fl) = Total(L)
    /\ \A j, k \in 1 .. Len(fl) : j < k => fl[j] # fl[k]
    /\ ConcatPieces(L, 0) = fl
\* every piece has the piece length except a possibly shorter (never empty) last one
ThmPieceLen(L) ==
    /\ NP(L) >= 1
    /\ \A i \in Pieces(L) : IF i < NP(L) - 1 THEN PieceLen(L, i) = PLen(L)
                                              ELSE PieceLen(L, i) >= 1 /\ PieceLen(L, i) <= PLen(L)
    /\ SumPieceLen(L, 0) = Total(L)
    /\ 0 <= NP(L) * PLen(L) - Total(L) /\ NP(L) * PLen(L) - Total(L) < PLen(L)
\* runs are maximal, non-empty, inside their file, and already in normal form up to padding anonymity
ThmRuns(L) ==
    \A i \in Pieces(L) :
        LET s == Sections(L, i) IN
        /\ Len(s) >= 1
        /\ \A j \in 1 .. Len(s) : s[j][3] >= 1 /\ s[j][2] >= 0 /\ s[j][2] + s[j][3] <= FLen(L, s[j][1])
        /\ \A j \in 1 .. (Len(s) - 1) : s[j][1] < s[j + 1][1]
\* the block obligations are satisfiable (the greedy split meets them, in both formulations), and the
\* output of the known stale-Begin defect is rejected whenever it differs from the greedy split
ThmBlocks(L, bss) ==
    \A i \in Pieces(L), bs \in bss :
        LET g == CalcBlocks(Sections(L, i), bs, FALSE)
            d == CalcBlocks(Sections(L, i), bs, TRUE)
        IN  /\ BlocksViolSet(L, i, g, bs) = ""
            /\ BlocksViolIv(L, i, g, bs) = ""
            /\ (d # g) => (BlocksViolSet(L, i, d, bs) # "" /\ BlocksViolIv(L, i, d, bs) # "")
            /\ (NonPadPos(L, i) = {}) <=> (g = <<>>)
\* interval and set formulation agree on a family of perturbed block lists (correct and incorrect ones)
Perturb(g) ==
    {g} \cup {[g EXCEPT ![j] = <<@[1] + dx, @[2]>>] : j \in 1 .. Len(g), dx \in {-1, 1}}
        \cup {[g EXCEPT ![j] = <<@[1], @[2] + dx>>] : j \in 1 .. Len(g), dx \in {-1, 1}}
        \cup {[g EXCEPT ![j] = <<@[1] + 1, @[2] - 1>>] : j \in 1 .. Len(g)}
        \cup {SubSeq(g, 1, j - 1) \o SubSeq(g, j + 1, Len(g)) : j \in 1 .. Len(g)}
        \cup {g \o <<g[j]>> : j \in 1 .. Len(g)}
        \cup {IF Len(g) >= 2 THEN <<g[Len(g)]>> \o SubSeq(g, 1, Len(g) - 1) ELSE g}
ThmIvEqSet(L, bss) ==
    \A i \in Pieces(L), bs \in bss :
        \A bl \in Perturb(CalcBlocks(Sections(L, i), bs, FALSE)) \cup Perturb(CalcBlocks(Sections(L, i), bs, TRUE)) :
            BlocksViolIv(L, i, bl, bs) = BlocksViolSet(L, i, bl, bs)
\* the canonical job list (the runs of the byte range, zero-length files never appear) tiles the range
ThmJobs(L) ==
    \A b \in Pieces(L), e \in 1 .. NP(L) :
        b < e => LET j == JobRuns(L, b, e)
                 IN  /\ JobsViol(L, b, e, j) = ""
                     /\ Expand(j) = SubSeq(Flat(L), Lo(L, b) + 1, Hi(L, e - 1))
\* run-length forms agree with the byte forms at unit = 1
RECURSIVE Unroll(_)
Unroll(q) == IF q = <<>> THEN <<>> ELSE [j \in 1 .. Head(q)[2] |-> Head(q)[1]] \o Unroll(Tail(q))
ThmRLE(L) ==
    /\ \A i \in Pieces(L) : Unroll(ExpRLE(L, Lo(L, i), Hi(L, i))) = Masked(L, i)
    /\ \A f \in 1 .. NF(L) : Unroll(FinalDiskRLE(L, f)) = FinalDisk(L)[f]
=============================================================================
