SPECIFICATION GSSpec
CONSTANTS
  BITS = 4
  CAP = 2
  ASIS = FALSE
  K = 4
  ALPHA = "core"
INVARIANT GSPrint
CHECK_DEADLOCK FALSE
