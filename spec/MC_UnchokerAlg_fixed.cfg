SPECIFICATION ASpec
CONSTANTS
  NPEERS = 3
  NN = 1
  MM = 1
  RMAX = 1
  VARIANT = "fixed"
  IGNORE = {}
  VICTIM = 0
INVARIANT AInv
CHECK_DEADLOCK FALSE
