SPECIFICATION MCSpec
CONSTANTS
  NT = 1
  NM = 2
  UDP = FALSE
  CMIN = 2
  BO = 3
  IVALS <- IvOne
  ASIS = {"stopmember"}
  CIDS = {0}
  ENV = {"flip", "stop"}
INVARIANT Inv
PROPERTY Live
CHECK_DEADLOCK FALSE
