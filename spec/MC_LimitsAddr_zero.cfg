SPECIFICATION PSpec
CONSTANTS
  Sources = {1, 2}
  MAXITEMS = 0
  Prios = {1, 2}
  MAXPUSH = 2
CONSTRAINT Bound
INVARIANT PInv
CHECK_DEADLOCK FALSE
