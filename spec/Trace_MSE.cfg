SPECIFICATION TraceSpec
CONSTRAINT HighWater
INVARIANT NoViolation
INVARIANT Inv
POSTCONDITION TraceAccepted
CHECK_DEADLOCK FALSE
