-------------------------- MODULE Trace_WebseedSess --------------------------
(***************************************************************************)
(* Trace specification, session level of X06: judges what harness/x06 e2e  *)
(* records from a real torrent.Session that downloads from scripted web    *)
(* seeds and peers.  Times are milliseconds of one clock.                  *)
(*   Snap     loop snapshot (hook H1): webseedActiveDownloads, the ranges  *)
(*            <<source, begin, end, current>> of the sources that have a   *)
(*            downloader, the status                                       *)
(*   SrcReq / SrcErr / SrcCorrupt   a request reaches source s / is        *)
(*            answered with an error status / with a corrupted byte        *)
(*   Stopped / Started / Gor(n)     torrent stopped / restarted; number of *)
(*            downloader goroutines found after a stop / Session.Close     *)
(*   Due(s)   by construction of the scenario source s ought to have been  *)
(*            used again by now (interval passed, slot free, work left)    *)
(*   Done     the torrent completed: counter and ranges once they are zero *)
(*            (or 15 s later)                                              *)
(* @obligation X06.e  .exact (counter # number of ranges), .cap, .range    *)
(*            (begin <= current <= end), .final (not idle at completion),  *)
(*            .zombie (a counted downloader has nothing left to do: every  *)
(*            piece from its current one to the end of its range is done - *)
(*            the loop closes a downloader in the handler that sees its    *)
(*            last piece, so this never shows at a loop step)              *)
(* @obligation X06.d  .early (a disabled source is used before the retry   *)
(*            interval has passed), .retry.late / .retry.never (not used   *)
(*            again), .corrupt-used (more than CorruptMore further requests*)
(*            to a source after it served corrupt data)                    *)
(* @obligation X06.c  .req-after-stop, .goroutine                          *)
(* @obligation X06.a  .sessdata (the torrent is complete and a stored piece*)
(*            differs from the data the honest sources hold: what a piece  *)
(*            buffer with two owners ends in)                              *)
(***************************************************************************)
EXTENDS Integers, Sequences, FiniteSets, TLC, Json

VARIABLES c, s, l
tvars == <<c, s, l>>

Trace == ndJsonDeserialize("trace.ndjson")
Ev == Trace[l]

NoZ == [r |-> <<>>, t |-> 0]
S0(e) == [disAt |-> [k \in 1 .. e.nsrc |-> -1], corrN |-> [k \in 1 .. e.nsrc |-> -1], stoppedAt |-> -1,
          zs |-> [k \in 1 .. e.nsrc |-> NoZ]]
CfgOf(e) == [kind |-> e.kind, cap |-> e.cap, nsrc |-> e.nsrc, ri |-> e.ri]

TraceInit == l = 2 /\ Trace[1].op = "Init" /\ c = CfgOf(Trace[1]) /\ s = S0(Trace[1]) /\ TLCSet(1, 1)

Tag(b, t) == IF b THEN {t} ELSE {}
Note(S) == \A t \in S : PrintT("@@VIOL " \o t \o " " \o ToString(l))
Step == l' = l + 1
Src == 1 .. c.nsrc
Margin == 20          \* clock granularity
\* requests a source may still get after it has served a corrupt byte: its running range goes on until the piece has
\* been hashed; if the corrupt piece ends the range, the next range (two files at most) is started before the verdict
CorruptMore == 3
StopGrace == 2500     \* a request sent before the stop may reach the handler of the scripted server late
ZombieGrace == 5000     \* a downloader may be fetching one last piece that another source has delivered meanwhile

TrReset == Ev.op = "Init" /\ c' = CfgOf(Ev) /\ s' = S0(Ev) /\ Step
TrNop == Ev.op \in {"Begin", "Skip", "End", "NotDone"} /\ UNCHANGED <<c, s>> /\ Step

\* a source in its disabled window
Window(k, t) == s.disAt[k] >= 0 /\ t > s.disAt[k] /\ t < s.disAt[k] + c.ri - Margin

\* a downloader that has nothing left to do (flag 5 of its range) for longer than ZombieGrace although it is counted
ZombieOf(rs, k) == IF \E i \in 1 .. Len(rs) : rs[i][1] = k /\ rs[i][5] = 1
                   THEN LET i == CHOOSE i \in 1 .. Len(rs) : rs[i][1] = k /\ rs[i][5] = 1 IN <<rs[i][2], rs[i][3], rs[i][4]>>
                   ELSE <<>>
TrSnap ==
    /\ Ev.op = "Snap"
    /\ LET rs == Ev.ranges  n == Len(rs)
           z2 == [k \in Src |-> LET z == ZombieOf(rs, k) IN
                                IF z = <<>> THEN NoZ ELSE IF s.zs[k].r = z THEN s.zs[k] ELSE [r |-> z, t |-> Ev.t]]
       IN /\ Note(Tag(Ev.active # n, "X06.e.exact")
                  \cup Tag(Ev.active < 0 \/ Ev.active > c.cap \/ n > c.cap, "X06.e.cap")
                  \cup Tag(\E i \in 1 .. n : ~(rs[i][2] <= rs[i][4] /\ rs[i][4] <= rs[i][3]), "X06.e.range")
                  \cup Tag(\E i, j \in 1 .. n : i # j /\ rs[i][1] = rs[j][1], "X06.e.exact")
                  \cup Tag(\E k \in Src : z2[k] # NoZ /\ Ev.t - z2[k].t > ZombieGrace /\ s.zs[k].t # -1, "X06.e.zombie"))
          \* a zombie is reported once: its record is marked
          /\ s' = [s EXCEPT !.zs = [k \in Src |-> IF z2[k] # NoZ /\ Ev.t - z2[k].t > ZombieGrace THEN [z2[k] EXCEPT !.t = -1]
                                                   ELSE z2[k]],
                            !.stoppedAt = IF Ev.status \in {"Stopped", "Stopping"} THEN s.stoppedAt ELSE -1]
    /\ UNCHANGED c /\ Step

TrSrcReq ==
    /\ Ev.op = "SrcReq" /\ Ev.s \in Src
    /\ LET k == Ev.s IN
       /\ Note(Tag(Window(k, Ev.t), "X06.d.early")
               \cup Tag(s.corrN[k] = CorruptMore, "X06.d.corrupt-used")
               \cup Tag(s.stoppedAt >= 0 /\ Ev.t > s.stoppedAt + StopGrace, "X06.c.req-after-stop"))
       /\ s' = [s EXCEPT !.disAt[k] = IF s.disAt[k] >= 0 /\ Ev.t > s.disAt[k] THEN -1 ELSE s.disAt[k],
                         !.corrN[k] = IF s.corrN[k] >= 0 THEN s.corrN[k] + 1 ELSE -1]
    /\ UNCHANGED c /\ Step

TrSrcErr == Ev.op = "SrcErr" /\ Ev.s \in Src /\ s' = [s EXCEPT !.disAt[Ev.s] = Ev.t] /\ UNCHANGED c /\ Step
TrSrcCorrupt ==
    /\ Ev.op = "SrcCorrupt" /\ Ev.s \in Src
    /\ s' = IF s.corrN[Ev.s] < 0 THEN [s EXCEPT !.corrN[Ev.s] = 0] ELSE s
    /\ UNCHANGED c /\ Step
TrStopped == Ev.op = "Stopped" /\ s' = [s EXCEPT !.stoppedAt = Ev.t] /\ UNCHANGED c /\ Step
TrStarted == Ev.op = "Started" /\ UNCHANGED <<c, s>> /\ Step
TrGor == Ev.op = "Gor" /\ Note(Tag(Ev.n > 0, "X06.c.goroutine")) /\ UNCHANGED <<c, s>> /\ Step
TrDue ==
    /\ Ev.op = "Due" /\ Ev.s \in Src
    /\ Note(Tag(s.disAt[Ev.s] >= 0, IF Ev.hard THEN "X06.d.retry.never" ELSE "X06.d.retry.late"))
    /\ UNCHANGED <<c, s>> /\ Step
TrDone ==
    /\ Ev.op = "Done"
    /\ Note(Tag(Ev.active # 0 \/ Ev.ranges # 0, "X06.e.final") \cup Tag(~Ev.good, "X06.a.sessdata"))
    /\ UNCHANGED <<c, s>> /\ Step
TrHang == Ev.op = "Hang" /\ Note({"X06.sess.hang"}) /\ UNCHANGED <<c, s>> /\ Step
TrCrash == Ev.op = "Crash" /\ Note({"X06.sess.crash"}) /\ UNCHANGED <<c, s>> /\ Step

TraceNext ==
    /\ l <= Len(Trace)
    /\ \/ TrReset \/ TrNop \/ TrSnap \/ TrSrcReq \/ TrSrcErr \/ TrSrcCorrupt \/ TrStopped \/ TrStarted \/ TrGor \/ TrDue
       \/ TrDone \/ TrHang \/ TrCrash

TraceSpec == TraceInit /\ [][TraceNext]_tvars

HighWater == TLCSet(1, IF l > TLCGet(1) THEN l ELSE TLCGet(1))
TraceAccepted ==
    LET hw == TLCGet(1) IN
    IF hw = Len(Trace) + 1 THEN TRUE
    ELSE /\ PrintT("@@REJECT " \o ToString(hw - 1) \o " " \o ToString(Len(Trace)))
         /\ FALSE
=============================================================================
