---------------------------- MODULE MC_Geometry ----------------------------
(* Exhaustive configurations of Geometry.                                   *)
(*  - static configs (Stateful = FALSE): every accepted layout of the       *)
(*    enumerated space is an initial state; the oracle's own theorems are   *)
(*    the invariants (coverage once and only once, piece lengths, runs,     *)
(*    satisfiable block obligations, interval = set formulation, jobs).     *)
(*  - stateful config (Stateful = TRUE): pieces are written in every order  *)
(*    and every sub-range is read back after every write.                   *)
(*  - zero-content config (MCSpecZero): the same with every subset of the   *)
(*    bytes having zero CONTENT; adds VerifyInv (a piece is present iff it  *)
(*    was written or consists of zeros only) and the RLE forms with zeros.  *)
EXTENDS Geometry
CONSTANTS MaxFiles, MaxLen, MaxPL, BSS

FileSpace == (0 .. MaxLen) \X {0, 1}
LayoutSpace ==
    {[files |-> fs, pl |-> p, unit |-> 1] :
        fs \in UNION {[1 .. n -> FileSpace] : n \in 1 .. MaxFiles}, p \in 1 .. MaxPL}

\* static configs: the space is generated as a tree (one file appended per step) so that TLC's workers
\* share the work; every node with at least one byte is an accepted layout of LayoutSpace and vice versa
MCInitStatic == \E x \in FileSpace, p \in 1 .. MaxPL : InitWith(Prep([files |-> <<x>>, pl |-> p, unit |-> 1]))
Grow == /\ NF(lay) < MaxFiles
        /\ \E x \in FileSpace : ResetWith(Prep([files |-> Append(lay.files, x), pl |-> lay.pl, unit |-> 1]))
MCSpecStatic == MCInitStatic /\ [][Grow]_vars

\* stateful config: every accepted layout is an initial state; pieces are written in every order
MCInit == \E R \in LayoutSpace : Accepted(Prep(R)) /\ InitWith(Prep(R))
MCSpec == MCInit /\ [][Next]_vars

\* zero-content config: every accepted layout x every set of zero-content bytes is an initial state
MCInitZero == \E R \in LayoutSpace : /\ Accepted(Prep(R))
                                     /\ \E Z \in SUBSET (1 .. Prep(R).total) : InitWith(Prep([files |-> R.files, pl |-> R.pl, unit |-> 1, zero |-> Z]))
MCSpecZero == MCInitZero /\ [][Next]_vars
ThmRLEz == Accepted(lay) => ThmRLE(lay)

Thm1 == Accepted(lay) => ThmCoverOnce(lay)
Thm2 == Accepted(lay) => ThmPieceLen(lay)
Thm3 == Accepted(lay) => ThmRuns(lay)
Thm4 == Accepted(lay) => ThmBlocks(lay, BSS)
Thm5 == Accepted(lay) => ThmIvEqSet(lay, BSS)
Thm6 == Accepted(lay) => ThmJobs(lay)
Thm7 == Accepted(lay) => ThmRLE(lay)
InSpace == [files |-> lay.files, pl |-> lay.pl, unit |-> lay.unit] \in LayoutSpace
=============================================================================
