----------------------------- MODULE PeerInput -----------------------------
(***************************************************************************)
(* Property C08: untrusted peer input never crashes the client, never      *)
(* makes it allocate more than the configured maximum message size for one *)
(* message, and is either handled or answered by dropping that peer; one   *)
(* peer's misbehaviour never stops the torrent nor disturbs other peers.   *)
(*                                                                         *)
(* Two layers over one alphabet of message CLASSES (kind x field class):   *)
(*  (a) the reader  internal/peerconn/peerreader.Run : length prefix,      *)
(*      keep-alive, maximum message size, id dispatch, fixed-size bodies   *)
(*      read regardless of the declared length, piece payload through the  *)
(*      block pool, extension sub-dispatch  ->  RV(c), AllocOf(c), Exp(c); *)
(*  (b) the torrent loop  torrent_messagehandler.go /                      *)
(*      torrent_metadataextension.go / torrent_peer.go (queue + replay) /  *)
(*      torrent_allocation.go / torrent_verification.go / torrent_stop.go  *)
(*      per torrent state  ->  Recv, Replay, Advance, Stop ...             *)
(*                                                                         *)
(* cfg.asis = TRUE switches the replay of queued messages to what the      *)
(* code does today (processQueuedMessages keeps replaying a peer that one  *)
(* of its own queued messages has just closed); the design (asis = FALSE)  *)
(* stops at the first message that drops the peer.  MC_PeerInput checks    *)
(* the design exhaustively and exports the as-is counterexample as a lead  *)
(* that the driver replays against the real code.                          *)
(*                                                                         *)
(* Configuration is a variable (cfg) so that Trace_PeerInput can take the  *)
(* sizes from every recorded scenario.                                     *)
(***************************************************************************)
EXTENDS Integers, Sequences, FiniteSets, TLC

VARIABLES cfg,    \* [n, npe, maxmsg, asis, guard, afpark]     n = number of pieces
          ts,     \* torrent state
          loop,   \* "ok" | "blocked"   (the torrent event loop)
          zomb,   \* piece downloads owned by peers that are already closed
          peer,   \* [1..npe -> PeerRec]
          last    \* output only: what the last step did

vars == <<cfg, ts, loop, zomb, peer, last>>

States  == {"meta", "alloc", "verify", "down", "seed", "stopping", "stopped"}
NoInfo(t) == t \in {"meta", "alloc", "verify"}      \* t.pieces == nil || t.bitfield == nil
Live(t)   == t \in {"down", "seed"}
Peers == 1 .. cfg.npe

Block == 16384          \* piece.BlockSize = peerreader.MaxBlockSize
U32   == -1             \* token for 2^32-1 (TLC integers are 32 bit)
Slack == 65536          \* fixed slack of obligation C08.alloc (block pool buffer + bookkeeping)

-----------------------------------------------------------------------------
(* The class alphabet (same names as harness/c08/classes.go)                *)

Skip     == {"keepalive", "unknown.id99", "unknown.suggest", "unknown.empty"}
Oversize == {"oversize.max1", "oversize.2g", "oversize.4g", "oversize.unknown4g", "oversize.piece2g"}
Stall    == {"trunc.have", "trunc.bitfield", "trunc.prefix"}
WrongLen == {"wronglen.have9", "wronglen.have1", "wronglen.choke5", "wronglen.request5",
             "wronglen.piece5", "wronglen.port1"}
\* syntactically broken bodies / ids: the reader may drop the connection or deliver what it decoded
Garbage  == {"request.lenbig", "piece.big", "ext.hs.mbig", "ext.hs.mneg", "ext.hs.garbage", "ext.hs.notdict",
             "ext.hs.empty", "ext.none", "ext.unknown", "ext.meta.reqneg", "ext.meta.garbage", "ext.pex.garbage"}
Plain    == {"choke", "unchoke", "interested", "notinterested", "havenone", "port"}
HaveK    == {"have.in0", "have.last", "have.oob", "have.max"}
BitK     == {"bitfield.ok", "bitfield.full", "bitfield.spare", "bitfield.empty", "bitfield.short", "bitfield.long",
             "bitfield.atmax"}
FastK    == {"allowedfast.in0", "allowedfast.all", "allowedfast.oob", "allowedfast.max"}
\* allowed-fast grants (fast extension): the peer may be asked for these pieces while it chokes us
AfGrant  == {"allowedfast.in0", "allowedfast.all"}
\* a block of the piece that is being downloaded from the peer, if any (block 0 of piece 0 / of every piece)
BlockK   == {"piece.unreq", "piece.alljunk"}
ReqK     == {"request.ok", "request.len0", "request.tail", "request.ovf", "request.oob", "request.max",
             "request.lastoob"}
CancelK  == {"cancel.ok", "cancel.oob"}
RejectK  == {"reject.oob", "reject.all", "reject.allbad"}
PieceK   == {"piece.unreq", "piece.oob", "piece.max", "piece.begin4g", "piece.empty", "piece.allbad",
             "piece.alljunk"}
HsK      == {"ext.hs.ok", "ext.hs.nometa", "ext.hs.negsize", "ext.hs.hugesize", "ext.hs.oversize",
             "ext.hs.atmax", "ext.hs.wrongsize", "ext.hs.negreqq", "ext.hs.hugereqq"}
MetaReqK == {"ext.meta.req0", "ext.meta.reqoob", "ext.meta.reqovf", "ext.meta.type9"}
MetaDatK == {"ext.meta.data0", "ext.meta.dataoob", "ext.meta.datajunk", "ext.meta.datajunk2", "ext.meta.reject"}
PexK     == {"ext.pex.ok", "ext.pex.odd"}

\* the hand-written part of the alphabet
Core == Skip \cup Oversize \cup Stall \cup WrongLen \cup Garbage \cup Plain \cup HaveK \cup BitK
        \cup {"haveall"} \cup FastK \cup ReqK \cup CancelK \cup RejectK \cup PieceK \cup HsK
        \cup MetaReqK \cup MetaDatK \cup PexK

\* ut_pex payload families (generated names, the same construction as harness/c08/classes.go):
\*  ext.pex.len.<field>.<n>   the string <field> of the message is n bytes long, n = 0 .. 100  (complete 6-byte
\*                            entries followed by a partial one); fields: added, added.f (addedf), dropped, added6, dropped6
\*  ext.pex.rep.<A>.<D>       added = the addresses named by the letters of A (a, x : two addresses nobody listens on),
\*                            dropped = those of D: the same address several times in one list / in both lists
PexFields == {"added", "addedf", "dropped", "added6", "dropped6"}
PexMaxLen == 100
PexLen(f, n) == "ext.pex.len." \o f \o "." \o ToString(n)
PexLenRecs == {[cls |-> PexLen(f, n), f |-> f, n |-> n] : f \in PexFields, n \in 0 .. PexMaxLen}
PexLenK  == {r.cls : r \in PexLenRecs}
PexLenOf == [c \in PexLenK |-> CHOOSE r \in PexLenRecs : r.cls = c]
RepL1 == {"a", "x"}
RepL2 == {s \o t : s \in RepL1, t \in RepL1}
RepAdded   == RepL1 \cup RepL2 \cup {s \o t : s \in RepL2, t \in RepL1} \cup {s \o t : s \in RepL2, t \in RepL2}
RepDropped == {"", "a", "xa"}
PexRepK  == {"ext.pex.rep." \o a \o "." \o d : a \in RepAdded, d \in RepDropped}
PexFam   == PexLenK \cup PexRepK

Classes == Core \cup PexFam

\* a ut_pex message of a length family is well formed iff its lists are whole entries
PexLenOk(c) == LET r == PexLenOf[c] IN
               CASE r.f \in {"added", "dropped"} -> r.n % 6 = 0
                 [] r.f = "addedf" -> r.n = 2            \* one flag byte per entry of `added` (two entries)
                 [] OTHER -> r.n % 18 = 0

\* messages saved in Peer.Messages while the info / the bitfield is not there yet
Queueable == HaveK \cup BitK \cup {"haveall"} \cup FastK
\* handlers that need pieces and close the peer without them
NeedInfo  == ReqK \cup CancelK \cup RejectK \cup PieceK
\* queued messages whose replay calls startPieceDownloaderFor
Starter   == {"have.in0", "have.last", "bitfield.ok", "bitfield.full", "bitfield.spare", "haveall"}

-----------------------------------------------------------------------------
(* (a) reader                                                               *)

\* verdict of the reader on one frame of class c while its framing is intact:
\*   deliver  the decoded message goes to the loop
\*   skip     consumed, nothing delivered (keep-alive, unknown id)
\*   drop     the reader ends with an error, the connection is closed
\*   either   broken body: drop, or deliver whatever was decoded
\*   desync   a fixed-size body is read regardless of the declared length / the frame is
\*            incomplete: from here on the peer's bytes are framed differently from what
\*            the peer meant; nothing is known about later frames of THIS peer
RV(c) == CASE c \in Skip -> "skip"
           [] c \in Oversize -> "drop"
           [] c \in Garbage -> "either"
           [] c \in Stall \cup WrongLen -> "desync"
           [] c \notin Classes -> "desync"            \* byte-level mutations of an encoding
           [] OTHER -> "deliver"

\* @obligation C08.alloc  bytes the reader may allocate for ONE frame of class c
AllocOf(c) == CASE c \in Oversize -> 0                   \* rejected before any buffer is sized from the prefix
                [] c = "bitfield.atmax" -> cfg.maxmsg
                [] c \in BitK -> (cfg.n + 7) \div 8 + 1
                [] c \in PieceK \cup {"piece.big"} -> Block    \* one pooled block buffer, never the declared length
                [] OTHER -> 512                           \* fixed-size bodies, small bencoded dictionaries
AllocBound == cfg.maxmsg + Slack

Wild == -9     \* wildcard in expected deliveries
M(k, a, b, c, dl) == [kind |-> k, a |-> a, b |-> b, c |-> c, dl |-> dl]
BfLen == (cfg.n + 7) \div 8
PL == 2 * Block

\* what a well-formed frame of class c must be delivered as (sequence: some classes are several frames)
Exp(c) ==
    CASE c \in Plain \ {"port"} -> << M(c, 0, 0, 0, 0) >>
      [] c = "haveall" -> << M("haveall", 0, 0, 0, 0) >>
      [] c = "port" -> << M("port", 6881, 0, 0, 0) >>
      [] c = "have.in0" -> << M("have", 0, 0, 0, 0) >>
      [] c = "have.last" -> << M("have", cfg.n - 1, 0, 0, 0) >>
      [] c = "have.oob" -> << M("have", cfg.n, 0, 0, 0) >>
      [] c = "have.max" -> << M("have", U32, 0, 0, 0) >>
      [] c = "allowedfast.in0" -> << M("allowedfast", 0, 0, 0, 0) >>
      [] c = "allowedfast.all" -> [i \in 1 .. cfg.n |-> M("allowedfast", i - 1, 0, 0, 0)]
      [] c = "allowedfast.oob" -> << M("allowedfast", cfg.n, 0, 0, 0) >>
      [] c = "allowedfast.max" -> << M("allowedfast", U32, 0, 0, 0) >>
      [] c \in {"bitfield.ok", "bitfield.full", "bitfield.spare"} -> << M("bitfield", 0, 0, 0, BfLen) >>
      [] c = "bitfield.empty" -> << M("bitfield", 0, 0, 0, 0) >>
      [] c = "bitfield.short" -> << M("bitfield", 0, 0, 0, BfLen - 1) >>
      [] c = "bitfield.long" -> << M("bitfield", 0, 0, 0, BfLen + 1) >>
      [] c = "bitfield.atmax" -> << M("bitfield", 0, 0, 0, cfg.maxmsg) >>
      [] c = "request.ok" -> << M("request", 0, 0, Block, 0) >>
      [] c = "request.len0" -> << M("request", 0, 0, 0, 0) >>
      [] c = "request.tail" -> << M("request", 0, PL - 1, Block, 0) >>
      [] c = "request.ovf" -> << M("request", 0, U32, Block, 0) >>
      [] c = "request.oob" -> << M("request", cfg.n, 0, Block, 0) >>
      [] c = "request.max" -> << M("request", U32, 0, Block, 0) >>
      [] c = "request.lastoob" -> << M("request", cfg.n - 1, Block, Block, 0) >>
      [] c = "cancel.ok" -> << M("cancel", 0, 0, Block, 0) >>
      [] c = "cancel.oob" -> << M("cancel", cfg.n, 0, Block, 0) >>
      [] c = "reject.oob" -> << M("reject", cfg.n, 0, Block, 0) >>
      [] c = "reject.all" -> [i \in 1 .. cfg.n |-> M("reject", i - 1, 0, Block, 0)]
      [] c = "reject.allbad" -> [i \in 1 .. cfg.n |-> M("reject", i - 1, 3, 7, 0)]
      [] c = "piece.unreq" -> << M("piece", 0, 0, 0, Block) >>
      [] c = "piece.oob" -> << M("piece", cfg.n, 0, 0, Block) >>
      [] c = "piece.max" -> << M("piece", U32, 0, 0, 64) >>
      [] c = "piece.begin4g" -> << M("piece", 0, U32, 0, Block) >>
      [] c = "piece.empty" -> << M("piece", 0, 0, 0, 0) >>
      [] c = "piece.allbad" -> [i \in 1 .. cfg.n |-> M("piece", i - 1, 5, 0, 10)]
      [] c = "piece.alljunk" -> [i \in 1 .. cfg.n |-> M("piece", i - 1, 0, 0, Block)]
      [] c \in HsK -> << M("ext.hs", Wild, Wild, Wild, Wild) >>
      [] c \in MetaReqK \cup MetaDatK -> << M("ext.meta", Wild, Wild, Wild, Wild) >>
      [] c \in PexK \cup PexRepK -> << M("ext.pex", Wild, Wild, Wild, Wild) >>
         \* the reader delivers the two strings it knows with exactly the lengths sent (a = |added|, b = |dropped|)
      [] c \in PexLenK -> LET r == PexLenOf[c] IN
                          << M("ext.pex", CASE r.f = "added" -> r.n [] r.f = "addedf" -> 12 [] OTHER -> 0,
                                          IF r.f = "dropped" THEN r.n ELSE 0, Wild, Wild) >>
      [] OTHER -> << >>

Match(e, g) == /\ e.kind = g.kind
               /\ e.a \in {Wild, g.a} /\ e.b \in {Wild, g.b} /\ e.c \in {Wild, g.c} /\ e.dl \in {Wild, g.dl}

-----------------------------------------------------------------------------
(* (b) torrent loop                                                         *)

\* well-formed, in range and legal in state t: the property demands that such a message is HANDLED
Benign(t, c) ==
    \/ c \in {"keepalive"} \cup Plain \cup {"haveall", "have.in0", "have.last", "bitfield.ok", "bitfield.full",
                                  "bitfield.empty", "allowedfast.in0", "allowedfast.all", "ext.hs.ok", "ext.hs.nometa",
                                  "ext.meta.req0", "ext.pex.ok"}
    \/ c \in PexRepK                                  \* well-formed lists; naming an address twice is legal
    \/ (c \in PexLenK /\ PexLenOk(c))
    \/ (Live(t) /\ c \in {"request.ok", "cancel.ok"})

\* result set of the handler for a DELIVERED message when pieces and bitfield exist (torrent_messagehandler.go)
LiveRes(c) ==
    CASE c \in {"have.oob", "have.max", "bitfield.short", "bitfield.long", "bitfield.atmax", "allowedfast.oob", "allowedfast.max",
                "request.len0", "request.tail", "request.ovf", "request.oob", "request.max", "request.lastoob",
                "reject.oob", "piece.oob", "piece.max"} -> {"dropped"}
         \* depend on whether a piece download from this peer is running / on the hash check afterwards
      [] c \in {"reject.allbad", "piece.allbad", "piece.begin4g", "piece.empty", "piece.unreq", "piece.alljunk"}
            -> {"handled", "dropped"}
      [] OTHER -> {"handled"}

\* result set in state t for a peer whose framing is intact
Res(t, c) ==
    CASE RV(c) = "skip" -> {"skipped"}
      [] RV(c) = "drop" -> {"dropped"}
      [] RV(c) \in {"either", "desync"} -> {"handled", "dropped"}
      [] c \in PexLenK /\ ~PexLenOk(c) -> {"handled", "dropped"}     \* malformed list: ignore the message or drop the peer
      [] NoInfo(t) /\ c \in Queueable -> {"queued"}
      [] NoInfo(t) /\ c \in NeedInfo -> {"dropped"}
      [] t = "meta" /\ c \in MetaDatK -> {"handled", "dropped"}     \* depends on a running info download
      [] NoInfo(t) -> {"handled"}
      [] OTHER -> LiveRes(c)

\* has   the peer has announced a piece (a Starter message was handled or queued)
\* dl    a piece download from this peer is running (torrent.pieceDownloaders)
\* tm    request-timeout ("snub") timer of the peer:  off | armed | fired
\*       fired = peer.Run has taken the timer event and is about to hand it to the loop (peerSnubbedC);
\*       Stop/Reset of the timer by the loop cannot take that event back
\* snub  the loop has marked the running download as snubbed (picker: piece.Snubbed)
\* af    the peer has granted allowed-fast pieces (an AfGrant message was handled or queued)
\* dlaf  the running download is an allowed-fast download (piecedownloader.AllowedFast): it was picked from the
\*       granted pieces (the picker tries them first), its requests stay valid while the peer chokes us
\* pchk  the picker's Choked mark of this peer on the piece being downloaded (piecepicker HandleChoke / HandleUnchoke)
NewPeer == [st |-> "open", q |-> << >>, clean |-> TRUE, sync |-> TRUE, chk |-> TRUE, intr |-> FALSE,
            has |-> FALSE, dl |-> FALSE, tm |-> "off", snub |-> FALSE, af |-> FALSE, dlaf |-> FALSE, pchk |-> FALSE]
Gone    == [NewPeer EXCEPT !.st = "closed"]

InitWith(c, st) ==
    /\ cfg = c /\ ts = st /\ loop = "ok" /\ zomb = 0
    /\ peer = [p \in 1 .. c.npe |-> NewPeer]
    /\ last = [kind |-> "init", pe |-> 0, cls |-> "", res |-> "none", alloc |-> 0, benign |-> FALSE]

ResetWith(c, st) ==
    /\ cfg' = c /\ ts' = st /\ loop' = "ok" /\ zomb' = 0
    /\ peer' = [p \in 1 .. c.npe |-> NewPeer]
    /\ last' = [kind |-> "init", pe |-> 0, cls |-> "", res |-> "none", alloc |-> 0, benign |-> FALSE]

Step(k, p, c, r, a, b) == last' = [kind |-> k, pe |-> p, cls |-> c, res |-> r, alloc |-> a, benign |-> b]

\* peer record after a message of class c with result r in state t
\* Download and timer part (torrent_messagehandler.go Choke / Unchoke / Have / Bitfield, torrent_start.go):
\*  - a download starts (worst case: whenever it can) in Downloading from an unchoked peer that has a piece; the timer is armed
\*  - Choke with a running download: the download is parked, the timer is STOPPED (an event that peer.Run has already
\*    taken stays on its way), the snubbed mark is cleared (picker.HandleChoke)
\*  - Unchoke with a parked download: requests are sent again, the timer is armed
\*  - allowed-fast (round 3): a peer that has granted allowed-fast pieces can be downloaded from while it chokes us; the
\*    download is an allowed-fast download (dlaf).  Choke does NOT park it (no timer stop, no picker mark), Unchoke only
\*    re-sends its requests.  cfg.afpark = TRUE is the variant whose Choke handler treats it like any other download
\*    (timer stopped, picker Choked mark set) while Unchoke keeps its special case: the mark is never cleared
\*    (MC_PeerInput_afpark exports the counterexample as a directed history for the driver).
\*  - a block of the running download re-arms the timer while more blocks are outstanding
Arm(tm)   == IF tm = "fired" THEN "fired" ELSE "armed"
Disarm(tm) == IF tm = "fired" THEN "fired" ELSE "off"
DlPart(pr, t, c) ==
    LET has2 == pr.has \/ c \in Starter
        af2  == pr.af \/ c \in AfGrant
        chk2 == IF c = "unchoke" THEN FALSE ELSE IF c = "choke" THEN TRUE ELSE pr.chk
        keep == [has |-> has2, af |-> af2, dl |-> pr.dl, dlaf |-> pr.dlaf, tm |-> pr.tm, snub |-> pr.snub, pchk |-> pr.pchk]
    IN IF t # "down" THEN keep
       ELSE IF pr.dl /\ c = "choke"
            THEN IF pr.dlaf /\ ~cfg.afpark
                 THEN keep         \* allowed-fast download: nothing is parked, the timer keeps guarding its requests
                 ELSE [keep EXCEPT !.tm = Disarm(pr.tm), !.snub = FALSE, !.pchk = TRUE]
       ELSE IF pr.dl /\ c = "unchoke"
            THEN IF pr.dlaf THEN keep      \* blocks are requested again; neither the timer nor the picker is touched
                 ELSE IF pr.chk THEN [keep EXCEPT !.tm = Arm(pr.tm), !.pchk = FALSE]
                 ELSE keep
       \* a block of the running download arrives and more blocks are outstanding: requested on, the timer is armed again
       ELSE IF pr.dl /\ c \in BlockK /\ (pr.dlaf \/ ~pr.chk) THEN [keep EXCEPT !.tm = Arm(pr.tm)]
       \* a download starts (worst case: whenever it can; an allowed-fast grant makes it an allowed-fast download)
       ELSE IF ~pr.dl /\ has2 /\ (~chk2 \/ af2)
            THEN [keep EXCEPT !.dl = TRUE, !.dlaf = af2, !.tm = Arm(pr.tm), !.snub = FALSE, !.pchk = FALSE]
       ELSE keep

After(pr, t, c, r) ==
    IF r = "dropped" THEN [pr EXCEPT !.st = "closed", !.q = << >>, !.clean = FALSE,
                                     !.has = FALSE, !.dl = FALSE, !.tm = "off", !.snub = FALSE,
                                     !.af = FALSE, !.dlaf = FALSE, !.pchk = FALSE]
    ELSE LET d == DlPart(pr, t, c) IN
         [pr EXCEPT !.q = IF r = "queued" THEN Append(@, c) ELSE @,
                    !.clean = @ /\ Benign(t, c),
                    !.sync = @ /\ RV(c) # "desync",
                    !.chk = IF c = "unchoke" THEN FALSE ELSE IF c = "choke" THEN TRUE ELSE @,
                    !.intr = IF c = "interested" THEN TRUE ELSE IF c = "notinterested" THEN FALSE ELSE @,
                    !.has = d.has, !.dl = d.dl, !.tm = d.tm, !.snub = d.snub,
                    !.af = d.af, !.dlaf = d.dlaf, !.pchk = d.pchk]

\* One message (class c) of peer p reaches the client.
\* @obligation C08.dropOrHandle  the result is handled / queued / skipped / dropped - nothing else;
\*                               a benign message never drops the peer
\* @obligation C08.isolation     only peer p's record changes
Recv(p, c) ==
    /\ loop = "ok"
    /\ UNCHANGED <<cfg, ts, loop, zomb>>
    /\ LET pr == peer[p] IN
       IF pr.st # "open" \/ ts \in {"stopping", "stopped"}
       THEN /\ UNCHANGED peer                       \* the connection is gone: the bytes go nowhere
            /\ Step("recv", p, c, "none", 0, FALSE)
       ELSE IF ~pr.sync
       THEN \E r \in {"handled", "dropped"} :       \* framing was lost earlier: anything, but only for this peer
               /\ peer' = [peer EXCEPT ![p] = IF r = "dropped" THEN Gone ELSE [pr EXCEPT !.clean = FALSE]]
               /\ Step("recv", p, c, r, 512, FALSE)
       ELSE \E r \in Res(ts, c) :
               /\ peer' = [peer EXCEPT ![p] = After(pr, ts, c, r)]
               /\ Step("recv", p, c, r, AllocOf(c), pr.clean /\ Benign(ts, c))

\* Replay of the queue of one peer when pieces and bitfield are ready (torrent_peer.go processQueuedMessages).
\* Returns [closed, late]: late = number of queued Starter messages handled AFTER the peer was closed.
RECURSIVE Rep(_, _, _)
Rep(q, t, acc) ==
    IF q = << >> THEN acc
    ELSE LET c == Head(q) IN
         IF acc.closed
         THEN IF cfg.asis
              THEN Rep(Tail(q), t, [acc EXCEPT !.late = @ + (IF c \in Starter /\ t = "down" THEN 1 ELSE 0)])
              ELSE acc                               \* design: a closed peer is not replayed any further
         ELSE Rep(Tail(q), t, [acc EXCEPT !.closed = (LiveRes(c) = {"dropped"})])

RepOf(p, t) == Rep(peer[p].q, t, [closed |-> FALSE, late |-> 0])

RECURSIVE SumLate(_, _)
SumLate(S, t) == IF S = {} THEN 0 ELSE LET p == CHOOSE x \in S : TRUE IN RepOf(p, t).late + SumLate(S \ {p}, t)

\* handleAllocationDone / handleVerificationDone reach Downloading or Seeding: queued messages are replayed.
\* Every late Starter is a ResourceManager.Request with an already closed cancel channel: the manager may
\* take the cancel branch and never answer (loop blocked for ever) or grant a piece to the dead peer.
Ready(t2) ==
    /\ loop = "ok" /\ ts \in {"alloc", "verify"} /\ t2 \in {"down", "seed"}
    /\ ts' = t2
    /\ LET open == {p \in Peers : peer[p].st = "open"}
           late == SumLate(open, t2)
       IN /\ peer' = [p \in Peers |->
                        IF p \in open
                        THEN IF RepOf(p, t2).closed THEN Gone
                             ELSE LET go == t2 = "down" /\ peer[p].has /\ (~peer[p].chk \/ peer[p].af)   \* the replay starts a download
                                  IN [peer[p] EXCEPT !.q = << >>, !.dl = go, !.dlaf = go /\ peer[p].af,
                                                     !.tm = IF go THEN Arm(@) ELSE @]
                        ELSE peer[p]]
          /\ IF late = 0 THEN UNCHANGED <<loop, zomb>>
             ELSE \/ loop' = "blocked" /\ UNCHANGED zomb
                  \/ loop' = "ok" /\ zomb' \in {zomb, zomb + 1}
    /\ UNCHANGED cfg
    /\ Step("ready", 0, t2, "none", 0, FALSE)

\* metadata complete -> allocation; allocation finds existing files -> verification
Progress ==
    /\ loop = "ok"
    /\ \/ ts = "meta" /\ ts' = "alloc"
       \/ ts = "alloc" /\ ts' = "verify"
    /\ UNCHANGED <<cfg, loop, zomb, peer>>
    /\ Step("progress", 0, ts', "none", 0, FALSE)

\* checkCompletion: the download is complete, peers that are not interested are closed (by design)
Complete ==
    /\ loop = "ok" /\ ts = "down" /\ ts' = "seed"
    /\ peer' = [p \in Peers |-> IF peer[p].st = "open" /\ ~peer[p].intr THEN Gone
                              ELSE [peer[p] EXCEPT !.dl = FALSE, !.dlaf = FALSE, !.pchk = FALSE, !.tm = Disarm(@), !.snub = FALSE]]
    /\ UNCHANGED <<cfg, loop, zomb>>
    /\ Step("complete", 0, "", "none", 0, FALSE)

\* Torrent.Stop: every peer is closed, queues are dropped with them; the torrent waits for its trackers
Stop ==
    /\ loop = "ok" /\ ts \notin {"stopping", "stopped"} /\ ts' = "stopping"
    /\ peer' = [p \in Peers |-> IF peer[p].st = "open" THEN Gone ELSE peer[p]]
    /\ UNCHANGED <<cfg, loop, zomb>>
    /\ Step("stop", 0, "", "none", 0, FALSE)

Stopped ==
    /\ loop = "ok" /\ ts = "stopping" /\ ts' = "stopped"
    /\ UNCHANGED <<cfg, loop, zomb, peer>>
    /\ Step("stopped", 0, "", "none", 0, FALSE)

Start(t2) ==
    /\ loop = "ok" /\ ts = "stopped" /\ t2 \in {"down", "seed"} /\ ts' = t2
    /\ UNCHANGED <<cfg, loop, zomb, peer>>
    /\ Step("start", 0, t2, "none", 0, FALSE)

\* a (new) connection of peer p is accepted
Connect(p) ==
    /\ loop = "ok" /\ ts \notin {"stopping", "stopped"} /\ peer[p].st = "closed"
    /\ peer' = [peer EXCEPT ![p] = NewPeer]
    /\ UNCHANGED <<cfg, ts, loop, zomb>>
    /\ Step("connect", p, "", "none", 0, FALSE)

\* the remote side goes away
Disconnect(p) ==
    /\ loop = "ok" /\ peer[p].st = "open"
    /\ peer' = [peer EXCEPT ![p] = Gone]
    /\ UNCHANGED <<cfg, ts, loop, zomb>>
    /\ Step("disconnect", p, "", "none", 0, FALSE)

\* Environment: RequestTimeout has passed without a block from peer p; peer.Run takes the timer event.
TimerFire(p) ==
    /\ peer[p].st = "open" /\ peer[p].tm = "armed"
    /\ peer' = [peer EXCEPT ![p].tm = "fired"]
    /\ UNCHANGED <<cfg, ts, loop, zomb>>
    /\ Step("fire", p, "", "none", 0, FALSE)

\* The loop takes the timer event of peer p (torrent_peer.go handlePeerSnubbed).  Messages of p that peer.Run
\* delivered before it took the event may have been handled in between: the event can be STALE.
\* @obligation C08.crash  a stale timer event (download parked by a choke, or gone) is ignored   [cfg.guard]
\* cfg.guard = FALSE is the variant without that rule; MC_PeerInput_race exports its counterexample as a
\* directed history for the driver.
SnubDeliver(p) ==
    /\ loop = "ok" /\ peer[p].st = "open" /\ peer[p].tm = "fired"
    /\ LET pr == peer[p]
           mark == pr.dl /\ (~cfg.guard \/ ~pr.chk)
       IN peer' = [peer EXCEPT ![p] = [pr EXCEPT !.tm = "off", !.snub = @ \/ mark]]
    /\ UNCHANGED <<cfg, ts, loop, zomb>>
    /\ Step("snub", p, "", "none", 0, FALSE)

-----------------------------------------------------------------------------
(* Design invariants                                                        *)

\* @obligation C08.hang   the torrent loop is never blocked by peer input
InvLoop == loop = "ok"
\* no resource is left with a peer that is gone
InvZombie == zomb = 0
\* @obligation C08.dropOrHandle
InvResult == last.res \in {"handled", "queued", "skipped", "dropped", "none"}
InvBenign == (last.kind = "recv" /\ last.benign) => last.res # "dropped"
\* @obligation C08.alloc
InvAlloc == last.alloc <= AllocBound
\* a closed peer has no queue left
InvQueue == \A p \in Peers : peer[p].st = "closed" => peer[p].q = << >>
\* @obligation C08.crash  the picker's consistency rule ("peer snubbed while choked" panics the client): a download is
\* never marked snubbed while it is parked by a choke (the picker's Choked mark is set), and only a running download
\* is marked; an allowed-fast download is never parked, so it may be marked (and stay marked) while the peer chokes us
InvSnub == \A p \in Peers : peer[p].snub => /\ peer[p].st = "open" /\ peer[p].dl /\ ~peer[p].pchk
                                             /\ (peer[p].dlaf \/ ~peer[p].chk)
\* the picker's Choked mark exists only for a parked (not allowed-fast) download of a peer that chokes us
InvPark == \A p \in Peers : peer[p].pchk => (peer[p].dl /\ peer[p].chk /\ ~peer[p].dlaf)
Inv == InvLoop /\ InvZombie /\ InvResult /\ InvBenign /\ InvAlloc /\ InvQueue /\ InvSnub /\ InvPark

\* @obligation C08.isolation  a message of peer p changes nothing but p's own record
Isolation == [][last'.kind = "recv" =>
                  /\ \A q \in Peers : q # last'.pe => peer'[q] = peer[q]
                  /\ ts' = ts /\ loop' = loop /\ zomb' = zomb]_vars
=============================================================================
