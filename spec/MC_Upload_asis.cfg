SPECIFICATION MCSpec
CONSTANTS
  NP = 1
  PLEN <- PLEN_4
  MAXBLK = 3
  MAXQ = 1
  CB = 2
  NCONN = 1
  IMPL = "single"
  HAVE0 = {0}
  REQS <- REQS_B
  CANS <- NONE
  AFP = {}
  NSEND = 2
  NFLIP = 0
  NOPEN = 1
  AFSEND = "all"
  GROW = FALSE
INVARIANT NoBad
INVARIANT QueueBound
INVARIANT QueuedValid
INVARIANT ChokedQueue
INVARIANT CacheTruth
INVARIANT ViewSound
CHECK_DEADLOCK FALSE
