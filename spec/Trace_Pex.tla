------------------------------ MODULE Trace_Pex ------------------------------
(***************************************************************************)
(* Trace specification: judges ndjson histories recorded from the REAL     *)
(* PEX sender (harness/x02: peer.Peer.StartPEX / PEX.Add / PEX.Drop with   *)
(* the real pex goroutine, pexlist and peerconn writer under a fake clock; *)
(* the messages are decoded from the bytes written to the peer's socket)   *)
(* against Pex.tla.  One trace = what one remote peer was sent:            *)
(*   Init, Start(initial, recent), then Add / Drop (as the torrent loop    *)
(*   delivers them), Msg (t, added, dropped: a captured ut_pex message),   *)
(*   At (t: checkpoint, everything that could happen by t has happened),   *)
(*   Close.  RsAdd lines carry pexlist.RecentlySeen.Add with the list      *)
(*   after the call.  Times are whole seconds of the fake clock.           *)
(* A failed obligation does not block: "@@VIOL tag line" is printed.       *)
(***************************************************************************)
EXTENDS Pex, Json

VARIABLES l, lastMsg, sinceA, sinceD, rs
tvars == <<vars, l, lastMsg, sinceA, sinceD, rs>>

Trace == ndJsonDeserialize("trace.ndjson")
Ev == Trace[l]
CfgOf(e) == [self |-> e.self, L |-> e.L, R |-> e.R]
Gap == 60

TraceInit ==
    /\ l = 2 /\ Trace[1].op = "Init" /\ InitWith(CfgOf(Trace[1]))
    /\ lastMsg = -1 /\ sinceA = 0 /\ sinceD = 0 /\ rs = {}
    /\ TLCSet(1, 1)

Note(S) == \A t \in S : PrintT("@@VIOL " \o t \o " " \o ToString(l))

\* X02.g.late, evaluated on the state before an event that happens at time t
LateA(t) == on /\ pendA # {} /\ t - sinceA > Gap
LateD(t) == on /\ mustD # {} /\ t - sinceD > Gap
LateViols(t) == Tag(LateA(t), "X02.g.late.added") \cup Tag(LateD(t), "X02.g.late.dropped")
\* clocks after the event: a kind that has (still) something pending waits since the later of
\* "became non-empty" and "last message"; a reported lateness is not reported again for the next 60 s
Since(old, wasEmpty, late, t) == IF wasEmpty \/ late THEN t ELSE old
Clocks(t, msg) ==
    /\ sinceA' = IF msg THEN t ELSE Since(sinceA, pendA = {}, LateA(t), t)
    /\ sinceD' = IF msg THEN t ELSE Since(sinceD, mustD = {}, LateD(t), t)
Step == l' = l + 1

TrReset ==
    /\ Ev.op = "Init" /\ ResetWith(CfgOf(Ev)) /\ Step
    /\ lastMsg' = -1 /\ sinceA' = 0 /\ sinceD' = 0 /\ rs' = {}

TrStart ==
    /\ Ev.op = "Start" /\ Start(SetOf(Ev.initial), SetOf(Ev.recent))
    /\ lastMsg' = -1 /\ sinceA' = Ev.t /\ sinceD' = Ev.t /\ UNCHANGED rs /\ Step

TrAdd  == Ev.op = "Add" /\ Add(Ev.a) /\ Note(LateViols(Ev.t)) /\ Clocks(Ev.t, FALSE) /\ UNCHANGED <<lastMsg, rs>> /\ Step
TrDrop == Ev.op = "Drop" /\ Drop(Ev.a) /\ Note(LateViols(Ev.t)) /\ Clocks(Ev.t, FALSE) /\ UNCHANGED <<lastMsg, rs>> /\ Step
TrAt   == Ev.op = "At" /\ Note(LateViols(Ev.t)) /\ Clocks(Ev.t, FALSE) /\ UNCHANGED <<vars, lastMsg, rs>> /\ Step
TrClose == Ev.op = "Close" /\ Close /\ UNCHANGED <<lastMsg, sinceA, sinceD, rs>> /\ Step

TrMsg ==
    /\ Ev.op = "Msg"
    /\ Note(MsgViols(Ev.added, Ev.dropped) \cup LateViols(Ev.t)
            \cup Tag(lastMsg >= 0 /\ Ev.t - lastMsg < Gap, "X02.f"))
    /\ MsgUpdate(Ev.added, Ev.dropped)
    /\ lastMsg' = Ev.t /\ Clocks(Ev.t, TRUE) /\ UNCHANGED rs /\ Step

TrRsAdd ==
    /\ Ev.op = "RsAdd"
    /\ Note(RsViols(rs, Ev.a, Ev.list))
    /\ rs' = SetOf(Ev.list)
    /\ UNCHANGED <<vars, lastMsg, sinceA, sinceD>> /\ Step

TrPanic == Ev.op = "Panic" /\ Note({"X02.panic"}) /\ UNCHANGED <<vars, lastMsg, sinceA, sinceD, rs>> /\ Step

TraceNext ==
    /\ l <= Len(Trace)
    /\ \/ TrReset \/ TrStart \/ TrAdd \/ TrDrop \/ TrAt \/ TrClose \/ TrMsg \/ TrRsAdd \/ TrPanic

TraceSpec == TraceInit /\ [][TraceNext]_tvars

HighWater == TLCSet(1, IF l > TLCGet(1) THEN l ELSE TLCGet(1))
TraceAccepted ==
    LET hw == TLCGet(1) IN
    IF hw = Len(Trace) + 1 THEN TRUE
    ELSE /\ PrintT("@@REJECT " \o ToString(hw - 1) \o " " \o ToString(Len(Trace)))
         /\ FALSE
=============================================================================
