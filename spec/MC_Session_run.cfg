\* intended design with RUNNING torrents (an add may start its torrent; a running torrent writes its bitfield by id when a
\* remove closes it): all invariants, incl. RecordIsOwn, for every interleaving of 2 callers over 2 ids
SPECIFICATION MCSpec
CONSTANTS
  IDS = {"a", "b"}
  RANGE = {1, 2, 3}
  K = 2
  ATOMIC = TRUE
  FULL = FALSE
  SPARSE = FALSE
  STORAGE = TRUE
  RUNNING <- On
INVARIANT Inv
CHECK_DEADLOCK FALSE
