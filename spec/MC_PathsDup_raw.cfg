SPECIFICATION MCSpec
CONSTANTS
  THREE = FALSE
INVARIANT NoRawHole
CHECK_DEADLOCK FALSE
