---------------------------- MODULE MC_PieceDlAlg ----------------------------
(***************************************************************************)
(* The algorithm of internal/piecedownloader/piecedownloader.go            *)
(* (PieceDl!Alg...: remaining list, pending set, done set) run against the *)
(* envelope in the discipline of the torrent loop: what every call sends / *)
(* returns is judged by RequestViols / BlockViols / RejectViols /          *)
(* CancelViols on the wire view (out, have); `av` holds the tags violated  *)
(* by the last step (Conforms: within IGNORE; a history is followed up to   *)
(* its first violation: CONSTRAINT Alive); every order in which Choked() may walk *)
(* the pending map is explored.                                            *)
(*   VARIANT = "asis"   environment "late blocks after a choke of a peer   *)
(*             without fast extension" (UNREQ) : EXPECTED TO FAIL          *)
(*             X04.g.fill / X04.g.stuck / X04.c.cancel (a stored block     *)
(*             that is still in `remaining` is put into `pending` without  *)
(*             a request and occupies a queue slot for ever), AlgNoStuck   *)
(*             and Completes fail with it;                                 *)
(*             environment "reject of a request that is not outstanding"   *)
(*             (REJ = "any"): EXPECTED TO FAIL X04.c / X04.a (the block    *)
(*             is queued twice and requested twice);                       *)
(*             environment "every request is answered once, by its block   *)
(*             or by a reject" (UNREQ = FALSE, REJ = "out"/"choked"):      *)
(*             passes.                                                     *)
(*   VARIANT = "fixed"  passes in every environment, incl. liveness.       *)
(***************************************************************************)
EXTENDS PieceDl
CONSTANTS SECS, BS, QLENS, FAST, AF, REJ, UNREQ, ENDS, VARIANT, IGNORE
VARIABLES due, ql,
          rem, pend, dn,     \* state of the code
          av,                \* tags violated by the last step
          ev                 \* the last step, for the generator (not part of the VIEW)
avars == <<vars, due, ql, rem, pend, dn, av, ev>>

Secs_plain4 == << [len |-> 7, pad |-> FALSE] >>
Secs_plain3 == << [len |-> 5, pad |-> FALSE] >>
Secs_pad    == << [len |-> 3, pad |-> FALSE], [len |-> 1, pad |-> TRUE], [len |-> 3, pad |-> FALSE] >>
Secs_plain5 == << [len |-> 10, pad |-> FALSE] >>

RECURSIVE SortedSeq(_)
SortedSeq(S) == IF S = {} THEN <<>> ELSE LET x == CHOOSE x \in S : \A y \in S : x <= y IN <<x>> \o SortedSeq(S \ {x})

E(op, x) == [op |-> op, x |-> x]

AInitWith(c, ck, q) ==
    /\ InitWith(c, ck)
    /\ due = TRUE /\ ql = q
    /\ rem = [k \in 1 .. Len(MkCfg(c).bt) |-> k] /\ pend = {} /\ dn = {} /\ av = {} /\ ev = E("Init", 0)

AInit == \E ck \in (IF AF THEN BOOLEAN ELSE {FALSE}), q \in QLENS :
            AInitWith([idx |-> 1, bs |-> BS, secs |-> SECS, fast |-> FAST, af |-> AF], ck, q)

AlgDone(d) == Cardinality(d) = NB

AReq ==
    /\ due /\ open
    /\ LET r == AlgReq(VARIANT, rem, pend, dn, ql, <<>>)
           reqs == MsgsOf(r.reqs)
       IN /\ av' = RequestViols(ql, reqs)
          /\ RequestUpdate(reqs)
          /\ rem' = r.rem /\ pend' = r.pend
    /\ due' = FALSE /\ ev' = E("Request", 0) /\ UNCHANGED <<ql, dn>>

ADeliver(x) ==
    /\ ~due /\ open
    /\ LET g == AlgGotBlock(pend, dn, x)
           m == cfg.bt[x]
       IN /\ BlockUpdate(m.b, m.n, 1)
          /\ av' = (BlockViols(m.b, m.n, g.res) \cup Tag(AlgDone(g.dn) # AllStored(have'), "X04.e.done"))
          /\ open' = ~AlgDone(g.dn)            \* the loop closes the download when Done() says so
          /\ pend' = g.pend /\ dn' = g.dn
    /\ due' = (open' /\ (cfg.af \/ ~chokd))
    /\ ev' = E("Block", x) /\ UNCHANGED <<ql, rem>>
ADeliverOut == \E x \in Block : out[x] > 0 /\ ADeliver(x)
ADeliverOther == UNREQ /\ \E x \in Block : out[x] = 0 /\ ADeliver(x)

AReject ==
    /\ ~due /\ open /\ cfg.fast /\ REJ # "none"
    /\ \E x \in Block :
          /\ REJ = "any" \/ out[x] > 0
          /\ REJ # "choked" \/ chokd
          /\ LET r == AlgRejected(VARIANT, rem, pend, x) IN rem' = r.rem /\ pend' = r.pend
          /\ RejectUpdate(cfg.bt[x].b, cfg.bt[x].n)
          /\ ev' = E("Reject", x)
    /\ av' = {} /\ due' = FALSE /\ UNCHANGED <<ql, dn>>

AChoke ==
    /\ ~due /\ ~chokd /\ Choke
    /\ \E r \in AlgChokedResults(rem, pend) : rem' = r.rem /\ pend' = r.pend
    /\ av' = {} /\ due' = FALSE /\ ev' = E("Choke", 0) /\ UNCHANGED <<ql, dn>>

AUnchoke ==
    /\ ~due /\ chokd /\ Unchoke
    /\ av' = {} /\ due' = ~cfg.af /\ ev' = E("Unchoke", 0) /\ UNCHANGED <<ql, rem, pend, dn>>

ASnub == ~due /\ ~snub /\ Snub /\ av' = {} /\ ev' = E("Snub", 0) /\ UNCHANGED <<due, ql, rem, pend, dn>>

ACancel ==
    /\ ENDS /\ ~due /\ open
    /\ av' = CancelViols(MsgsOf(SortedSeq(pend)))
    /\ CloseUpdate
    /\ due' = FALSE /\ ev' = E("Cancel", 0) /\ UNCHANGED <<ql, rem, pend, dn>>
ADisconnect ==
    /\ ENDS /\ ~due /\ Disconnect
    /\ av' = {} /\ due' = FALSE /\ ev' = E("Disconnect", 0) /\ UNCHANGED <<ql, rem, pend, dn>>

ANext == AReq \/ ADeliverOut \/ ADeliverOther \/ AReject \/ AChoke \/ AUnchoke \/ ASnub \/ ACancel \/ ADisconnect
ASpec == AInit /\ [][ANext]_avars

Conforms == av \subseteq IGNORE
\* CONSTRAINT: a history is judged up to its first violation (as the trace judge does)
Alive == av = {}
\* the stuck state of X04.g in the words of the code: blocks missing, nothing outstanding, the peer would serve,
\* and RequestBlocks would request nothing
AlgNoStuck ==
    (open /\ ~due /\ Missing # {} /\ (~chokd \/ cfg.af) /\ ql > 0 /\ Total(out) = 0)
        => AlgReq(VARIANT, rem, pend, dn, ql, <<>>).reqs # <<>>
\* bookkeeping of the repaired code agrees with the wire
Coherent == VARIANT = "fixed" => (open => (dn = have /\ (REJ # "any" /\ ~UNREQ => pend = {x \in Block : out[x] > 0})))
AInv == TypeOK /\ Conforms /\ AlgNoStuck /\ Coherent /\ (Total(out) <= ql \/ "X04.a" \in IGNORE)
AInvKnown == TypeOK /\ Conforms
AInvConf == TypeOK /\ Conforms

AView == <<vars, due, ql, rem, pend, dn, av>>
RemBound == Len(rem) <= NB + 2

ALiveSpec == ASpec /\ WF_avars(AReq) /\ WF_avars(AUnchoke) /\ SF_avars(ADeliverOut)
Completes == <>(~open)
=============================================================================
