------------------------------- MODULE Picker -------------------------------
(***************************************************************************)
(* Shadow model of internal/piecepicker (+ webseed.go) together with the   *)
(* calling discipline of the torrent event loop (torrent_start.go,         *)
(* torrent_messagehandler.go, torrent_write.go, torrent_webseed.go,        *)
(* torrent_close.go).  One action per call the loop makes into the picker  *)
(* or per change of the piece flags the picker reads.                      *)
(*                                                                         *)
(* PickFor / PickWebseed are ENVELOPES: the result may be any value that   *)
(* satisfies the obligations of property C09 (and the "no idle eligible    *)
(* peer" clause of C10); which piece is chosen is left to the code.        *)
(* Every obligation is tagged  @obligation Cxx.y                           *)
(*                                                                         *)
(* Configuration is a variable (cfg) that never changes after Init so the  *)
(* same module serves the exhaustive configs (MC_Picker) and the trace     *)
(* specification (Trace_Picker), where every recorded trace brings its own *)
(* number of pieces / peers / sources.                                     *)
(***************************************************************************)
EXTENDS Integers, FiniteSets, Sequences, TLC

VARIABLES cfg,        \* [np, npeers, nsrc, limit, seq, edge]
          done,       \* [Piece -> BOOLEAN]  piece verified and written
          writing,    \* [Piece -> BOOLEAN]  piece handed to the piece writer
          having,     \* [Piece -> SUBSET Peer]
          requested,  \* [Piece -> SUBSET Peer]  peers with a running piece download
          ws,         \* [Piece -> Src \cup {0}]  web-seed owner of the piece (0 = none)
          conn,       \* [Peer -> BOOLEAN]
          choking,    \* [Peer -> BOOLEAN]   remote peer chokes us
          af,         \* [Peer -> SUBSET Piece]  allowed-fast pieces received from the peer
          dl,         \* [Peer -> Piece \cup {-1}]  piece the peer is downloading
          dlaf,       \* [Peer -> BOOLEAN]   that download was started as allowed-fast
          src,        \* [Src -> [active, b, e, cur]]
          wr          \* write in flight: [p, kind, who]  or  NoWrite

pvars == <<done, writing, having, requested, ws, conn, choking, af, dl, dlaf, src, wr>>
vars  == <<cfg, pvars>>

None    == -1
NoWrite == [p |-> -1, kind |-> "none", who |-> 0]
Idle    == [active |-> FALSE, b |-> 0, e |-> 0, cur |-> 0]

Piece == 0 .. (cfg.np - 1)
Peer  == 1 .. cfg.npeers
Src   == 1 .. cfg.nsrc

Min(S) == CHOOSE x \in S : \A y \in S : x <= y
Lim    == IF cfg.limit > 1 THEN cfg.limit ELSE 1

WsActive == \E s \in Src : src[s].active

\* pieces the peer could be asked for right now without duplicating anybody's work
Eligible(pe) == {p \in Piece : ~done[p] /\ ~writing[p] /\ requested[p] = {} /\ pe \in having[p]}
\* not being fetched (or already fetched and pending) by a web seed
Free(p) == ws[p] = 0 \/ p > src[ws[p]].cur

Available == Cardinality({p \in Piece : having[p] # {}})

I0(c) ==
    [ done |-> [p \in 0 .. (c.np - 1) |-> p \in c.have0],   \* pieces already on disk when the picker is created (resumed torrent)
      writing |-> [p \in 0 .. (c.np - 1) |-> FALSE],
      having |-> [p \in 0 .. (c.np - 1) |-> {}],
      requested |-> [p \in 0 .. (c.np - 1) |-> {}],
      ws |-> [p \in 0 .. (c.np - 1) |-> 0],
      conn |-> [pe \in 1 .. c.npeers |-> FALSE],
      choking |-> [pe \in 1 .. c.npeers |-> TRUE],
      af |-> [pe \in 1 .. c.npeers |-> {}],
      dl |-> [pe \in 1 .. c.npeers |-> None],
      dlaf |-> [pe \in 1 .. c.npeers |-> FALSE],
      src |-> [s \in 1 .. c.nsrc |-> Idle] ]

InitWith(c) ==
    LET i == I0(c) IN
    /\ cfg = c /\ done = i.done /\ writing = i.writing /\ having = i.having /\ requested = i.requested
    /\ ws = i.ws /\ conn = i.conn /\ choking = i.choking /\ af = i.af /\ dl = i.dl /\ dlaf = i.dlaf
    /\ src = i.src /\ wr = NoWrite

ResetWith(c) ==
    LET i == I0(c) IN
    /\ cfg' = c /\ done' = i.done /\ writing' = i.writing /\ having' = i.having /\ requested' = i.requested
    /\ ws' = i.ws /\ conn' = i.conn /\ choking' = i.choking /\ af' = i.af /\ dl' = i.dl /\ dlaf' = i.dlaf
    /\ src' = i.src /\ wr' = NoWrite

-----------------------------------------------------------------------------
(* helpers returning the new <<ws, src>> pair                               *)

\* piecepicker.CloseWebseedDownloader
CloseF(w, sr, s) ==
    << [q \in Piece |-> IF w[q] = s THEN 0 ELSE w[q]], [sr EXCEPT ![s] = Idle] >>

\* piecepicker.WebseedStopAt(src, i): truncate the range at i, close if nothing is left
StopAtF(s, i) ==
    LET w1 == [q \in Piece |-> IF q >= i /\ ws[q] = s THEN 0 ELSE ws[q]]
    IN  IF src[s].cur >= i
        THEN CloseF(w1, src, s)
        ELSE << w1, [src EXCEPT ![s].e = i] >>

\* remove a peer's running download (piecepicker.HandleCancelDownload + Peer.Downloading = false)
CancelF(req, pe) == [p \in Piece |-> req[p] \ {pe}]

-----------------------------------------------------------------------------
(* peer events                                                              *)

Connect(pe) ==
    /\ ~conn[pe]
    /\ conn' = [conn EXCEPT ![pe] = TRUE]
    /\ choking' = [choking EXCEPT ![pe] = TRUE]
    /\ af' = [af EXCEPT ![pe] = {}]
    /\ UNCHANGED <<cfg, done, writing, having, requested, ws, dl, dlaf, src, wr>>

Have(pe, p) ==                                  \* HandleHave (have / bitfield / have-all)
    /\ conn[pe] /\ p \in Piece
    /\ having' = [having EXCEPT ![p] = @ \cup {pe}]
    /\ UNCHANGED <<cfg, done, writing, requested, ws, conn, choking, af, dl, dlaf, src, wr>>

AllowedFast(pe, p) ==                           \* HandleAllowedFast
    /\ conn[pe] /\ p \in Piece
    /\ af' = [af EXCEPT ![pe] = @ \cup {p}]
    /\ UNCHANGED <<cfg, done, writing, having, requested, ws, conn, choking, dl, dlaf, src, wr>>

Choke(pe) ==                                    \* ChokeMessage (+ HandleChoke when a normal download runs)
    /\ conn[pe]
    /\ choking' = [choking EXCEPT ![pe] = TRUE]
    /\ UNCHANGED <<cfg, done, writing, having, requested, ws, conn, af, dl, dlaf, src, wr>>

Unchoke(pe) ==                                  \* UnchokeMessage (+ HandleUnchoke)
    /\ conn[pe]
    /\ choking' = [choking EXCEPT ![pe] = FALSE]
    /\ UNCHANGED <<cfg, done, writing, having, requested, ws, conn, af, dl, dlaf, src, wr>>

Snub(pe) ==                                     \* handlePeerSnubbed -> HandleSnubbed: bookkeeping only
    /\ conn[pe] /\ dl[pe] # None /\ ~choking[pe]
    /\ UNCHANGED vars

\* @obligation C09.a  never a piece that is done or being written
\* @obligation C09.b  only from a peer that has it and does not choke (unless allowed-fast)
\* @obligation C09.c  at most one piece download per peer
\* @obligation C09.d  simultaneous downloads of one piece <= max(1, end-game limit)
\* @obligation C09.g  sequential mode: lowest eligible index once no file-edge piece is eligible
\* @obligation C10.idle  an idle unchoked peer holding a needed unrequested piece gets a request
PickRange(pe, r)  == r \in Piece \cup {None}
PickC(pe, r)      == (dl[pe] # None) => (r = None)
PickA(pe, r)      == (r \in Piece) => (~done[r] /\ ~writing[r])
PickB(pe, r, afr) == (r \in Piece) => ((pe \in having[r]) /\ (choking[pe] => r \in af[pe]) /\ (afr => r \in af[pe]))
PickD(pe, r)      == (r \in Piece) => Cardinality(requested[r] \cup {pe}) <= Lim
PickIdle(pe, r)   == (r = None /\ dl[pe] = None /\ ~choking[pe]) => ({p \in Eligible(pe) : Free(p)} = {})
PickG(pe, r)      == (cfg.seq /\ r \in Piece /\ ~choking[pe] /\ ~WsActive /\ Eligible(pe) # {}
                          /\ Eligible(pe) \cap cfg.edge = {} /\ Eligible(pe) \cap af[pe] = {})
                        => (r = Min(Eligible(pe)))

PickOK(pe, r, afr) ==
    /\ PickRange(pe, r) /\ PickC(pe, r) /\ PickA(pe, r) /\ PickB(pe, r, afr) /\ PickD(pe, r)
    /\ PickIdle(pe, r) /\ PickG(pe, r)

\* first violated obligation, "" if none (used by the trace specification for diagnosis)
PickViol(pe, r, afr) ==
    IF ~PickRange(pe, r) THEN "C09.range"
    ELSE IF ~PickC(pe, r) THEN "C09.c"
    ELSE IF ~PickA(pe, r) THEN "C09.a"
    ELSE IF ~PickB(pe, r, afr) THEN "C09.b"
    ELSE IF ~PickD(pe, r) THEN "C09.d"
    ELSE IF ~PickIdle(pe, r) THEN "C10.idle"
    ELSE IF ~PickG(pe, r) THEN "C09.g"
    ELSE ""

\* state change of PickFor + startSinglePieceDownloader; steal = the web seed owning r is cut at r
PickUpdate(pe, r, afr, steal) ==
    /\ IF r = None \/ dl[pe] # None
       THEN UNCHANGED <<requested, dl, dlaf, ws, src>>
       ELSE /\ requested' = [requested EXCEPT ![r] = @ \cup {pe}]
            /\ dl' = [dl EXCEPT ![pe] = r]
            /\ dlaf' = [dlaf EXCEPT ![pe] = afr]
            /\ IF steal /\ ws[r] # 0
               THEN /\ ws' = StopAtF(ws[r], r)[1]
                    /\ src' = StopAtF(ws[r], r)[2]
               ELSE UNCHANGED <<ws, src>>
    /\ UNCHANGED <<cfg, done, writing, having, conn, choking, af, wr>>

Pick(pe, r, afr) ==                             \* PickFor + startSinglePieceDownloader
    /\ conn[pe] /\ PickOK(pe, r, afr)
    /\ \E steal \in BOOLEAN : PickUpdate(pe, r, afr, steal)

CancelDownload(pe) ==                           \* closePieceDownloader
    /\ conn[pe] /\ dl[pe] # None
    /\ requested' = CancelF(requested, pe)
    /\ dl' = [dl EXCEPT ![pe] = None]
    /\ UNCHANGED <<cfg, done, writing, having, ws, conn, choking, af, dlaf, src, wr>>

Disconnect(pe) ==                               \* closePeer: closePieceDownloader + HandleDisconnect
    /\ conn[pe]
    /\ requested' = CancelF(requested, pe)
    /\ having' = [p \in Piece |-> having[p] \ {pe}]
    /\ dl' = [dl EXCEPT ![pe] = None]
    /\ conn' = [conn EXCEPT ![pe] = FALSE]
    /\ choking' = [choking EXCEPT ![pe] = TRUE]
    /\ af' = [af EXCEPT ![pe] = {}]
    /\ UNCHANGED <<cfg, done, writing, ws, dlaf, src, wr>>

PieceComplete(pe) ==                            \* handlePieceMessage, last block: close downloader, start writer
    /\ conn[pe] /\ dl[pe] # None /\ wr = NoWrite
    /\ ~writing[dl[pe]] /\ ~done[dl[pe]]
    /\ requested' = CancelF(requested, pe)
    /\ dl' = [dl EXCEPT ![pe] = None]
    /\ writing' = [writing EXCEPT ![dl[pe]] = TRUE]
    /\ wr' = [p |-> dl[pe], kind |-> "peer", who |-> pe]
    /\ UNCHANGED <<cfg, done, having, ws, conn, choking, af, dlaf, src>>

-----------------------------------------------------------------------------
(* piece writer result (torrent_write.go handlePieceWriteDone)              *)

WriteOK ==
    /\ wr # NoWrite
    /\ LET p == wr.p
           st == IF wr.kind = "peer" /\ ws[p] # 0 THEN StopAtF(ws[p], p) ELSE <<ws, src>>
       IN /\ writing' = [writing EXCEPT ![p] = FALSE]
          /\ done' = [done EXCEPT ![p] = TRUE]
          /\ ws' = st[1] /\ src' = st[2]
          /\ requested' = [requested EXCEPT ![p] = {}]          \* RequestedPeers(p): downloaders closed
          /\ dl' = [pe \in Peer |-> IF pe \in requested[p] THEN None ELSE dl[pe]]
    /\ wr' = NoWrite
    /\ UNCHANGED <<cfg, having, conn, choking, af, dlaf>>

WriteBad ==                                     \* hash mismatch: peer closed+banned / web seed disabled
    /\ wr # NoWrite
    /\ writing' = [writing EXCEPT ![wr.p] = FALSE]
    /\ wr' = NoWrite
    /\ IF wr.kind = "peer"
       THEN /\ requested' = CancelF(requested, wr.who)
            /\ having' = [p \in Piece |-> having[p] \ {wr.who}]
            /\ dl' = [dl EXCEPT ![wr.who] = None]
            /\ conn' = [conn EXCEPT ![wr.who] = FALSE]
            /\ choking' = [choking EXCEPT ![wr.who] = TRUE]
            /\ af' = [af EXCEPT ![wr.who] = {}]
            /\ UNCHANGED <<ws, src>>
       ELSE /\ ws' = CloseF(ws, src, wr.who)[1]
            /\ src' = CloseF(ws, src, wr.who)[2]
            /\ UNCHANGED <<requested, having, dl, conn, choking, af>>
    /\ UNCHANGED <<cfg, done, dlaf>>

-----------------------------------------------------------------------------
(* web seeds                                                                *)

\* @obligation C09.e  ranges given to web seeds never overlap, owner marks are consistent
\* @obligation C09.a  (web-seed side) a range never contains a piece that is done or being written
\* PickWebseed + startWebseedDownloader.  (b,e) = (0,0) means "nothing to do".
\* The new range may be carved out of another source's range, which is then truncated at b.
WsRangeOK(s, b, e) ==
    \/ b = e
    \/ /\ 0 <= b /\ b < e /\ e <= cfg.np
       /\ \A q \in b .. (e - 1) : ws[q] # s
WsFresh(s, b, e) == (b < e) => \A q \in b .. (e - 1) : ~done[q] /\ ~writing[q]
WsSteal(s, b, e) == (b < e) => \A q \in b .. (e - 1) : ws[q] = 0 \/ (src[ws[q]].cur < b)

StartWebseedViol(s, b, e) ==
    IF ~WsRangeOK(s, b, e) THEN "C09.e.range"
    ELSE IF ~WsFresh(s, b, e) THEN "C09.a.webseed"
    ELSE IF ~WsSteal(s, b, e) THEN "C09.e.overlap"
    ELSE ""

StartWebseedUpdate(s, b, e) ==
    /\ IF b >= e
       THEN UNCHANGED <<ws, src>>
       ELSE LET victims == {ws[q] : q \in {x \in Piece : b <= x /\ x < e}} \ {0, s}
                w1 == [q \in Piece |-> IF q >= b /\ ws[q] \in victims THEN 0 ELSE ws[q]]
            IN /\ ws' = [q \in Piece |-> IF q >= b /\ q < e THEN s ELSE w1[q]]
               /\ src' = [t \in Src |-> IF t = s THEN [active |-> TRUE, b |-> b, e |-> e, cur |-> b]
                                       ELSE IF t \in victims THEN [src[t] EXCEPT !.e = b]
                                       ELSE src[t]]
    /\ UNCHANGED <<cfg, done, writing, having, requested, conn, choking, af, dl, dlaf, wr>>

StartWebseed(s, b, e) ==
    /\ ~src[s].active
    /\ StartWebseedViol(s, b, e) = ""
    /\ StartWebseedUpdate(s, b, e)

\* urldownloader delivers piece `cur` (handleWebseedPieceResult)
WebseedPiece(s) ==
    /\ src[s].active /\ wr = NoWrite
    /\ LET p == src[s].cur
           last == p >= src[s].e - 1
       IN /\ IF done[p]                           \* stale result: discarded
             THEN UNCHANGED <<writing, wr>>
             ELSE /\ ~writing[p]
                  /\ writing' = [writing EXCEPT ![p] = TRUE]
                  /\ wr' = [p |-> p, kind |-> "ws", who |-> s]
          /\ IF last
             THEN /\ ws' = CloseF(ws, src, s)[1] /\ src' = CloseF(ws, src, s)[2]
             ELSE /\ src' = [src EXCEPT ![s].cur = p + 1] /\ UNCHANGED ws
    /\ UNCHANGED <<cfg, done, having, requested, conn, choking, af, dl, dlaf>>

CloseWebseed(s) ==                              \* error / stop: closeWebseedDownloader
    /\ src[s].active
    /\ ws' = CloseF(ws, src, s)[1] /\ src' = CloseF(ws, src, s)[2]
    /\ UNCHANGED <<cfg, done, writing, having, requested, conn, choking, af, dl, dlaf, wr>>

-----------------------------------------------------------------------------
Next ==
    \/ \E pe \in Peer : Connect(pe) \/ Choke(pe) \/ Unchoke(pe) \/ Snub(pe) \/ CancelDownload(pe)
                        \/ Disconnect(pe) \/ PieceComplete(pe)
    \/ \E pe \in Peer, p \in Piece : Have(pe, p) \/ AllowedFast(pe, p)
    \/ \E pe \in Peer, r \in Piece \cup {None}, a \in BOOLEAN : Pick(pe, r, a)
    \/ WriteOK \/ WriteBad
    \/ \E s \in Src : WebseedPiece(s) \/ CloseWebseed(s)
    \/ \E s \in Src, b \in 0 .. cfg.np, e \in 0 .. cfg.np : StartWebseed(s, b, e)

-----------------------------------------------------------------------------
(* Invariants: the global form of the C09 obligations                       *)

TypeOK ==
    /\ \A p \in Piece : having[p] \subseteq Peer /\ requested[p] \subseteq Peer /\ ws[p] \in Src \cup {0}
    /\ \A pe \in Peer : dl[pe] \in Piece \cup {None}

NoRequestForHeldPiece ==          \* C09.a
    \A p \in Piece : done[p] => requested[p] = {}
RequestOnlyFromHolders ==         \* C09.b
    \A p \in Piece : requested[p] \subseteq having[p]
OneDownloadPerPeer ==             \* C09.c
    \A pe \in Peer : \A p \in Piece : (pe \in requested[p]) <=> (dl[pe] = p)
WithinEndgameLimit ==             \* C09.d
    \A p \in Piece : Cardinality(requested[p]) <= Lim
WebseedRangesDisjoint ==          \* C09.e
    /\ \A s \in Src : src[s].active =>
          /\ src[s].b <= src[s].cur /\ src[s].cur < src[s].e /\ src[s].e <= cfg.np
          /\ \A q \in Piece : (ws[q] = s) <=> (src[s].b <= q /\ q < src[s].e)
    /\ \A s \in Src : ~src[s].active => \A q \in Piece : ws[q] # s
OneWrite ==
    /\ Cardinality({p \in Piece : writing[p]}) <= 1
    /\ (wr # NoWrite) <=> (\E p \in Piece : writing[p])

Inv == TypeOK /\ NoRequestForHeldPiece /\ RequestOnlyFromHolders /\ OneDownloadPerPeer
       /\ WithinEndgameLimit /\ WebseedRangesDisjoint /\ OneWrite
=============================================================================
