SPECIFICATION GenSpec
CONSTANTS
  MODE = "policy"
  PADS_AB = {0}
  PADS_CD = {0}
  FULLFR = FALSE
CHECK_DEADLOCK FALSE
