--------------------------------- MODULE Pex ---------------------------------
(***************************************************************************)
(* Shadow model of rain's peer exchange sender (BEP 11, ut_pex):           *)
(*   internal/peer/pex.go       per-peer goroutine: first flush at start,  *)
(*                              then one flush per minute                  *)
(*   internal/pexlist           added / dropped lists with the 50 entry    *)
(*                              limits, list of recently seen peers        *)
(*   torrent/torrent_pex.go,    calling discipline of the torrent loop:    *)
(*   torrent_peer.go,           startPeer -> pexAddPeer(addr) to every     *)
(*   torrent_close.go,          peer with PEX, recentlySeen.Add(addr);     *)
(*   torrent_messagehandler.go  extension handshake -> StartPEX(t.peers,   *)
(*                              &t.recentlySeen); closePeer -> pexDropPeer;*)
(*                              duplicate peer id -> add, then drop        *)
(*                                                                         *)
(* One instance = what ONE remote peer (address cfg.self) is told.         *)
(* A message is an ENVELOPE: any added / dropped lists that satisfy the    *)
(* obligations; which of the pending addresses go first is left to the     *)
(* code (Go map order).  Addresses are small integers (0 = not an address  *)
(* the harness knows).                                                     *)
(*                                                                         *)
(* @obligation X02.a  at most L (= 50) added and L dropped entries per     *)
(*                    message, except in the first message                 *)
(* @obligation X02.b  no address both added and dropped in one message, no *)
(*                    address twice in one list                            *)
(* @obligation X02.c  an address already sent as added is not sent as      *)
(*                    added again unless it was dropped (disconnected) in  *)
(*                    between                                              *)
(* @obligation X02.d  the receiver's own address is never sent to it       *)
(* @obligation X02.e  added entries are contacts connected at that moment; *)
(*                    dropped entries are contacts not connected at that   *)
(*                    moment that were dropped since (or, in the first     *)
(*                    message, recently seen)                              *)
(* @obligation X02.f  at least 60 s between two messages (trace level)     *)
(* @obligation X02.g  delivery: a flush carries min(pending, L) entries of *)
(*                    each kind; nothing stays pending for more than 60 s  *)
(*                    without a message (trace level: X02.g.late)          *)
(* @obligation X02.i  nothing is sent after the peer's PEX has been closed *)
(* @obligation X02.r  recently-seen list: never more than R (= 25)         *)
(*                    entries, no duplicates, contains the address just    *)
(*                    added, loses an entry only when full                 *)
(* Private torrents never start PEX: obligation of C19 (not here).         *)
(***************************************************************************)
EXTENDS Integers, FiniteSets, Sequences, TLC

VARIABLES cfg,        \* [self, L, R]
          on,         \* the PEX goroutine of this peer runs
          connected,  \* contacts the torrent is connected to (other than self), as told to this PEX
          pendA,      \* connected and not yet announced
          live,       \* announced as added and not dropped since
          mustD,      \* not connected any more but still in the receiver's picture (rv): the drop must be sent
          mayD,       \* addresses that may appear as dropped: mustD, drops of never announced contacts, recently seen
          nmsg,       \* 0 until the first message has been sent, then 1
          rv          \* ghost: what the receiver believes (added minus dropped so far)

vars == <<cfg, on, connected, pendA, live, mustD, mayD, nmsg, rv>>

SetOf(q) == {q[i] : i \in 1 .. Len(q)}
Min(a, b) == IF a < b THEN a ELSE b
Tag(b, t) == IF b THEN {t} ELSE {}
NoDup(q) == Cardinality(SetOf(q)) = Len(q)

InitWith(c) ==
    /\ cfg = c /\ on = FALSE /\ connected = {} /\ pendA = {} /\ live = {} /\ mustD = {} /\ mayD = {}
    /\ nmsg = 0 /\ rv = {}
ResetWith(c) ==
    /\ cfg' = c /\ on' = FALSE /\ connected' = {} /\ pendA' = {} /\ live' = {} /\ mustD' = {} /\ mayD' = {}
    /\ nmsg' = 0 /\ rv' = {}

\* StartPEX(t.peers, &t.recentlySeen): initial = addresses of the connected peers, recent = recently seen addresses
Start(initial, recent) ==
    /\ ~on
    /\ on' = TRUE
    /\ connected' = initial \ {cfg.self}
    /\ pendA' = initial \ {cfg.self}
    /\ mayD' = (recent \ initial) \ {cfg.self}
    /\ live' = {} /\ mustD' = {} /\ nmsg' = 0 /\ rv' = {}
    /\ UNCHANGED cfg

\* pexAddPeer(addr): a new connection (discipline: one connection per address)
Add(a) ==
    /\ on /\ a \notin connected /\ a # cfg.self
    /\ connected' = connected \cup {a}
    /\ pendA' = pendA \cup {a}
    /\ mustD' = mustD \ {a} /\ mayD' = mayD \ {a}
    /\ UNCHANGED <<cfg, on, live, nmsg, rv>>

\* pexDropPeer(addr): the connection is gone
Drop(a) ==
    /\ on /\ a \in connected
    /\ connected' = connected \ {a}
    /\ pendA' = pendA \ {a}
    /\ live' = live \ {a}
    /\ mustD' = IF a \in rv THEN mustD \cup {a} ELSE mustD     \* the receiver has to learn it
    /\ mayD' = mayD \cup {a}
    /\ UNCHANGED <<cfg, on, nmsg, rv>>

Close ==
    /\ on /\ on' = FALSE
    /\ UNCHANGED <<cfg, connected, pendA, live, mustD, mayD, nmsg, rv>>

-----------------------------------------------------------------------------
(* obligations of one message (added, dropped: sequences of addresses)      *)

MkAAdded(ad)    == nmsg > 0 /\ Len(ad) > cfg.L
MkADropped(dr)  == nmsg > 0 /\ Len(dr) > cfg.L
MkB(ad, dr)     == SetOf(ad) \cap SetOf(dr) # {}
MkBDup(ad, dr)  == ~NoDup(ad) \/ ~NoDup(dr)
MkC(ad)         == SetOf(ad) \cap live # {}
MkD(ad, dr)     == cfg.self \in SetOf(ad) \cup SetOf(dr)
MkEAdded(ad)    == ~((SetOf(ad) \ {cfg.self}) \subseteq connected)
MkEDropped(dr)  == ~((SetOf(dr) \ {cfg.self}) \subseteq mayD)
MkGAdded(ad)    == Cardinality(SetOf(ad)) < Min(Cardinality(pendA), cfg.L)
MkGDropped(dr)  == Cardinality(SetOf(dr)) < Min(Cardinality(mustD), cfg.L)
MkI             == ~on

MsgViols(ad, dr) ==
    Tag(MkAAdded(ad), "X02.a.added") \cup Tag(MkADropped(dr), "X02.a.dropped") \cup Tag(MkB(ad, dr), "X02.b")
    \cup Tag(MkBDup(ad, dr), "X02.b.dup") \cup Tag(MkC(ad), "X02.c") \cup Tag(MkD(ad, dr), "X02.d")
    \cup Tag(MkEAdded(ad), "X02.e.added") \cup Tag(MkEDropped(dr), "X02.e.dropped")
    \cup Tag(MkGAdded(ad), "X02.g.added") \cup Tag(MkGDropped(dr), "X02.g.dropped") \cup Tag(MkI, "X02.i")
MsgOK(ad, dr) ==
    /\ ~MkAAdded(ad) /\ ~MkADropped(dr) /\ ~MkB(ad, dr) /\ ~MkBDup(ad, dr) /\ ~MkC(ad) /\ ~MkD(ad, dr)
    /\ ~MkEAdded(ad) /\ ~MkEDropped(dr) /\ ~MkGAdded(ad) /\ ~MkGDropped(dr) /\ ~MkI

MsgUpdate(ad, dr) ==
    /\ pendA' = pendA \ SetOf(ad)
    /\ live' = live \cup (SetOf(ad) \cap connected)
    /\ mustD' = mustD \ SetOf(dr)
    /\ mayD' = mayD \ SetOf(dr)
    /\ nmsg' = 1
    /\ rv' = (rv \ SetOf(dr)) \cup SetOf(ad)
    /\ UNCHANGED <<cfg, on, connected>>

\* a flush opportunity without anything to say: the code sends nothing
NothingPending == pendA = {} /\ mayD = {}

Msg(ad, dr) == MsgOK(ad, dr) /\ (ad # <<>> \/ dr # <<>>) /\ MsgUpdate(ad, dr)

-----------------------------------------------------------------------------
(* invariants of the envelope                                               *)

TypeOK ==
    /\ pendA \subseteq connected /\ live \subseteq connected /\ pendA \cap live = {}
    /\ mustD \subseteq mayD /\ mayD \cap connected = {}
    /\ cfg.self \notin connected \cup mayD
\* the receiver's picture differs from the truth only by what is still pending:
\* every connected contact it does not know is pending as added, every contact it wrongly believes in is pending as dropped
RemoteViewCoherent ==
    /\ connected \ rv \subseteq pendA
    /\ rv \ connected \subseteq mustD
    /\ cfg.self \notin rv
Settled == (pendA = {} /\ mustD = {}) => rv = connected

-----------------------------------------------------------------------------
(* recently seen list (pexlist.RecentlySeen), old = set before the call, q = Peers() after Add(a)           *)
RsViols(old, a, q) ==
    Tag(Len(q) > cfg.R, "X02.r.bound") \cup Tag(~NoDup(q), "X02.r.dup") \cup Tag(a \notin SetOf(q), "X02.r.has")
    \cup Tag(~(SetOf(q) \subseteq old \cup {a}), "X02.r.sub")
    \cup Tag(Cardinality(SetOf(q)) < Min(Cardinality(old \cup {a}), cfg.R), "X02.r.keep")

-----------------------------------------------------------------------------
(* the algorithm of pexlist.PEXList + newPEX                                *)
(*   variant "asis": the unchanged tree; "fixed": newPEX leaves the        *)
(*   receiver's own address out of the recently seen entries               *)
(* la, ld = maps added / dropped, fl = flushed                              *)
AlgStart(variant, initial, recent) ==
    LET d0 == IF variant = "fixed" THEN recent \ {cfg.self} ELSE recent
    IN  [la |-> initial \ {cfg.self}, ld |-> d0 \ (initial \ {cfg.self}), fl |-> FALSE]
AlgAdd(s, a)  == [s EXCEPT !.la = @ \cup {a}, !.ld = @ \ {a}]
AlgDrop(s, a) == [s EXCEPT !.ld = @ \cup {a}, !.la = @ \ {a}]
\* the subsets Flush may return: everything the first time, min(n, L) arbitrary entries later
AlgTake(S, fl) == IF fl /\ Cardinality(S) > cfg.L THEN {T \in SUBSET S : Cardinality(T) = cfg.L} ELSE {S}
=============================================================================
