---------------------------- MODULE Trace_Locks ----------------------------
(***************************************************************************)
(* Trace specification of C20: judges what the stress children of          *)
(* harness/c20 (real torrent.Session, all public API + RPC calls from      *)
(* several goroutines while torrents transfer; stress recipes of the       *)
(* lock-up cycles found by MC_Locks_asis) did, as recorded by the parent   *)
(* props/c20.py:                                                           *)
(*   Init          a child starts (mode, mix / recipe, seed)               *)
(*   calls         per operation: calls made, calls returned               *)
(*   unsyncAccess  one race-detector report: two accesses to one memory    *)
(*                 location by two goroutines, unordered by any lock or    *)
(*                 channel operation (a = canonical accessor outside the   *)
(*                 event loop, b = the other side)                         *)
(*   hang          the watchdog expired on a call; `confirmed` = the       *)
(*                 goroutine dump shows every party of the wait-for cycle  *)
(*                 blocked at the predicted primitive (shape = resources)  *)
(*   crash         the child died (class race = "concurrent map ...",      *)
(*                 lockup = health check "does not respond", other)        *)
(*   end           the child ended (ok = 1: it ran to its deadline)        *)
(* The ownership rule of Locks.tla permits NO unsynchronised pair, so      *)
(* there is no action under which unsyncAccess is legal: it is accepted    *)
(* only to be tagged (a failed obligation does not block the step; every   *)
(* violation prints  @@VIOL <line> <tag>  and ONE run judges the file).    *)
(* The race detector is the OBSERVER: this half is schedule sampling, not  *)
(* model checking.                                                         *)
(***************************************************************************)
EXTENDS Locks, Json

VARIABLES l, viol, run, inflight, hung
tvars == <<vars, l, viol, run, inflight, hung>>

Trace == ndJsonDeserialize("trace.ndjson")
Ev == Trace[l]

TraceInit ==
    /\ Init
    /\ l = 2 /\ viol = "" /\ hung = FALSE /\ inflight = 0
    /\ Trace[1].op = "Init" /\ run = Trace[1].run
    /\ TLCSet(1, 1)

TStep(v) ==
    /\ l' = l + 1 /\ viol' = v
    /\ IF v = "" THEN TRUE ELSE PrintT("@@VIOL " \o ToString(l) \o " " \o v)
    /\ UNCHANGED vars

TrReset == Ev.op = "Init" /\ run' = Ev.run /\ hung' = FALSE /\ inflight' = 0 /\ TStep("")

\* calls made and returned per operation; the difference is still in flight
TrCalls ==
    /\ Ev.op = "calls" /\ Ev.n >= Ev.ret
    /\ inflight' = inflight + (Ev.n - Ev.ret)
    /\ UNCHANGED <<run, hung>> /\ TStep("")

\* @obligation C20.race  -- no specification action has two unordered conflicting accesses
TrUnsync == Ev.op = "unsyncAccess" /\ UNCHANGED <<run, hung, inflight>> /\ TStep("C20.race")

\* @obligation C20.lockup -- a call that does not return
TrHang ==
    /\ Ev.op = "hang"
    /\ hung' = TRUE /\ UNCHANGED <<run, inflight>>
    /\ TStep(IF Ev.confirmed = 1 THEN "C20.lockup." \o Ev.shape ELSE "C20.lockup.unexplained")

\* @obligation C20.crash
TrCrash ==
    /\ Ev.op = "crash" /\ hung' = TRUE /\ UNCHANGED <<run, inflight>>
    /\ TStep(CASE Ev.class = "race" -> "C20.race.crash"
              [] Ev.class = "lockup" -> "C20.lockup.healthcheck"
              [] OTHER -> "")

\* a child that ran to its deadline has no call in flight (call ~> return observed on the sample)
TrEnd ==
    /\ Ev.op = "end" /\ UNCHANGED <<run, hung, inflight>>
    /\ TStep(IF Ev.ok = 1 /\ inflight # 0 /\ ~hung THEN "C20.lockup.noreturn" ELSE "")

TraceNext ==
    /\ l <= Len(Trace)
    /\ \/ TrReset \/ TrCalls \/ TrUnsync \/ TrHang \/ TrCrash \/ TrEnd

TraceSpec == TraceInit /\ [][TraceNext]_tvars

HighWater == TLCSet(1, IF l > TLCGet(1) THEN l ELSE TLCGet(1))
NoViolation == viol = ""
TraceAccepted ==
    LET hw == TLCGet(1) IN
    IF hw = Len(Trace) + 1 THEN TRUE
    ELSE /\ PrintT("@@REJECT " \o ToString(hw - 1) \o " " \o ToString(Len(Trace)))
         /\ FALSE

TT1 == <<"t1">>
TC0 == <<>>
TAny(f) == TRUE
=============================================================================
