SPECIFICATION MCSpec
CONSTANTS
  IDS = {"a"}
  RANGE = {1, 2}
  K = 2
  ATOMIC = FALSE
  FULL = FALSE
  SPARSE = FALSE
  STORAGE = FALSE
INVARIANT RegistryIsDatabase
CHECK_DEADLOCK FALSE
