SPECIFICATION MCSpec
CONSTANTS
  NPEERS = 3
  NN = 1
  MM = 2
  RMAX = 2
  VICTIM = 0
INVARIANT Inv
CHECK_DEADLOCK FALSE
