SPECIFICATION Spec
CONSTANTS
  NP = 2
  NB = 2
  PAD <- Pad01
  NSRC = 2
  WS = FALSE
  FIX <- DiffFix
  MUT = "none"
  IGNORE <- NotRepaired
  RXMAX = 5
  NJUNK = 1
  NWRITE = 1
  NFAIL = 1
  NCRASH = 1
  NCLOSE = 0
  NSTOP = 0
  NUP = 0
  NINV = 0
  NLATE = 1
  TMAX = 0
  PERIOD = 2
  LATE = 0
  SEEDTOL = 0
INVARIANT Inv
VIEW View
CHECK_DEADLOCK FALSE
