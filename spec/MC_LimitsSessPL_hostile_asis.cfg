SPECIFICATION Spec
CONSTANTS
  NB = 5
  REQQ = 0
  DEFOUT = 3
  MAXOUT = 50
  FAST = TRUE
  STRICT = TRUE
  REQUEUE = FALSE
  HOSTILE = TRUE
  GUARD = FALSE
INVARIANT WireBound
CONSTRAINT Small
CHECK_DEADLOCK FALSE
