SPECIFICATION ASpec
CONSTANTS
  NPEERS = 4
  NN = 2
  MM = 1
  RMAX = 1
  VARIANT = "fixed"
  IGNORE = {}
  VICTIM = 0
INVARIANT AInv
CHECK_DEADLOCK FALSE
