SPECIFICATION Spec
CONSTANTS
  TorrentSeq <- T1
  NClients = 2
  Choices <- ChoicesAll1
  BgSeq <- BgOne
  Fixed = {"StartAll", "StopAll", "resolveAndAddPeer", "moveTorrent", "reserveID", "cleanLive", "cleanReset", "compactLocks", "dhtDropOnStop"}
  Budget = 1
  Unbuffered = {}
  SrcOver <- NoOver
  Allowed <- AnyPick
INVARIANT TypeOK
INVARIANT NoLockup
CHECK_DEADLOCK FALSE
