SPECIFICATION MCSpec
CONSTANTS
  IDS = {"a"}
  RANGE = {1}
  K = 2
  ATOMIC = FALSE
  FULL = TRUE
  SPARSE = FALSE
  STORAGE = FALSE
INVARIANT NoCrash
CHECK_DEADLOCK FALSE
