SPECIFICATION MCSpec
CONSTANTS
  U = 2
  RANGE = {1, 2}
  FIX = {}
  MAXF = 1
  FAULTS = {"refuse", "cut", "crash", "disk", "dbfail", "sclose"}
  BINITS = {"empty", "dupsame", "dupother", "dupih", "full"}
  RUNS = {TRUE, FALSE}
  DIRTYS = {FALSE}
  DSTS = {"B"}
  FINAL = TRUE
INVARIANT TypeOK
INVARIANT AtLeastOne
INVARIANT SourceKept
INVARIANT NoPhantomRecord
INVARIANT TargetHasIt
INVARIANT TargetBitfield
INVARIANT SourceGone
INVARIANT ClaimsOnlyIntact
INVARIANT SessionInvariants
INVARIANT NoStuckMove
CHECK_DEADLOCK FALSE
