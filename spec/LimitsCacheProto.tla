--------------------------- MODULE LimitsCacheProto ---------------------------
(***************************************************************************)
(* C17 sub-model Cache, part B: internal/piececache at the level of its    *)
(* two locks (cache mutex c.m, per-item mutex) and the read semaphore.     *)
(*                                                                         *)
(* reader r executing Get(k, loader)            (cache.go:101-142)         *)
(*   "idle" --GetItem--> "gotItem"   getItem under c.m: find or create the *)
(*                                   item object (placeholder in the map)  *)
(*   "gotItem" --LockItem--> "touch" | "semWait" | "ret"   i.Lock(); loaded?*)
(*   "touch" --Touch--> "ret"        updateAccessTime under c.m:           *)
(*                                   heap.Fix(i.index); i.timer.Reset(ttl) *)
(*   "semWait" --SemAcquire--> "loading" --LoaderReturn--> "loaded"        *)
(*   "loaded" --HandleNew--> "ret"   handleNewItem under c.m: error /      *)
(*                                   larger than the cache / makeRoom+push *)
(* TimerExpire(i) / TimerRun(i): the TTL timer of item i expires; its      *)
(* function then takes c.m and runs removeItem unless i.index = -1.        *)
(* Clear: only when no reader is in flight (the session clears the cache   *)
(* after all torrents are closed); it stops the timers but a timer whose   *)
(* function is already waiting for c.m cannot be stopped.                  *)
(*                                                                         *)
(* The access heap is modelled as the sequence of item ids in LRU order    *)
(* (container/heap ordered by lastAccessed); i.index = -1 <=> ~inheap.     *)
(* heap.Fix with the index of an item that is not in the heap is a no-op   *)
(* (confirmed on the real code); timer.Reset on a nil timer is a nil       *)
(* dereference: crashed' = TRUE.                                           *)
(*                                                                         *)
(* FIXED = FALSE: the code as it is.  FIXED = TRUE: updateAccessTime       *)
(* returns early for an item that is not in the heap (index = -1, set at   *)
(* creation) and Clear marks the dropped items with index = -1.            *)
(***************************************************************************)
EXTENDS LimitsCache

CONSTANTS Readers, KeySet, Sizes, MAX, PAR, NCALLS, FIXED, ERRS, TTL, CLEAR

VARIABLES items, map, heap, size, nxt, nver, sem, pc, rit, rk, res, calls, crashed

qvars == <<items, map, heap, size, nxt, nver, sem, pc, rit, rk, res, calls, crashed>>
vars == <<cvars, qvars>>

NI == Cardinality(Readers) * NCALLS
Item0 == [k |-> 0, loaded |-> FALSE, err |-> FALSE, sz |-> 0, ver |-> 0, inheap |-> FALSE, timer |-> "nil", lock |-> 0]
NoRes == [k |-> 0, sz |-> 0, ver |-> 0, err |-> FALSE, own |-> FALSE]
Entry(i) == [k |-> items[i].k, sz |-> items[i].sz, ver |-> items[i].ver]
SeqSet(s) == {s[j] : j \in 1 .. Len(s)}
Without(s, S) == SelectSeq(s, LAMBDA x : x \notin S)
\* timer.Stop(): too late for a timer whose function has already been started
StopT(t) == IF t = "armed" THEN "stopped" ELSE t
RECURSIVE SumItems(_)
SumItems(S) == IF S = {} THEN 0 ELSE LET x == CHOOSE y \in S : TRUE IN items[x].sz + SumItems(S \ {x})

QInit ==
    /\ CInitWith([max |-> MAX, par |-> PAR])
    /\ items = [i \in 1 .. NI |-> Item0] /\ map = [k \in KeySet |-> 0] /\ heap = <<>> /\ size = 0
    /\ nxt = 1 /\ nver = 1 /\ sem = 0
    /\ pc = [r \in Readers |-> "idle"] /\ rit = [r \in Readers |-> 0] /\ rk = [r \in Readers |-> 0]
    /\ res = [r \in Readers |-> NoRes] /\ calls = [r \in Readers |-> NCALLS] /\ crashed = FALSE

GetItem(r, k) ==
    /\ pc[r] = "idle" /\ calls[r] > 0
    /\ IF map[k] # 0
       THEN /\ rit' = [rit EXCEPT ![r] = map[k]]
            /\ UNCHANGED <<items, map, nxt>>
       ELSE /\ items' = [items EXCEPT ![nxt] = [Item0 EXCEPT !.k = k]]
            /\ map' = [map EXCEPT ![k] = nxt]
            /\ rit' = [rit EXCEPT ![r] = nxt]
            /\ nxt' = nxt + 1
    /\ pc' = [pc EXCEPT ![r] = "gotItem"] /\ rk' = [rk EXCEPT ![r] = k]
    /\ calls' = [calls EXCEPT ![r] = @ - 1]
    /\ UNCHANGED <<cvars, heap, size, nver, sem, res, crashed>>

LockItem(r) ==
    LET i == rit[r] IN
    /\ pc[r] = "gotItem" /\ items[i].lock = 0
    /\ IF items[i].loaded /\ items[i].err
       THEN /\ pc' = [pc EXCEPT ![r] = "ret"]
            /\ res' = [res EXCEPT ![r] = [NoRes EXCEPT !.err = TRUE]]
            /\ UNCHANGED items
       ELSE /\ pc' = [pc EXCEPT ![r] = IF items[i].loaded THEN "touch" ELSE "semWait"]
            /\ items' = [items EXCEPT ![i].lock = r]
            /\ UNCHANGED res
    /\ UNCHANGED <<cvars, map, heap, size, nxt, nver, sem, rit, rk, calls, crashed>>

Touch(r) ==
    LET i == rit[r] IN
    /\ pc[r] = "touch"
    /\ heap' = IF items[i].inheap THEN Append(Without(heap, {i}), i) ELSE heap
    /\ IF FIXED /\ ~items[i].inheap
       THEN /\ items' = [items EXCEPT ![i].lock = 0] /\ UNCHANGED crashed
       ELSE IF items[i].timer = "nil" \/ (items[i].inheap /\ i \notin SeqSet(heap))
       THEN /\ crashed' = TRUE /\ UNCHANGED items                       \* nil.Reset(ttl) / heap.Fix(stale index)
       ELSE /\ items' = [items EXCEPT ![i].lock = 0, ![i].timer = IF @ = "fired" THEN "fired" ELSE "armed"]
            /\ UNCHANGED crashed
    /\ pc' = [pc EXCEPT ![r] = "ret"]
    /\ res' = [res EXCEPT ![r] = [k |-> items[i].k, sz |-> items[i].sz, ver |-> items[i].ver, err |-> FALSE, own |-> FALSE]]
    /\ UNCHANGED <<cvars, map, size, nxt, nver, sem, rit, rk, calls>>

SemAcquire(r) ==
    /\ pc[r] = "semWait" /\ sem < PAR
    /\ sem' = sem + 1 /\ pc' = [pc EXCEPT ![r] = "loading"]
    /\ ALoadBegin
    /\ UNCHANGED <<items, map, heap, size, nxt, nver, rit, rk, res, calls, crashed>>

LoaderReturn(r, sz, err) ==
    LET i == rit[r]
        v == [k |-> rk[r], sz |-> IF err THEN 0 ELSE sz, ver |-> IF err THEN 0 ELSE nver] IN
    /\ pc[r] = "loading"
    /\ items' = [items EXCEPT ![i].loaded = TRUE, ![i].err = err, ![i].sz = v.sz, ![i].ver = v.ver]
    /\ sem' = sem - 1 /\ nver' = nver + 1
    /\ pc' = [pc EXCEPT ![r] = "loaded"]
    /\ ALoadEnd(v, err)
    /\ UNCHANGED <<map, heap, size, nxt, rit, rk, res, calls, crashed>>

\* number of LRU entries makeRoom removes so that sz fits
RECURSIVE NEvict(_, _, _)
NEvict(h, sz, cur) == IF MAX - cur >= sz \/ h = <<>> THEN 0 ELSE 1 + NEvict(Tail(h), sz, cur - items[Head(h)].sz)

HandleNew(r) ==
    LET i == rit[r]
        it == items[i] IN
    /\ pc[r] = "loaded"
    /\ pc' = [pc EXCEPT ![r] = "ret"]
    /\ res' = [res EXCEPT ![r] = [k |-> it.k, sz |-> it.sz, ver |-> it.ver, err |-> it.err, own |-> TRUE]]
    /\ IF it.err \/ it.sz > MAX
       THEN /\ map' = [map EXCEPT ![it.k] = 0]
            /\ items' = [items EXCEPT ![i].lock = 0]
            /\ UNCHANGED <<cvars, heap, size>>
       ELSE LET n == NEvict(heap, it.sz, size)
                ev == {heap[j] : j \in 1 .. n}
            IN /\ heap' = Append(SubSeq(heap, n + 1, Len(heap)), i)
               /\ size' = size - SumItems(ev) + it.sz
               /\ map' = [k \in KeySet |-> IF \E j \in ev : items[j].k = k THEN 0 ELSE map[k]]
               /\ items' = [j \in 1 .. NI |->
                              IF j = i THEN [it EXCEPT !.lock = 0, !.inheap = TRUE, !.timer = "armed"]
                              ELSE IF j \in ev THEN [items[j] EXCEPT !.inheap = FALSE, !.timer = StopT(@)]
                              ELSE items[j]]
               /\ AInsert(Entry(i), {Entry(j) : j \in ev})
    /\ UNCHANGED <<nxt, nver, sem, rit, rk, calls, crashed>>

\* time.AfterFunc: the timer expires (its function starts in a new goroutine) ...
TimerExpire(i) ==
    /\ TTL /\ items[i].timer = "armed"
    /\ items' = [items EXCEPT ![i].timer = "fired"]
    /\ UNCHANGED <<cvars, map, heap, size, nxt, nver, sem, pc, rit, rk, res, calls, crashed>>

\* ... and the function gets c.m:  if i.index != -1 { c.removeItem(i) }
TimerRun(i) ==
    /\ items[i].timer = "fired"
    /\ IF items[i].inheap /\ i \in SeqSet(heap)
       THEN /\ heap' = Without(heap, {i})
            /\ size' = size - items[i].sz
            /\ map' = [map EXCEPT ![items[i].k] = 0]
            /\ items' = [items EXCEPT ![i].inheap = FALSE, ![i].timer = "stopped"]
            /\ AEvict({Entry(i)})
            /\ UNCHANGED crashed
       ELSE IF items[i].inheap
       THEN /\ crashed' = TRUE                      \* heap.Remove with a stale index
            /\ UNCHANGED <<cvars, heap, size, map, items>>
       ELSE /\ items' = [items EXCEPT ![i].timer = "stopped"]
            /\ UNCHANGED <<cvars, heap, size, map, crashed>>
    /\ UNCHANGED <<nxt, nver, sem, pc, rit, rk, res, calls>>

Ret(r) ==
    /\ pc[r] = "ret"
    /\ pc' = [pc EXCEPT ![r] = "idle"]
    /\ UNCHANGED <<cvars, items, map, heap, size, nxt, nver, sem, rit, rk, res, calls, crashed>>

Clear ==
    /\ CLEAR /\ \A r \in Readers : pc[r] = "idle"
    /\ heap # <<>>
    /\ map' = [k \in KeySet |-> 0] /\ heap' = <<>> /\ size' = 0
    /\ items' = [j \in 1 .. NI |-> IF j \in SeqSet(heap)
                                   THEN [items[j] EXCEPT !.inheap = IF FIXED THEN FALSE ELSE @, !.timer = StopT(@)]
                                   ELSE items[j]]
    /\ AEvict(cached)
    /\ UNCHANGED <<nxt, nver, sem, pc, rit, rk, res, calls, crashed>>

QNext ==
    /\ ~crashed
    /\ \/ \E r \in Readers, k \in KeySet : GetItem(r, k)
       \/ \E r \in Readers : LockItem(r) \/ Touch(r) \/ SemAcquire(r) \/ HandleNew(r) \/ Ret(r)
       \/ \E r \in Readers, sz \in Sizes, e \in ERRS : LoaderReturn(r, sz, e)
       \/ \E i \in 1 .. NI : TimerExpire(i) \/ TimerRun(i)
       \/ Clear

QSpec == QInit /\ [][QNext]_vars

-----------------------------------------------------------------------------
Values == {[k |-> k, sz |-> s, ver |-> v] : k \in KeySet, s \in Sizes \cup {0}, v \in 0 .. NI + 1}
Refines == [][CStrictStep(Values) \/ UNCHANGED cvars]_cvars

\* @obligation C17.cache.limit
PSizeLimit == 0 <= size /\ size <= MAX
\* @obligation C17.cache.balance
PBalance ==
    /\ size = SumItems(SeqSet(heap))
    /\ Cardinality(SeqSet(heap)) = Len(heap)
    /\ \A i \in 1 .. NI : (i \in SeqSet(heap) => items[i].inheap) /\ (FIXED /\ items[i].inheap => i \in SeqSet(heap))
    /\ \A i \in SeqSet(heap) : map[items[i].k] = i /\ items[i].timer \in {"armed", "fired"} /\ items[i].loaded /\ ~items[i].err
    /\ cached = {Entry(i) : i \in SeqSet(heap)}
\* at rest the map holds exactly the heap entries (no leaked placeholders)
PQuiescent ==
    (\A r \in Readers : pc[r] = "idle") => \A k \in KeySet : map[k] # 0 => map[k] \in SeqSet(heap)
\* @obligation C17.cache.crash
PNoCrash == ~crashed
\* @obligation C17.cache.parallel
PPar == sem <= PAR /\ sem = inflight
\* @obligation C17.cache.value
PValue == \A r \in Readers : pc[r] = "ret" /\ ~res[r].err =>
              /\ res[r].k = rk[r]
              /\ [k |-> res[r].k, sz |-> res[r].sz, ver |-> res[r].ver] \in loadedv

QInv == CInv /\ PSizeLimit /\ PBalance /\ PQuiescent /\ PPar /\ PValue
=============================================================================
