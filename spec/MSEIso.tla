------------------------------ MODULE MSEIso ------------------------------
(***************************************************************************)
(* Per-connection isolation of the MSE initial payload (IA) on the         *)
(* ACCEPTING side (internal/mse/mse.go:328-366 HandshakeIncoming: IA is    *)
(* received during the handshake, kept by the stream and handed to the     *)
(* application by the first Read calls after the handshake).               *)
(*                                                                         *)
(* Several incoming connections exist at the same time.  The initiator of  *)
(* connection k sends the payload  Pay(k) = << <<k,1>>, ..., <<k,len[k]>> >>*)
(* (every byte is tagged with its connection and offset, so bytes of       *)
(* different connections are never equal).  Handshake(k) = the acceptor of *)
(* k completes HandshakeIncoming and holds the received payload;           *)
(* Read(k, n) = the application reads the next n units of k.  Handshakes   *)
(* and reads of different connections interleave arbitrarily - in          *)
(* particular a later handshake may complete while an earlier connection's *)
(* payload is still unread (or partly read).                               *)
(*                                                                         *)
(* @obligation C12.payload (isolation form): what is read on k is what the *)
(* initiator of k sent, for every interleaving.                            *)
(*                                                                         *)
(* POOLED = TRUE is the negative control of the model (not the design): the*)
(* holding buffer is recycled when the handshake returns and taken again   *)
(* by the next handshake - Isolation is violated (MC_MSEIso_pool.cfg).     *)
(***************************************************************************)
EXTENDS Integers, Sequences, FiniteSets, TLC

CONSTANT POOLED

VARIABLES nc,     \* number of connections 1 .. nc (numbered in the order of their handshakes)
          len,    \* len[k] = units of initial payload sent by the initiator of k (>= 1)
          hsd,    \* connections whose incoming handshake has completed
          slot,   \* slot[k] = identity of the buffer that holds k's payload (design: k itself)
          mem,    \* mem[b] = content of buffer b
          pos,    \* pos[k] = units already read by the application
          got     \* got[k] = what the application has read on k
ivars == <<nc, len, hsd, slot, mem, pos, got>>

MaxConns == 3
Conns == 1 .. nc
Pay(k) == [i \in 1 .. len[k] |-> <<k, i>>]

IsoInitWith(n, ls) ==
    /\ nc = n /\ len = ls /\ hsd = {}
    /\ slot = [k \in 1 .. MaxConns |-> k]
    /\ mem = [b \in 1 .. MaxConns |-> <<>>]
    /\ pos = [k \in 1 .. MaxConns |-> 0]
    /\ got = [k \in 1 .. MaxConns |-> <<>>]
IsoResetWith(n, ls) ==
    /\ nc' = n /\ len' = ls /\ hsd' = {}
    /\ slot' = [k \in 1 .. MaxConns |-> k]
    /\ mem' = [b \in 1 .. MaxConns |-> <<>>]
    /\ pos' = [k \in 1 .. MaxConns |-> 0]
    /\ got' = [k \in 1 .. MaxConns |-> <<>>]

\* HandshakeIncoming of connection k returns: IA_k is held for the application.
\* Design: a buffer of its own.  Negative control: the buffer every handshake recycles (buffer 1).
Handshake(k) ==
    /\ k \in Conns /\ k \notin hsd
    /\ (k > 1 => (k - 1) \in hsd)                \* connections are numbered in handshake order
    /\ hsd' = hsd \cup {k}
    /\ LET b == IF POOLED THEN 1 ELSE k IN
       /\ slot' = [slot EXCEPT ![k] = b]
       /\ mem' = [mem EXCEPT ![b] = Pay(k)]
    /\ UNCHANGED <<nc, len, pos, got>>

\* the application reads the next n units of k (mse.Stream.Read served from the held payload)
Read(k, n) ==
    /\ k \in hsd /\ n >= 1 /\ pos[k] + n <= len[k]
    /\ LET b == slot[k]
           have == mem[b]
           piece == IF POOLED
                    THEN [i \in 1 .. n |-> IF pos[k] + i <= Len(have) THEN have[pos[k] + i] ELSE <<0, 0>>]
                    ELSE SubSeq(have, pos[k] + 1, pos[k] + n)
       IN got' = [got EXCEPT ![k] = @ \o piece]
    /\ pos' = [pos EXCEPT ![k] = @ + n]
    /\ UNCHANGED <<nc, len, hsd, slot, mem>>

AllRead == \A k \in Conns : k \in hsd /\ pos[k] = len[k]

\* @obligation C12.payload  everything read on k is a prefix of what k's initiator sent; all of it in the end
Isolation ==
    /\ \A k \in Conns : Len(got[k]) = pos[k] /\ got[k] = SubSeq(Pay(k), 1, pos[k])
    /\ AllRead => \A k \in Conns : got[k] = Pay(k)

IsoTypeOK == nc \in 1 .. MaxConns /\ hsd \subseteq Conns /\ \A k \in Conns : pos[k] \in 0 .. len[k]
=============================================================================
