SPECIFICATION MCSpec
CONSTANTS
  NP = 4
  NF = 3
  FO <- Geo4x3
  SYNC = TRUE
  WERR = "first"
  DESIGN = "safe"
INVARIANT Inv
CHECK_DEADLOCK FALSE
