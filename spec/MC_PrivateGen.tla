--------------------------- MODULE MC_PrivateGen ---------------------------
(* TLC as generator of message histories for the C19 driver: every sequence of at most MaxLen harness steps     *)
(* that is meaningful (a peer sends only after it has connected; one-shot steps occur once).                    *)
(* A step is <<do, peer, variant>>; the driver replays it against a real session.                               *)
EXTENDS Integers, Sequences, FiniteSets, TLC, Json

CONSTANT MaxLen
VARIABLE h

Peers == {"out", "man", "in1", "in2"}
S(d, p, k) == [do |-> d, peer |-> p, k |-> k]
\* life-cycle steps (Private!DoStop / DoStart / DoReload / DoGone): "stop" and "start" on their own, "restart" = Session.Close + NewSession
\* on the same database (the torrent is loaded from its resume record, started or stopped as it was), "remove" / "close" =
\* RemoveTorrent / Session.Close while the harness keeps the handle, "magnetrace" = Magnet() from several goroutines racing RemoveTorrent
Gone == {"remove", "close", "magnetrace"}
Steps ==
    {S("manual", "man", ""), S("in", "in1", ""), S("in", "in2", "")}
    \cup {S("pex", p, k) : p \in Peers, k \in {"a", "d", "ad"}}
    \cup {S("port", p, "") : p \in {"out", "in1"}}
    \cup {S("magnet", "", ""), S("announce", "", ""), S("stopstart", "", ""), S("addtracker", "", "")}
    \cup {S("stop", "", ""), S("start", "", ""), S("restart", "", "")}
    \cup {S(g, "", "") : g \in Gone}

Idx(q) == 1 .. Len(q)
Cut == {"stopstart", "stop", "start", "restart"}
LastStop(q) == IF \E i \in Idx(q) : q[i].do \in Cut THEN CHOOSE i \in Idx(q) : q[i].do \in Cut /\ \A j \in Idx(q) : q[j].do \in Cut => j <= i ELSE 0
\* the torrent is stopped after history q (a restart keeps it as it was)
Stopped(q) == \E i \in Idx(q) : q[i].do = "stop" /\ \A j \in Idx(q) : j > i => q[j].do \notin {"start", "stopstart"}
IsGone(q) == \E i \in Idx(q) : q[i].do \in Gone
\* peer p is connected after history q: "out" always (tracker), the others after their connecting step since the last stop/start
Connected(p, q) == p = "out" \/ \E i \in Idx(q) : i > LastStop(q) /\ q[i].peer = p /\ q[i].do \in {"manual", "in"}
Once(s, q) == ~\E i \in Idx(q) : q[i] = s
\* Magnet() may be called again in every new life-cycle state
MagnetFresh(q) == Len(q) > 0 /\ q[Len(q)].do # "magnet"

Enabled(s, q) ==
    CASE s.do = "magnet" -> Once(s, q) \/ (MagnetFresh(q) /\ (IsGone(q) \/ Stopped(q)))
      [] IsGone(q) -> FALSE
      [] s.do = "start" -> Stopped(q)
      [] s.do \in Gone \cup {"restart"} -> Once(s, q)
      [] Stopped(q) -> FALSE
      [] s.do \in {"manual", "in"} -> ~Connected(s.peer, q)
      [] s.do \in {"pex", "port"} -> Connected(s.peer, q) /\ Once(s, q)
      [] OTHER -> Once(s, q)

Init == h = <<>>
Next == Len(h) < MaxLen /\ \E s \in Steps : Enabled(s, h) /\ h' = Append(h, s)
Spec == Init /\ [][Next]_h

\* prints every non-empty history once (h is the whole state)
Emit == Len(h) = 0 \/ PrintT("@@" \o ToJson(h))
=============================================================================
