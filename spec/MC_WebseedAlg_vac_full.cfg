SPECIFICATION ASpec
CONSTANTS
  PL = 2
  FILES <- G_pad
  RB = 0
  RE = 3
  MAXCH = 2
  VARIANT = "fixed"
  IGNORE = {}
  MODES = {"206", "500", "terr", "200"}
  NSTOP = 1
  NCLOSE = 1
  NERR = 1
INVARIANT NeverFull
CHECK_DEADLOCK FALSE
