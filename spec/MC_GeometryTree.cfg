SPECIFICATION TreeSpec
CONSTANTS
  MaxTreeFiles = 2
INVARIANT ThmTree
CHECK_DEADLOCK FALSE
