------------------------------ MODULE LimitsSess ------------------------------
(***************************************************************************)
(* C17, session-level limits: the bounds that the scripted peers, web      *)
(* seeds and the loop snapshots (hook H1) must observe on a real Session.  *)
(* Each bound is justified by a small design model of the mechanism that   *)
(* enforces it (LimitsSessUQ / LimitsSessPL / LimitsSessWS, checked by TLC;*)
(* the write-cache budget is LimitsRM/LimitsRMProto, the token buckets are *)
(* juju/ratelimit and stated here as the window bound of the property).    *)
(*                                                                         *)
(*  @obligation C17.uploadq   per peer at most MaxRequestsIn piece         *)
(*      messages wait in the writer queue (+1 in the writer's hand):       *)
(*      of n requests sent at once, accepted <= cap + 1 + (pieces that     *)
(*      left the queue while the requests were being processed)            *)
(*  @obligation C17.pipeline  outstanding block requests per peer <=       *)
(*      min(reqq of the peer's extension handshake, else                   *)
(*      DefaultRequestsOut; MaxRequestsOut)                                *)
(*  @obligation C17.ram       piece buffers of a torrent (loop snapshot    *)
(*      downloads x piece length) <= WriteCacheSize; the session gauges    *)
(*      WriteCacheSize/Objects/PendingKeys never negative, size <= limit;  *)
(*      size = objects = 0 when every torrent is stopped                   *)
(*  @obligation C17.webseed.sources  len(webseedSources) <= WebseedMaxSources*)
(*  @obligation C17.webseed.active   0 <= webseedActiveDownloads <=        *)
(*      WebseedMaxDownloads and running web-seed downloads <= the cap at   *)
(*      every loop snapshot; requests in flight at the scripted web seeds  *)
(*      not above the cap for longer than a detection delay                *)
(*  @obligation C17.rate.<kind>  bytes in any window w <= rate*(w + 1 s)   *)
(*      + slack (stated per measurement point)                             *)
(*  @obligation C17.config.crash / .hang  no generated configuration       *)
(*      crashes the process or blocks a session call                       *)
(***************************************************************************)
EXTENDS Integers, FiniteSets, Sequences, TLC

Min2(a, b) == IF a < b THEN a ELSE b

\* ---- pipeline
PipelineLimit(reqq, defout, maxout) == Min2(IF reqq > 0 THEN reqq ELSE defout, maxout)

\* ---- upload queue
UploadQBound(cap, early) == cap + 1 + early

\* ---- write cache
RamSnapViol(limit, plen, downloads) ==
    IF downloads < 0 THEN "C17.ram.negative"
    ELSE IF downloads * plen > limit THEN "C17.ram.torrent"
    ELSE ""
RamStatsViol(limit, size, objects, pending) ==
    IF size < 0 \/ objects < 0 \/ pending < 0 THEN "C17.ram.negative"
    ELSE IF size > limit THEN "C17.ram.limit"
    ELSE ""
RamRestViol(size, objects) == IF size # 0 \/ objects # 0 THEN "C17.ram.balance" ELSE ""

\* ---- web seeds
WsSnapViol(capS, capD, sources, active, ranges) ==
    IF sources > capS THEN "C17.webseed.sources"
    ELSE IF active < 0 THEN "C17.webseed.active.negative"
    ELSE IF active > capD \/ ranges > capD THEN "C17.webseed.active"
    ELSE ""
WsHttpViol(overms) == IF overms >= 1500 THEN "C17.webseed.http" ELSE ""

\* ---- rate limits.  Allowance for a window of ms milliseconds (TLC integers are 32 bit: rate is taken per ms, rounded up)
RateAllow(rate, ms) == ((rate \div 1000) + 1) * (ms + 1000)
\* b[i] = bytes seen in the i-th step of `step` ms; every window of consecutive steps
RateOK(b, rate, step, slack) ==
    LET P[i \in 0 .. Len(b)] == IF i = 0 THEN 0 ELSE P[i - 1] + b[i]
    IN \A i \in 0 .. Len(b) : \A j \in i + 1 .. Len(b) :
          P[j] - P[i] <= RateAllow(rate, (j - i) * step) + slack
\* the same bound when the observer may lag: block k was requested at req[k] and arrived at arr[k] (ms, 0 = never), so it
\* was written inside every window [a, b] with a <= req[k] and arr[k] <= b
RateOKReq(req, arr, len, rate, slack) ==
    \A i \in 1 .. Len(req) : \A j \in 1 .. Len(arr) :
        (arr[j] > 0 /\ arr[j] >= req[i]) =>
            len * Cardinality({k \in 1 .. Len(req) : arr[k] > 0 /\ req[k] >= req[i] /\ arr[k] <= arr[j]})
                <= RateAllow(rate, arr[j] - req[i]) + slack
=============================================================================
