----------------------------- MODULE MC_Upload -----------------------------
(* Exhaustive configurations of Upload: both halves composed, every interleaving,   *)
(* bounded by the number of messages the leecher sends (NSEND) and the number of    *)
(* choke/unchoke decisions of the unchoker (NFLIP).                                 *)
EXTENDS Upload
CONSTANTS NP, PLEN, MAXBLK, MAXQ, CB, NCONN, IMPL, HAVE0, REQS, CANS, AFP, NSEND, NFLIP, NOPEN, GROW, AFSEND

VARIABLES nsend, nflip, nopen
mcvars == <<vars, nsend, nflip, nopen>>

MCInit ==
    /\ InitWith([np |-> NP, plen |-> PLEN, maxblk |-> MAXBLK, maxq |-> MAXQ, cb |-> CB, nconn |-> NCONN, impl |-> IMPL, afsend |-> AFSEND,
                 afcheck |-> "sent", shortread |-> "error", twophase |-> FALSE, bufs |-> "fresh"], HAVE0)
    /\ nsend = 0 /\ nflip = 0 /\ nopen = 0

ReqMsgs == {M("req", r[1], r[2], r[3], <<>>) : r \in REQS} \cup {M("cancel", r[1], r[2], r[3], <<>>) : r \in CANS}
CtlMsgs == {M("interested", 0, 0, 0, <<>>), M("notinterested", 0, 0, 0, <<>>)}

MCNext ==
    \/ /\ nopen < NOPEN
       /\ \E c \in Conn, f \in BOOLEAN, S \in SUBSET AFP : Open(c, f, S)
       /\ nopen' = nopen + 1 /\ UNCHANGED <<nsend, nflip>>
    \/ /\ nsend < NSEND
       /\ \E c \in Conn, m \in ReqMsgs \cup CtlMsgs : LSend(c, m)
       /\ nsend' = nsend + 1 /\ UNCHANGED <<nflip, nopen>>
    \/ /\ nflip < NFLIP
       /\ \E c \in Conn : RChoke(c) \/ RUnchoke(c)
       /\ nflip' = nflip + 1 /\ UNCHANGED <<nsend, nopen>>
    \/ /\ \E c \in Conn : RHandle(c) \/ RWrite(c) \/ LRecv(c) \/ LClose(c)
       /\ UNCHANGED <<nsend, nflip, nopen>>
    \/ /\ \E key \in DOMAIN cache : Evict(key)
       /\ UNCHANGED <<nsend, nflip, nopen>>
    \/ /\ GROW /\ \E p \in Piece : Verified(p)
       /\ UNCHANGED <<nsend, nflip, nopen>>

MCSpec == MCInit /\ [][MCNext]_mcvars

\* values for the configuration files (tuples cannot be written in a .cfg)
PLEN_43 == <<4, 3>>
PLEN_4  == <<4>>
PLEN_53 == <<5, 3>>
\* request classes: crossing a cache block (CB = 2), unaligned, out of bounds, empty, longer than MAXBLK,
\* piece not held, index out of range
REQS_A == {<<0,1,2>>, <<0,1,3>>, <<0,3,2>>, <<0,0,0>>, <<0,0,4>>, <<1,0,2>>, <<2,0,1>>}
NONE == {}
REQS_Q == {<<0,1,2>>, <<0,1,3>>}
REQS_1 == {<<0,1,2>>}
REQS_B == {<<0,1,2>>, <<0,0,2>>}
REQS_C == {<<0,1,3>>, <<0,2,3>>, <<1,0,3>>, <<1,1,3>>, <<0,4,2>>}
\* the allowed-fast piece that is obtained after the connection was opened, and a piece held from the start (small twins
\* MC_Upload_growq / MC_Upload_afheld of the quick tier)
REQS_G == {<<1,0,3>>, <<0,1,3>>}

\* vacuity guards (checked with -coverage during development, and as "must be reachable" configs)
SomeServed == \E c \in Conn : served[c] # {}
=============================================================================
