SPECIFICATION GenSpec
CHECK_DEADLOCK FALSE
