---------------------------- MODULE Trace_Resume ----------------------------
(***************************************************************************)
(* Judges crash/restart histories recorded from a real torrent.Session on  *)
(* real file storage and a real bbolt database (harness/c05) against the   *)
(* obligations of Resume.tla (property C05).                               *)
(*                                                                         *)
(* The shadow state is the state of Resume: disk / exist / dbKnown / dbBit *)
(* are bound to what the parent process read from the data files and from  *)
(* the database file after every SIGKILL, memKnown / memBit to the loop    *)
(* snapshots of the running client, wr to the storage writes it reported.  *)
(* Extra bookkeeping: nosync (files opened without O_SYNC in this process  *)
(* life), seen (bitfield values some database update of this life may have *)
(* written), rmiss (files missing when this life started), recr (files     *)
(* that were created again and have not been re-checked since), vdone,     *)
(* obsw (storage writes of this life are observed).                        *)
(* A failed obligation does not block: it is printed (@@VIOL tag line).    *)
(***************************************************************************)
EXTENDS Resume, Json

VARIABLES l, nosync, seen, rmiss, recr, vdone, obsw
tvars == <<vars, l, nosync, seen, rmiss, recr, vdone, obsw>>

Trace == ndJsonDeserialize("trace.ndjson")
Ev == Trace[l]
SetOf(q) == {q[i] : i \in 1 .. Len(q)}
Note(v) == IF v = "" THEN TRUE ELSE PrintT("@@VIOL " \o v \o " " \o ToString(l))

CfgOf(e) == [np |-> e.np, nf |-> e.nf, fo |-> [p \in 0 .. (e.np - 1) |-> SetOf(e.fo[p + 1])], sync |-> TRUE, design |-> "observed"]
ClassOf(e) == [p \in Piece |-> e.class[p + 1]]
ExistOf(e) == [f \in File |-> e.exist[f + 1]]
Val(k, b) == [known |-> k, bits |-> b]
GoodSet(d) == {p \in Piece : d[p] = "good"}

TraceInit ==
    /\ l = 2 /\ Trace[1].ev = "init" /\ InitWith(CfgOf(Trace[1]))
    /\ nosync = {} /\ seen = {} /\ rmiss = {} /\ recr = {} /\ vdone = FALSE /\ obsw = TRUE
    /\ TLCSet(1, 1)

TrReset ==
    /\ Ev.ev = "init" /\ ResetWith(CfgOf(Ev))
    /\ nosync' = {} /\ seen' = {} /\ rmiss' = {} /\ recr' = {} /\ vdone' = FALSE /\ obsw' = TRUE /\ l' = l + 1

\* a process life begins: the record is loaded (Restart of Resume)
TrUp ==
    /\ Ev.ev = "up" /\ Restart
    /\ nosync' = {} /\ vdone' = FALSE /\ obsw' = Ev.wrap
    /\ rmiss' = {f \in File : ~exist[f]}
    \* values a database update of this life may write before the first snapshot is seen: what was loaded, the
    \* outcome of a verification of the files as they are, and - when files are missing - "unknown" and "empty"
    /\ seen' = {Val(dbKnown, dbBit), Val(TRUE, GoodSet(disk))}
                 \cup (IF \E f \in File : ~exist[f] THEN {Val(FALSE, {}), Val(TRUE, {})} ELSE {})
                 \cup (IF Ev.fresh THEN {Val(FALSE, {})} ELSE {})
    /\ l' = l + 1 /\ UNCHANGED recr

\* storage.Open returned (binding: the file existed iff the parent saw it on disk)
TrOpen ==
    /\ Ev.ev = "open" /\ Ev.existed = exist[Ev.f]
    /\ exist' = [exist EXCEPT ![Ev.f] = TRUE]
    /\ almiss' = (almiss \/ ~Ev.existed) /\ alexist' = (alexist \/ Ev.existed)
    /\ nosync' = IF Ev.sync THEN nosync ELSE nosync \cup {Ev.f}
    /\ l' = l + 1
    /\ UNCHANGED <<cfg, disk, dirty, phase, aidx, wr, memKnown, memBit, dbKnown, dbBit, txn, seen, rmiss, recr, vdone, obsw>>

\* open flags of a data file seen in /proc/self/fdinfo (default storage provider)
TrOsync ==
    /\ Ev.ev = "osync"
    /\ nosync' = IF Ev.sync THEN nosync ELSE nosync \cup {Ev.f}
    /\ l' = l + 1 /\ UNCHANGED <<vars, seen, rmiss, recr, vdone, obsw>>

SyncPiece(p) == cfg.fo[p] \cap nosync = {}

TrWBegin ==
    /\ Ev.ev = "wbegin"
    /\ wr' = [wr EXCEPT ![Ev.p] = "writing"]
    /\ disk' = [disk EXCEPT ![Ev.p] = "partial"] /\ dirty' = dirty \ {Ev.p}
    /\ l' = l + 1
    /\ UNCHANGED <<cfg, exist, phase, aidx, almiss, alexist, memKnown, memBit, dbKnown, dbBit, txn, nosync, seen, rmiss, recr, vdone, obsw>>

\* @obligation C05.osync  a write that returned is durable only through an O_SYNC handle
TrWEnd ==
    /\ Ev.ev = "wend"
    /\ wr' = [wr EXCEPT ![Ev.p] = IF Ev.ok THEN "written" ELSE "idle"]
    /\ IF Ev.ok /\ SyncPiece(Ev.p) THEN disk' = [disk EXCEPT ![Ev.p] = "good"] /\ UNCHANGED dirty
       ELSE IF Ev.ok THEN dirty' = dirty \cup {Ev.p} /\ UNCHANGED disk
       ELSE UNCHANGED <<disk, dirty>>
    /\ l' = l + 1
    /\ UNCHANGED <<cfg, exist, phase, aidx, almiss, alexist, memKnown, memBit, dbKnown, dbBit, txn, nosync, seen, rmiss, recr, vdone, obsw>>

\* loop snapshot: the in-memory bitfield changed
TrMem ==
    /\ Ev.ev = "mem"
    /\ memKnown' = Ev.known /\ memBit' = SetOf(Ev.have)
    /\ wr' = [p \in Piece |-> IF p \in SetOf(Ev.have) /\ wr[p] = "written" THEN "idle" ELSE wr[p]]
    /\ seen' = seen \cup {Val(Ev.known, SetOf(Ev.have))}
    /\ l' = l + 1
    /\ UNCHANGED <<cfg, disk, dirty, exist, phase, aidx, almiss, alexist, dbKnown, dbBit, txn, nosync, rmiss, recr, vdone, obsw>>

TrCmd ==          \* Torrent.Verify() deletes the stored bitfield first
    /\ Ev.ev = "cmd"
    /\ seen' = IF Ev.op = "verify" THEN seen \cup {Val(FALSE, {})} ELSE seen
    /\ l' = l + 1 /\ UNCHANGED <<vars, nosync, rmiss, recr, vdone, obsw>>

\* @obligation C05.missing  files missing at the start are re-checked or re-downloaded, not trusted
\* @obligation C05.ahead    pieces treated as downloaded after a restart have their complete content in the files
TrSettled ==      \* allocation / verification of a restarted client settled: the pieces it treats as downloaded
    /\ Ev.ev = "settled"
    /\ LET hv == IF Ev.known THEN SetOf(Ev.have) ELSE {}
           cls == ClassOf(Ev)       \* content of the files read by the parent at this moment
           bad == {p \in hv : cls[p] # "good"}
       IN Note(IF \E p \in bad : cfg.fo[p] \cap rmiss # {} THEN "C05.missing"
               ELSE IF \E p \in bad : cfg.fo[p] \cap recr # {} THEN "C05.missing.recreated"
               ELSE IF bad # {} THEN "C05.ahead"
               ELSE IF hv \cap dirty # {} THEN "C05.osync"
               ELSE "")
    /\ phase' = "run" /\ vdone' = Ev.verified /\ disk' = ClassOf(Ev) /\ exist' = ExistOf(Ev)
    /\ l' = l + 1
    /\ UNCHANGED <<cfg, dirty, aidx, almiss, alexist, wr, memKnown, memBit, dbKnown, dbBit, txn, nosync, seen, rmiss, recr, obsw>>

TrStats ==
    /\ Ev.ev = "stats"
    /\ Note(IF Ev.have > Ev.nmem THEN "C05.ahead.stats" ELSE "")
    /\ l' = l + 1 /\ UNCHANGED <<vars, nosync, seen, rmiss, recr, vdone, obsw>>

\* @obligation C05.reopen  the database reopens and the torrent loads after a kill at any point
TrReopenFail ==
    /\ Ev.ev = "reopenfail"
    /\ Note("C05.reopen")
    /\ l' = l + 1 /\ UNCHANGED <<vars, nosync, seen, rmiss, recr, vdone, obsw>>

\* the database value found after the kill was written by some update of this life (or is the loaded one)
Explained(v) ==
    \/ v \in seen
    \/ memKnown /\ v.known /\ memBit \subseteq v.bits /\ v.bits \subseteq memBit \cup {p \in Piece : wr[p] = "written"}
    \* default storage provider (writes not observed): the loop sets one bit per handled event before its snapshot is seen
    \/ ~obsw /\ memKnown /\ v.known /\ memBit \subseteq v.bits /\ Cardinality(v.bits \ memBit) <= 1

\* @obligation C05.db  the bitfield in the database file never claims a piece whose content is not in the files
\* @obligation C05.reopen.state  ... and is a state produced by some completed update
TrCrash ==        \* SIGKILL (or graceful close): what the parent found in the database file and in the data files
    /\ Ev.ev = "crash"
    /\ LET cls == ClassOf(Ev)
           ex  == ExistOf(Ev)
           v   == Val(Ev.dbknown, SetOf(Ev.db))
           \* files created again in this life although the loaded record claimed pieces in them, not re-checked since
           rc  == IF vdone THEN {} ELSE recr \cup {f \in rmiss : ex[f] /\ dbKnown /\ PiecesOf({f}) \cap dbBit # {}}
           bad == IF v.known THEN {p \in v.bits : ~Claimable(cls, ex, cfg.fo, p)} ELSE {}
       IN /\ Note(IF ~Ev.reopen THEN "C05.reopen"
                  ELSE IF \E p \in bad : cfg.fo[p] \cap rc # {} THEN "C05.db.recreated"
                  ELSE IF bad # {} THEN "C05.db"
                  ELSE IF v.known /\ v.bits \cap dirty # {} THEN "C05.osync"
                  ELSE IF ~Explained(v) THEN "C05.reopen.state"
                  ELSE "")
          /\ disk' = cls /\ exist' = ex /\ dbKnown' = v.known /\ dbBit' = v.bits /\ recr' = rc
    /\ phase' = "down" /\ memKnown' = FALSE /\ memBit' = {} /\ aidx' = 0 /\ almiss' = FALSE /\ alexist' = FALSE
    /\ wr' = [p \in Piece |-> "idle"] /\ txn' = NoTxn
    /\ l' = l + 1
    /\ UNCHANGED <<cfg, dirty, nosync, seen, rmiss, vdone, obsw>>

TrDelete ==       \* data files removed while the client is down (DeleteFiles of Resume, content as observed)
    /\ Ev.ev = "delete" /\ phase = "down"
    /\ disk' = ClassOf(Ev) /\ exist' = ExistOf(Ev)
    /\ l' = l + 1
    /\ UNCHANGED <<cfg, dirty, phase, aidx, almiss, alexist, wr, memKnown, memBit, dbKnown, dbBit, txn, nosync, seen, rmiss, recr, vdone, obsw>>

TrPlant ==        \* data files that exist before the torrent is added (stale / partial / truncated / good copies)
    /\ Ev.ev = "plant" /\ phase = "down"
    /\ disk' = ClassOf(Ev) /\ exist' = ExistOf(Ev)
    /\ l' = l + 1
    /\ UNCHANGED <<cfg, dirty, phase, aidx, almiss, alexist, wr, memKnown, memBit, dbKnown, dbBit, txn, nosync, seen, rmiss, recr, vdone, obsw>>

TraceNext ==
    /\ l <= Len(Trace)
    /\ \/ TrReset \/ TrUp \/ TrOpen \/ TrOsync \/ TrWBegin \/ TrWEnd \/ TrMem \/ TrCmd \/ TrSettled \/ TrStats
       \/ TrReopenFail \/ TrCrash \/ TrDelete \/ TrPlant

TraceSpec == TraceInit /\ [][TraceNext]_tvars

HighWater == TLCSet(1, IF l > TLCGet(1) THEN l ELSE TLCGet(1))
TraceAccepted ==
    LET hw == TLCGet(1) IN
    IF hw = Len(Trace) + 1 THEN TRUE
    ELSE /\ PrintT("@@REJECT " \o ToString(hw - 1) \o " " \o ToString(Len(Trace)))
         /\ FALSE
=============================================================================
