---------------------------- MODULE Trace_Resume ----------------------------
(***************************************************************************)
(* Judges crash/restart histories recorded from a real torrent.Session on  *)
(* real file storage and a real bbolt database (harness/c05) against the   *)
(* obligations of Resume.tla (property C05).                               *)
(*                                                                         *)
(* The shadow state is the state of Resume: disk / exist / dbKnown / dbBit *)
(* are bound to what the parent process read from the data files and from  *)
(* the database file after every SIGKILL, memKnown / memBit to the loop    *)
(* snapshots of the running client, wr to the storage writes it reported.  *)
(* Extra bookkeeping: nosync (files opened without O_SYNC in this process  *)
(* life), seen (bitfield values some database update of this life may have *)
(* written), rmiss (files missing when this life started), recr (files     *)
(* that were created again and have not been re-checked since), vdone,     *)
(* obsw (storage writes of this life are observed).                        *)
(* A failed obligation does not block: it is printed (@@VIOL tag line).    *)
(*                                                                         *)
(* History families beyond kill/delete/restart of one torrent:             *)
(*  - write faults: "wend" with ok = FALSE ends the write of a piece at    *)
(*    one of its file sections (WriteFail of Resume); nothing else is      *)
(*    special - the judgement is C05.db / C05.ahead as ever;               *)
(*  - several torrents in one session: one trace per torrent; "dbsnap" is  *)
(*    a consistent copy of the database taken while the client runs (what  *)
(*    a process death at that tick leaves behind - judged like a crash,    *)
(*    the life goes on), "rewind" restarts from such a copy;               *)
(*  - move into the session: "up" with mode "movein" (no torrent is added  *)
(*    by the client), "movereq" carries the bitfield the source sends,     *)
(*    "absent" = the torrent never got a record (nothing is claimed);      *)
(*  - re-add over an unloadable record: "damage" (the record cannot be     *)
(*    loaded any more, the bucket stays), "up" with mode "readd" (the      *)
(*    torrent is added again under the same ID: the record is new);        *)
(*  - data files owned by another user: "chown" after "plant"; the client  *)
(*    runs unprivileged; "allocfail" = it refused the file, otherwise the  *)
(*    "open" event carries the O_SYNC flag of the handle it got.           *)
(***************************************************************************)
EXTENDS Resume, Json

VARIABLES l, seen, rmiss, recr, vdone, obsw
tvars == <<vars, l, seen, rmiss, recr, vdone, obsw>>

Trace == ndJsonDeserialize("trace.ndjson")
Ev == Trace[l]
SetOf(q) == {q[i] : i \in 1 .. Len(q)}
Note(v) == IF v = "" THEN TRUE ELSE PrintT("@@VIOL " \o v \o " " \o ToString(l))

CfgOf(e) == [np |-> e.np, nf |-> e.nf, fo |-> [p \in 0 .. (e.np - 1) |-> SetOf(e.fo[p + 1])], sync |-> TRUE, design |-> "observed", werr |-> "observed",
            env |-> TRUE, onforeign |-> "observed", readd |-> "observed"]
ClassOf(e) == [p \in Piece |-> e.class[p + 1]]
ExistOf(e) == [f \in File |-> e.exist[f + 1]]
Val(k, b) == [known |-> k, bits |-> b]
GoodSet(d) == {p \in Piece : d[p] = "good"}

TraceInit ==
    /\ l = 2 /\ Trace[1].ev = "init" /\ InitWith(CfgOf(Trace[1]))
    /\ seen = {} /\ rmiss = {} /\ recr = {} /\ vdone = FALSE /\ obsw = TRUE
    /\ TLCSet(1, 1)

TrReset ==
    /\ Ev.ev = "init" /\ ResetWith(CfgOf(Ev))
    /\ seen' = {} /\ rmiss' = {} /\ recr' = {} /\ vdone' = FALSE /\ obsw' = TRUE /\ l' = l + 1

\* a process life begins: the record is loaded (Restart of Resume)
TrUp ==
    /\ Ev.ev = "up" /\ Ev.mode # "readd" /\ Restart
    /\ vdone' = FALSE /\ obsw' = Ev.wrap
    \* (a torrent that is moved in brings its files along: none of them counts as "missing at the start")
    /\ rmiss' = IF Ev.mode = "movein" THEN {} ELSE {f \in File : ~exist[f]}
    \* values a database update of this life may write before the first snapshot is seen: what was loaded, the
    \* outcome of a verification of the files as they are, and - when files are missing - "unknown" and "empty"
    /\ seen' = {Val(dbKnown, dbBit), Val(TRUE, GoodSet(disk))}
                 \cup (IF \E f \in File : ~exist[f] THEN {Val(FALSE, {}), Val(TRUE, {})} ELSE {})
                 \cup (IF Ev.fresh THEN {Val(FALSE, {})} ELSE {})
    /\ l' = l + 1 /\ UNCHANGED recr

\* the session came up WITHOUT the torrent (its record is unloadable, the bucket is kept) and the torrent is added again
\* under the same ID (ReAdd of Resume): the add writes a whole new record - no bitfield; what is found in the database
\* after this life is judged against that (C05.db / C05.reopen.state at the crash, C05.ahead after the next start)
TrReAdd ==
    /\ Ev.ev = "up" /\ Ev.mode = "readd" /\ phase = "down" /\ ~recok
    /\ recok' = TRUE /\ phase' = "alloc" /\ aidx' = 0 /\ almiss' = FALSE /\ alexist' = FALSE
    /\ memKnown' = FALSE /\ memBit' = {} /\ nosync' = {} /\ dbKnown' = FALSE /\ dbBit' = {}
    /\ vdone' = FALSE /\ obsw' = Ev.wrap
    /\ rmiss' = {f \in File : ~exist[f]}
    /\ seen' = {Val(FALSE, {}), Val(TRUE, {}), Val(TRUE, GoodSet(disk))}
    /\ l' = l + 1
    /\ UNCHANGED <<cfg, foreignf, disk, dirty, exist, wr, sec, wok, txn, recr>>

\* the record of the torrent was made unloadable while the client was down (Damage of Resume)
TrDamage ==
    /\ Ev.ev = "damage" /\ phase = "down" /\ recok
    /\ recok' = FALSE
    /\ l' = l + 1
    /\ UNCHANGED <<cfg, nosync, foreignf, disk, dirty, exist, phase, aidx, almiss, alexist, wr, sec, wok, memKnown, memBit, dbKnown, dbBit, txn, seen, rmiss, recr, vdone, obsw>>

\* existing data files belong to another user (PlantForeign of Resume; content and existence come with "plant")
TrChown ==
    /\ Ev.ev = "chown" /\ phase = "down"
    /\ foreignf' = {f \in SetOf(Ev.files) : exist[f]}
    /\ l' = l + 1
    /\ UNCHANGED <<cfg, nosync, recok, disk, dirty, exist, phase, aidx, almiss, alexist, wr, sec, wok, memKnown, memBit, dbKnown, dbBit, txn, seen, rmiss, recr, vdone, obsw>>

\* the client refused a data file (allocation error, the torrent is stopped): AllocRefuse of Resume - nothing is claimed
TrAllocFail ==
    /\ Ev.ev = "allocfail" /\ Up
    /\ phase' = "stopped"
    /\ l' = l + 1
    /\ UNCHANGED <<cfg, nosync, recok, foreignf, disk, dirty, exist, aidx, almiss, alexist, wr, sec, wok, memKnown, memBit, dbKnown, dbBit, txn, seen, rmiss, recr, vdone, obsw>>

\* storage.Open returned (binding: the file existed iff the parent saw it on disk)
TrOpen ==
    /\ Ev.ev = "open" /\ Ev.existed = exist[Ev.f]
    /\ exist' = [exist EXCEPT ![Ev.f] = TRUE]
    /\ almiss' = (almiss \/ ~Ev.existed) /\ alexist' = (alexist \/ Ev.existed)
    /\ nosync' = IF Ev.sync THEN nosync ELSE nosync \cup {Ev.f}
    /\ l' = l + 1
    /\ UNCHANGED <<cfg, recok, foreignf, disk, dirty, phase, aidx, wr, sec, wok, memKnown, memBit, dbKnown, dbBit, txn, seen, rmiss, recr, vdone, obsw>>

\* open flags of a data file seen in /proc/self/fdinfo (default storage provider)
TrOsync ==
    /\ Ev.ev = "osync"
    /\ nosync' = IF Ev.sync THEN nosync ELSE nosync \cup {Ev.f}
    /\ l' = l + 1
    /\ UNCHANGED <<cfg, recok, foreignf, disk, dirty, exist, phase, aidx, almiss, alexist, wr, sec, wok, memKnown, memBit, dbKnown, dbBit, txn, seen, rmiss, recr, vdone, obsw>>

SyncPiece(p) == cfg.fo[p] \cap nosync = {}

TrWBegin ==
    /\ Ev.ev = "wbegin"
    /\ wr' = [wr EXCEPT ![Ev.p] = "writing"] /\ UNCHANGED <<sec, wok>>
    /\ disk' = [disk EXCEPT ![Ev.p] = "partial"] /\ dirty' = dirty \ {Ev.p}
    /\ l' = l + 1
    /\ UNCHANGED <<cfg, recok, foreignf, exist, phase, aidx, almiss, alexist, memKnown, memBit, dbKnown, dbBit, txn, nosync, seen, rmiss, recr, vdone, obsw>>

\* @obligation C05.osync  a write that returned is durable only through an O_SYNC handle
TrWEnd ==
    /\ Ev.ev = "wend"
    /\ wr' = [wr EXCEPT ![Ev.p] = IF Ev.ok THEN "written" ELSE "idle"] /\ UNCHANGED <<sec, wok>>    \* (not ok: WriteFail + FailHandled)
    /\ IF Ev.ok /\ SyncPiece(Ev.p) THEN disk' = [disk EXCEPT ![Ev.p] = "good"] /\ UNCHANGED dirty
       ELSE IF Ev.ok THEN dirty' = dirty \cup {Ev.p} /\ UNCHANGED disk
       ELSE UNCHANGED <<disk, dirty>>
    /\ l' = l + 1
    /\ UNCHANGED <<cfg, recok, foreignf, exist, phase, aidx, almiss, alexist, memKnown, memBit, dbKnown, dbBit, txn, nosync, seen, rmiss, recr, vdone, obsw>>

\* loop snapshot: the in-memory bitfield changed
TrMem ==
    /\ Ev.ev = "mem"
    /\ memKnown' = Ev.known /\ memBit' = SetOf(Ev.have)
    /\ wr' = [p \in Piece |-> IF p \in SetOf(Ev.have) /\ wr[p] = "written" THEN "idle" ELSE wr[p]] /\ UNCHANGED <<sec, wok>>
    /\ seen' = seen \cup {Val(Ev.known, SetOf(Ev.have))}
    /\ l' = l + 1
    /\ UNCHANGED <<cfg, recok, foreignf, disk, dirty, exist, phase, aidx, almiss, alexist, dbKnown, dbBit, txn, nosync, rmiss, recr, vdone, obsw>>

TrCmd ==          \* Torrent.Verify() deletes the stored bitfield first
    /\ Ev.ev = "cmd"
    /\ seen' = IF Ev.op = "verify" THEN seen \cup {Val(FALSE, {})} ELSE seen
    /\ l' = l + 1 /\ UNCHANGED <<vars, nosync, rmiss, recr, vdone, obsw>>

\* @obligation C05.missing  files missing at the start are re-checked or re-downloaded, not trusted
\* @obligation C05.ahead    pieces treated as downloaded after a restart have their complete content in the files
TrSettled ==      \* allocation / verification of a restarted client settled: the pieces it treats as downloaded
    /\ Ev.ev = "settled"
    /\ LET hv == IF Ev.known THEN SetOf(Ev.have) ELSE {}
           cls == ClassOf(Ev)       \* content of the files read by the parent at this moment
           bad == {p \in hv : cls[p] # "good"}
       IN Note(IF \E p \in bad : cfg.fo[p] \cap rmiss # {} THEN "C05.missing"
               ELSE IF \E p \in bad : cfg.fo[p] \cap recr # {} THEN "C05.missing.recreated"
               ELSE IF bad # {} THEN "C05.ahead"
               ELSE IF hv \cap dirty # {} THEN "C05.osync"
               ELSE "")
    /\ phase' = "run" /\ vdone' = Ev.verified /\ disk' = ClassOf(Ev) /\ exist' = ExistOf(Ev)
    /\ l' = l + 1
    /\ UNCHANGED <<cfg, recok, foreignf, dirty, aidx, almiss, alexist, wr, sec, wok, memKnown, memBit, dbKnown, dbBit, txn, nosync, seen, rmiss, recr, obsw>>

TrStats ==
    /\ Ev.ev = "stats"
    /\ Note(IF Ev.have > Ev.nmem THEN "C05.ahead.stats" ELSE "")
    /\ l' = l + 1 /\ UNCHANGED <<vars, nosync, seen, rmiss, recr, vdone, obsw>>

\* @obligation C05.reopen  the database reopens and the torrent loads after a kill at any point
TrReopenFail ==
    /\ Ev.ev = "reopenfail"
    /\ Note("C05.reopen")
    /\ l' = l + 1 /\ UNCHANGED <<vars, nosync, seen, rmiss, recr, vdone, obsw>>

\* the database value found after the kill was written by some update of this life (or is the loaded one)
Explained(v) ==
    \/ v \in seen
    \/ memKnown /\ v.known /\ memBit \subseteq v.bits /\ v.bits \subseteq memBit \cup {p \in Piece : wr[p] = "written"}
    \* default storage provider (writes not observed): the loop sets one bit per handled event before its snapshot is seen
    \/ ~obsw /\ memKnown /\ v.known /\ memBit \subseteq v.bits /\ Cardinality(v.bits \ memBit) <= 1

\* @obligation C05.db  the bitfield in the database file never claims a piece whose content is not in the files
\* @obligation C05.reopen.state  ... and is a state produced by some completed update
TrCrash ==        \* SIGKILL (or graceful close): what the parent found in the database file and in the data files
    /\ Ev.ev = "crash"
    /\ LET cls == ClassOf(Ev)
           ex  == ExistOf(Ev)
           v   == Val(Ev.dbknown, SetOf(Ev.db))
           \* files created again in this life although the loaded record claimed pieces in them, not re-checked since
           rc  == IF vdone THEN {} ELSE recr \cup {f \in rmiss : ex[f] /\ dbKnown /\ PiecesOf({f}) \cap dbBit # {}}
           bad == IF v.known THEN {p \in v.bits : ~Claimable(cls, ex, cfg.fo, p)} ELSE {}
       IN /\ Note(IF ~Ev.reopen THEN "C05.reopen"
                  ELSE IF \E p \in bad : cfg.fo[p] \cap rc # {} THEN "C05.db.recreated"
                  ELSE IF bad # {} THEN "C05.db"
                  ELSE IF v.known /\ v.bits \cap dirty # {} THEN "C05.osync"
                  ELSE IF ~Explained(v) THEN "C05.reopen.state"
                  ELSE "")
          /\ disk' = cls /\ exist' = ex /\ dbKnown' = v.known /\ dbBit' = v.bits /\ recr' = rc
    /\ phase' = "down" /\ memKnown' = FALSE /\ memBit' = {} /\ aidx' = 0 /\ almiss' = FALSE /\ alexist' = FALSE
    /\ wr' = [p \in Piece |-> "idle"] /\ txn' = NoTxn /\ UNCHANGED <<sec, wok>>
    /\ l' = l + 1
    /\ UNCHANGED <<cfg, recok, foreignf, dirty, nosync, seen, rmiss, vdone, obsw>>

\* the same judgement on a consistent copy of the database taken at a tick of the running client (the data files were read
\* after the copy was taken; content only accumulates in these lives): every tick is a crash instant
TrDbSnap ==
    /\ Ev.ev = "dbsnap"
    /\ LET cls == ClassOf(Ev)
           ex  == ExistOf(Ev)
           v   == Val(Ev.dbknown, SetOf(Ev.db))
           rc  == IF vdone THEN {} ELSE recr \cup {f \in rmiss : ex[f] /\ dbKnown /\ PiecesOf({f}) \cap dbBit # {}}
           bad == IF v.known THEN {p \in v.bits : ~Claimable(cls, ex, cfg.fo, p)} ELSE {}
       IN /\ Note(IF ~Ev.reopen THEN "C05.reopen"
                  ELSE IF \E p \in bad : cfg.fo[p] \cap rc # {} THEN "C05.db.recreated"
                  ELSE IF bad # {} THEN "C05.db"
                  ELSE IF ~Explained(v) THEN "C05.reopen.state"
                  ELSE "")
          /\ disk' = cls /\ exist' = ex
    /\ l' = l + 1
    /\ UNCHANGED <<cfg, recok, foreignf, dirty, phase, aidx, almiss, alexist, wr, sec, wok, memKnown, memBit, dbKnown, dbBit, txn, nosync, seen, rmiss, recr, vdone, obsw>>

\* the process died at the tick of an earlier copy instead: the database file is that copy now
TrRewind ==
    /\ Ev.ev = "rewind" /\ phase = "down"
    /\ Note(IF ~Ev.reopen THEN "C05.reopen" ELSE "")
    /\ dbKnown' = Ev.dbknown /\ dbBit' = SetOf(Ev.db) /\ disk' = ClassOf(Ev) /\ exist' = ExistOf(Ev)
    /\ l' = l + 1
    /\ UNCHANGED <<cfg, recok, foreignf, dirty, phase, aidx, almiss, alexist, wr, sec, wok, memKnown, memBit, txn, nosync, seen, rmiss, recr, vdone, obsw>>

\* POST /move-torrent arrives: the record of the source (its bitfield) is what the handler may write
TrMoveReq ==
    /\ Ev.ev = "movereq"
    /\ seen' = seen \cup {Val(TRUE, SetOf(Ev.have))}
    /\ l' = l + 1 /\ UNCHANGED <<vars, nosync, rmiss, recr, vdone, obsw>>

TrMoveRes ==      \* answer of the target (200 / error / connection lost): information only
    /\ Ev.ev = "moveres"
    /\ l' = l + 1 /\ UNCHANGED <<vars, nosync, seen, rmiss, recr, vdone, obsw>>

TrAbsent ==       \* the session came up without the torrent and no record of it ever existed: nothing is claimed
    /\ Ev.ev = "absent"
    /\ l' = l + 1 /\ UNCHANGED <<vars, nosync, seen, rmiss, recr, vdone, obsw>>

TrDelete ==       \* data files removed while the client is down (DeleteFiles of Resume, content as observed)
    /\ Ev.ev = "delete" /\ phase = "down"
    /\ disk' = ClassOf(Ev) /\ exist' = ExistOf(Ev)
    /\ l' = l + 1
    /\ UNCHANGED <<cfg, recok, foreignf, dirty, phase, aidx, almiss, alexist, wr, sec, wok, memKnown, memBit, dbKnown, dbBit, txn, nosync, seen, rmiss, recr, vdone, obsw>>

TrPlant ==        \* data files that exist before the torrent is added (stale / partial / truncated / good copies)
    /\ Ev.ev = "plant" /\ phase = "down"
    /\ disk' = ClassOf(Ev) /\ exist' = ExistOf(Ev)
    /\ l' = l + 1
    /\ UNCHANGED <<cfg, recok, foreignf, dirty, phase, aidx, almiss, alexist, wr, sec, wok, memKnown, memBit, dbKnown, dbBit, txn, nosync, seen, rmiss, recr, vdone, obsw>>

TraceNext ==
    /\ l <= Len(Trace)
    /\ \/ TrReset \/ TrUp \/ TrOpen \/ TrOsync \/ TrWBegin \/ TrWEnd \/ TrMem \/ TrCmd \/ TrSettled \/ TrStats
       \/ TrReopenFail \/ TrCrash \/ TrDelete \/ TrPlant
       \/ TrDbSnap \/ TrRewind \/ TrMoveReq \/ TrMoveRes \/ TrAbsent
       \/ TrReAdd \/ TrDamage \/ TrChown \/ TrAllocFail

TraceSpec == TraceInit /\ [][TraceNext]_tvars

HighWater == TLCSet(1, IF l > TLCGet(1) THEN l ELSE TLCGet(1))
TraceAccepted ==
    LET hw == TLCGet(1) IN
    IF hw = Len(Trace) + 1 THEN TRUE
    ELSE /\ PrintT("@@REJECT " \o ToString(hw - 1) \o " " \o ToString(Len(Trace)))
         /\ FALSE
=============================================================================
