SPECIFICATION MCSpec
CONSTANTS
  U = 2
  RANGE = {1, 2}
  FIX = {}
  MAXF = 0
  FAULTS = {}
  BINITS = {"empty"}
  RUNS = {TRUE}
  DIRTYS = {TRUE}
  DSTS = {"B"}
  FINAL = FALSE
INVARIANT TypeOK
INVARIANT TargetBitfield
CHECK_DEADLOCK FALSE
