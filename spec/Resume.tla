------------------------------- MODULE Resume -------------------------------
(***************************************************************************)
(* Crash-consistent resume (property C05).                                 *)
(*                                                                         *)
(* What is durable: the content class of every piece in the data files     *)
(* (disk), which data files exist (exist), and the resume bitfield in the  *)
(* database (dbKnown/dbBit).  What dies with the process: the in-memory    *)
(* bitfield (memKnown/memBit), the piece writers (wr), an open database    *)
(* transaction (txn: wholly applied or not at all) and - if a data file is *)
(* not opened O_SYNC - the written but not yet durable content (dirty).    *)
(*                                                                         *)
(* One action per step of the code:                                        *)
(*   WriteBegin/WriteSec/WriteEnd/WriteFail/FailHandled                    *)
(*                         piecewriter.Run -> piece.Data.Write: one        *)
(*                         storage write per FILE SECTION of the piece     *)
(*                         (filesection.Piece.Write); any of them may fail *)
(*                         (I/O error): cfg.werr = "first" - the write of  *)
(*                         the piece ends with the error of the first      *)
(*                         failing section (the code), "last" - only the   *)
(*                         result of the last section is reported (a       *)
(*                         design that is EXPECTED to fail: sensitivity of *)
(*                         the obligations to the fault actions);          *)
(*                         torrent_write.go: an error stops the torrent,   *)
(*                         the piece is not marked                         *)
(*   SetBit                torrent_write.go handlePieceWriteDone           *)
(*   PersistBegin/Commit   session_stats.go updateStats (periodic),        *)
(*                         torrent_stop.go / torrent_write.go /            *)
(*                         torrent_verification.go writeBitfield           *)
(*   Restart, AllocOpen, AllocInvalidate, AllocDone, VerifyDone            *)
(*                         session_load.go, allocator.Run,                 *)
(*                         torrent_allocation.go handleAllocationDone,     *)
(*                         torrent_verification.go                         *)
(*   Crash                 the process dies at any instant (power loss:    *)
(*                         dirty content is lost as well)                  *)
(*   DeleteFiles           the user removes data files while it is down    *)
(*                                                                         *)
(* cfg.design selects the order of the allocation steps:                   *)
(*   "safe"    the design the property needs: a resume bitfield is made    *)
(*             void DURABLY before a missing file is created again (a      *)
(*             created file is indistinguishable from a complete one);     *)
(*   "code"    rain as it is: allocator.Run creates the missing files,     *)
(*             handleAllocationDone keeps the loaded bitfield in memory    *)
(*             while the files are re-checked (and the stats writer keeps  *)
(*             persisting it); an empty bitfield after "no file existed"   *)
(*             waits for the next periodic write;                          *)
(*   "patched" the minimal repair: handleAllocationDone drops the bitfield *)
(*             (memory and database) as soon as it learns that files were  *)
(*             missing - the window between the creation of the file and   *)
(*             that update remains.                                        *)
(* Environment / life-cycle axes (cfg.env = TRUE, MC_ResumeEnv*.cfg):          *)
(*   Damage / ReAdd        the record of the torrent becomes unloadable while  *)
(*                         the client is down (unknown version after a         *)
(*                         downgrade, damaged field): the session skips it but *)
(*                         KEEPS the bucket; the user adds the torrent again   *)
(*                         under the same ID.  cfg.readd = "fresh": the add    *)
(*                         writes a whole new record (no bitfield) - the code; *)
(*                         "keep": keys without a value are not written, the   *)
(*                         bitfield of the old record survives (EXPECTED to    *)
(*                         fail);                                              *)
(*   PlantForeign          data files put there by ANOTHER USER (writable for  *)
(*                         the client, not owned by it: open(2) with O_NOATIME *)
(*                         is refused).  cfg.onforeign = "refuse": allocation  *)
(*                         fails, the torrent stops (the code); "sync": opened *)
(*                         without O_NOATIME but with O_SYNC; "nosync": the    *)
(*                         fallback drops O_SYNC as well (EXPECTED to fail).   *)
(*   nosync                files whose handle of this life is not O_SYNC: a    *)
(*                         returned write into them is only "dirty".           *)
(* Configuration is a variable that never changes (traces bring their own  *)
(* geometry): cfg = [np, nf, fo (piece -> files), sync, design, werr,      *)
(* env, onforeign, readd].                                                 *)
(***************************************************************************)
EXTENDS Integers, FiniteSets, Sequences, TLC

VARIABLES cfg,
          disk,      \* [Piece -> {"nil","partial","good"}]  durable content
          dirty,     \* SUBSET Piece : complete content written through a non-sync handle, not yet durable
          exist,     \* [File -> BOOLEAN]
          phase,     \* "down","alloc","verify","run"
          aidx,      \* files opened by the running allocator (0 .. nf)
          almiss, alexist,    \* allocator.HasMissing / HasExisting
          wr,        \* [Piece -> {"idle","writing","written","failed"}]
          sec,       \* [Piece -> 0 .. number of file sections] : sections of the running write attempted so far
          wok,       \* [Piece -> BOOLEAN] : every attempted section of the running write reached its file
          memKnown, memBit,   \* t.bitfield (nil / set)
          dbKnown, dbBit,     \* resume record: key "bitfield"
          txn,       \* [active, known, bits] : database update in flight
          nosync,    \* SUBSET File : files opened WITHOUT O_SYNC in this process life
          recok,     \* the resume record of the torrent can be loaded (FALSE: the session skips it and keeps the bucket)
          foreignf   \* SUBSET File : existing data files that are owned by another user

vars == <<cfg, disk, dirty, exist, phase, aidx, almiss, alexist, wr, sec, wok, sec, wok, memKnown, memBit, dbKnown, dbBit, txn, nosync, recok, foreignf>>

Piece == 0 .. (cfg.np - 1)
File  == 0 .. (cfg.nf - 1)
NoTxn == [active |-> FALSE, known |-> FALSE, bits |-> {}]
Up    == phase # "down"

\* what a reader of the files sees (the page cache serves dirty content)
View(p) == IF p \in dirty THEN "good" ELSE disk[p]
PiecesOf(F) == {p \in Piece : cfg.fo[p] \cap F # {}}

I0(c) ==
    [ disk |-> [p \in 0 .. (c.np - 1) |-> "nil"],
      exist |-> [f \in 0 .. (c.nf - 1) |-> FALSE],
      wr |-> [p \in 0 .. (c.np - 1) |-> "idle"],
      sec |-> [p \in 0 .. (c.np - 1) |-> 0],
      wok |-> [p \in 0 .. (c.np - 1) |-> TRUE] ]

InitWith(c) ==
    /\ cfg = c /\ disk = I0(c).disk /\ dirty = {} /\ exist = I0(c).exist /\ phase = "down" /\ aidx = 0
    /\ almiss = FALSE /\ alexist = FALSE /\ wr = I0(c).wr /\ sec = I0(c).sec /\ wok = I0(c).wok /\ memKnown = FALSE /\ memBit = {}
    /\ dbKnown = FALSE /\ dbBit = {} /\ txn = NoTxn /\ nosync = {} /\ recok = TRUE /\ foreignf = {}

ResetWith(c) ==
    /\ cfg' = c /\ disk' = I0(c).disk /\ dirty' = {} /\ exist' = I0(c).exist /\ phase' = "down" /\ aidx' = 0
    /\ almiss' = FALSE /\ alexist' = FALSE /\ wr' = I0(c).wr /\ sec' = I0(c).sec /\ wok' = I0(c).wok /\ memKnown' = FALSE /\ memBit' = {}
    /\ dbKnown' = FALSE /\ dbBit' = {} /\ txn' = NoTxn /\ nosync' = {} /\ recok' = TRUE /\ foreignf' = {}

\* --- process start: the resume record is loaded ------------------------------
Restart ==
    /\ phase = "down" /\ recok
    /\ phase' = "alloc" /\ aidx' = 0 /\ almiss' = FALSE /\ alexist' = FALSE
    /\ memKnown' = dbKnown /\ memBit' = dbBit /\ nosync' = {}
    /\ UNCHANGED <<cfg, recok, foreignf, disk, dirty, exist, wr, sec, wok, dbKnown, dbBit, txn>>

\* the record became unloadable while the client was down; the bucket (with its bitfield) stays in the database
Damage ==
    /\ cfg.env /\ phase = "down" /\ recok
    /\ recok' = FALSE
    /\ UNCHANGED <<cfg, nosync, foreignf, disk, dirty, exist, phase, aidx, almiss, alexist, wr, sec, wok, memKnown, memBit, dbKnown, dbBit, txn>>

\* the session came up without the torrent; it is added again under the same ID: the add rewrites the record in ONE
\* update - "fresh": every key, the bitfield key becomes empty; "keep": empty values are not stored
ReAdd ==
    /\ cfg.env /\ phase = "down" /\ ~recok
    /\ recok' = TRUE /\ phase' = "alloc" /\ aidx' = 0 /\ almiss' = FALSE /\ alexist' = FALSE
    /\ memKnown' = FALSE /\ memBit' = {} /\ nosync' = {}
    /\ IF cfg.readd = "keep" THEN UNCHANGED <<dbKnown, dbBit>> ELSE dbKnown' = FALSE /\ dbBit' = {}
    /\ UNCHANGED <<cfg, foreignf, disk, dirty, exist, wr, sec, wok, txn>>

\* another user puts (stale) copies of data files into the download directory while the client is down
PlantForeign(F) ==
    /\ cfg.env /\ phase = "down" /\ F # {} /\ \A f \in F : ~exist[f]
    /\ ~(dbKnown /\ PiecesOf(F) \cap dbBit # {})      \* (not an adversary: nothing is claimed in the files that appear)
    /\ exist' = [f \in File |-> exist[f] \/ f \in F] /\ foreignf' = foreignf \cup F
    /\ disk' = [p \in Piece |-> IF cfg.fo[p] \cap F = {} THEN disk[p] ELSE "partial"]
    /\ UNCHANGED <<cfg, nosync, recok, dirty, phase, aidx, almiss, alexist, wr, sec, wok, memKnown, memBit, dbKnown, dbBit, txn>>

\* --- allocation ---------------------------------------------------------------
\* "safe": before the first missing file is created, the bitfield is dropped durably (one transaction)
AllocInvalidate ==
    /\ cfg.design = "safe" /\ phase = "alloc" /\ aidx < cfg.nf /\ ~exist[aidx] /\ memKnown /\ ~txn.active
    /\ memKnown' = FALSE /\ memBit' = {} /\ dbKnown' = FALSE /\ dbBit' = {}
    /\ UNCHANGED <<cfg, nosync, recok, foreignf, disk, dirty, exist, phase, aidx, almiss, alexist, wr, sec, wok, txn>>

Foreign(f) == exist[f] /\ f \in foreignf
AllocOpen ==       \* storage.Open(file aidx): opens it, or creates it with zero content
    /\ phase = "alloc" /\ aidx < cfg.nf
    /\ cfg.design = "safe" => (exist[aidx] \/ ~memKnown)
    /\ Foreign(aidx) => cfg.onforeign # "refuse"
    /\ IF exist[aidx] THEN alexist' = TRUE /\ UNCHANGED <<almiss, exist>>
       ELSE almiss' = TRUE /\ exist' = [exist EXCEPT ![aidx] = TRUE] /\ UNCHANGED alexist
    /\ nosync' = IF Foreign(aidx) /\ cfg.onforeign = "nosync" THEN nosync \cup {aidx} ELSE nosync
    /\ aidx' = aidx + 1
    /\ UNCHANGED <<cfg, recok, foreignf, disk, dirty, phase, wr, sec, wok, memKnown, memBit, dbKnown, dbBit, txn>>

AllocRefuse ==     \* open(2) of a file owned by another user is refused: allocation error, the torrent is stopped
    /\ phase = "alloc" /\ aidx < cfg.nf /\ Foreign(aidx) /\ cfg.onforeign = "refuse"
    /\ phase' = "stopped"
    /\ UNCHANGED <<cfg, nosync, recok, foreignf, disk, dirty, exist, aidx, almiss, alexist, wr, sec, wok, memKnown, memBit, dbKnown, dbBit, txn>>

AllocDone ==       \* handleAllocationDone: trust the bits / start empty / verify
    /\ phase = "alloc" /\ aidx = cfg.nf
    /\ IF memKnown /\ ~almiss
       THEN /\ phase' = "run" /\ UNCHANGED <<memKnown, memBit, dbKnown, dbBit>>
       ELSE IF ~alexist
       THEN /\ phase' = "run" /\ memKnown' = TRUE /\ memBit' = {}
            /\ IF cfg.design = "patched" THEN ~txn.active /\ dbKnown' = TRUE /\ dbBit' = {}    \* written at once
                                         ELSE UNCHANGED <<dbKnown, dbBit>>                     \* next periodic write
       ELSE /\ phase' = "verify"
            /\ IF cfg.design = "patched" /\ memKnown
               THEN ~txn.active /\ memKnown' = FALSE /\ memBit' = {} /\ dbKnown' = FALSE /\ dbBit' = {}
               ELSE UNCHANGED <<memKnown, memBit, dbKnown, dbBit>>
    /\ UNCHANGED <<cfg, nosync, recok, foreignf, disk, dirty, exist, aidx, almiss, alexist, wr, sec, wok, txn>>

VerifyDone ==      \* the verifier's bitfield replaces t.bitfield (and is written, see PersistBegin)
    /\ phase = "verify"
    /\ phase' = "run" /\ memKnown' = TRUE /\ memBit' = {p \in Piece : View(p) = "good"}
    /\ UNCHANGED <<cfg, nosync, recok, foreignf, disk, dirty, exist, aidx, almiss, alexist, wr, sec, wok, dbKnown, dbBit, txn>>

\* --- download --------------------------------------------------------------------
Sync(p) == cfg.sync /\ cfg.fo[p] \cap nosync = {}

NSec(p) == Cardinality(cfg.fo[p])      \* a piece is written with one storage write per file it overlaps

WriteBegin(p) ==   \* the piece writer got a complete, hash-checked piece
    /\ phase = "run" /\ memKnown /\ p \notin memBit /\ wr[p] = "idle"
    /\ wr' = [wr EXCEPT ![p] = "writing"] /\ sec' = [sec EXCEPT ![p] = 0] /\ wok' = [wok EXCEPT ![p] = TRUE]
    /\ IF Sync(p) THEN disk' = [disk EXCEPT ![p] = "partial"] /\ dirty' = dirty \ {p}
                  ELSE UNCHANGED <<disk, dirty>>
    /\ UNCHANGED <<cfg, nosync, recok, foreignf, exist, phase, aidx, almiss, alexist, memKnown, memBit, dbKnown, dbBit, txn>>

WriteSec(p) ==     \* the storage write of the next file section returned without error
    /\ wr[p] = "writing" /\ sec[p] < NSec(p)
    /\ sec' = [sec EXCEPT ![p] = sec[p] + 1]
    /\ UNCHANGED <<cfg, nosync, recok, foreignf, disk, dirty, exist, phase, aidx, almiss, alexist, wr, wok, memKnown, memBit, dbKnown, dbBit, txn>>

WriteFail(p) ==    \* the storage write of the next file section fails (at any section position)
    /\ wr[p] = "writing" /\ sec[p] < NSec(p)
    /\ IF cfg.werr = "first" \/ sec[p] = NSec(p) - 1
       THEN wr' = [wr EXCEPT ![p] = "failed"] /\ sec' = [sec EXCEPT ![p] = 0] /\ wok' = [wok EXCEPT ![p] = TRUE]   \* Piece.Write returns the error
       ELSE sec' = [sec EXCEPT ![p] = sec[p] + 1] /\ wok' = [wok EXCEPT ![p] = FALSE] /\ UNCHANGED wr  \* "last": forgotten
    /\ UNCHANGED <<cfg, nosync, recok, foreignf, disk, dirty, exist, phase, aidx, almiss, alexist, memKnown, memBit, dbKnown, dbBit, txn>>

WriteEnd(p) ==     \* Write returned without error
    /\ wr[p] = "writing" /\ sec[p] = NSec(p)
    /\ wr' = [wr EXCEPT ![p] = "written"]
    /\ IF ~wok[p] THEN UNCHANGED <<disk, dirty>>          \* a section never reached its file: the content stays partial
       ELSE IF Sync(p) THEN disk' = [disk EXCEPT ![p] = "good"] /\ UNCHANGED dirty
                  ELSE dirty' = dirty \cup {p} /\ UNCHANGED disk
    /\ sec' = [sec EXCEPT ![p] = 0] /\ wok' = [wok EXCEPT ![p] = TRUE]
    /\ UNCHANGED <<cfg, nosync, recok, foreignf, exist, phase, aidx, almiss, alexist, memKnown, memBit, dbKnown, dbBit, txn>>

FailHandled(p) ==  \* handlePieceWriteDone with pw.Error: the torrent is stopped, the piece is NOT marked (stop persists the
                   \* bitfield as it is - PersistBegin; a later Start re-opens the existing files and keeps the bitfield)
    /\ phase = "run" /\ wr[p] = "failed"
    /\ wr' = [wr EXCEPT ![p] = "idle"]
    /\ UNCHANGED <<cfg, nosync, recok, foreignf, disk, dirty, exist, phase, aidx, almiss, alexist, sec, wok, memKnown, memBit, dbKnown, dbBit, txn>>

SetBit(p) ==       \* handlePieceWriteDone
    /\ phase = "run" /\ wr[p] = "written"
    /\ wr' = [wr EXCEPT ![p] = "idle"] /\ memBit' = memBit \cup {p}
    /\ UNCHANGED <<cfg, nosync, recok, foreignf, disk, dirty, exist, phase, aidx, almiss, alexist, sec, wok, memKnown, dbKnown, dbBit, txn>>

OsFlush(p) ==      \* the kernel writes back a dirty page some time
    /\ p \in dirty /\ dirty' = dirty \ {p} /\ disk' = [disk EXCEPT ![p] = "good"]
    /\ UNCHANGED <<cfg, nosync, recok, foreignf, exist, phase, aidx, almiss, alexist, wr, sec, wok, memKnown, memBit, dbKnown, dbBit, txn>>

\* --- persistence: periodic | stop | complete | verified - all write t.bitfield as it is now ---------
PersistBegin ==
    /\ Up /\ memKnown /\ ~txn.active
    /\ txn' = [active |-> TRUE, known |-> TRUE, bits |-> memBit]
    /\ UNCHANGED <<cfg, nosync, recok, foreignf, disk, dirty, exist, phase, aidx, almiss, alexist, wr, sec, wok, memKnown, memBit, dbKnown, dbBit>>

PersistCommit ==
    /\ txn.active
    /\ dbKnown' = txn.known /\ dbBit' = txn.bits /\ txn' = NoTxn
    /\ UNCHANGED <<cfg, nosync, recok, foreignf, disk, dirty, exist, phase, aidx, almiss, alexist, wr, sec, wok, memKnown, memBit>>

\* --- failure and environment ----------------------------------------------------
Crash ==
    /\ Up
    /\ phase' = "down" /\ dirty' = {} /\ nosync' = {} /\ memKnown' = FALSE /\ memBit' = {} /\ aidx' = 0 /\ almiss' = FALSE /\ alexist' = FALSE
    /\ wr' = [p \in Piece |-> "idle"] /\ txn' = NoTxn /\ sec' = [p \in Piece |-> 0] /\ wok' = [p \in Piece |-> TRUE]
    /\ \/ UNCHANGED <<dbKnown, dbBit>>
       \/ txn.active /\ dbKnown' = txn.known /\ dbBit' = txn.bits
    /\ UNCHANGED <<cfg, recok, foreignf, disk, exist>>

DeleteFiles(F) ==
    /\ phase = "down" /\ F # {} /\ \A f \in F : exist[f]
    /\ exist' = [f \in File |-> exist[f] /\ f \notin F]
    /\ disk' = [p \in Piece |-> IF cfg.fo[p] \cap F = {} THEN disk[p]
                                ELSE IF \A f \in cfg.fo[p] : ~exist'[f] \/ disk[p] = "nil" THEN "nil" ELSE "partial"]
    /\ foreignf' = foreignf \ F
    /\ UNCHANGED <<cfg, nosync, recok, dirty, phase, aidx, almiss, alexist, wr, sec, wok, memKnown, memBit, dbKnown, dbBit, txn>>

Next ==
    \/ Restart \/ AllocInvalidate \/ AllocOpen \/ AllocRefuse \/ AllocDone \/ VerifyDone
    \/ Damage \/ ReAdd \/ \E F \in SUBSET File : PlantForeign(F)
    \/ \E p \in Piece : WriteBegin(p) \/ WriteSec(p) \/ WriteFail(p) \/ WriteEnd(p) \/ FailHandled(p) \/ SetBit(p) \/ OsFlush(p)
    \/ PersistBegin \/ PersistCommit \/ Crash
    \/ \E F \in SUBSET File : DeleteFiles(F)

Spec == [][Next]_vars

\* --- obligations (shared with Trace_Resume) ------------------------------------------
\* @obligation C05.db  the durable bitfield never claims a piece whose durable content is not complete -
\*                     unless the claim is detectably void because a file of that piece is missing
Claimable(dsk, ex, fo, p) == dsk[p] = "good" \/ \E f \in fo[p] : ~ex[f]
DbSound(known, bits, dsk, ex, fo) == known => \A p \in bits : Claimable(dsk, ex, fo, p)
\* @obligation C05.ahead  pieces treated as downloaded have their complete content in the files
TrustSound(hv, view) == \A p \in hv : view[p] = "good"

InvDb    == DbSound(dbKnown, dbBit, disk, exist, cfg.fo)
InvTrust == (phase = "run" /\ memKnown) => TrustSound(memBit, [p \in Piece |-> View(p)])
\* @obligation C05.missing  files found missing at a start are re-checked (or re-downloaded), never trusted
InvMissing == (phase = "run" /\ memKnown /\ almiss) => \A p \in memBit : View(p) = "good"
TypeOK ==
    /\ disk \in [Piece -> {"nil", "partial", "good"}] /\ dirty \subseteq Piece /\ exist \in [File -> BOOLEAN]
    /\ phase \in {"down", "alloc", "verify", "run", "stopped"} /\ aidx \in 0 .. cfg.nf
    /\ memBit \subseteq Piece /\ dbBit \subseteq Piece /\ wr \in [Piece -> {"idle", "writing", "written", "failed"}]
    /\ \A p \in Piece : sec[p] \in 0 .. NSec(p)
    /\ nosync \subseteq File /\ foreignf \subseteq File /\ recok \in BOOLEAN
Inv == TypeOK /\ InvDb /\ InvTrust /\ InvMissing
=============================================================================
