SPECIFICATION MCSpec
CONSTANTS
  POOLED = TRUE
  NCS = {2}
  LENS = {1, 2}
  WHOLE3 = TRUE
INVARIANT Inv
CHECK_DEADLOCK TRUE
