------------------------------ MODULE MC_Wire ------------------------------
(***************************************************************************)
(* Exhaustive configuration of Wire: a representative message set (every   *)
(* kind, boundary field values, payloads that look like bencode / like a   *)
(* length prefix), sent alone, in pairs behind a handshake, and in a few   *)
(* longer scripts; TLC explores every fragmentation of every stream and    *)
(* every admissible dictionary variant.                                    *)
(***************************************************************************)
EXTENDS Wire
CONSTANTS LEVEL      \* 1: singles, pairs of 6 core messages, scripted situations; 2: pairs of 9, + pairs behind a handshake, triples

Z == <<0, 0>>
MaxU == <<65535, 65535>>
Ip4 == <<127, 0, 0, 1>>
Rsv == <<0, 0, 0, 0, 0, 16, 0, 5>>
Ih  == [i \in 1 .. 20 |-> i]
Pid == [i \in 1 .. 20 |-> 255 - i]
V   == <<82, 97, 105, 110, 32, 50>>              \* "Rain 2"

Hs == [k |-> "handshake", reserved |-> Rsv, ih |-> Ih, pid |-> Pid]
KA == [k |-> "keepalive"]
Unk == [k |-> "unknown", id |-> 21, payload |-> <<1, 2>>]
Unk0 == [k |-> "unknown", id |-> 10, payload |-> <<>>]

Empties == {[k |-> x] : x \in EmptyKinds}
Indexed == {[k |-> "have", index |-> Z], [k |-> "have", index |-> MaxU], [k |-> "have", index |-> <<32768, 0>>],
            [k |-> "allowed_fast", index |-> <<0, 7>>], [k |-> "allowed_fast", index |-> MaxU],
            [k |-> "suggest", index |-> <<0, 1>>]}
Reqs == {[k |-> x, index |-> a, begin |-> b, length |-> c] :
            x \in ReqKinds, a \in {Z, MaxU}, b \in {<<0, 1>>}, c \in {<<0, 16384>>, <<32768, 0>>}}
P1 == [k |-> "piece", index |-> <<0, 3>>, begin |-> <<0, 16384>>, payload |-> <<0, 0, 0, 1, 2>>]   \* payload looks like a frame
P0 == [k |-> "piece", index |-> MaxU, begin |-> Z, payload |-> <<>>]
P2 == [k |-> "piece", index |-> Z, begin |-> MaxU, payload |-> [i \in 1 .. 19 |-> (i * 37) % 256]]
Bits == {[k |-> "bitfield", payload |-> <<>>], [k |-> "bitfield", payload |-> <<255>>],
         [k |-> "bitfield", payload |-> <<128, 1, 0>>]}
Ports == {[k |-> "port", port |-> p] : p \in {0, 6881, 65535}}

XH0 == [k |-> "ext_handshake", extid |-> 0, m |-> {}, v |-> <<>>, yourip |-> <<>>, metadata_size |-> <<>>, reqq |-> <<>>]
XH1 == [k |-> "ext_handshake", extid |-> 0, m |-> {<<K_ut_pex, 2>>, <<K_ut_metadata, 1>>}, v |-> V, yourip |-> Ip4,
        metadata_size |-> <<1, 0>>, reqq |-> <<250>>]
XH2 == [k |-> "ext_handshake", extid |-> 0, m |-> {<<K_ut_metadata, 255>>}, v |-> V, yourip |-> [i \in 1 .. 16 |-> i],
        metadata_size |-> <<65535, 65535>>, reqq |-> <<>>]
XM0 == [k |-> "ext_metadata", extid |-> 1, msg_type |-> 0, piece |-> <<>>, total_size |-> <<>>, payload |-> <<>>]
\* data piece whose bytes continue like bencode: "d1:ai1ee" and a trailing 'e'
XM1 == [k |-> "ext_metadata", extid |-> 1, msg_type |-> 1, piece |-> <<1>>, total_size |-> <<16392>>,
        payload |-> <<100, 49, 58, 97, 105, 49, 101, 101, 101>>]
XM2 == [k |-> "ext_metadata", extid |-> 1, msg_type |-> 2, piece |-> <<1, 0>>, total_size |-> <<>>, payload |-> <<>>]
XP0 == [k |-> "ext_pex", extid |-> 2, added |-> <<>>, dropped |-> <<>>]
XP1 == [k |-> "ext_pex", extid |-> 2, added |-> <<10, 0, 0, 1, 26, 225, 10, 0, 0, 2, 0, 1>>, dropped |-> <<1, 2, 3, 4, 5, 6>>]

Msgs == Empties \cup Indexed \cup Reqs \cup {P0, P1, P2} \cup Bits \cup Ports
        \cup {XH0, XH1, XH2, XM0, XM1, XM2, XP0, XP1, KA, Unk, Unk0, Hs}

Core == {[k |-> "choke"], [k |-> "have", index |-> <<1, 2>>], P1, [k |-> "bitfield", payload |-> <<128, 1, 0>>],
         XM1, XP1, KA, Unk, [k |-> "request", index |-> Z, begin |-> <<0, 1>>, length |-> <<0, 16384>>]}

Small == {[k |-> "choke"], P1, XM1, KA, Unk}
CoreL == IF LEVEL >= 2 THEN Core ELSE {P1, [k |-> "bitfield", payload |-> <<128, 1, 0>>], XM1, XP1, KA, Unk}

Scripts ==
    {<<m>> : m \in Msgs}
    \cup {<<a, b>> : a \in CoreL, b \in CoreL}
    \cup {<<Hs, a>> : a \in CoreL}
    \cup (IF LEVEL >= 2 THEN {<<Hs, a, b>> : a \in Core, b \in Core} \cup {<<a, b, c>> : a \in Small, b \in Small, c \in Small}
          ELSE {})
    \cup { <<Hs, XH1, [k |-> "have_none"], KA, P1, P1>>,                 \* second P1 is a duplicate request -> reject
           <<[k |-> "bitfield", payload |-> <<255>>], (IF LEVEL >= 2 THEN XH0 ELSE XM0), Unk0, P2, KA, P0>>,   \* XH0: 32 variants
           <<KA, KA, [k |-> "unchoke"], Unk, P1, [k |-> "choke"], P1>> }

MCInit == \E s \in Scripts : InitWith(s)
MCSpec == MCInit /\ [][Next]_vars

\* FAULT configuration (MC_Wire_cut.cfg): the connection breaks inside any frame of the script, after any number of its bytes
\* (Wire!SendCut), under every fragmentation of what the transport took.  Scripts with blocks of 0 / 5 / 19 bytes (cut inside
\* the 13-byte header, on its last byte, inside the block, one byte before its end), a duplicate request (answered by a
\* reject, whose cut carries no payload), and frames without payload.
Cho == [k |-> "choke"]
CutScripts ==
    {<<m>> : m \in {P0, P1, P2, KA, Cho}}
    \cup {<<a, b>> : a \in {P1, Cho}, b \in {P1, P2}}
    \cup { <<KA, Unk, P1, Cho, P1>> }
    \cup (IF LEVEL >= 2 THEN {<<m>> : m \in {Hs, XM1, Unk}} \cup {<<a, b>> : a \in {P1, P2, Cho}, b \in {P0, P1, P2, Cho}}
                              \cup { <<Hs, XH1, [k |-> "have_none"], KA, P1, P1>>,
                                     <<[k |-> "bitfield", payload |-> <<255>>], XM0, Unk0, P2, KA, P0>>,
                                     <<KA, KA, [k |-> "unchoke"], Unk, P1, Cho, P1>> }
          ELSE {})
MCInitF == \E s \in CutScripts : InitWith(s)
MCSpecF == MCInitF /\ [][NextF]_vars
\* the fault is really explored: some run ends with a truncated block whose body bytes were credited (refuted on purpose
\* by MC_Wire_cut_reach.cfg)
NoCutCredit == ~(Broken(wr) /\ wr.cut > 13 /\ net = <<>> /\ InBlock(rd) /\ wr.upl > SumPiece(rd.out))

\* the reference codec is injective on the message set (distinct messages never share an encoding)
ASSUME \A a \in Msgs, b \in Msgs : (a # b) => (Encodings(a) \cap Encodings(b) = {})
\* one-shot decoding is the inverse of every admissible encoding
ASSUME \A m \in Msgs \ {Hs} : \A e \in Encodings(m) : Decode(FALSE, e) = (IF Visible(m) THEN <<m>> ELSE <<>>)
ASSUME Decode(TRUE, Encode(Hs)) = <<Hs>>
=============================================================================
