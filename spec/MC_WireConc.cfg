SPECIFICATION CSpec
CONSTANTS
  MaxConns = 3
  SHARED = FALSE
INVARIANT MCInv
CHECK_DEADLOCK FALSE
