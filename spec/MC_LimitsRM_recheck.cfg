SPECIFICATION PSpec
CONSTANTS
  Reqs <- MCReqs4
  LIMIT = 2
  FIXED = TRUE
  PRECANCEL = FALSE
  ANYCANCEL = FALSE
  ANYCLOSE = FALSE
  RECHECK = TRUE
INVARIANT AInv
INVARIANT ToldIsHeld
INVARIANT NoOrphan
INVARIANT NoStuckManager
INVARIANT CandOK
PROPERTY Refines
CHECK_DEADLOCK TRUE
