SPECIFICATION MCSpec
CONSTANT FixNames = {}
CONSTANT Variant = "span"
INVARIANT Inv
INVARIANT Trust
INVARIANT TrustDisk
CHECK_DEADLOCK FALSE
