SPECIFICATION MCSpec
CONSTANTS
  VARIANT = "flat"
  BIG = TRUE
INVARIANT TarComplete
CHECK_DEADLOCK FALSE
