-------------------------------- MODULE Move --------------------------------
(***************************************************************************)
(* Extension check X05: moving a torrent between two sessions over RPC.    *)
(*                                                                         *)
(* Code: torrent/session_torrent.go  Torrent.Move / prepareBody /          *)
(* generateTar (source side), torrent/session_move_torrent.go              *)
(* handleMoveTorrent / readData (target side), session_rpc_handler.go      *)
(* MoveTorrent, session.go RemoveTorrent / removeTorrentFromClient /       *)
(* stopAndRemoveData, session_load.go loadExistingTorrent, boltdbresumer.  *)
(*                                                                         *)
(* The protocol AS THE CODE IMPLEMENTS IT, one action per step:            *)
(*                                                                         *)
(*  source  (goroutine of the JSON-RPC call Session.MoveTorrent)           *)
(*    S_Stop     t.torrent.Stop(): the command is handed to the torrent    *)
(*               loop; the loop's stop() (L_Flush: bitfield -> resume db)  *)
(*               runs CONCURRENTLY with the next step; the started flag of *)
(*               the record is NOT cleared (internal Stop)                 *)
(*    S_Read     resumer.Read(id): the resume record as it is in the db    *)
(*    S_Connect  POST target/move-torrent, body = multipart pipe           *)
(*               (id, metadata = JSON of the record, data = tar of the     *)
(*               torrent's data directory, streamed)                       *)
(*    S_Resp     200 -> S_Detach, S_DbDel, S_Rel = RemoveTorrent(id,       *)
(*               keepData = TRUE): registry, record, port; the data stays  *)
(*               on the source's disk                                      *)
(*               error / other status -> S_Fail: the error is returned,    *)
(*               NOTHING is undone (the torrent stays stopped)             *)
(*  target  (HTTP handler)                                                 *)
(*    T_Port     getPort (500 if none); released again on every failure    *)
(*    T_Id       first part: the id (the query string is ignored)          *)
(*    T_Dup*     an existing torrent with that id is REMOVED WITH ITS DATA *)
(*               (removeTorrentFromClient + stopAndRemoveData(keep=false)) *)
(*               - the id is neither looked up in reservedIDs nor reserved *)
(*    T_Meta     second part: the record; Port := the new port             *)
(*    T_Data     third part: tar -> files under DataDir/<id>, one unit     *)
(*               (file) at a time, fsync each; a failure returns 500 and   *)
(*               LEAVES what was written                                   *)
(*    T_DbWrite  resumer.Write(id, record)      <- durable commit point    *)
(*    T_Load     loadExistingTorrent(id): newTorrent + insertTorrent       *)
(*    T_Start    t.Start() if the record says started                      *)
(*    T_Reply    200                                                       *)
(*  network: N_Cut at any point; a crash of either process cuts too.       *)
(*  Crash(s) / Restart(s): in-memory state is lost, NewSession loads every *)
(*  record of the database, started torrents are started again.            *)
(*  Interference while the stream is in flight: the user removes the       *)
(*  torrent at the source (I_Remove), closes the source session (I_Close), *)
(*  adds a torrent with the same explicit id at the target (I_Add).        *)
(*                                                                         *)
(* LOCK ORDER (X05.f): no step holds a lock of its session while it waits  *)
(* for the other session.  Source: [loop command] ; db tx (Read) ; -- HTTP *)
(* request, no lock -- ; mTorrents.Lock (detach) ; db tx (DeleteBucket) ;  *)
(* loop close ; mPorts.  Target: mPorts ; mTorrents.RLock (lookup) ;       *)
(* [mTorrents.Lock ; db tx ; loop close ; mPorts ; fs] ; fs ; db tx        *)
(* (Write) ; db tx (Read) ; mPorts ; mTorrents.Lock (insert) ; db tx       *)
(* (WriteStarted) ; loop command.  Locks are taken one at a time, never    *)
(* nested, so every action below is one critical section and the two       *)
(* sessions cannot deadlock on each other (also when source = target).     *)
(* There is NO timeout on the request (http.DefaultClient): progress needs *)
(* the network to deliver or cut.                                          *)
(*                                                                         *)
(* cfg.fix = {} is the code as it is.  The members of cfg.fix are the      *)
(* repairs of the design (each one a small patch):                         *)
(*   "restart"  S_Fail starts the torrent again if it was started          *)
(*   "flush"    S_Read waits until the loop has finished stop()            *)
(*   "cleanup"  a failing T_Data / T_DbWrite removes DataDir/<id>          *)
(*   "reserve"  T_Id reserves the id (refuses a reserved one) until T_Load *)
(*   "self"     T_Dup refuses to replace a torrent that is being moved     *)
(*   "walk"     generateTar aborts the request when a file has vanished    *)
(*              instead of ending the archive silently                     *)
(*                                                                         *)
(* Data is abstracted to U units (files of the archive); the source has    *)
(* all of them ("the pieces had").  m is the id of the moved torrent t1.   *)
(***************************************************************************)
EXTENDS Integers, FiniteSets, Sequences, TLC

VARIABLES cfg,    \* [U, range, fix, maxf, faults, binits, runs, dirtys, dsts, final]   constant after Init
          up,     \* session -> BOOLEAN (process alive)
          reg,    \* session -> (id -> [t, port, run, bf])     s.torrents (in memory)
          db,     \* session -> (id -> [t, port, started, bf]) resume database (durable)
          avail,  \* session -> set of ports                   s.availablePorts (in memory)
          disk,   \* session -> (id -> [t, good])              DataDir/<id> (durable); good = units intact for t
          rsv,    \* session -> set of ids                     s.reservedIDs
          orph,   \* session -> set of ports held by handles that are alive but not registered
          mv,     \* the move in flight
          gh      \* ghost: what the user did and saw

vars == <<cfg, up, reg, db, avail, disk, rsv, orph, mv, gh>>

Sess == {"A", "B"}
M == "m"                      \* id of the moved torrent
Null == [t |-> "none"]

Put(f, k, v) == [x \in (DOMAIN f) \cup {k} |-> IF x = k THEN v ELSE f[x]]
Del(f, k)    == [x \in (DOMAIN f) \ {k} |-> f[x]]
EmptyFn      == [x \in {} |-> 0]
Min(S)       == CHOOSE x \in S : \A y \in S : x <= y
Units        == 1 .. cfg.U
Fixed(x)     == x \in cfg.fix

NoMove == [ph |-> "idle", src |-> "A", dst |-> "B", spc |-> "none", tpc |-> "none", spec |-> Null, k |-> 0,
           conn |-> "none", tport |-> 0, oport |-> 0, resp |-> "", res |-> "", hadDir |-> FALSE, flushed |-> FALSE,
           began |-> FALSE, sent |-> 0, sgood |-> {}, tar |-> "open"]

\* ---------------------------------------------------------------------------------------------- initial states
\* binit: what the target holds before the move
\*   "empty" | "dupsame" (a copy of t1 under the same id, fewer units) | "dupother" (another torrent under the same id)
\*   | "dupih" (a copy of t1 under another id) | "full" (every port of the target is taken)
TargetInit(b, c) ==
    LET p1 == Min(c.range) IN
    CASE b = "dupsame"  -> [reg |-> Put(EmptyFn, M, [t |-> "t1", port |-> p1, run |-> FALSE, bf |-> {1}]),
                            db  |-> Put(EmptyFn, M, [t |-> "t1", port |-> p1, started |-> FALSE, bf |-> {1}]),
                            disk |-> Put(EmptyFn, M, [t |-> "t1", good |-> {1}]), avail |-> c.range \ {p1}]
      [] b = "dupother" -> [reg |-> Put(EmptyFn, M, [t |-> "t2", port |-> p1, run |-> FALSE, bf |-> {1}]),
                            db  |-> Put(EmptyFn, M, [t |-> "t2", port |-> p1, started |-> FALSE, bf |-> {1}]),
                            disk |-> Put(EmptyFn, M, [t |-> "t2", good |-> {1}]), avail |-> c.range \ {p1}]
      [] b = "dupih"    -> [reg |-> Put(EmptyFn, "x", [t |-> "t1", port |-> p1, run |-> FALSE, bf |-> {1}]),
                            db  |-> Put(EmptyFn, "x", [t |-> "t1", port |-> p1, started |-> FALSE, bf |-> {1}]),
                            disk |-> Put(EmptyFn, "x", [t |-> "t1", good |-> {1}]), avail |-> c.range \ {p1}]
      [] b = "full"     -> [reg |-> [i \in {"f" \o ToString(p) : p \in c.range} |->
                                       [t |-> "t2", port |-> CHOOSE p \in c.range : i = "f" \o ToString(p), run |-> FALSE, bf |-> {}]],
                            db  |-> [i \in {"f" \o ToString(p) : p \in c.range} |->
                                       [t |-> "t2", port |-> CHOOSE p \in c.range : i = "f" \o ToString(p), started |-> FALSE, bf |-> {}]],
                            disk |-> EmptyFn, avail |-> {}]
      [] OTHER          -> [reg |-> EmptyFn, db |-> EmptyFn, disk |-> EmptyFn, avail |-> c.range]

I0(c, run, dirty, b, dst) ==
    LET p1  == Min(c.range)
        all == 1 .. c.U
        dbf == IF dirty THEN all \ {c.U} ELSE all
        ti  == IF dst = "B" THEN TargetInit(b, c) ELSE TargetInit("empty", c)
    IN [up    |-> [s \in Sess |-> TRUE],
        reg   |-> [s \in Sess |-> IF s = "A" THEN Put(EmptyFn, M, [t |-> "t1", port |-> p1, run |-> run, bf |-> all]) ELSE ti.reg],
        db    |-> [s \in Sess |-> IF s = "A" THEN Put(EmptyFn, M, [t |-> "t1", port |-> p1, started |-> run, bf |-> dbf]) ELSE ti.db],
        avail |-> [s \in Sess |-> IF s = "A" THEN c.range \ {p1} ELSE ti.avail],
        disk  |-> [s \in Sess |-> IF s = "A" THEN Put(EmptyFn, M, [t |-> "t1", good |-> all]) ELSE ti.disk],
        rsv   |-> [s \in Sess |-> {}],
        orph  |-> [s \in Sess |-> {}],
        mv    |-> [NoMove EXCEPT !.dst = dst],
        gh    |-> [t0 |-> "t1", run0 |-> run, bf0 |-> all, dirty |-> dirty, binit |-> IF dst = "B" THEN b ELSE "self", removed |-> FALSE,
                   faults |-> <<>>, lost |-> FALSE, tadded |-> FALSE, crashed |-> {}, phase |-> "move"]]

InitWith(c) ==
    /\ cfg = c
    /\ \E run \in c.runs, dirty \in c.dirtys, b \in c.binits, dst \in c.dsts :
          /\ (dirty => run)                       \* only a running torrent is ahead of its resume record
          /\ (dst = "A" => b = "empty")
          /\ LET i == I0(c, run, dirty, b, dst) IN
             /\ up = i.up /\ reg = i.reg /\ db = i.db /\ avail = i.avail /\ disk = i.disk /\ rsv = i.rsv /\ orph = i.orph
             /\ mv = i.mv /\ gh = i.gh

\* ---------------------------------------------------------------------------------------------- helpers
Src == mv.src
Dst == mv.dst
Running == mv.ph = "run"
Budget == Len(gh.faults) < cfg.maxf
Fault(kind) == kind \in cfg.faults /\ Budget
Note(label) == gh' = [gh EXCEPT !.faults = Append(@, label)]
NoteL(label) == gh' = [gh EXCEPT !.faults = Append(@, label), !.lost = TRUE]
HandlerBusy == mv.tpc \notin {"none", "done", "dead"}
SrcBusy == mv.spc \notin {"none", "done", "dead"}
Where == IF mv.tpc = "data" THEN "data" \o ToString(mv.k)
         ELSE IF mv.tpc \in {"port", "id", "dup", "dup_db", "dup_rel", "meta"} THEN "pre"
         ELSE IF mv.tpc \in {"none"} THEN "connect" ELSE "late"
GoodOf(s, i, t) == IF i \in DOMAIN disk[s] /\ disk[s][i].t = t THEN disk[s][i].good ELSE {}
UpS(s, v) == [up EXCEPT ![s] = v]

\* ---------------------------------------------------------------------------------------------- source
S_Begin ==
    /\ mv.ph = "idle" /\ gh.phase = "move" /\ ~mv.began /\ up["A"] /\ M \in DOMAIN reg["A"]
    /\ mv' = [mv EXCEPT !.ph = "run", !.spc = "stop", !.began = TRUE, !.hadDir = M \in DOMAIN disk[mv.dst]]
    /\ UNCHANGED <<cfg, up, reg, db, avail, disk, rsv, orph, gh>>

S_Stop ==
    /\ Running /\ mv.spc = "stop" /\ up[Src]
    /\ reg' = [reg EXCEPT ![Src] = IF M \in DOMAIN @ THEN [@ EXCEPT ![M].run = FALSE] ELSE @]
    /\ mv' = [mv EXCEPT !.spc = "read"]
    /\ UNCHANGED <<cfg, up, db, avail, disk, rsv, orph, gh>>

\* the torrent loop's stop(): writeBitfield
L_Flush ==
    /\ Running /\ ~mv.flushed /\ mv.spc \notin {"none", "stop", "dead"} /\ up[Src]
    /\ db' = [db EXCEPT ![Src] = IF M \in DOMAIN @ /\ M \in DOMAIN reg[Src] THEN [@ EXCEPT ![M].bf = reg[Src][M].bf] ELSE @]
    /\ mv' = [mv EXCEPT !.flushed = TRUE]
    /\ UNCHANGED <<cfg, up, reg, avail, disk, rsv, orph, gh>>

S_Read ==
    /\ Running /\ mv.spc = "read" /\ up[Src]
    /\ Fixed("flush") => mv.flushed
    /\ mv' = IF M \in DOMAIN db[Src]
             THEN [mv EXCEPT !.spc = "send", !.spec = [t |-> db[Src][M].t, started |-> db[Src][M].started, bf |-> db[Src][M].bf]]
             ELSE [mv EXCEPT !.spc = "fail"]
    /\ UNCHANGED <<cfg, up, reg, db, avail, disk, rsv, orph, gh>>

S_Connect ==
    /\ Running /\ mv.spc = "send" /\ mv.conn = "none" /\ up[Src]
    /\ \/ /\ up[Dst]
          /\ mv' = [mv EXCEPT !.conn = "open", !.tpc = "port"]
          /\ UNCHANGED gh
       \/ /\ ~up[Dst] \/ Fault("refuse")
          /\ mv' = [mv EXCEPT !.spc = "fail"]
          /\ IF up[Dst] THEN Note("refuse") ELSE UNCHANGED gh
    /\ UNCHANGED <<cfg, up, reg, db, avail, disk, rsv, orph>>

\* the answer arrives, or the broken connection is noticed
S_Resp ==
    /\ Running /\ mv.spc = "send" /\ up[Src]
    /\ \/ /\ mv.conn = "open" /\ mv.resp # ""
          /\ mv' = [mv EXCEPT !.spc = IF mv.resp = "ok" THEN "detach" ELSE "fail"]
       \/ /\ mv.conn = "cut"
          /\ mv' = [mv EXCEPT !.spc = "fail"]
    /\ UNCHANGED <<cfg, up, reg, db, avail, disk, rsv, orph, gh>>

\* RemoveTorrent(id, keepData = TRUE) in its three critical sections
S_Detach ==
    /\ Running /\ mv.spc = "detach" /\ up[Src]
    /\ IF M \in DOMAIN reg[Src]
       THEN /\ reg' = [reg EXCEPT ![Src] = Del(@, M)]
            /\ rsv' = [rsv EXCEPT ![Src] = @ \cup {M}]
            /\ mv' = [mv EXCEPT !.spc = "dbdel", !.oport = reg[Src][M].port]
       ELSE /\ mv' = [mv EXCEPT !.spc = "done", !.res = "ok"]
            /\ UNCHANGED <<reg, rsv>>
    /\ UNCHANGED <<cfg, up, db, avail, disk, orph, gh>>

S_DbDel ==
    /\ Running /\ mv.spc = "dbdel" /\ up[Src]
    /\ db' = [db EXCEPT ![Src] = Del(@, M)]
    /\ mv' = [mv EXCEPT !.spc = "rel"]
    /\ UNCHANGED <<cfg, up, reg, avail, disk, rsv, orph, gh>>

S_Rel ==
    /\ Running /\ mv.spc = "rel" /\ up[Src]
    /\ avail' = [avail EXCEPT ![Src] = @ \cup {mv.oport}]
    \* (the id stays reserved until the removed torrent is closed: repair of round 4, see Session!RemRelease)
    /\ rsv' = [rsv EXCEPT ![Src] = @ \ {M}]
    /\ mv' = [mv EXCEPT !.spc = "done", !.res = "ok", !.oport = 0]
    /\ UNCHANGED <<cfg, up, reg, db, disk, orph, gh>>

S_Fail ==
    /\ Running /\ mv.spc = "fail" /\ up[Src]
    /\ reg' = IF Fixed("restart") /\ gh.run0 /\ M \in DOMAIN reg[Src]
              THEN [reg EXCEPT ![Src][M].run = TRUE] ELSE reg
    /\ mv' = [mv EXCEPT !.spc = "done", !.res = "fail"]
    /\ UNCHANGED <<cfg, up, db, avail, disk, rsv, orph, gh>>

\* ---------------------------------------------------------------------------------------------- target
T(step) == Running /\ mv.tpc = step /\ up[Dst]

\* every failure of the handler: 500, the port goes back (deferred releasePort); what was written stays unless "cleanup"
TFailUpd(wrote) ==
    /\ avail' = [avail EXCEPT ![Dst] = IF mv.tport = 0 THEN @ ELSE @ \cup {mv.tport}]
    /\ mv' = [mv EXCEPT !.tpc = "done", !.resp = "err", !.tport = 0]
    /\ disk' = IF Fixed("cleanup") /\ wrote THEN [disk EXCEPT ![Dst] = Del(@, M)] ELSE disk
    /\ rsv' = IF Fixed("reserve") THEN [rsv EXCEPT ![Dst] = @ \ {M}] ELSE rsv

T_Port ==
    /\ T("port")
    /\ IF avail[Dst] = {}
       THEN /\ mv' = [mv EXCEPT !.tpc = "done", !.resp = "err"]
            /\ UNCHANGED avail
       ELSE /\ avail' = [avail EXCEPT ![Dst] = @ \ {Min(@)}]
            /\ mv' = [mv EXCEPT !.tpc = "id", !.tport = Min(avail[Dst])]
    /\ UNCHANGED <<cfg, up, reg, db, disk, rsv, orph, gh>>

T_Id ==
    /\ T("id")
    /\ IF mv.conn # "open" \/ (Fixed("reserve") /\ M \in rsv[Dst])
       THEN /\ avail' = [avail EXCEPT ![Dst] = @ \cup {mv.tport}]
            /\ mv' = [mv EXCEPT !.tpc = "done", !.resp = "err", !.tport = 0]
            /\ UNCHANGED rsv
       ELSE /\ mv' = [mv EXCEPT !.tpc = "dup"]
            /\ rsv' = IF Fixed("reserve") THEN [rsv EXCEPT ![Dst] = @ \cup {M}] ELSE rsv
            /\ UNCHANGED avail
    /\ UNCHANGED <<cfg, up, reg, db, disk, orph, gh>>

\* "duplicate torrent id, removing existing one"
T_Dup ==
    /\ T("dup")
    /\ IF M \in DOMAIN reg[Dst]
       THEN IF Fixed("self") /\ Dst = Src
            THEN /\ TFailUpd(FALSE) /\ UNCHANGED reg
            ELSE /\ reg' = [reg EXCEPT ![Dst] = Del(@, M)]
                 /\ rsv' = [rsv EXCEPT ![Dst] = @ \cup {M}]
                 /\ mv' = [mv EXCEPT !.tpc = "dup_db", !.oport = reg[Dst][M].port]
                 /\ UNCHANGED <<avail, disk>>
       ELSE /\ mv' = [mv EXCEPT !.tpc = "meta"]
            /\ UNCHANGED <<reg, rsv, avail, disk>>
    /\ UNCHANGED <<cfg, up, db, orph, gh>>

T_DupDb ==
    /\ T("dup_db")
    /\ db' = [db EXCEPT ![Dst] = Del(@, M)]
    /\ mv' = [mv EXCEPT !.tpc = "dup_rel"]
    /\ UNCHANGED <<cfg, up, reg, avail, disk, rsv, orph, gh>>

T_DupRel ==
    /\ T("dup_rel")
    /\ avail' = [avail EXCEPT ![Dst] = @ \cup {mv.oport}]
    /\ disk' = [disk EXCEPT ![Dst] = Del(@, M)]
    /\ rsv' = IF Fixed("reserve") THEN rsv ELSE [rsv EXCEPT ![Dst] = @ \ {M}]
    /\ mv' = [mv EXCEPT !.tpc = "meta", !.oport = 0]
    /\ UNCHANGED <<cfg, up, reg, db, orph, gh>>

T_Meta ==
    /\ T("meta")
    /\ IF mv.conn # "open"
       THEN TFailUpd(FALSE)
       ELSE /\ mv' = [mv EXCEPT !.tpc = "data", !.k = 0] /\ UNCHANGED <<avail, disk, rsv>>
    /\ UNCHANGED <<cfg, up, reg, db, orph, gh>>

\* generateTar (source, its own goroutine): walks DataDir/<id> and streams one unit (file) after the other; it runs AHEAD
\* of the target (pipes, socket buffers).  sent = units read so far, sgood = those of them that were intact.
\* A file that has vanished under the walk (lstat: not exist) ENDS THE ARCHIVE WITHOUT AN ERROR as the code is
\* ("if os.IsNotExist(err) { err = nil }" - meant for a torrent that has no data directory yet); tar = "eof" | "abort".
S_Tar ==
    /\ Running /\ mv.spc = "send" /\ mv.conn = "open" /\ up[Src] /\ mv.tar = "open" /\ mv.sent < cfg.U
    /\ IF M \in DOMAIN disk[Src]
       THEN mv' = [mv EXCEPT !.sent = @ + 1, !.sgood = @ \cup ({mv.sent + 1} \cap GoodOf(Src, M, mv.spec.t))]
       ELSE \* (a file that vanishes while it is being copied is a short read: "missed writing" - the request is aborted)
            \E how \in (IF Fixed("walk") THEN {"abort"} ELSE {"eof", "abort"}) : mv' = [mv EXCEPT !.tar = how]
    /\ UNCHANGED <<cfg, up, reg, db, avail, disk, rsv, orph, gh>>

\* one unit of the archive at the target: create the file, copy, fsync
T_Data ==
    /\ T("data")
    /\ LET old  == GoodOf(Dst, M, mv.spec.t)
           torn == Put(disk[Dst], M, [t |-> mv.spec.t, good |-> old])   \* a file created and not completed
       IN
       IF mv.k = cfg.U \/ (mv.k = mv.sent /\ mv.tar = "eof")
       THEN \* end of the archive (the rest of the request body is not read)
            /\ mv' = [mv EXCEPT !.tpc = "dbwrite"] /\ UNCHANGED <<avail, disk, rsv, gh>>
       ELSE IF mv.conn # "open"
       THEN /\ avail' = [avail EXCEPT ![Dst] = @ \cup {mv.tport}]
            /\ mv' = [mv EXCEPT !.tpc = "done", !.resp = "err", !.tport = 0]
            /\ disk' = IF Fixed("cleanup") THEN [disk EXCEPT ![Dst] = Del(@, M)] ELSE [disk EXCEPT ![Dst] = torn]
            /\ rsv' = IF Fixed("reserve") THEN [rsv EXCEPT ![Dst] = @ \ {M}] ELSE rsv
            /\ UNCHANGED gh
       ELSE IF mv.k = mv.sent
       THEN \* nothing to read yet - unless the source has aborted the request
            /\ mv.tar = "abort"
            /\ TFailUpd(mv.k > 0) /\ UNCHANGED gh
       ELSE \/ /\ disk' = [disk EXCEPT ![Dst] = Put(@, M, [t |-> mv.spec.t, good |-> old \cup ({mv.k + 1} \cap mv.sgood)])]
               /\ mv' = [mv EXCEPT !.k = @ + 1]
               /\ UNCHANGED <<avail, rsv, gh>>
            \/ /\ Fault("disk")                    \* os.MkdirAll / os.Create / write / fsync fails
               /\ TFailUpd(mv.k > 0)
               /\ Note("disk@" \o ToString(mv.k))
    /\ UNCHANGED <<cfg, up, reg, db, orph>>

T_DbWrite ==
    /\ T("dbwrite")
    /\ \/ /\ db' = [db EXCEPT ![Dst] = Put(@, M, [t |-> mv.spec.t, port |-> mv.tport, started |-> mv.spec.started, bf |-> mv.spec.bf])]
          /\ mv' = [mv EXCEPT !.tpc = "load"]
          /\ UNCHANGED <<avail, disk, rsv, gh>>
       \/ /\ Fault("dbfail")
          /\ TFailUpd(TRUE) /\ UNCHANGED db
          /\ Note("dbfail")
    /\ UNCHANGED <<cfg, up, reg, orph>>

\* loadExistingTorrent: Read, newTorrent, insertTorrent (whatever is registered under the id is dropped from the map, not closed)
T_Load ==
    /\ T("load")
    /\ \/ /\ reg' = [reg EXCEPT ![Dst] = Put(@, M, [t |-> mv.spec.t, port |-> mv.tport, run |-> FALSE, bf |-> mv.spec.bf])]
          /\ orph' = IF M \in DOMAIN reg[Dst] THEN [orph EXCEPT ![Dst] = @ \cup {reg[Dst][M].port}] ELSE orph
          /\ rsv' = [rsv EXCEPT ![Dst] = @ \ {M}]
          /\ mv' = [mv EXCEPT !.tpc = "start"]
          /\ UNCHANGED <<avail, disk, gh>>
       \/ /\ Fault("loadfail")                     \* model only: cannot be forced on the real code
          /\ TFailUpd(FALSE) /\ UNCHANGED <<reg, orph>>
          /\ Note("loadfail")
    /\ UNCHANGED <<cfg, up, db>>

T_Start ==
    /\ T("start")
    /\ reg' = IF mv.spec.started /\ M \in DOMAIN reg[Dst] THEN [reg EXCEPT ![Dst][M].run = TRUE] ELSE reg
    /\ mv' = [mv EXCEPT !.tpc = "reply"]
    /\ UNCHANGED <<cfg, up, db, avail, disk, rsv, orph, gh>>

T_Reply ==
    /\ T("reply")
    /\ mv' = [mv EXCEPT !.tpc = "done", !.resp = "ok", !.tport = 0]
    /\ UNCHANGED <<cfg, up, reg, db, avail, disk, rsv, orph, gh>>

\* ---------------------------------------------------------------------------------------------- environment
N_Cut ==
    /\ Running /\ mv.conn = "open" /\ mv.spc = "send" /\ Fault("cut")
    /\ mv' = [mv EXCEPT !.conn = "cut"]
    /\ NoteL("cut@" \o Where)
    /\ UNCHANGED <<cfg, up, reg, db, avail, disk, rsv, orph>>

\* SIGKILL of the process of session s
CrashUpd(s) ==
    /\ up' = UpS(s, FALSE)
    /\ reg' = [reg EXCEPT ![s] = EmptyFn]
    /\ avail' = [avail EXCEPT ![s] = {}]
    /\ rsv' = [rsv EXCEPT ![s] = {}]
    /\ orph' = [orph EXCEPT ![s] = {}]
    /\ mv' = [mv EXCEPT !.spc = IF Running /\ s = Src /\ SrcBusy THEN "dead" ELSE @,
                        !.res = IF Running /\ s = Src /\ SrcBusy THEN "none" ELSE @,
                        !.tpc = IF Running /\ s = Dst /\ HandlerBusy THEN "dead" ELSE @,
                        !.conn = IF Running /\ @ = "open" /\ (s = Src \/ s = Dst) THEN "cut" ELSE @,
                        !.tport = IF s = Dst THEN 0 ELSE @,
                        !.oport = IF (s = Src /\ mv.spc \in {"dbdel", "rel"}) \/ (s = Dst /\ mv.tpc \in {"dup_db", "dup_rel"}) THEN 0 ELSE @]

Crash(s) ==
    /\ Running /\ up[s] /\ Fault("crash")
    /\ CrashUpd(s)
    /\ \/ UNCHANGED disk
       \/ /\ s = Dst /\ mv.tpc = "data" /\ mv.k < cfg.U /\ mv.spec # Null      \* killed in the middle of a file
          /\ disk' = [disk EXCEPT ![Dst] = Put(@, M, [t |-> mv.spec.t, good |-> GoodOf(Dst, M, mv.spec.t)])]
    /\ gh' = [gh EXCEPT !.faults = Append(@, (IF s = Src THEN "scrash@" ELSE "tcrash@") \o
                                             (IF s = Src THEN (IF mv.spc = "send" THEN Where ELSE mv.spc) ELSE Where)),
                        !.lost = TRUE, !.crashed = @ \cup {s}]
    /\ UNCHANGED <<cfg, db>>

\* NewSession on the same database and data directory
Loaded(s) == [i \in DOMAIN db[s] |-> [t |-> db[s][i].t, port |-> db[s][i].port, run |-> db[s][i].started, bf |-> db[s][i].bf]]
RestartUpd(s) ==
    /\ up' = UpS(s, TRUE)
    /\ reg' = [reg EXCEPT ![s] = Loaded(s)]
    /\ avail' = [avail EXCEPT ![s] = cfg.range \ {db[s][i].port : i \in DOMAIN db[s]}]

\* Session.Close: every torrent is closed (bitfield written), then the process ends
Flushed(s) == [i \in DOMAIN db[s] |-> IF i \in DOMAIN reg[s] THEN [db[s][i] EXCEPT !.bf = reg[s][i].bf] ELSE db[s][i]]

\* the user removes the torrent at the source while the stream is in flight
I_Remove(keep) ==
    /\ Running /\ mv.spc = "send" /\ mv.conn = "open" /\ up[Src] /\ Src # Dst /\ M \in DOMAIN reg[Src] /\ Fault("srm")
    /\ reg' = [reg EXCEPT ![Src] = Del(@, M)]
    /\ db' = [db EXCEPT ![Src] = Del(@, M)]
    /\ avail' = [avail EXCEPT ![Src] = @ \cup {reg[Src][M].port}]
    /\ disk' = IF keep THEN disk ELSE [disk EXCEPT ![Src] = Del(@, M)]
    /\ gh' = [gh EXCEPT !.faults = Append(@, (IF keep THEN "srm:keep@" ELSE "srm:del@") \o Where), !.removed = TRUE]
    /\ UNCHANGED <<cfg, up, rsv, orph, mv>>

\* the user closes the source session while the stream is in flight (Close, then the process exits)
I_Close ==
    /\ Running /\ mv.spc = "send" /\ mv.conn = "open" /\ up[Src] /\ Src # Dst /\ Fault("sclose")
    /\ db' = [db EXCEPT ![Src] = Flushed(Src)]
    /\ CrashUpd(Src)
    /\ gh' = [gh EXCEPT !.faults = Append(@, "sclose@" \o Where), !.lost = TRUE, !.crashed = @ \cup {Src}]
    /\ UNCHANGED <<cfg, disk>>

\* the user adds another torrent (t2, stopped) with the SAME explicit id at the target while the handler is past its
\* duplicate check: Session.add refuses an id that is registered or reserved
I_Add ==
    /\ Running /\ mv.tpc \in {"meta", "data"} /\ up[Dst] /\ Src # Dst /\ ~gh.tadded /\ Fault("tadd")
    /\ IF M \in DOMAIN reg[Dst] \/ M \in rsv[Dst] \/ avail[Dst] = {}
       THEN UNCHANGED <<reg, db, avail>>
       ELSE /\ reg' = [reg EXCEPT ![Dst] = Put(@, M, [t |-> "t2", port |-> Min(avail[Dst]), run |-> FALSE, bf |-> {}])]
            /\ db' = [db EXCEPT ![Dst] = Put(@, M, [t |-> "t2", port |-> Min(avail[Dst]), started |-> FALSE, bf |-> {}])]
            /\ avail' = [avail EXCEPT ![Dst] = @ \ {Min(@)}]
    /\ gh' = [gh EXCEPT !.faults = Append(@, "tadd@" \o Where), !.tadded = TRUE]
    /\ UNCHANGED <<cfg, up, disk, rsv, orph, mv>>

\* ---------------------------------------------------------------------------------------------- end of the history
MoveOver == mv.ph = "run" /\ ~SrcBusy /\ ~HandlerBusy

\* the move has ended on both sides: first observation point
Settle ==
    /\ MoveOver /\ gh.phase = "move"
    /\ mv' = [mv EXCEPT !.ph = "over"]
    /\ gh' = [gh EXCEPT !.phase = "settled"]
    /\ UNCHANGED <<cfg, up, reg, db, avail, disk, rsv, orph>>

\* every session goes down (SIGKILL if how = "crash", Close if how = "close"; one that is down stays as it is) and comes
\* back: second observation point
FinalRestart(how) ==
    /\ gh.phase = "settled" /\ cfg.final
    /\ LET d == [s \in Sess |-> IF up[s] /\ how = "close" THEN Flushed(s) ELSE db[s]] IN
       /\ db' = d
       /\ up' = [s \in Sess |-> TRUE]
       /\ reg' = [s \in Sess |-> [i \in DOMAIN d[s] |-> [t |-> d[s][i].t, port |-> d[s][i].port, run |-> d[s][i].started, bf |-> d[s][i].bf]]]
       /\ avail' = [s \in Sess |-> cfg.range \ {d[s][i].port : i \in DOMAIN d[s]}]
    /\ rsv' = [s \in Sess |-> {}]
    /\ orph' = [s \in Sess |-> {}]
    /\ gh' = [gh EXCEPT !.phase = "final:" \o how]
    /\ UNCHANGED <<cfg, disk, mv>>

Next ==
    \/ S_Begin \/ S_Stop \/ L_Flush \/ S_Read \/ S_Connect \/ S_Tar \/ S_Resp \/ S_Detach \/ S_DbDel \/ S_Rel \/ S_Fail
    \/ T_Port \/ T_Id \/ T_Dup \/ T_DupDb \/ T_DupRel \/ T_Meta \/ T_Data \/ T_DbWrite \/ T_Load \/ T_Start \/ T_Reply
    \/ N_Cut \/ \E s \in Sess : Crash(s)
    \/ \E keep \in BOOLEAN : I_Remove(keep)
    \/ I_Close \/ I_Add
    \/ Settle \/ \E how \in {"crash", "close"} : FinalRestart(how)

Steps == S_Begin \/ S_Stop \/ L_Flush \/ S_Read \/ S_Connect \/ S_Tar \/ S_Resp \/ S_Detach \/ S_DbDel \/ S_Rel \/ S_Fail
         \/ T_Port \/ T_Id \/ T_Dup \/ T_DupDb \/ T_DupRel \/ T_Meta \/ T_Data \/ T_DbWrite \/ T_Load \/ T_Start \/ T_Reply

-----------------------------------------------------------------------------
(* Obligations (state predicates over the model state; the trace specification evaluates the same conditions on the  *)
(* observed state of the two real sessions)                                                                           *)

\* gh.t0 = the torrent that is moved ("t1" at design level)
HasRec(s)  == M \in DOMAIN db[s] /\ db[s][M].t = gh.t0
DataOK(s)  == gh.bf0 \subseteq GoodOf(s, M, gh.t0)
Durable(s) == HasRec(s) /\ DataOK(s)

\* @obligation X05.a  at-least-one: at no point of any history - whatever crashes, whichever session restarts from its
\*   database and data directory - is the torrent without a session that holds its resume record AND the data of the
\*   pieces it had, unless the user removed it
AtLeastOne == gh.removed \/ \E s \in Sess : Durable(s)

\* @obligation X05.b  no phantom: a move reported as failed leaves the source with the torrent in the state it had
\*   (running if it was running, the bitfield it had) and leaves nothing half-added at the target: no data without a
\*   record, no record that is not a registered torrent; a complete copy at the target is possible only when the answer
\*   was lost on the way (cut / crash after the commit)
Failed == mv.res = "fail" /\ ~HandlerBusy
SourceKept ==
    Failed /\ up[Src] /\ Src \notin gh.crashed /\ ~gh.removed =>
        /\ M \in DOMAIN reg[Src] /\ reg[Src][M].t = gh.t0
        /\ reg[Src][M].bf = gh.bf0
        /\ Durable(Src)
SourceRunState ==
    Failed /\ up[Src] /\ Src \notin gh.crashed /\ ~gh.removed /\ M \in DOMAIN reg[Src] => reg[Src][M].run = gh.run0
TargetCommitted == HasRec(Dst) /\ db[Dst][M].bf \subseteq GoodOf(Dst, M, gh.t0) /\ (up[Dst] => M \in DOMAIN reg[Dst])
TargetNoRecord == M \notin DOMAIN db[Dst] /\ (up[Dst] => M \notin DOMAIN reg[Dst])
NoPhantomRecord ==
    Failed /\ Src # Dst /\ ~gh.tadded /\ gh.binit \notin {"dupsame", "dupother"} =>
        TargetNoRecord \/ (TargetCommitted /\ gh.lost)
\* (also when nothing was reported because the SOURCE died or was closed in mid-stream: the handler saw the broken
\*  request, answered 500 to nobody, and is the one who knows what it has written)
NoOrphanData ==
    mv.res \in {"fail", "none"} /\ ~HandlerBusy /\ Src # Dst /\ ~mv.hadDir /\ M \notin DOMAIN db[Dst] /\ Dst \notin gh.crashed
        => M \notin DOMAIN disk[Dst]
\* DESIGN LIMIT (holds in neither variant, MC_Move_limit_crashorphan.cfg): a target that is KILLED while it receives leaves
\* the files it has written; nothing refers to them after its restart.  Closing this needs a scan at start-up (or a
\* staging directory that start-up empties), not a patch of the handler.
NoOrphanDataEvenAfterCrash ==
    mv.res \in {"fail", "none"} /\ ~HandlerBusy /\ Src # Dst /\ ~mv.hadDir /\ M \notin DOMAIN db[Dst] => M \notin DOMAIN disk[Dst]

\* @obligation X05.c  a move reported as successful: the target holds the torrent with the same info-hash, (name,
\*   trackers: carried in the record, compared by the trace specification), the bitfield the source had, the same
\*   started state, and the data of every piece had; the source does not list it any more
Succeeded == mv.res = "ok" /\ ~gh.removed /\ Src # Dst
TargetHasIt ==
    Succeeded => /\ Durable(Dst) /\ db[Dst][M].started = gh.run0
                 /\ (up[Dst] => M \in DOMAIN reg[Dst] /\ reg[Dst][M].t = gh.t0 /\ reg[Dst][M].run = gh.run0)
TargetBitfield ==
    Succeeded /\ M \in DOMAIN db[Dst] => db[Dst][M].bf = gh.bf0 /\ (up[Dst] /\ M \in DOMAIN reg[Dst] => reg[Dst][M].bf = gh.bf0)
SourceGone ==
    Succeeded => M \notin DOMAIN db[Src] /\ (up[Src] => M \notin DOMAIN reg[Src])

\* @obligation X05.d  verified data only: a bitfield (in a resume record or in memory) claims only pieces whose data is
\*   intact on that session's disk - a truncated or torn stream must not leave claimed pieces
ClaimsOnlyIntact ==
    \A s \in Sess :
        /\ \A i \in DOMAIN db[s] : db[s][i].bf \subseteq GoodOf(s, i, db[s][i].t)
        /\ up[s] => \A i \in DOMAIN reg[s] : reg[s][i].bf \subseteq GoodOf(s, i, reg[s][i].t)

\* @obligation X05.e  ids / ports / records of each session keep the invariants of C14 (predicates of Session.tla,
\*   instantiated per session; a handler or a remove in flight is the one "caller" that may hold a port)
\* the handler holds its new port until the torrent is registered with it; a remove in flight (source: S_Detach..S_Rel,
\* target: T_Dup..T_DupRel) holds the port of the torrent it has detached
Held1(s) == IF Running /\ s = Dst /\ mv.tport # 0 /\ (M \notin DOMAIN reg[s] \/ reg[s][M].port # mv.tport) THEN mv.tport ELSE 0
Held2(s) == IF Running /\ mv.oport # 0 /\ ((s = Src /\ mv.spc \in {"dbdel", "rel"}) \/ (s = Dst /\ mv.tpc \in {"dup_db", "dup_rel"}))
            THEN mv.oport ELSE 0
BusyAt(s) == Running /\ ((s = Src /\ SrcBusy) \/ (s = Dst /\ HandlerBusy))
C14(s) == INSTANCE Session WITH
            cfg      <- [range |-> cfg.range, k |-> 2, atomic |-> TRUE, ret |-> FALSE, env |-> FALSE],
            torrents <- [i \in DOMAIN reg[s] |-> [h |-> reg[s][i].port, port |-> reg[s][i].port,
                                                  p |-> [st |-> reg[s][i].t, tiers |-> <<>>, cnt |-> 0]]],
            byih     <- {[h |-> reg[s][i].port, id |-> i] : i \in DOMAIN reg[s]},
            ports    <- avail[s],
            db       <- [i \in DOMAIN db[s] |-> [port |-> db[s][i].port, p |-> [st |-> db[s][i].t, tiers |-> <<>>, cnt |-> 0],
                                                 started |-> db[s][i].started, bad |-> FALSE]],
            invalid  <- {},
            orphans  <- {[h |-> p, id |-> M, port |-> p] : p \in orph[s]},
            reserved <- rsv[s],
            pc       <- [c \in {1, 2} |-> [op |-> IF BusyAt(s) THEN "Move" ELSE "idle", step |-> "x", id |-> M, h |-> 0,
                                           port |-> IF c = 1 THEN Held1(s) ELSE Held2(s), res |-> "", a |-> [x |-> 0]]],
            crashed  <- ""
SessionInvariants ==
    \A s \in Sess : up[s] =>
        /\ C14(s)!DistinctPorts /\ C14(s)!PortsPartition /\ C14(s)!NoOrphans /\ C14(s)!Conservation
        /\ C14(s)!RegistryIsDatabase /\ C14(s)!ReservedOnlyInFlight

SafetyFixed == AtLeastOne /\ SourceKept /\ SourceRunState /\ NoPhantomRecord /\ NoOrphanData /\ TargetHasIt /\ TargetBitfield
               /\ SourceGone /\ ClaimsOnlyIntact /\ SessionInvariants

TypeOK ==
    /\ up \in [Sess -> BOOLEAN]
    /\ \A s \in Sess : avail[s] \subseteq cfg.range /\ orph[s] \subseteq cfg.range /\ rsv[s] \subseteq {M}
    /\ mv.ph \in {"idle", "run", "over"} /\ mv.k \in 0 .. cfg.U /\ mv.sent \in mv.k .. cfg.U
    /\ mv.res \in {"", "ok", "fail", "none"} /\ mv.resp \in {"", "ok", "err"} /\ mv.conn \in {"none", "open", "cut"}

\* @obligation X05.f  (design level) a move ends - reported ok, reported failed, or its source is dead - in finitely
\*   many steps whenever every enabled step is eventually taken and the network delivers or cuts; there is no state in
\*   which a move is in progress and neither session can take a step (no deadlock between the two sessions)
Fairness == WF_vars(Steps) /\ WF_vars(Settle)
MoveEnds == (mv.ph = "run") ~> (mv.ph = "over")
NoStuckMove == mv.ph = "run" => (ENABLED Steps \/ ENABLED Settle)

-----------------------------------------------------------------------------
(* Abstraction shared with the trace specification (drift detection): what the two sessions look like at an           *)
(* observation point.                                                                                                 *)
BfClass(b) == IF b = gh.bf0 THEN "eq" ELSE IF b = {} THEN "none" ELSE "less"
DiskClass(s) == IF M \notin DOMAIN disk[s] THEN "none" ELSE IF gh.bf0 \subseteq GoodOf(s, M, gh.t0) THEN "full" ELSE "part"
AbsS(s) ==
    [up   |-> up[s],
     live |-> IF up[s] /\ M \in DOMAIN reg[s] THEN reg[s][M].t ELSE "",
     run  |-> up[s] /\ M \in DOMAIN reg[s] /\ reg[s][M].run,
     mbf  |-> IF up[s] /\ M \in DOMAIN reg[s] THEN BfClass(reg[s][M].bf) ELSE "",
     rec  |-> IF up[s] /\ M \in DOMAIN db[s] THEN db[s][M].t ELSE "",          \* (the database of a dead process is not looked at)
     st   |-> up[s] /\ M \in DOMAIN db[s] /\ db[s][M].started,
     dbf  |-> IF up[s] /\ M \in DOMAIN db[s] THEN BfClass(db[s][M].bf) ELSE "",
     disk |-> DiskClass(s),
     free |-> IF up[s] THEN Cardinality(avail[s]) ELSE 0,
     n    |-> IF up[s] THEN Cardinality(DOMAIN reg[s]) ELSE 0]
Abs == [A |-> AbsS("A"), B |-> AbsS("B"), res |-> mv.res]
=============================================================================
