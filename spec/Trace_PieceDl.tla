--------------------------- MODULE Trace_PieceDl ---------------------------
(***************************************************************************)
(* Trace specification: judges ndjson histories recorded from the REAL     *)
(* internal/piecedownloader.PieceDownloader (harness/x04: stub peer that   *)
(* records RequestPiece / CancelPiece, the loop's calling discipline done  *)
(* by the driver) against the envelope of PieceDl.tla.                     *)
(*                                                                         *)
(* Every line carries the call (op, q / b, n, tag), what the call sent     *)
(* (reqs, cans), what it returned (res), and after it: Done() (done) and   *)
(* the piece buffer block by block (buf[x] = the byte value that fills the *)
(* region of block x of the driver's own block table, -1 if mixed; dirty = *)
(* non-zero bytes outside all regions).  The shadow state is the wire view *)
(* (out, have, store) of the envelope; the obligations of the call are     *)
(* evaluated on (state before, arguments, observation).  A failed          *)
(* obligation does not block: every violated tag is printed ("@@VIOL tag   *)
(* line") and the rest of that history is skipped (dead) - a history is    *)
(* judged up to its first violation.  Histories are concatenated ("Init"   *)
(* resets).                                                                *)
(***************************************************************************)
EXTENDS PieceDl, Json

VARIABLES l, dead
tvars == <<vars, l, dead>>

Trace == ndJsonDeserialize("trace.ndjson")
Ev == Trace[l]

CfgOf(e) == [idx |-> e.idx, bs |-> e.bs, secs |-> e.secs, fast |-> e.fast, af |-> e.af]

Note(S) == \A t \in S : PrintT("@@VIOL " \o t \o " " \o ToString(l))

\* the driver's own block table must be the one of the specification (otherwise the buffer regions mean nothing)
TableViols(e) ==
    LET bt == MkCfg(CfgOf(e)).bt IN
    Tag(~(Len(bt) = Len(e.bt) /\ \A x \in 1 .. Len(bt) : bt[x].b = e.bt[x][1] /\ bt[x].n = e.bt[x][2]), "X04.machinery.table")

TraceInit ==
    /\ l = 2
    /\ Trace[1].op = "Init"
    /\ InitWith(CfgOf(Trace[1]), Trace[1].chokd)
    /\ Note(TableViols(Trace[1]))
    /\ dead = FALSE
    /\ TLCSet(1, 1)

\* observations that every line carries: Done(), the buffer, and that nothing was sent by a call that must not send
ObsViols(e, h2, s2) ==
    Tag(e.done # AllStored(h2), "X04.e.done")
    \cup Tag(~(Len(e.buf) = NB /\ e.dirty = 0 /\ \A x \in Block : e.buf[x] = s2[x]), "X04.e.buf")
    \cup Tag((e.op # "Request" /\ e.reqs # <<>>) \/ (e.op # "Cancel" /\ e.cans # <<>>), "X04.c.quiet")

Judge(S) == Note(S) /\ dead' = (S # {}) /\ l' = l + 1

TrReset ==
    /\ Ev.op = "Init" /\ ResetWith(CfgOf(Ev), Ev.chokd) /\ Note(TableViols(Ev))
    /\ l' = l + 1 /\ dead' = FALSE
TrSkip == dead /\ Ev.op # "Init" /\ l' = l + 1 /\ UNCHANGED <<vars, dead>>

TrRequest ==
    /\ ~dead /\ Ev.op = "Request"
    /\ Judge(RequestViols(Ev.q, Ev.reqs) \cup ObsViols(Ev, have, store))
    /\ RequestUpdate(Ev.reqs)
TrBlock ==
    /\ ~dead /\ Ev.op = "Block"
    /\ Judge(BlockViols(Ev.b, Ev.n, Ev.res) \cup ObsViols(Ev, HaveAfter(Ev.b, Ev.n), StoreAfter(Ev.b, Ev.n, Ev.tag)))
    /\ BlockUpdate(Ev.b, Ev.n, Ev.tag) /\ UNCHANGED open
TrReject ==
    /\ ~dead /\ Ev.op = "Reject"
    /\ Judge(RejectViols(Ev.b, Ev.n, Ev.res = "true") \cup ObsViols(Ev, have, store))
    /\ RejectUpdate(Ev.b, Ev.n)
TrChoke == ~dead /\ Ev.op = "Choke" /\ Judge(ObsViols(Ev, have, store)) /\ Choke
TrUnchoke == ~dead /\ Ev.op = "Unchoke" /\ Judge(ObsViols(Ev, have, store)) /\ Unchoke
TrSnub == ~dead /\ Ev.op = "Snub" /\ Judge(ObsViols(Ev, have, store)) /\ Snub
TrCancel ==
    /\ ~dead /\ Ev.op = "Cancel"
    /\ Judge(CancelViols(Ev.cans) \cup ObsViols(Ev, have, store))
    /\ open /\ CloseUpdate
TrDisconnect == ~dead /\ Ev.op = "Disconnect" /\ Judge(ObsViols(Ev, have, store)) /\ Disconnect
TrPanic == ~dead /\ Ev.op = "Panic" /\ Judge({"X04.panic"}) /\ UNCHANGED vars

TraceNext ==
    /\ l <= Len(Trace)
    /\ \/ TrReset \/ TrSkip \/ TrRequest \/ TrBlock \/ TrReject \/ TrChoke \/ TrUnchoke \/ TrSnub
       \/ TrCancel \/ TrDisconnect \/ TrPanic

TraceSpec == TraceInit /\ [][TraceNext]_tvars

HighWater == TLCSet(1, IF l > TLCGet(1) THEN l ELSE TLCGet(1))
TraceAccepted ==
    LET hw == TLCGet(1) IN
    IF hw = Len(Trace) + 1 THEN TRUE
    ELSE /\ PrintT("@@REJECT " \o ToString(hw - 1) \o " " \o ToString(Len(Trace)))
         /\ FALSE
=============================================================================
