SPECIFICATION Spec
CONSTANTS
  IPs = {1, 2}
  Ports = {1, 2}
  SLOTS = 1
  BANFIRST = TRUE
  STOPCLEARS = FALSE
INVARIANT NeverDialBanned
INVARIANT OnePerIP
INVARIANT BanForGood
CHECK_DEADLOCK FALSE
