SPECIFICATION ASpec
CONSTANTS
  SECS <- Secs_plain3
  BS = 2
  QLENS = {1, 2, 3}
  FAST = TRUE
  AF = FALSE
  REJ = "any"
  UNREQ = FALSE
  ENDS = TRUE
  VARIANT = "asis"
  IGNORE = {}
INVARIANT AInvConf
VIEW AView
CHECK_DEADLOCK FALSE
CONSTRAINT RemBound
CONSTRAINT Alive
