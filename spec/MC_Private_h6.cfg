SPECIFICATION Spec
CONSTANTS
  MaxHist = 6
  AsIs = {}
INVARIANT TypeOK
INVARIANT InvSources
INVARIANT InvDht
INVARIANT InvPex
INVARIANT InvMagnet
INVARIANT InvRefused
INVARIANT InvAdopt
INVARIANT InvNoLeak
INVARIANT InvIdentity
INVARIANT InvGone
INVARIANT InvStopping
CHECK_DEADLOCK FALSE
