---------------------------- MODULE MC_PathsAlt ----------------------------
(* Alternative sources (name.utf-8 / path.utf-8): exhaustive over small     *)
(* torrents that carry BOTH a plain and an alternative value.               *)
(*   UsedIsValidated : validating the EFFECTIVE value (the one the paths    *)
(*        are built from) confines every accepted torrent, utf8 on or off;  *)
(*   NoOrderHole (vacuity guard, must be VIOLATED): validating the PLAIN    *)
(*        value while using the effective one is not enough.                *)
EXTENDS Paths
CONSTANTS SYMS, MAXLEN

Comps == UNION {[1 .. k -> SYMS] : k \in 0 .. MAXLEN}
PathsS == {<<c>> : c \in Comps} \cup {<<c, d>> : c \in {<<"D", "D">>, <<"L">>}, d \in Comps}
Opt(S) == {[has |-> 0, v |-> <<>>]} \cup {[has |-> 1, v |-> x] : x \in S}

VARIABLE t
MCInit == t \in [name : {<<>>, <<"L">>, <<"D">>, <<"D", "D">>}, n8 : Opt(Comps), files : {<<>>} \cup {<<p>> : p \in PathsS},
                 f8 : {<<>>} \cup {<<o>> : o \in Opt(PathsS \cup {<<>>})}]
          /\ Len(t.files) = Len(t.f8)
MCNext == FALSE /\ UNCHANGED t
MCSpec == MCInit /\ [][MCNext]_t

UsedIsValidated == \A u \in BOOLEAN, w \in {0, 1} :
    LET e == Effective(t, u) IN Accepts(e, "fix") => ModelConfined(e, w) /\ ModelDistinct(e, w) /\ ModelRemoveOK(e, w, "fix")
NoOrderHole == \A w \in {0, 1} : Accepts(Plain(t), "fix") => ModelConfined(Effective(t, TRUE), w)
=============================================================================
