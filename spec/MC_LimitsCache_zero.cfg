SPECIFICATION QSpec
CONSTANTS
  Readers = {1, 2}
  KeySet = {1, 2}
  Sizes = {0, 1}
  MAX = 0
  PAR = 2
  NCALLS = 2
  FIXED = TRUE
  ERRS = {FALSE}
  TTL = FALSE
  CLEAR = FALSE
INVARIANT QInv
INVARIANT PNoCrash
PROPERTY Refines
CHECK_DEADLOCK FALSE
