SPECIFICATION MCSpec
CONSTANTS
  NP = 1
  PLEN <- PLEN_6
  MAXBLK = 3
  MAXQ = 2
  CB = 2
  NCONN = 2
  HAVE0 = {0}
  REQS <- REQS_H
  AFP = {0}
  PAF = {}
  NSEND = 2
  NFLIP = 0
  NOPEN = 2
  NTRUNC = 0
  AFCHECK = "sent"
  SHORTREAD = "error"
  TWOPHASE = TRUE
  BUFS = "reuse"
INVARIANT NoBad
INVARIANT QueueBound
INVARIANT QueuedValid
INVARIANT CacheTruth
INVARIANT ViewSound
CHECK_DEADLOCK FALSE
