SPECIFICATION Spec
CONSTANTS
  NT = 3
  NPIECE = 2
  PAIRING = "byid"
INVARIANT Inv
CHECK_DEADLOCK FALSE
