SPECIFICATION MCSpec
CONSTANTS
  SECS <- Secs_plain5
  BS = 2
  QLENS = {1, 2, 3, 4}
  FAST = TRUE
  AF = FALSE
  REJ = "any"
  UNREQ = TRUE
  ENDS = TRUE
INVARIANT Inv
CHECK_DEADLOCK FALSE
