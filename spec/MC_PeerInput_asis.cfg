SPECIFICATION MCSpec
CONSTANTS
  N = 4
  NPE = 1
  K = 3
  ASIS = TRUE
  ALPHA = "reduced"
  MAXLEN = 10
  GUARD = TRUE
  AFPARK = FALSE
INVARIANT Inv
VIEW MCView
CHECK_DEADLOCK FALSE
