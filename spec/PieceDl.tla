------------------------------ MODULE PieceDl ------------------------------
(***************************************************************************)
(* Request pipeline of ONE piece download from ONE peer                    *)
(* (internal/piecedownloader.PieceDownloader) in the calling discipline of *)
(* the torrent event loop:                                                 *)
(*   torrent_start.go   startSinglePieceDownloader  New ; RequestBlocks(q) *)
(*   torrent_messagehandler.go                                             *)
(*     handlePieceMessage  GotBlock ; not Done and (allowed-fast download  *)
(*                         or peer not choking) -> RequestBlocks(q) ;      *)
(*                         Done -> closePieceDownloader, write the piece   *)
(*     ChokeMessage        PeerChoking := TRUE  ; unless the download is   *)
(*                         allowed-fast: Choked()                          *)
(*     UnchokeMessage      PeerChoking := FALSE ; unless the download is   *)
(*                         allowed-fast: RequestBlocks(q)                  *)
(*     RejectMessage       Rejected(begin, length)  (no RequestBlocks)     *)
(*   torrent_peer.go    handlePeerSnubbed: the request timeout marks the   *)
(*                      peer snubbed (the piece may then be given to a     *)
(*                      second peer); NOTHING changes for the requests of  *)
(*                      this download: rain has no "one request when       *)
(*                      snubbed" mode, and a timeout does not re-request   *)
(*   torrent_write.go / torrent_pieces.go  closePieceDownloader ;          *)
(*                      CancelPending (piece completed by another peer)    *)
(*   torrent_close.go   closePeer -> closePieceDownloader (disconnect)     *)
(*   q = maxAllowedRequests(pe) = min(reqq of the peer or                  *)
(*       DefaultRequestsOut, MaxRequestsOut)                               *)
(*                                                                         *)
(* The first half is an ENVELOPE over what is observable on the            *)
(* connection: request / cancel messages sent, piece / reject / choke /    *)
(* unchoke messages received, the piece buffer, Done().  `out` counts the  *)
(* request MESSAGES that are outstanding per block: sent and not yet       *)
(* answered by a piece or reject message, nor voided by a choke of a peer  *)
(* without the fast extension (BEP 3: requests are dropped on choke), nor  *)
(* cancelled.  Which blocks a call requests, and in which order, is left   *)
(* to the code.  The second half (Alg...) is the algorithm of              *)
(* piecedownloader.go itself, as it is ("asis") and repaired ("fixed");    *)
(* MC_PieceDlAlg runs it against the envelope.                             *)
(*                                                                         *)
(* @obligation X04.a  a call of RequestBlocks(q) that sends a request      *)
(*                    leaves at most q request messages outstanding        *)
(*                    (global form: QueueBound).  There is no smaller      *)
(*                    limit for a snubbed peer in rain (see above).        *)
(* @obligation X04.b  every request is for this piece and for a block of   *)
(*                    its block table (begin / length exact, the last      *)
(*                    block of a run shorter, padding never requested:     *)
(*                    X04.b.geom) and never for a block that has been      *)
(*                    stored (X04.b.have)                                  *)
(* @obligation X04.c  no second request message for a block while one is   *)
(*                    outstanding: a block is requested again only after   *)
(*                    its request was answered by reject, voided by a      *)
(*                    choke (no fast extension), i.e. out = 0;             *)
(*                    X04.c.cancel: CancelPending cancels exactly the      *)
(*                    outstanding requests; X04.c.quiet: no other call     *)
(*                    sends anything                                       *)
(* @obligation X04.d  what GotBlock accepts.  The code (and therefore the  *)
(*                    envelope) stores EVERY block of the block table that *)
(*                    is not stored yet - also one that is not outstanding *)
(*                    (late after a choke, or never requested): result     *)
(*                    "notreq" instead of "ok", the caller only logs it    *)
(*                    and counts the bytes as downloaded, not as wasted    *)
(*                    (named deviation from "accept only what is           *)
(*                    outstanding"; harmless: the piece is hash-checked).  *)
(*                    X04.d.accept: stored iff block of the table and not  *)
(*                    stored before (exactly once); anything else is       *)
(*                    refused without touching the buffer.  X04.d.class:   *)
(*                    ok / notreq / dup / invalid as the wire history says *)
(* @obligation X04.e  Done() iff all blocks are stored (X04.e.done); the   *)
(*                    buffer holds, block by block, exactly the bytes of   *)
(*                    the accepted deliveries and zeros elsewhere          *)
(*                    (X04.e.buf, trace level with distinguishable data)   *)
(* @obligation X04.f  choke of a peer WITHOUT fast extension: all          *)
(*                    outstanding requests are lost (out := 0) and are     *)
(*                    requested again by the RequestBlocks call after the  *)
(*                    unchoke (through X04.g.fill); WITH fast extension or *)
(*                    for an allowed-fast download nothing is lost on      *)
(*                    choke, only rejected requests are re-requested.      *)
(*                    X04.f.rejres: Rejected() is true iff (begin, length) *)
(*                    is a block of the table.  X04.f.choked (wire level,  *)
(*                    discipline): no request is sent to a choking peer    *)
(*                    except for an allowed-fast download                  *)
(* @obligation X04.g  progress.  Per call (X04.g.fill): RequestBlocks(q)   *)
(*                    leaves a missing block without outstanding request   *)
(*                    only if q request messages are outstanding;          *)
(*                    X04.g.stuck is the fatal special case (blocks        *)
(*                    missing, nothing outstanding, nothing requested).    *)
(*                    Design level: with these per-call obligations no     *)
(*                    stuck state is reachable (NoStuck) and the piece     *)
(*                    completes if the peer keeps answering (Completes,    *)
(*                    MC_PieceDl_live*.cfg).                               *)
(***************************************************************************)
EXTENDS Integers, FiniteSets, Sequences, TLC

VARIABLES cfg,     \* [idx, bs, secs, fast, af, bt]: piece index, block size, sections <<[len, pad]>> of the piece,
                   \*   peer has the fast extension, allowed-fast download, bt = block table <<[b, n]>>
          out,     \* [Block -> Nat] outstanding request messages
          have,    \* set of stored blocks
          store,   \* [Block -> Nat] content tag of the stored delivery (0 = nothing stored)
          chokd,   \* the peer is choking us
          snub,    \* the peer is snubbed (request timeout fired); no influence on the pipeline
          open     \* the download is registered in t.pieceDownloaders

vars == <<cfg, out, have, store, chokd, snub, open>>

-----------------------------------------------------------------------------
(* geometry: the block table of a piece (piece.CalculateBlocks): every      *)
(* maximal run of non-padding bytes is cut into blocks of bs bytes counted  *)
(* from the start of the run, the last block of a run is shorter            *)

RECURSIVE RunsAcc(_, _, _, _)
RunsAcc(secs, off, cur, acc) ==              \* cur = <<start, length>> of the run being collected
    IF secs = <<>> THEN (IF cur[2] > 0 THEN Append(acc, cur) ELSE acc)
    ELSE LET s == Head(secs) IN
         IF s.pad
         THEN RunsAcc(Tail(secs), off + s.len, <<off + s.len, 0>>, IF cur[2] > 0 THEN Append(acc, cur) ELSE acc)
         ELSE RunsAcc(Tail(secs), off + s.len, <<cur[1], cur[2] + s.len>>, acc)
Runs(secs) == RunsAcc(secs, 0, <<0, 0>>, <<>>)

BlocksOfRun(r, bs) ==
    [k \in 1 .. ((r[2] + bs - 1) \div bs) |->
        [b |-> r[1] + (k - 1) * bs, n |-> IF k * bs <= r[2] THEN bs ELSE r[2] - (k - 1) * bs]]

RECURSIVE Flatten(_, _)
Flatten(runs, bs) == IF runs = <<>> THEN <<>> ELSE BlocksOfRun(Head(runs), bs) \o Flatten(Tail(runs), bs)
BlockTable(secs, bs) == Flatten(Runs(secs), bs)

MkCfg(c) == [idx |-> c.idx, bs |-> c.bs, secs |-> c.secs, fast |-> c.fast, af |-> c.af, bt |-> BlockTable(c.secs, c.bs)]

NB == Len(cfg.bt)
Block == 1 .. NB
\* block id of (begin, length); 0 = not a block of the table
IdOf(b, n) == LET S == {i \in Block : cfg.bt[i].b = b /\ cfg.bt[i].n = n} IN IF S = {} THEN 0 ELSE CHOOSE i \in S : TRUE

Zero(c) == [x \in 1 .. Len(c.bt) |-> 0]

InitWith(c, ck) ==
    /\ cfg = MkCfg(c) /\ out = Zero(MkCfg(c)) /\ have = {} /\ store = Zero(MkCfg(c))
    /\ chokd = ck /\ snub = FALSE /\ open = TRUE
ResetWith(c, ck) ==
    /\ cfg' = MkCfg(c) /\ out' = Zero(MkCfg(c)) /\ have' = {} /\ store' = Zero(MkCfg(c))
    /\ chokd' = ck /\ snub' = FALSE /\ open' = TRUE

RECURSIVE SumTo(_, _)
SumTo(o, k) == IF k = 0 THEN 0 ELSE o[k] + SumTo(o, k - 1)
Total(o) == SumTo(o, NB)
Missing == Block \ have
AllStored(h) == h = Block
\* a choke voids the outstanding requests (BEP 3) unless the fast extension is on (BEP 6: every request is answered)
LostOnChoke == ~cfg.fast /\ ~cfg.af

Tag(b, t) == IF b THEN {t} ELSE {}

-----------------------------------------------------------------------------
(* RequestBlocks(q) sent the request messages reqs = <<[i, b, n]>>           *)

ReqIds(reqs) == [k \in 1 .. Len(reqs) |-> IF reqs[k].i = cfg.idx THEN IdOf(reqs[k].b, reqs[k].n) ELSE 0]
CountIn(ids, x) == Cardinality({k \in DOMAIN ids : ids[k] = x})
AddIds(o, ids) == [x \in Block |-> o[x] + CountIn(ids, x)]

RequestViols(q, reqs) ==
    LET ids == ReqIds(reqs)
        o2  == AddIds(out, ids)
        tot == Total(out) + Len(reqs)
    IN  Tag(\E k \in DOMAIN ids : ids[k] = 0, "X04.b.geom")
        \cup Tag(\E k \in DOMAIN ids : ids[k] \in have, "X04.b.have")
        \cup Tag(\E k \in DOMAIN ids : ids[k] # 0 /\ o2[ids[k]] > 1, "X04.c")
        \cup Tag(reqs # <<>> /\ tot > q, "X04.a")
        \cup Tag(tot < q /\ \E x \in Missing : o2[x] = 0, "X04.g.fill")
        \cup Tag(q > 0 /\ tot = 0 /\ Missing # {}, "X04.g.stuck")
RequestUpdate(reqs) ==
    /\ out' = AddIds(out, ReqIds(reqs))
    /\ UNCHANGED <<cfg, have, store, chokd, snub, open>>
Request(q, reqs) == open /\ RequestViols(q, reqs) = {} /\ RequestUpdate(reqs)

-----------------------------------------------------------------------------
(* GotBlock(begin, data): a piece message (begin b, n bytes, content tag t)  *)

Accepted(id) == id # 0 /\ id \notin have
BlockExpect(id) == IF id = 0 THEN "invalid" ELSE IF id \in have THEN "dup" ELSE IF out[id] > 0 THEN "ok" ELSE "notreq"
Stored(res) == res \in {"ok", "notreq"}

BlockViols(b, n, res) ==
    LET id == IdOf(b, n) IN
    Tag(Stored(res) # Accepted(id), "X04.d.accept")
    \cup Tag(Stored(res) = Accepted(id) /\ res # BlockExpect(id), "X04.d.class")
Answered(o, id) == IF id # 0 /\ o[id] > 0 THEN [o EXCEPT ![id] = @ - 1] ELSE o
HaveAfter(b, n) == LET id == IdOf(b, n) IN IF Accepted(id) THEN have \cup {id} ELSE have
StoreAfter(b, n, t) == LET id == IdOf(b, n) IN IF Accepted(id) THEN [store EXCEPT ![id] = t] ELSE store
BlockUpdate(b, n, t) ==
    /\ out' = Answered(out, IdOf(b, n))
    /\ have' = HaveAfter(b, n)
    /\ store' = StoreAfter(b, n, t)
    /\ UNCHANGED <<cfg, chokd, snub>>
\* completion: the loop closes the download and hands the buffer to the piece writer
BlockDelivered(b, n, t, res) ==
    /\ open /\ BlockViols(b, n, res) = {} /\ BlockUpdate(b, n, t)
    /\ open' = ~AllStored(have')

-----------------------------------------------------------------------------
(* Rejected(begin, length) returned res; Choked(); unchoke; snub; cancel     *)

RejectViols(b, n, res) == Tag(res # (IdOf(b, n) # 0), "X04.f.rejres")
RejectUpdate(b, n) ==
    /\ out' = Answered(out, IdOf(b, n))
    /\ UNCHANGED <<cfg, have, store, chokd, snub, open>>
Rejected(b, n, res) == open /\ RejectViols(b, n, res) = {} /\ RejectUpdate(b, n)

Choke ==
    /\ open
    /\ chokd' = TRUE /\ snub' = FALSE           \* ChokeMessage: delete(t.pieceDownloadersSnubbed, pe)
    /\ out' = IF LostOnChoke THEN [x \in Block |-> 0] ELSE out
    /\ UNCHANGED <<cfg, have, store, open>>
Unchoke == open /\ chokd' = FALSE /\ UNCHANGED <<cfg, out, have, store, snub, open>>
Snub == open /\ ~chokd /\ snub' = TRUE /\ UNCHANGED <<cfg, out, have, store, chokd, open>>

CancelViols(cans) ==
    LET ids == ReqIds(cans) IN
    Tag(\/ \E k \in DOMAIN ids : ids[k] = 0
        \/ \E j, k \in DOMAIN ids : j # k /\ ids[j] = ids[k]
        \/ {ids[k] : k \in DOMAIN ids} # {x \in Block : out[x] > 0}, "X04.c.cancel")
CloseUpdate ==
    /\ open' = FALSE /\ out' = [x \in Block |-> 0]
    /\ UNCHANGED <<cfg, have, store, chokd, snub>>
Cancel(cans) == open /\ CancelViols(cans) = {} /\ CloseUpdate
Disconnect == open /\ CloseUpdate

-----------------------------------------------------------------------------
(* invariants of the envelope                                               *)

TypeOK ==
    /\ out \in [Block -> Nat] /\ have \subseteq Block /\ store \in [Block -> Nat]
    /\ chokd \in BOOLEAN /\ snub \in BOOLEAN /\ open \in BOOLEAN
    /\ \A x \in Block : (x \in have) = (store[x] # 0)
NoDupOutstanding == \A x \in Block : out[x] <= 1                          \* X04.c, global form
StoredNotOutstanding == \A x \in have : out[x] = 0                        \* X04.b.have, global form
ChokeVoids == (chokd /\ LostOnChoke) => Total(out) = 0                    \* X04.f, global form
ClosedQuiet == ~open => Total(out) = 0

-----------------------------------------------------------------------------
(* the algorithm of piecedownloader.go on block ids                         *)
(*   rem  = d.remaining (sequence), pend = d.pending, dn = d.done           *)
(*   variant "asis"  : the code of the unchanged tree                       *)
(*   variant "fixed" : + RequestBlocks drops a block of `remaining` that    *)
(*                       has been stored meanwhile instead of putting it    *)
(*                       into `pending` without a request                   *)
(*                     + Rejected ignores a block that is not pending       *)

\* `for _, begin := range remaining { if len(pending) >= q {break}; ...; remaining = remaining[1:]; pending[begin] = {} }`
RECURSIVE AlgReq(_, _, _, _, _, _)
AlgReq(variant, rm, pd, dn, q, acc) ==
    IF rm = <<>> \/ Cardinality(pd) >= q THEN [rem |-> rm, pend |-> pd, reqs |-> acc]
    ELSE LET x == Head(rm) IN
         IF x \in dn
         THEN AlgReq(variant, Tail(rm), IF variant = "fixed" THEN pd ELSE pd \cup {x}, dn, q, acc)
         ELSE AlgReq(variant, Tail(rm), pd \cup {x}, dn, q, Append(acc, x))

AlgGotBlock(pd, dn, x) ==                      \* x = block id of a valid (begin, length)
    IF x \in dn THEN [res |-> "dup", pend |-> pd, dn |-> dn]
    ELSE IF x \notin pd THEN [res |-> "notreq", pend |-> pd, dn |-> dn \cup {x}]
    ELSE [res |-> "ok", pend |-> pd \ {x}, dn |-> dn \cup {x}]

AlgRejected(variant, rm, pd, x) ==
    IF variant = "fixed" /\ x \notin pd THEN [rem |-> rm, pend |-> pd]
    ELSE [rem |-> Append(rm, x), pend |-> pd \ {x}]

\* every order in which `for i := range d.pending` may visit the map
Perms(S) == {s \in [1 .. Cardinality(S) -> S] : \A i, j \in 1 .. Cardinality(S) : i # j => s[i] # s[j]}
AlgChokedResults(rm, pd) ==
    IF cfg.af \/ cfg.fast THEN {[rem |-> rm, pend |-> pd]}
    ELSE {[rem |-> rm \o s, pend |-> {}] : s \in Perms(pd)}

MsgOf(x) == [i |-> cfg.idx, b |-> cfg.bt[x].b, n |-> cfg.bt[x].n]
MsgsOf(s) == [k \in 1 .. Len(s) |-> MsgOf(s[k])]
=============================================================================
