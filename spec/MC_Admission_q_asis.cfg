SPECIFICATION QSpec
CONSTANTS
  BITS = 4
  CAP = 2
  ASIS = TRUE
INVARIANT QInv
CHECK_DEADLOCK FALSE
