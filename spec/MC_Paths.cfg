SPECIFICATION MCSpec
CONSTANTS
  SYMS = {"L", "D", "P"}
  MAXLEN = 2
  FULLPAIRS = FALSE
INVARIANT Inv
CHECK_DEADLOCK FALSE
