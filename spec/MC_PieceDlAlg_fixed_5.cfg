SPECIFICATION ASpec
CONSTANTS
  SECS <- Secs_plain5
  BS = 2
  QLENS = {1, 2, 3, 4}
  FAST = FALSE
  AF = FALSE
  REJ = "none"
  UNREQ = TRUE
  ENDS = TRUE
  VARIANT = "fixed"
  IGNORE = {}
INVARIANT AInv
VIEW AView
CHECK_DEADLOCK FALSE
CONSTRAINT Alive
