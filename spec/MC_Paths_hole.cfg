SPECIFICATION MCSpec
CONSTANTS
  SYMS = {"L", "D", "S"}
  MAXLEN = 2
  FULLPAIRS = FALSE
INVARIANT NoHole
CHECK_DEADLOCK FALSE
