SPECIFICATION ASpec
CONSTANTS
  NP = 2
  PLEN <- Plen_21
  BSZ = 1
  FASTS = {TRUE, FALSE}
  MINE0 = {{}, {0}}
  DEV = {}
INVARIANT AInvConf
INVARIANT AInvQuiet
INVARIANT AInvGlobal
CHECK_DEADLOCK FALSE
