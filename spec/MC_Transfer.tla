---- MODULE MC_Transfer ----
EXTENDS Transfer
\* honest peers never leave on their own (C10 premise): only liars disconnect spontaneously
MCNext ==
    \/ \E pe \in Peers : Connect(pe) \/ DeliverIgnored(pe)
    \/ \E pe \in Liars : Disconnect(pe)
    \/ \E pe \in Peers, p \in Piece : StartDownload(pe, p)
    \/ \E pe \in Peers, b \in Block, c \in {"G", "B"} : Deliver(pe, b, c)
    \/ \E s \in Sources, p \in Piece, c \in {"G", "B"} : WebseedResult(s, p, c)
    \/ \E r \in wsq : HandleWebseedResult(r)
    \/ WriterHash \/ WriterWrite \/ WriteDone \/ Stop \/ Start
MCSpec == Init /\ [][MCNext]_vars
MCFairSpec == MCSpec /\ Fairness
====
