----------------------------- MODULE MC_Picker -----------------------------
(* Exhaustive configurations of Picker: small constants, every interleaving. *)
EXTENDS Picker
CONSTANTS NP, NPEERS, NSRC, LIMIT, SEQ, EDGE, AFP

MCInit == InitWith([np |-> NP, npeers |-> NPEERS, nsrc |-> NSRC, limit |-> LIMIT, seq |-> SEQ, edge |-> EDGE, have0 |-> {}])

\* allowed-fast pieces restricted to AFP to keep the space small
MCNext ==
    \/ \E pe \in Peer : Connect(pe) \/ Choke(pe) \/ Unchoke(pe) \/ CancelDownload(pe)
                        \/ Disconnect(pe) \/ PieceComplete(pe)
    \/ \E pe \in Peer, p \in Piece : Have(pe, p)
    \/ \E pe \in Peer, p \in AFP : AllowedFast(pe, p)
    \/ \E pe \in Peer, r \in Piece \cup {None}, a \in BOOLEAN : Pick(pe, r, a)
    \/ WriteOK \/ WriteBad
    \/ \E s \in Src : WebseedPiece(s) \/ CloseWebseed(s)
    \/ \E s \in Src, b \in 0 .. cfg.np, e \in 0 .. cfg.np : StartWebseed(s, b, e)

MCSpec == MCInit /\ [][MCNext]_vars

\* dlaf is an output-only flag: it never influences enabledness
MCView == <<done, writing, having, requested, ws, conn, choking, af, dl, src, wr>>
=============================================================================
