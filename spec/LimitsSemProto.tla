---------------------------- MODULE LimitsSemProto ----------------------------
(* Part B of LimitsSem: the goroutine-level steps of internal/semaphore/semaphore.go. *)
EXTENDS LimitsSem

CONSTANTS Workers, CAP, ROUNDS, FIXED

VARIABLES pc, permits, waiting, active, left
vars == <<svars, pc, permits, waiting, active, left>>

PInit ==
    /\ SemInitWith([cap |-> CAP])
    /\ pc = [w \in Workers |-> "idle"] /\ permits = CAP /\ waiting = 0 /\ active = 0
    /\ left = [w \in Workers |-> ROUNDS]

Step(w, from, to) == pc[w] = from /\ pc' = [pc EXCEPT ![w] = to]

W1(w) == Step(w, "idle", "acq") /\ left[w] > 0 /\ waiting' = waiting + 1
         /\ left' = [left EXCEPT ![w] = @ - 1] /\ UNCHANGED <<svars, permits, active>>
W2(w) == Step(w, "acq", "w3") /\ permits > 0 /\ permits' = permits - 1 /\ UNCHANGED <<svars, waiting, active, left>>
W3(w) == Step(w, "w3", "w4") /\ waiting' = waiting - 1 /\ UNCHANGED <<svars, permits, active, left>>
W4(w) == Step(w, "w4", "in") /\ active' = active + 1 /\ AEnter /\ UNCHANGED <<permits, waiting, left>>   \* Wait returns
S1(w) == /\ Step(w, "in", "s2") /\ ALeave                                                                 \* Signal called
         /\ IF FIXED THEN active' = active - 1 /\ UNCHANGED permits ELSE permits' = permits + 1 /\ UNCHANGED active
         /\ UNCHANGED <<waiting, left>>
S2(w) == /\ Step(w, "s2", "idle")
         /\ IF FIXED THEN permits' = permits + 1 /\ UNCHANGED active ELSE active' = active - 1 /\ UNCHANGED permits
         /\ UNCHANGED <<svars, waiting, left>>

PNext == \E w \in Workers : W1(w) \/ W2(w) \/ W3(w) \/ W4(w) \/ S1(w) \/ S2(w)
PSpec == PInit /\ [][PNext]_vars

\* @obligation C17.sem.limit
PLimit == SemInv /\ 0 <= permits /\ permits <= CAP
\* @obligation C17.sem.len
PLenNonNeg == active >= 0 /\ waiting >= 0
PLenBound == active <= CAP
PRest == (\A w \in Workers : pc[w] = "idle") => active = 0 /\ waiting = 0 /\ permits = CAP
=============================================================================
