SPECIFICATION ASpec
CONSTANTS
  SECS <- Secs_pad
  BS = 2
  QLENS = {1, 2, 4}
  FAST = FALSE
  AF = FALSE
  REJ = "none"
  UNREQ = TRUE
  ENDS = TRUE
  VARIANT = "fixed"
  IGNORE = {}
INVARIANT AInv
VIEW AView
CHECK_DEADLOCK FALSE
CONSTRAINT Alive
