SPECIFICATION TraceSpec
CONSTANTS
  POOLED = FALSE
CONSTRAINT HighWater
INVARIANT NoViolation
INVARIANT Inv
POSTCONDITION TraceAccepted
CHECK_DEADLOCK FALSE
