SPECIFICATION Spec
CONSTANTS
  MaxLen = 3
INVARIANT Emit
CHECK_DEADLOCK FALSE
