------------------------------ MODULE PathsGen ------------------------------
(***************************************************************************)
(* TLC as generator for C07: enumerates SYMBOLIC torrents (name, files,    *)
(* components of length <= 3 over the full alphabet) and symbolic tar      *)
(* entry names, together with the model's predictions for both filter      *)
(* variants.  harness/c07 concretises every symbol class with several      *)
(* concrete strings and runs the real code.                                *)
(*                                                                         *)
(* Families (the full product is ~10^8; what matters for confinement is    *)
(* where a dangerous component sits):                                      *)
(*   A  single-file torrents, every name                                   *)
(*   B  multi-file shapes with ONE probe component c in every position,    *)
(*      every c, names from a small set                                    *)
(*   C  all triples of DANGEROUS components in (name, path[1], path[2])    *)
(*   T  tar entry names: <= 3 components from the dangerous set            *)
(***************************************************************************)
EXTENDS Paths, Json
CONSTANTS TIER

Syms == {"L", "D", "S", "B", "Z", "P", "U", "R"}
Comps == UNION {[1 .. k -> Syms] : k \in 0 .. 3}
l == <<"L">>
Danger == { <<>>, <<"D">>, <<"D", "D">>, <<"D", "D", "D">>, <<"P", "D", "D">>, <<"D", "D", "P">>, <<"D", "P", "D">>,
            <<"D", "D", "S">>, <<"S", "D", "D">>, <<"D", "S", "D">>, <<"S">>, <<"D", "D", "B">>, <<"B", "D", "D">>,
            <<"D", "D", "Z">>, <<"D", "D", "U">>, <<"U", "D", "D">>, <<"D", "D", "R">>, <<"R">>, <<"L">>, <<"P">>,
            <<"D", "S">>, <<"S", "D">>, <<"P", "D">>, <<"D", "P">>, <<"Z">> }
DangerQ == { <<>>, <<"D">>, <<"D", "D">>, <<"D", "D", "P">>, <<"D", "D", "S">>, <<"S", "D", "D">>, <<"D", "D", "U">>,
             <<"D", "S">>, <<"P", "D">>, <<"R">>, <<"L">>, <<"S">> }
Names == IF TIER = "quick" THEN {l, <<"D", "D">>} ELSE {l, <<"D", "D">>, <<"D">>, <<>>}

Shapes(c) == IF TIER = "quick"
             THEN { << <<c>> >>, << <<l, c>> >>, << <<c, l>> >>, << <<c>>, <<l>> >> }
             ELSE { << <<c>> >>, << <<l, c>> >>, << <<c, l>> >>, << <<c>>, <<l>> >>, << <<l>>, <<c>> >>, << <<l, c, l>> >>,
                    << <<c>>, <<c>> >>, << <<c, c>> >>, << <<l, c>>, <<l>> >> }

T(fam, name, files, sess) == [fam |-> fam, name |-> name, files |-> files, sess |-> sess]
FamA == {T("A", c, <<>>, 1) : c \in Comps}
FamB == UNION {{T("B", n, sh, IF sh = << <<c>> >> /\ n = l THEN 1 ELSE 0) : sh \in Shapes(c)} : c \in Comps, n \in Names}
DangerT == DangerQ \cup {<<"D", "D", "D">>, <<"P", "D", "D">>, <<"D", "D", "B">>, <<"D", "D", "Z">>, <<"D", "D", "R">>, <<"P">>}
FamC == LET D == IF TIER = "quick" THEN DangerQ ELSE DangerT
        IN {T("C", n, << <<a, b>>, <<l>> >>, IF a = l /\ b = l THEN 1 ELSE 0) : n \in D, a \in D, b \in D}
Torrents == FamA \cup FamB \cup FamC

TarEntries == IF TIER = "quick" THEN UNION {[1 .. k -> DangerQ] : k \in 1 .. 3}
              ELSE UNION {[1 .. k -> Danger] : k \in 1 .. 2} \cup [1 .. 3 -> DangerQ]

B01(b) == IF b THEN 1 ELSE 0
Pred(t) == [acc_cur |-> B01(Accepts(t, "cur")), acc_fix |-> B01(Accepts(t, "fix")),
            conf |-> B01(ModelConfined(t, 1)), rm_cur |-> B01(ModelRemoveOK(t, 0, "cur"))]
TarPred(e) == B01(TarAccepts(RootOf(UM), AsPath(e)))

VARIABLE c
Init == /\ c = Cardinality(Torrents) + Cardinality(TarEntries)
        /\ \A x \in Torrents : PrintT("@@" \o ToJson([kind |-> "torrent", t |-> x, pred |-> Pred(x)]))
        /\ \A e \in TarEntries : PrintT("@@" \o ToJson([kind |-> "tar", entry |-> e, pred |-> TarPred(e)]))
Next == FALSE /\ UNCHANGED c
Spec == Init /\ [][Next]_c
=============================================================================
