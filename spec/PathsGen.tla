------------------------------ MODULE PathsGen ------------------------------
(***************************************************************************)
(* TLC as generator for C07: enumerates SYMBOLIC torrents (name, files,    *)
(* components of length <= 3 over the full alphabet) and symbolic tar      *)
(* entry names, together with the model's predictions for both filter      *)
(* variants.  harness/c07 concretises every symbol class with several      *)
(* concrete strings and runs the real code.                                *)
(*                                                                         *)
(* Families (the full product is ~10^8; what matters for confinement is    *)
(* where a dangerous component sits):                                      *)
(*   A  single-file torrents, every name                                   *)
(*   B  multi-file shapes with ONE probe component c in every position,    *)
(*      every c, names from a small set                                    *)
(*   C  all triples of DANGEROUS components in (name, path[1], path[2])    *)
(*   T  tar entry names: <= 3 components from the dangerous set            *)
(*   U, V  alternative sources of one value;  W  colliding paths x padding *)
(*   TL archives as sequences of typed entries (links, then writes through) *)
(***************************************************************************)
EXTENDS Paths, Json
CONSTANTS TIER

Syms == {"L", "D", "S", "B", "Z", "P", "U", "R"}
Comps == UNION {[1 .. k -> Syms] : k \in 0 .. 3}
l == <<"L">>
Danger == { <<>>, <<"D">>, <<"D", "D">>, <<"D", "D", "D">>, <<"P", "D", "D">>, <<"D", "D", "P">>, <<"D", "P", "D">>,
            <<"D", "D", "S">>, <<"S", "D", "D">>, <<"D", "S", "D">>, <<"S">>, <<"D", "D", "B">>, <<"B", "D", "D">>,
            <<"D", "D", "Z">>, <<"D", "D", "U">>, <<"U", "D", "D">>, <<"D", "D", "R">>, <<"R">>, <<"L">>, <<"P">>,
            <<"D", "S">>, <<"S", "D">>, <<"P", "D">>, <<"D", "P">>, <<"Z">> }
DangerQ == { <<>>, <<"D">>, <<"D", "D">>, <<"D", "D", "P">>, <<"D", "D", "S">>, <<"S", "D", "D">>, <<"D", "D", "U">>,
             <<"D", "S">>, <<"P", "D">>, <<"R">>, <<"L">>, <<"S">> }
Names == IF TIER = "quick" THEN {l, <<"D", "D">>} ELSE {l, <<"D", "D">>, <<"D">>, <<>>}

Shapes(c) == IF TIER = "quick"
             THEN { << <<c>> >>, << <<l, c>> >>, << <<c, l>> >>, << <<c>>, <<l>> >> }
             ELSE { << <<c>> >>, << <<l, c>> >>, << <<c, l>> >>, << <<c>>, <<l>> >>, << <<l>>, <<c>> >>, << <<l, c, l>> >>,
                    << <<c>>, <<c>> >>, << <<c, c>> >>, << <<l, c>>, <<l>> >> }

No8 == [has |-> 0, v |-> <<>>]
NoDup == [kind |-> "none", v |-> <<>>, first |-> 0]
TX(fam, name, files, sess, n8, f8, dup, extra) ==
    [fam |-> fam, name |-> name, files |-> files, sess |-> sess, n8 |-> n8, f8 |-> f8, dup |-> dup, extra |-> extra]
T(fam, name, files, sess) == TX(fam, name, files, sess, No8, [i \in 1 .. Len(files) |-> No8], NoDup, "none")
FamA == {T("A", c, <<>>, 1) : c \in Comps}
FamB == UNION {{T("B", n, sh, IF sh = << <<c>> >> /\ n = l THEN 1 ELSE 0) : sh \in Shapes(c)} : c \in Comps, n \in Names}
DangerT == DangerQ \cup {<<"D", "D", "D">>, <<"P", "D", "D">>, <<"D", "D", "B">>, <<"D", "D", "Z">>, <<"D", "D", "R">>, <<"P">>}
FamC == LET D == IF TIER = "quick" THEN DangerQ ELSE DangerT
        IN {T("C", n, << <<a, b>>, <<l>> >>, IF a = l /\ b = l THEN 1 ELSE 0) : n \in D, a \in D, b \in D}

\* U: ALTERNATIVE SOURCES - "name.utf-8" and per-file "path.utf-8" with values independent of the plain keys
\* (absent, present-but-empty, harmless, dangerous); the driver runs every case with the utf8 flag on and off.
dd == <<"D", "D">>
N8 == {No8} \cup {[has |-> 1, v |-> x] : x \in {<<>>, <<"D">>, dd, <<"D", "D", "P">>, <<"D", "D", "S">>, l} \cup
                                               (IF TIER = "quick" THEN {} ELSE {<<"P", "D", "D">>, <<"U">>, <<"D", "D", "U">>, <<"R">>})}
P8v == {<<>>, << <<>> >>, <<l>>, <<dd>>, <<dd, dd, l>>, <<l, dd>>, << <<"D">> >>, << <<"D", "D", "P">> >>, <<l, <<"D", "D", "S">>, dd>>}
       \cup (IF TIER = "quick" THEN {} ELSE {<<dd, l>>, << <<"P", "D", "D">>, l>>, << <<>>, dd>>, << <<"D", "D", "U">> >>, <<l, l>>})
P8 == {No8} \cup {[has |-> 1, v |-> x] : x \in P8v}
PlainP == {<<l>>, <<dd>>, <<l, dd>>}
FamU == {TX("U", n, <<>>, 1, n8, <<>>, NoDup, "none") : n \in {l, dd, <<>>}, n8 \in N8}
        \cup {TX("U", n, <<p, <<l>>>>, IF p = <<l>> THEN 1 ELSE 0, n8, <<p8, No8>>, NoDup, "none") :
                 n \in {l, dd}, n8 \in {No8, [has |-> 1, v |-> dd], [has |-> 1, v |-> l]}, p \in PlainP, p8 \in P8}
        \cup {TX("U", l, <<<<l>>, <<l, l>>>>, 1, No8, <<p8, q8>>, NoDup, "none") : p8 \in P8, q8 \in P8}
\* V: other places where two sources exist for one value: duplicate dictionary keys (the alternative value v comes first
\* or last), "length" next to "files", the BitComet padding-name convention next to / instead of attr "p"
DupV == {<<>>, <<"D">>, dd, <<"D", "D", "P">>, <<"D", "D", "S">>, l}
FamV == {TX("V", l, <<<<l>>, <<l, l>>>>, 1, No8, <<No8, No8>>, [kind |-> k, v |-> v, first |-> f], x) :
            k \in {"name", "name8", "path", "path8", "files"}, v \in DupV, f \in {0, 1}, x \in {"none", "both"}}
        \cup {TX("V", n, <<<<a, b>>, <<l>>>>, 0, No8, <<No8, No8>>, NoDup, x) :
                 n \in {l, dd}, a \in DupV, b \in {l, dd}, x \in {"bcpad", "bcpad+attr", "both"}}
\* W: COLLIDING PATHS x PADDING MARKS.  Two files whose raw paths differ but whose cleaned, joined paths are equal (every
\* rule of the cleaner: "/" -> "_" against a literal "_", invalid byte -> U+FFFD against a literal U+FFFD or another invalid
\* byte, trimming of > 255-byte names that differ only in the part cut out, "." / empty components dropped by the join),
\* plain duplicates, near misses that must stay accepted; the colliding files adjacent or separated by a third file;
\* every combination of attr "p" on the colliding files and BitComet padding names (K).  The driver parses every case with
\* the pad flag on (metainfo.New, resume v3) and off (resume v1 / v2: marked files are real files).
ColComp == { <<<<"L", "S", "L">>, <<"L", "X", "L">>, "sep">>, <<<<"S">>, <<"X">>, "sep">>, <<<<"U">>, <<"F">>, "utf8">>,
             <<<<"U">>, <<"V">>, "utf8">>, <<<<"L", "U">>, <<"L", "V">>, "utf8">>, <<<<"R">>, <<"Q">>, "trim">>,
             <<<<"Q">>, <<"R">>, "trim">>, <<l, l, "same">>, <<<<"K">>, <<"K">>, "same-bc">>, <<<<"K", "L">>, <<"K", "L">>, "same-bc">>,
             <<<<"L", "S", "L">>, <<"L", "B", "L">>, "miss">>, <<<<"R">>, <<"B", "R">>, "miss">>, <<<<"K">>, <<"K", "L">>, "miss">>,
             <<<<"L", "S", "K">>, <<"L", "X", "K">>, "sep">> }
\* (path a, path b, kind) : the component pair in the last / a directory position, and join-level collisions
ColPaths == UNION {{ <<<<c[1]>>, <<c[2]>>, c[3]>>, <<<<l, c[1]>>, <<l, c[2]>>, c[3]>>, <<<<c[1], l>>, <<c[2], l>>, c[3]>> } : c \in ColComp}
            \cup { <<<<l, l>>, <<l, <<"D">>, l>>, "join">>, <<<<l, l>>, <<l, <<>>, l>>, "join">>, <<<<l>>, <<<<"D">>, l>>, "join">>,
                   <<<<l, <<"K">>>>, <<l, <<"D">>, <<"K">>>>, "join">> }
Attr2 == {<<0, 0>>, <<0, 1>>, <<1, 0>>, <<1, 1>>}
TW(files, attr, ck) == [fam |-> "W", name |-> l, files |-> files, sess |-> 0, n8 |-> No8, f8 |-> [i \in 1 .. Len(files) |-> No8],
                        dup |-> NoDup, extra |-> "none", attr |-> attr, ck |-> ck]
FamW == {TW(<<p[1], p[2]>>, a, p[3]) : p \in ColPaths, a \in Attr2}
        \cup {TW(<<p[1], <<l, l, l>>, p[2]>>, <<a[1], 0, a[2]>>, p[3]) : p \in ColPaths, a \in Attr2}
        \cup (IF TIER = "quick" THEN {} ELSE {TW(<<p[2], p[1]>>, a, p[3]) : p \in ColPaths, a \in Attr2}
                                              \cup {TW(<<p[1], p[2], p[1]>>, <<a[1], a[2], 0>>, p[3]) : p \in ColPaths, a \in Attr2})
Torrents == FamA \cup FamB \cup FamC \cup FamU \cup FamV \cup FamW

TarEntries == IF TIER = "quick" THEN UNION {[1 .. k -> DangerQ] : k \in 1 .. 3}
              ELSE UNION {[1 .. k -> Danger] : k \in 1 .. 2} \cup [1 .. 3 -> DangerQ]

B01(b) == IF b THEN 1 ELSE 0
\* TL: ARCHIVES AS SEQUENCES OF TYPED ENTRIES.  A link entry (symbolic / hard) whose NAME is inside the destination and whose
\* target is a place inside or outside it (written as an absolute or as a relative link name), followed by a regular entry
\* at the link's own name or below it; a chain of two links; a harmless entry before.  Places (sandbox of harness/c07):
\* up 3 = the directory two levels above the data directory, up 2 = the parent of the data directory, up 1 = the data
\* directory, up 0 = the destination; "#..." = the names of the sentinel files / directories planted there.
m == <<"L", "L">>
PlacesTL == {[up |-> 2, down |-> << <<"#sib">> >>], [up |-> 2, down |-> << <<"#sib">>, <<"#keep">> >>],
             [up |-> 2, down |-> << <<"#up1">> >>], [up |-> 3, down |-> << <<"#up2">> >>],
             [up |-> 1, down |-> << <<"#zz">> >>], [up |-> 1, down |-> << <<"#zz">>, <<"#keep">> >>],
             [up |-> 1, down |-> <<>>], [up |-> 2, down |-> <<>>], [up |-> 0, down |-> <<m>>], [up |-> 0, down |-> <<>>]}
EReg(n) == [name |-> n, typ |-> "reg", up |-> 0, down |-> <<>>, abs |-> 0]
ELnk(n, t, p, a) == [name |-> n, typ |-> t, up |-> p.up, down |-> p.down, abs |-> a]
LinkNames == {<<l>>, <<l, m>>}
Follow(n) == {n, n \o <<l>>, n \o <<m, l>>}
NF == UNION {{<<n, f>> : f \in Follow(n)} : n \in LinkNames}      \* (link name, name of the entry that follows)
ArchTL == {<<ELnk(x[1], t, p, a), EReg(x[2])>> : x \in NF, t \in {"sym", "hard"}, p \in PlacesTL, a \in {0, 1}}
          \cup {<<ELnk(<<l>>, "sym", [up |-> 0, down |-> <<m>>], a), ELnk(<<m>>, "sym", p, a), EReg(<<l, l>>)>> : p \in PlacesTL, a \in {0, 1}}
          \cup (IF TIER = "quick" THEN {}
                ELSE {<<EReg(<<m, l>>), ELnk(x[1], t, p, a), EReg(x[2])>> : x \in NF, t \in {"sym", "hard"}, p \in PlacesTL, a \in {0, 1}}
                     \cup {<<ELnk(x[1], "sym", p, a), [EReg(x[2]) EXCEPT !.typ = "dir"], EReg(x[2] \o <<l>>)>> : x \in NF, p \in PlacesTL, a \in {0, 1}})
ArchPred(ar) == [flat |-> B01(TarConfined(UM, TarRun("flat", UM, TarS0, ar))), links |-> B01(TarConfined(UM, TarRun("links", UM, TarS0, ar)))]

\* predictions for the flags of metainfo.New (utf8 on): the model is applied to the EFFECTIVE torrent
Pred(at) == LET t == Effective(at, TRUE) IN
           [acc_cur |-> B01(Accepts(t, "cur")), acc_fix |-> B01(Accepts(t, "fix")),
            conf |-> B01(ModelConfined(t, 1)), rm_cur |-> B01(ModelRemoveOK(t, 0, "cur"))]
\* family W: acceptance and distinctness predicted for both parsing modes (pad on / off)
PredW(x) == LET t == [name |-> x.name, files |-> x.files] IN
            [acc_cur |-> B01(AcceptsP(t, x.attr, TRUE, "cur")), acc_fix |-> B01(AcceptsP(t, x.attr, TRUE, "fix")),
             conf |-> B01(ModelConfined(t, 1)), rm_cur |-> 1,
             acc_pad |-> B01(AcceptsP(t, x.attr, TRUE, "fix")), acc_nopad |-> B01(AcceptsP(t, x.attr, FALSE, "fix")),
             real_pad |-> Cardinality(Real(t, x.attr, TRUE)), real_nopad |-> Cardinality(Real(t, x.attr, FALSE))]
TarPred(e) == B01(TarAccepts(RootOf(UM), AsPath(e)))

VARIABLE c
Init == /\ c = Cardinality(Torrents) + Cardinality(TarEntries) + Cardinality(ArchTL)
        /\ \A a \in ArchTL : PrintT("@@" \o ToJson([kind |-> "tarseq", arch |-> a, pred |-> ArchPred(a)]))
        /\ \A x \in Torrents : PrintT("@@" \o ToJson([kind |-> "torrent", t |-> x, pred |-> IF x.fam = "W" THEN PredW(x) ELSE Pred(x)]))
        /\ \A e \in TarEntries : PrintT("@@" \o ToJson([kind |-> "tar", entry |-> e, pred |-> TarPred(e)]))
Next == FALSE /\ UNCHANGED c
Spec == Init /\ [][Next]_c
=============================================================================
