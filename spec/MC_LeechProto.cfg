SPECIFICATION MCSpec
CONSTANTS
  NP = 2
  PLEN <- Plen_21
  BSZ = 1
  CONNS = {1}
  FASTS = {TRUE, FALSE}
  DEV = {"skiphave"}
  MINE0 = {{}, {0}}
INVARIANT InvOutAnnounced
INVARIANT InvOutChoke
INVARIANT InvAnncTruth
INVARIANT InvFirst
INVARIANT InvClosed
INVARIANT InvDueEnabled
CHECK_DEADLOCK FALSE
