---------------------------- MODULE Trace_Upload ----------------------------
(***************************************************************************)
(* Trace specification for C03: judges what an independent scripted        *)
(* leecher (harness/c03) saw on its sockets while talking to a real        *)
(* seeding torrent.Session, and what internal/cachedpiece.ReadAt returned  *)
(* when driven directly, against Upload.tla.                               *)
(*                                                                         *)
(* Only the leecher's half of Upload (lvars) is evolved - by the Obs*      *)
(* operators that MC_Upload proves to be a sound view of rain's half -     *)
(* from the recorded events; rain's half stays at its initial value.       *)
(* The set of pieces the session can hold (have) starts as the pieces      *)
(* whose stored bytes are ground truth and grows with the events Got of    *)
(* the scenario family `grow` (the session downloads while it uploads).    *)
(* A failed obligation does not block the step: the tag goes to `viol`     *)
(* and is printed ("@@VIOL <line> <tag>"); with the read-path defect of    *)
(* the unchanged tree hundreds of piece messages fail, so the judge has to *)
(* go on (props/c03.py collects the lines).  Trace_Upload_stop.cfg adds    *)
(* INVARIANT NoViolation to stop at the first one (debugging).             *)
(* Several traces are concatenated; an "Init" line resets the state.       *)
(***************************************************************************)
EXTENDS Upload, Json

VARIABLES l, viol
tvars == <<vars, l, viol>>

Trace == ndJsonDeserialize("trace.ndjson")
Ev == Trace[l]
SetOf(q) == {q[i] : i \in 1 .. Len(q)}

CfgOf(e) == [np |-> e.np, plen |-> e.plens, maxblk |-> e.maxblk, maxq |-> e.maxq, cb |-> e.cb,
             nconn |-> e.nconn, impl |-> "loop", afsend |-> "all",
             afcheck |-> "sent", shortread |-> "error", twophase |-> FALSE, bufs |-> "fresh"]

TraceInit ==
    /\ l = 2 /\ viol = ""
    /\ Trace[1].op = "Init"
    /\ InitWith(CfgOf(Trace[1]), SetOf(Trace[1].have))
    /\ TLCSet(1, 1)

Step(v) ==
    /\ l' = l + 1
    /\ viol' = v
    /\ (v = "" \/ PrintT("@@VIOL " \o ToString(l) \o " " \o v))

Keep == UNCHANGED <<cfg, have, rvars, xvars, bad>>
IsConn(c) == c \in Conn

TrReset == Ev.op = "Init" /\ ResetWith(CfgOf(Ev), SetOf(Ev.have)) /\ l' = l + 1 /\ viol' = ""

TrOpen    == Ev.op = "Open" /\ IsConn(Ev.c) /\ ~lopen[Ev.c] /\ ObsOpen(Ev.c) /\ Keep /\ Step("")
TrClosed  == Ev.op = "Closed" /\ IsConn(Ev.c) /\ lopen[Ev.c] /\ ObsClosed(Ev.c) /\ Keep /\ Step("")
TrRequest == Ev.op = "Request" /\ IsConn(Ev.c) /\ lopen[Ev.c] /\ ObsRequest(Ev.c, Ev.i, Ev.b, Ev.n) /\ Keep /\ Step("")
TrCancel  == Ev.op = "Cancel" /\ IsConn(Ev.c) /\ lopen[Ev.c] /\ ObsCancel(Ev.c, Ev.i, Ev.b, Ev.n) /\ Keep /\ Step("")
\* interest only influences rain's unchoker, which is an envelope: no obligation depends on it
TrInterest == Ev.op \in {"Interested", "NotInterested"} /\ IsConn(Ev.c) /\ lopen[Ev.c] /\ UNCHANGED vars /\ Step("")
TrChoke   == Ev.op = "Choke" /\ IsConn(Ev.c) /\ lopen[Ev.c] /\ ObsChoke(Ev.c) /\ Keep /\ Step("")
TrUnchoke == Ev.op = "Unchoke" /\ IsConn(Ev.c) /\ lopen[Ev.c] /\ ObsUnchoke(Ev.c) /\ Keep /\ Step("")
TrAF      == Ev.op = "AF" /\ IsConn(Ev.c) /\ lopen[Ev.c] /\ ObsAF(Ev.c, Ev.i) /\ Keep /\ Step("")
TrReject  == Ev.op = "Reject" /\ IsConn(Ev.c) /\ lopen[Ev.c] /\ ObsReject(Ev.c, Ev.i, Ev.b, Ev.n) /\ Keep /\ Step("")
\* the session under test also DOWNLOADS (scenario family `grow`): the scripted feeders have handed over the last missing
\* byte of piece Ev.i - the earliest moment at which rain can have verified it.  From here on a request for it may be
\* answered with data (C03.notHeld), and a choked peer may get it iff it was granted (C03.choked, Granted).
TrGot     == Ev.op = "Got" /\ Ev.i \in Piece /\ have' = have \cup {Ev.i} /\ UNCHANGED <<cfg, rvars, xvars, lvars, bad>> /\ Step("")
\* round 3 - the peer sent ITS OWN allowed-fast message for piece Ev.i (LSend of kind "peeraf"): it grants rain downloads
\* from the peer and grants the peer nothing - the leecher's half (Granted = laf) does not change, so a later piece message
\* for Ev.i to this choked peer is judged C03.choked unless rain itself granted the piece on this connection.
TrPeerAF  == Ev.op = "PeerAF" /\ IsConn(Ev.c) /\ lopen[Ev.c] /\ UNCHANGED vars /\ Step("")
\* round 3 - environment fault (Truncate / read error of Upload.tla): from here on the storage under piece Ev.i ends after Ev.k
\* bytes, or fails.  The leecher's half does not change and NO obligation is relaxed: whatever rain still sends must be a full-length,
\* correct answer (warm cache) - otherwise no message at all (C03.length / C03.content judge the piece messages that follow).
TrFault   == Ev.op = "Fault" /\ Ev.i \in Piece /\ Ev.k >= 0 /\ Ev.k <= PLen(Ev.i)
             /\ cut' = [cut EXCEPT ![Ev.i] = Ev.k] /\ UNCHANGED <<cfg, have, rvars, raf, hold, lvars, bad>> /\ Step("")
\* messages without meaning for C03 (have-all / bitfield / extension handshake / keep-alive)
TrOther   == Ev.op = "Other" /\ UNCHANGED vars /\ Step("")

\* a piece message arrived: Ev.n = number of payload bytes, Ev.class = payload compared with ground truth by the leecher
TrPiece ==
    /\ Ev.op = "Piece" /\ IsConn(Ev.c) /\ lopen[Ev.c]
    /\ LET v == PieceViol(Ev.c, Ev.i, Ev.b, Ev.n, Ev.class = "good")
       IN /\ ObsPiece(Ev.c, Ev.i, Ev.b, Ev.n) /\ Keep /\ Step(v)

\* the seeding process died while serving (panic in rain): no obligation can be evaluated any more
TrCrash == Ev.op = "Crash" /\ UNCHANGED vars /\ Step("C03.crash")

\* @obligation C03.read  CachedPiece.ReadAt(p[0:len], off) inside the piece returns len bytes of ground truth or an error,
\*                       never a silent short read  (second observation point; the design is ReadLoop: Len = len)
TrReadAt ==
    /\ Ev.op = "ReadAt"
    /\ LET inside == Ev.off >= 0 /\ Ev.len >= 1 /\ Ev.off + Ev.len <= PLen(0)
           v == IF inside /\ Ev.err = 0 /\ (Ev.n # Ev.len \/ Ev.class # "good") THEN "C03.read"
                ELSE IF inside /\ Ev.err = 2 THEN "C03.crash"
                ELSE ""
       IN UNCHANGED vars /\ Step(v)

TraceNext ==
    /\ l <= Len(Trace)
    /\ \/ TrReset \/ TrOpen \/ TrClosed \/ TrRequest \/ TrCancel \/ TrInterest \/ TrChoke \/ TrUnchoke
       \/ TrAF \/ TrReject \/ TrOther \/ TrPiece \/ TrCrash \/ TrReadAt \/ TrGot \/ TrPeerAF \/ TrFault

TraceSpec == TraceInit /\ [][TraceNext]_tvars

HighWater == TLCSet(1, IF l > TLCGet(1) THEN l ELSE TLCGet(1))
NoViolation == viol = ""
TraceAccepted ==
    LET hw == TLCGet(1) IN
    IF hw = Len(Trace) + 1 THEN TRUE
    ELSE /\ PrintT("@@REJECT " \o ToString(hw - 1) \o " " \o ToString(Len(Trace)))
         /\ FALSE
=============================================================================
