SPECIFICATION MCSpecZero
CONSTANTS
  MaxFiles = 2
  MaxLen = 2
  MaxPL = 2
  BSS = {2, 3}
INVARIANT ReadBackInv
INVARIANT DiskInv
INVARIANT AllWrittenIsFinal
INVARIANT VerifyInv
INVARIANT ThmRLEz
CHECK_DEADLOCK FALSE
