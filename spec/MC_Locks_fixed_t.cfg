SPECIFICATION Spec
CONSTANTS
  TorrentSeq <- T2
  NClients = 3
  Choices <- ChoicesCore
  BgSeq <- BgOne
  Fixed = {"StartAll", "StopAll", "resolveAndAddPeer", "moveTorrent", "reserveID", "cleanLive", "cleanReset", "compactLocks", "dhtDropOnStop"}
  Budget = 0
  Unbuffered = {}
  SrcOver <- NoOver
  Allowed <- AnyPick
INVARIANT TypeOK
INVARIANT NoLockup
CHECK_DEADLOCK FALSE
