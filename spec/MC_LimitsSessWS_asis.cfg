SPECIFICATION Spec
CONSTANTS
  K = 4
  CAPS = 3
  CAPD = 2
  FIXED = FALSE
INVARIANT ActiveBound
CHECK_DEADLOCK FALSE
