SPECIFICATION MCSpec
CONSTANTS
  SYMS = {"L", "D", "P"}
  MAXLEN = 2
  FULLPAIRS = TRUE
INVARIANT Inv
CHECK_DEADLOCK FALSE
