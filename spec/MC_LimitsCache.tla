--------------------------- MODULE MC_LimitsCache ---------------------------
(* Exhaustive configurations of the two-lock model of the piece cache.       *)
EXTENDS LimitsCacheProto
\* item objects are interchangeable up to their id: no symmetry is declared (ids order the LRU list)
=============================================================================
