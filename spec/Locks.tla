------------------------------- MODULE Locks -------------------------------
(***************************************************************************)
(* C20 -- no lock-ups (and the ownership rule behind "no data races")      *)
(* under concurrent API / RPC use while torrents transfer.                 *)
(*                                                                         *)
(* LOCK-UP HALF.  Every blocking primitive that an API/RPC call, the       *)
(* periodic stats writer (session_stats.go updateStats), the blocklist     *)
(* reloader, the DHT result loop (session_dht.go), an announcer goroutine  *)
(* and a torrent event loop can wait on is a resource of this model:       *)
(*    mTorrents, mPorts, mBlocklist      sync.RWMutex, WRITER PREFERENCE:  *)
(*                                       a pending writer blocks new       *)
(*                                       readers (as sync.RWMutex does)    *)
(*    mPeerRequests                      sync.Mutex                        *)
(*    mBitfield.<t>                      per-torrent sync.RWMutex          *)
(*    db                                 bbolt writer lock: db.Update and  *)
(*                                       every resumer call, one at a time *)
(*    <t>.<cmd>CommandC                  UNBUFFERED command channels: a    *)
(*                                       send completes only while the     *)
(*                                       loop sits in its select, or when  *)
(*                                       closeC is closed                  *)
(*    closeC / doneC                     torrent.Close() = close ; <-doneC *)
(* Each operation is the SEQUENCE of acquire / release / send steps the    *)
(* code performs (ProgV below, transcribed from torrent/session*.go and    *)
(* torrent/torrent_commands.go; compared step by step with the sources by  *)
(* the static extractor harness/c20x -- a structural conformance check).   *)
(* The torrent loop is an envelope: between commands it may run any        *)
(* sequence of the balanced atoms its handlers are made of (resumer write, *)
(* mBitfield read section, mBitfield write section).                       *)
(*                                                                         *)
(* Obligations                                                             *)
(*   @obligation C20.lockup   no reachable state in which some call has    *)
(*                            not returned and nothing can move (NoLockup),*)
(*                            and call ~> return (Returns)                 *)
(*   @obligation C20.race     ownership rule (below): an unsynchronised    *)
(*                            pair of accesses is permitted by NO action   *)
(*   @obligation C20.crash    the process never dies ("concurrent map ..", *)
(*                            health-check panic "does not respond")       *)
(*                                                                         *)
(* DATA-RACE HALF.  TLA+ does not decide memory-model races.  The          *)
(* specification contributes the OWNERSHIP RULE:                           *)
(*   - every field of a torrent is read and written only by the goroutine  *)
(*     of its event loop (torrent.run and what it calls), EXCEPT           *)
(*     `bitfield` (any goroutine, under mBitfield) and the metrics         *)
(*     counters (atomic), and the immutable-after-construction fields      *)
(*     id, addedAt, infoHash, session, storage, the channels;              *)
(*   - Session.torrents / torrentsByInfoHash / invalidTorrentIDs only under*)
(*     mTorrents, availablePorts under mPorts, blocklistTimestamp under    *)
(*     mBlocklist, dhtPeerRequests under mPeerRequests.                    *)
(* In this model a goroutine touches shared state only inside the critical *)
(* sections / loop handlers listed here, so no behaviour contains two      *)
(* conflicting accesses unordered by a lock or a channel; the Go race      *)
(* detector is the OBSERVER of the real code: each report becomes a trace  *)
(* event unsyncAccess{w,r} for which Trace_Locks has no permitting action. *)
(***************************************************************************)
EXTENDS Integers, Sequences, FiniteSets, TLC

CONSTANTS
    TorrentSeq,   \* sequence of registered torrents (strings), e.g. <<"t1","t2">>
    NClients,     \* number of concurrent client goroutines
    Choices,      \* sequence of <<op, target>> the clients pick from (target: a torrent or "new")
    BgSeq,        \* sequence of <<op, target, rounds>>: background goroutines (stats writer, announcer, ...)
    Fixed,        \* set of names (subset of FixNames) whose REPAIRED transcription is in force
    Budget,       \* number of spontaneous loop atoms per torrent
    Unbuffered,   \* subset of ReplyCmds: the query commands whose Response channel the SOURCES create WITHOUT buffer
                  \* (read by the extractor from `Response: make(chan T[, n])`; the design has none: {})
    SrcOver,      \* function op -> flat step sequence AS EXTRACTED FROM THE SOURCES, for the operations whose sources equal
                  \* no transcription of ProgV (the tree as it is, whatever it is; NoOver in the design configs)
    Allowed(_)    \* filter on the clients' picks (a function 1..NClients -> index in Choices)

NoOver == <<>>
Torrents == {TorrentSeq[i] : i \in 1 .. Len(TorrentSeq)}
\* repairs known to this specification (fixes/*.diff); which of them are in force is read from the SOURCES by the extractor
FixNames == {"StartAll", "StopAll",      \* C20-startall-stopall-lock-order: registry snapshot BEFORE the write transaction
             "resolveAndAddPeer",        \* C20-resolved-peer-through-loop: the resolved address goes through addPeersCommandC
             "moveTorrent",              \* C20-move-torrent-registry-locks: handleMoveTorrent / loadExistingTorrent take the locks
             "reserveID",                \* C14-reserve-torrent-id: add() reserves the id under the write lock, remove un-reserves
             "cleanLive",                \* C14-clean-database-live: CleanDatabase consults the registry first
             "cleanReset",               \* C20-cleandatabase-unlocked-reset: the list of invalid ids is reset under the registry lock
             "compactLocks",             \* C14-compact-database: CompactDatabase reads registry, records and bitfields under locks
             "dhtDropOnStop"}            \* C19-drop-pending-dht-request-on-stop: stop() removes the pending DHT request

(***************************************************************************)
(* Flat step sequences (the vocabulary of harness/c20x).                   *)
(*   k     kind, r resource (field / channel / callee name)                *)
(*   each  the step sits in a for-loop over the torrents                   *)
(*   g     depth of enclosing `go func(){..}()` literals                   *)
(*   alt   error / early-return branch (kept only for `go` statements)     *)
(***************************************************************************)
S(k, r)  == [k |-> k, r |-> r, each |-> FALSE, g |-> 0, alt |-> FALSE]
E(k, r)  == [k |-> k, r |-> r, each |-> TRUE,  g |-> 0, alt |-> FALSE]
EG(k, r) == [k |-> k, r |-> r, each |-> TRUE,  g |-> 1, alt |-> FALSE]
A(k, r)  == [k |-> k, r |-> r, each |-> FALSE, g |-> 0, alt |-> TRUE]

RLRU(m) == <<S("RL", m), S("RU", m)>>
WLWU(m) == <<S("WL", m), S("WU", m)>>
DBTX    == <<S("DBB", "Update"), S("DBE", "Update")>>

\* ---- session.go / session_add.go / session_load.go fragments
F_getPort      == WLWU("mPorts")                                   \* getPort / releasePort
F_add(fx)      == F_getPort \o (IF "reserveID" \in fx THEN WLWU("mTorrents") ELSE RLRU("mTorrents"))   \* add()
F_insert       == WLWU("mTorrents")                                \* insertTorrent
F_TStart       == <<S("RES", "WriteStarted"), S("SEND", "startCommandC")>>       \* Torrent.Start
F_TStop        == <<S("RES", "WriteStarted"), S("SEND", "stopCommandC")>>        \* Torrent.Stop
F_addStopped(fx) == F_add(fx) \o <<S("RES", "Write")>> \o F_insert   \* addTorrentStopped
F_removeClient(fx) == WLWU("mTorrents") \o <<S("EXT", "dht.RemoveInfoHash")>> \o DBTX                 \* removeTorrentFromClient
F_tClose       == <<S("CLOSE", "closeC"), S("CHRECV", "doneC")>>   \* torrent.Close
\* stopAndRemoveData; the id reserved by removeTorrentFromClient is given back when the torrent is closed and its port released
\* (deferred unreserveID: repair b13c049 of round 4 moved it here from removeTorrentFromClient, DESIGN 13)
F_stopRemove(fx) == F_tClose \o F_getPort \o (IF "reserveID" \in fx THEN WLWU("mTorrents") ELSE <<>>)
F_Remove(fx)   == F_removeClient(fx) \o F_stopRemove(fx)           \* RemoveTorrent
F_loadExisting(fx) == <<S("RES", "Read")>> \o (IF "moveTorrent" \in fx THEN WLWU("mPorts") ELSE <<>>) \o F_insert   \* loadExistingTorrent

F_updateStats  == <<S("RL", "mTorrents"), S("DBB", "Update"), E("RL", "mBitfield"), S("DBE", "Update"),
                    E("RU", "mBitfield"), S("RU", "mTorrents")>>

\* StartAll / StopAll as they are: registry read lock taken INSIDE the write transaction
F_AllAsIs(c)   == <<S("DBB", "Update")>> \o RLRU("mTorrents") \o <<S("DBE", "Update")>> \o RLRU("mTorrents") \o <<E("SEND", c)>>
\* repaired: snapshot of the registry first, then the transaction, then the commands
F_AllFixed(c)  == RLRU("mTorrents") \o DBTX \o <<E("SEND", c)>>

\* stop(): the loop JOINS its helper goroutines (X.Close() = close(closeC); <-doneC): the tracker announcers, the DHT
\* announcer (whose callback torrent.announceDHT takes mPeerRequests), the allocator and the verifier. A join is an
\* acquisition of what the joined goroutine may be waiting for (C1 below): a join made while holding that resource is a lock-up.
F_stop(fx) == <<S("RES", "WriteBitfield"), E("JOIN", "an"), S("JOIN", "dhtAnnouncer")>>
              \o (IF "dhtDropOnStop" \in fx THEN WLWU("mPeerRequests") ELSE <<>>)
              \o <<S("JOIN", "allocator"), S("JOIN", "verifier")>> \o RLRU("mBitfield")

ProgV(op, fx) ==
    CASE op = "Session.ListTorrents"   -> RLRU("mTorrents")
      [] op = "Session.GetTorrent"     -> RLRU("mTorrents")
      [] op = "Session.Stats"          -> RLRU("mTorrents") \o RLRU("mPorts") \o RLRU("mBlocklist")   \* functional gauges
      [] op = "Session.AddTorrent"     -> F_addStopped(fx) \o F_TStart
      [] op = "Session.addMagnet"      -> F_addStopped(fx) \o F_TStart
      [] op = "Session.RemoveTorrent"  -> F_Remove(fx)
      [] op = "Session.StartAll"       -> IF "StartAll" \in fx THEN F_AllFixed("startCommandC") ELSE F_AllAsIs("startCommandC")
      [] op = "Session.StopAll"        -> IF "StopAll" \in fx THEN F_AllFixed("stopCommandC") ELSE F_AllAsIs("stopCommandC")
      [] op = "Session.CleanDatabase"  -> (IF "cleanLive" \in fx THEN RLRU("mTorrents") ELSE <<>>) \o DBTX
                                          \o (IF "cleanReset" \in fx THEN WLWU("mTorrents") ELSE <<>>)
      [] op = "Session.CompactDatabase" ->      \* as is: no lock at all (reads registry and loop-owned fields bare: data-race half)
             IF "compactLocks" \in fx
             THEN <<S("RL", "mTorrents"), E("RES", "Read"), E("RL", "mBitfield"), E("RU", "mBitfield"), S("RU", "mTorrents")>>
             ELSE <<>>
      [] op = "Session.loadExistingTorrent" -> F_loadExisting(fx)
      [] op = "Session.Close"          -> <<S("CLOSE", "closeC"), S("EXT", "dht.Stop")>> \o F_updateStats
                                          \o <<S("WL", "mTorrents"), E("GO", "lit"), EG("CLOSE", "closeC"), EG("CHRECV", "doneC"),
                                               S("WAIT", "wg"), S("WU", "mTorrents"), S("EXT", "db.Close")>>
      [] op = "Torrent.Start"          -> F_TStart
      [] op = "Torrent.Stop"           -> F_TStop
      [] op = "Torrent.Verify"         -> DBTX \o <<S("SEND", "verifyCommandC")>>
      [] op = "Torrent.Announce"       -> <<S("SEND", "announceCommandC")>>
      [] op = "Torrent.AddTracker"     -> DBTX \o <<S("SEND", "addTrackersCommandC")>>
      [] op = "Torrent.AddPeer"        -> <<A("GO", "torrent.resolveAndAddPeer"), S("GO", "torrent.AddPeers")>>
      [] op = "Torrent.Stats"          -> <<S("SEND", "statsCommandC"), S("RECV", "Response")>>
      [] op = "Torrent.Peers"          -> <<S("SEND", "peersCommandC"), S("RECV", "Response")>>
      [] op = "Torrent.Trackers"       -> <<S("SEND", "trackersCommandC"), S("RECV", "Response")>>
      [] op = "Torrent.Webseeds"       -> <<S("SEND", "webseedsCommandC"), S("RECV", "Response")>>
      [] op = "Torrent.NotifyStop"     -> <<S("SEND", "notifyErrorCommandC"), S("CHRECV", "errCC")>>
      [] op = "Torrent.Move"           -> <<S("SEND", "stopCommandC"), S("RES", "Read")>> \o F_Remove(fx)
      [] op = "rpcHandler.handleMoveTorrent" ->
             F_getPort \o (IF "moveTorrent" \in fx THEN RLRU("mTorrents") ELSE <<>>) \o F_removeClient(fx) \o F_stopRemove(fx)
             \o <<S("RES", "Write")>> \o F_loadExisting(fx) \o F_TStart \o F_getPort
      \* goroutines started by the calls above
      [] op = "torrent.AddPeers"       -> <<S("SEND", "addPeersCommandC")>>
      [] op = "torrent.resolveAndAddPeer" ->       \* as is: calls handleNewPeers on ITS OWN goroutine (no step at all)
             IF "resolveAndAddPeer" \in fx THEN <<S("SEND", "addPeersCommandC")>> ELSE <<>>
      \* background goroutines of the session
      [] op = "Session.updateStats"    -> F_updateStats
      [] op = "Session.reloadBlocklist" -> WLWU("mBlocklist") \o DBTX
      [] op = "Session.processDHTResults" ->
             <<E("WL", "mPeerRequests"), E("EXT", "dht.PeersRequestPort"), E("WU", "mPeerRequests"),      \* handleDHTtick
               E("RL", "mTorrents"), E("RU", "mTorrents")>>                                                \* one result
      [] op = "torrent.announceDHT"    -> WLWU("mPeerRequests")
      [] op = "torrent.announcerFields" -> RLRU("mBitfield")
      \* the loop: what stop() is made of (also the close path: close() = stop() ; ... ; close(doneC))
      [] op = "torrent.stop"           -> F_stop(fx)
      [] op = "torrent.close"          -> F_stop(fx) \o <<S("JOIN", "stoppedEventAnnouncer")>>
      \* derived variant (not a root of its own): AddPeer with a host name takes the `alt` go statement
      [] op = "Torrent.AddPeer#host"   -> <<S("GO", "torrent.resolveAndAddPeer")>>
      [] OTHER -> <<>>

\* every root with a program (what the extractor is compared with)
Roots == {"Session.ListTorrents", "Session.GetTorrent", "Session.Stats", "Session.AddTorrent", "Session.addMagnet",
          "Session.RemoveTorrent", "Session.StartAll", "Session.StopAll", "Session.CleanDatabase", "Session.Close",
          "Session.CompactDatabase", "Session.loadExistingTorrent",
          "Torrent.Start", "Torrent.Stop", "Torrent.Verify", "Torrent.Announce", "Torrent.AddTracker", "Torrent.AddPeer",
          "Torrent.Stats", "Torrent.Peers", "Torrent.Trackers", "Torrent.Webseeds", "Torrent.NotifyStop", "Torrent.Move",
          "rpcHandler.handleMoveTorrent", "torrent.AddPeers", "torrent.resolveAndAddPeer", "Session.updateStats",
          "Session.reloadBlocklist", "Session.processDHTResults", "torrent.announceDHT", "torrent.announcerFields",
          "torrent.stop", "torrent.close"}

\* the balanced atoms a loop handler may be made of (envelope of everything reachable from torrent.run)
LoopAtomsFlat == { <<S("RES", "*")>>, RLRU("mBitfield"), WLWU("mBitfield"), WLWU("mPeerRequests") }

\* the repairs that change the step sequence of an operation (MC_LocksPrint prints every combination of them)
Relevant(op) ==
    CASE op \in {"Session.AddTorrent", "Session.addMagnet", "Session.RemoveTorrent", "Torrent.Move"} -> {"reserveID"}
      [] op = "rpcHandler.handleMoveTorrent" -> {"reserveID", "moveTorrent"}
      [] op = "Session.loadExistingTorrent" -> {"moveTorrent"}
      [] op = "Session.StartAll" -> {"StartAll"}
      [] op = "Session.StopAll" -> {"StopAll"}
      [] op = "torrent.resolveAndAddPeer" -> {"resolveAndAddPeer"}
      [] op = "Session.CleanDatabase" -> {"cleanLive", "cleanReset"}
      [] op = "Session.CompactDatabase" -> {"compactLocks"}
      [] op \in {"torrent.stop", "torrent.close"} -> {"dhtDropOnStop"}
      [] OTHER -> {}

\* commands answered by the loop on the Response channel of the request. With a buffer of one element (the design) the
\* handler posts the answer and is back in its select whatever the caller does. WITHOUT buffer (m \in Unbuffered) the answer
\* is a step of the loop of its own (REPLY) that needs the caller to be waiting in recvResponse -- and the caller leaves
\* recvResponse through closeC when the torrent is closed (remove / move / Session.Close) while the query is being served.
ReplyCmds == {"statsCommandC", "peersCommandC", "trackersCommandC", "webseedsCommandC", "notifyErrorCommandC", "notifyListenCommandC"}
\* commands whose handler may run stop()
StopCmds  == {"stopCommandC", "verifyCommandC"}

(***************************************************************************)
(* Compilation of a flat sequence for a target torrent: `each` steps are   *)
(* expanded over the torrents, resources get their torrent, steps without  *)
(* blocking effect in this model disappear.                                *)
(***************************************************************************)
BfOf(t) == "mBitfield." \o t
GlobalMutexes == {"mTorrents", "mPorts", "mBlocklist", "mPeerRequests"}
Mutexes == GlobalMutexes \cup {BfOf(t) : t \in Torrents}

C1(s, t) ==   \* one flat step for one torrent t (t may be "new": a torrent nobody else knows yet)
    CASE s.k \in {"RL", "RU", "WL", "WU"} ->
            IF s.r \in GlobalMutexes THEN <<[k |-> s.k, m |-> s.r, t |-> ""]>>
            ELSE IF t = "new" THEN <<>> ELSE <<[k |-> s.k, m |-> BfOf(t), t |-> t]>>
      [] s.k \in {"DBB", "DBE"} -> IF s.r = "Update" THEN <<[k |-> s.k, m |-> "db", t |-> ""]>> ELSE <<>>   \* View: read tx, never waits
      [] s.k = "RES" -> <<[k |-> "DBX", m |-> "db", t |-> ""]>>
      [] s.k = "EXT" -> IF s.r = "db.Close" THEN <<[k |-> "DBX", m |-> "db", t |-> ""]>> ELSE <<>>
      [] s.k = "SEND" -> IF t = "new" THEN <<>> ELSE <<[k |-> "SEND", m |-> s.r, t |-> t]>>
      [] s.k = "RECV" -> IF t = "new" THEN <<>> ELSE <<[k |-> "RECV", m |-> s.r, t |-> t]>>
      [] s.k = "CHRECV" ->
            IF t = "new" \/ s.g > 0 THEN <<>>
            ELSE IF s.r = "doneC" THEN <<[k |-> "WAITDONE", m |-> "doneC", t |-> t]>>
            ELSE <<[k |-> "RECV", m |-> s.r, t |-> t]>>
      [] s.k = "CLOSE" -> IF s.r = "closeC" /\ t # "new" /\ (s.each \/ s.g > 0 \/ t # "") THEN <<[k |-> "CLOSET", m |-> "closeC", t |-> t]>> ELSE <<>>
      [] s.k = "WAIT" -> <<[k |-> "WAITALL", m |-> "wg", t |-> ""]>>
      [] s.k = "GO" -> IF s.r = "lit" THEN <<>> ELSE <<[k |-> "GO", m |-> s.r, t |-> t]>>
      \* join of a helper goroutine = acquire-and-release of every resource the helper's body takes:
      \*   DHTAnnouncer.Run -> torrent.announceDHT -> mPeerRequests (the announcer may be inside, or committed to, an announce);
      \*   allocator.Run / verifier.Run / PeriodicalAnnouncer.Run / StopAnnouncer.Run wait only on channels in selects that
      \*   have a closeC case (the close-aware discipline; exercised on the real code by the `phases` histories of harness/c20)
      [] s.k = "JOIN" ->
            IF s.r = "dhtAnnouncer" /\ t \notin {"new", ""}
            THEN <<[k |-> "WL", m |-> "mPeerRequests", t |-> ""], [k |-> "WU", m |-> "mPeerRequests", t |-> ""]>>
            ELSE <<>>
      [] OTHER -> <<>>

\* consecutive `each` steps are the body of one for-loop over the torrents: the body is repeated per torrent
RECURSIVE RunEnd(_, _)
RunEnd(flat, i) == IF i > Len(flat) \/ ~flat[i].each THEN i ELSE RunEnd(flat, i + 1)

RECURSIVE Body(_, _, _, _)
Body(flat, i, j, t) == IF i >= j THEN <<>> ELSE (IF flat[i].alt THEN <<>> ELSE C1(flat[i], t)) \o Body(flat, i + 1, j, t)

RECURSIVE Unroll(_, _, _, _)
Unroll(flat, i, j, n) == IF n > Len(TorrentSeq) THEN <<>> ELSE Body(flat, i, j, TorrentSeq[n]) \o Unroll(flat, i, j, n + 1)

RECURSIVE Compile(_, _, _)
\* (Session.Close has target "": its own close(s.closeC) blocks nobody and disappears)
Compile(flat, i, t) ==
    IF i > Len(flat) THEN <<>>
    ELSE IF flat[i].each THEN Unroll(flat, i, RunEnd(flat, i), 1) \o Compile(flat, RunEnd(flat, i), t)
    ELSE (IF flat[i].alt THEN <<>> ELSE C1(flat[i], t)) \o Compile(flat, i + 1, t)

ProgOf(op) == IF op \in DOMAIN SrcOver THEN SrcOver[op] ELSE ProgV(op, Fixed)
Code(op, t) == Compile(ProgOf(op), 1, t)

(***************************************************************************)
(* Processes                                                               *)
(***************************************************************************)
Digit(i) == CASE i = 1 -> "1" [] i = 2 -> "2" [] i = 3 -> "3" [] i = 4 -> "4" [] i = 5 -> "5" [] i = 6 -> "6" [] OTHER -> "x"
Cl(i) == "c" \o Digit(i)
Bgp(i) == "b" \o Digit(i)
Clients == {Cl(i) : i \in 1 .. NClients}
Bgs == {Bgp(i) : i \in 1 .. Len(BgSeq)}
\* (names are tabulated once: string concatenation in the hot path is slow in TLC)
ChildTab == [p \in Clients |-> "g_" \o p] @@ <<>>
ChildOf(p) == ChildTab[p]
Children == {ChildOf(p) : p \in Clients}
LoopNameTab == [t \in Torrents |-> "L_" \o t] @@ <<>>
LoopOf(t) == LoopNameTab[t]
Loops == {LoopOf(t) : t \in Torrents}
Workers == Clients \cup Bgs \cup Children
Procs == Workers \cup Loops

\* what a loop is doing: back in its select ("idle"), stop() after a stop/verify command, close(), or one atom
LoopModes == {"idle", "stop", "close", "reply", "aRES", "aRL", "aWL", "aPR"}
DoneStep(t) == <<[k |-> "DONE", m |-> "doneC", t |-> t]>>
LoopCode(md, t) ==
    CASE md = "idle"  -> <<>>
      [] md = "stop"  -> Code("torrent.stop", t)
      [] md = "close" -> Code("torrent.close", t) \o DoneStep(t)
      [] md = "reply" -> <<[k |-> "REPLY", m |-> "Response", t |-> t]>>      \* req.Response <- answer, unbuffered
      [] md = "aRES"  -> Compile(<<S("RES", "*")>>, 1, t)
      [] md = "aRL"   -> Compile(RLRU("mBitfield"), 1, t)
      [] md = "aWL"   -> Compile(WLWU("mBitfield"), 1, t)
      [] md = "aPR"   -> Compile(WLWU("mPeerRequests"), 1, t)

\* compiled programs, evaluated once (constant level)
Targets == Torrents \cup {"new", ""}
AllOps == Roots \cup {"Torrent.AddPeer#host", "-"}
\* (f @@ <<>> makes TLC enumerate the function once instead of re-evaluating its body at every application)
CodeTab == [o \in AllOps |-> ([t \in Targets |-> Code(o, t)] @@ <<>>)] @@ <<>>
LoopTab == [md \in LoopModes |-> ([t \in Torrents |-> LoopCode(md, t)] @@ <<>>)] @@ <<>>

VARIABLES
    who,      \* who[p] = <<op, target>> of a worker (a child gets its program at the `go` statement)
    lmode,    \* lmode[t]: program of the loop of t
    pc,       \* pc[p]: next step; 0 = goroutine not started yet; > Len = returned (loop: back in its select)
    lk,       \* lock state: rdr[m] readers, wr[m] writer holding or PENDING, wh[m] writer holds, db holder
    closed,   \* closed[t]: closeC of the torrent is closed
    done,     \* done[t]: doneC is closed (the loop has ended)
    reply,    \* reply[p]: "no" | "yes" the loop has posted the answer p waits for | "owed" the loop is about to send it on an
              \*           unbuffered channel | "lost" p has left recvResponse through closeC while the answer was owed
    budget,   \* budget[t]: spontaneous loop atoms left
    rounds    \* rounds[p]: rounds a background goroutine still has to run after the current one

vars == <<who, lmode, pc, lk, closed, done, reply, budget, rounds>>

TorTab == [p \in Loops |-> CHOOSE t \in Torrents : LoopOf(t) = p] @@ <<>>
TorOf(p) == TorTab[p]
CodeOf(p) == IF p \in Loops THEN LoopTab[lmode[TorOf(p)]][TorOf(p)] ELSE CodeTab[who[p][1]][who[p][2]]

Returned(p) == pc[p] > Len(CodeOf(p))
Idle(t) == Returned(LoopOf(t)) /\ ~done[t]
Cur(p) == CodeOf(p)[pc[p]]
Active(p) == pc[p] >= 1 /\ ~Returned(p)

IsRel(s) == s.k \in {"RU", "WU", "DBE"}
Rel(s, L, p) ==
    CASE s.k = "RU" -> [L EXCEPT !.rdr[s.m] = @ \ {p}]
      [] s.k = "WU" -> [L EXCEPT !.wr[s.m] = "none", !.wh[s.m] = FALSE]
      [] s.k = "DBE" -> [L EXCEPT !.db = "none"]

\* Releases never wait: they are executed together with the step before them (every lock-up state is preserved:
\* in a state where nothing can move no process stands before a release, and a release commutes to the left).
RECURSIVE RelRun(_, _, _, _)
RelRun(cd, i, L, p) == IF i > Len(cd) \/ ~IsRel(cd[i]) THEN <<i, L>> ELSE RelRun(cd, i + 1, Rel(cd[i], L, p), p)

\* a background goroutine that has finished a round starts the next one
Wrap(p, i) == IF p \in Bgs /\ i > Len(CodeOf(p)) /\ rounds[p] > 0 THEN 1 ELSE i
Adv(p, L) ==
    LET r == RelRun(CodeOf(p), pc[p] + 1, L, p) IN
    /\ pc' = [pc EXCEPT ![p] = Wrap(p, r[1])]
    /\ lk' = r[2]
    /\ rounds' = IF Wrap(p, r[1]) # r[1] THEN [rounds EXCEPT ![p] = @ - 1] ELSE rounds

(***************************************************************************)
(* Guards (also used to recognise a lock-up) and steps                     *)
(***************************************************************************)
\* c sits in recvResponse of a query the loop of t has taken and not answered yet
Awaits(c, t) == reply[c] = "owed" /\ Active(c) /\ Cur(c).k = "RECV" /\ Cur(c).t = t

Can(p) ==
    /\ Active(p)
    /\ LET s == Cur(p) IN
       CASE s.k = "RL" -> lk.wr[s.m] = "none"                                   \* a PENDING writer blocks new readers
         [] s.k = "WL" -> \/ lk.wr[s.m] = "none"
                          \/ lk.wr[s.m] = p /\ ~lk.wh[s.m] /\ lk.rdr[s.m] = {}   \* (a holder that locks again waits for itself)
         [] s.k \in {"DBB", "DBX"} -> lk.db = "none"
         [] s.k = "SEND" -> Idle(s.t) \/ closed[s.t]
         [] s.k = "RECV" -> reply[p] = "yes" \/ closed[s.t]
         [] s.k = "REPLY" -> \E c \in Workers : Awaits(c, s.t)             \* unbuffered send: the receiver must be there
         [] s.k = "WAITDONE" -> done[s.t]
         [] s.k = "WAITALL" -> \A t \in Torrents : done[t]
         [] OTHER -> TRUE

Step(p) ==
    /\ Can(p)
    /\ LET s == Cur(p) IN
       CASE s.k = "RL" -> /\ Adv(p, [lk EXCEPT !.rdr[s.m] = @ \cup {p}])
                          /\ UNCHANGED <<who, lmode, closed, done, reply, budget>>
         [] s.k = "WL" -> /\ IF lk.rdr[s.m] = {}
                             THEN Adv(p, [lk EXCEPT !.wr[s.m] = p, !.wh[s.m] = TRUE])
                             ELSE lk' = [lk EXCEPT !.wr[s.m] = p] /\ UNCHANGED <<pc, rounds>>   \* announce: readers drain, new ones wait
                          /\ UNCHANGED <<who, lmode, closed, done, reply, budget>>
         [] s.k = "DBB" -> /\ Adv(p, [lk EXCEPT !.db = p])
                           /\ UNCHANGED <<who, lmode, closed, done, reply, budget>>
         [] s.k = "DBX" -> /\ Adv(p, lk)
                           /\ UNCHANGED <<who, lmode, closed, done, reply, budget>>
         [] s.k = "SEND" ->
               \/ /\ Idle(s.t)                                   \* rendezvous with the loop's select
                  /\ IF s.m \in StopCmds /\ LoopTab["stop"][s.t] # <<>>
                     THEN LET q == LoopOf(s.t)
                              r == RelRun(CodeOf(p), pc[p] + 1, lk, p) IN
                          /\ lmode' = [lmode EXCEPT ![s.t] = "stop"]
                          /\ pc' = [pc EXCEPT ![p] = r[1], ![q] = 1]
                          /\ lk' = r[2]
                          /\ UNCHANGED <<reply, rounds>>
                     ELSE IF s.m \in ReplyCmds /\ s.m \in Unbuffered
                     THEN LET q == LoopOf(s.t)                   \* the handler runs, its answer needs the receiver
                              r == RelRun(CodeOf(p), pc[p] + 1, lk, p) IN
                          /\ lmode' = [lmode EXCEPT ![s.t] = "reply"]
                          /\ pc' = [pc EXCEPT ![p] = r[1], ![q] = 1]
                          /\ lk' = r[2]
                          /\ reply' = [reply EXCEPT ![p] = "owed"]
                          /\ UNCHANGED rounds
                     ELSE /\ Adv(p, lk)
                          /\ reply' = IF s.m \in ReplyCmds THEN [reply EXCEPT ![p] = "yes"] ELSE reply
                          /\ UNCHANGED lmode
                  /\ UNCHANGED <<who, closed, done, budget>>
               \/ /\ closed[s.t]                                 \* sendCommand gives up
                  /\ Adv(p, lk)
                  /\ UNCHANGED <<who, lmode, closed, done, reply, budget>>
         [] s.k = "RECV" -> /\ Adv(p, lk)                \* (with "owed": through closeC, nobody will receive the answer)
                            /\ reply' = [reply EXCEPT ![p] = IF @ = "owed" THEN "lost" ELSE "no"]
                            /\ UNCHANGED <<who, lmode, closed, done, budget>>
         [] s.k = "REPLY" -> /\ Adv(p, lk)
                             /\ reply' = [c \in Workers |-> IF Awaits(c, s.t) THEN "yes" ELSE reply[c]]
                             /\ UNCHANGED <<who, lmode, closed, done, budget>>
         [] s.k = "CLOSET" -> /\ Adv(p, lk)
                              /\ closed' = [closed EXCEPT ![s.t] = TRUE]
                              /\ UNCHANGED <<who, lmode, done, reply, budget>>
         [] s.k \in {"WAITDONE", "WAITALL"} -> /\ Adv(p, lk)
                                               /\ UNCHANGED <<who, lmode, closed, done, reply, budget>>
         [] s.k = "GO" -> LET c == ChildOf(p)
                              r == RelRun(CodeOf(p), pc[p] + 1, lk, p) IN
                          /\ who' = [who EXCEPT ![c] = <<s.m, s.t>>]
                          /\ pc' = [pc EXCEPT ![p] = r[1], ![c] = 1]
                          /\ lk' = r[2]
                          /\ UNCHANGED <<lmode, closed, done, reply, budget, rounds>>
         [] s.k = "DONE" -> /\ Adv(p, lk)
                            /\ done' = [done EXCEPT ![s.t] = TRUE]
                            /\ UNCHANGED <<who, lmode, closed, reply, budget>>

\* the loop sees closeC: close() = stop() ... ; close(doneC)
LoopClose(t) ==
    /\ Idle(t) /\ closed[t]
    /\ lmode' = [lmode EXCEPT ![t] = "close"]
    /\ pc' = [pc EXCEPT ![LoopOf(t)] = 1]
    /\ UNCHANGED <<who, lk, closed, done, reply, budget, rounds>>

\* the loop handles an event of its own (piece written, verification done, metadata complete, stop on error ...)
LoopInternal(t) ==
    /\ Idle(t) /\ budget[t] > 0
    /\ \E md \in {"aRES", "aRL", "aWL", "aPR"} :
          /\ LoopTab[md][t] # <<>>
          /\ lmode' = [lmode EXCEPT ![t] = md]
    /\ pc' = [pc EXCEPT ![LoopOf(t)] = 1]
    /\ budget' = [budget EXCEPT ![t] = @ - 1]
    /\ UNCHANGED <<who, lk, closed, done, reply, rounds>>

NoLock == [rdr |-> [m \in Mutexes |-> {}], wr |-> [m \in Mutexes |-> "none"], wh |-> [m \in Mutexes |-> FALSE], db |-> "none"]

\* clients pick operations in non-decreasing order of their index in Choices (client names are interchangeable)
Picks == {f \in [1 .. NClients -> 1 .. Len(Choices)] : (\A i \in 1 .. NClients - 1 : f[i] <= f[i + 1]) /\ Allowed(f)}
IdxOf(p, n, F(_)) == CHOOSE i \in 1 .. n : F(i) = p

Init ==
    \E f \in Picks :
        /\ who = [p \in Workers |->
                    IF p \in Clients THEN Choices[f[IdxOf(p, NClients, Cl)]]
                    ELSE IF p \in Bgs THEN LET b == BgSeq[IdxOf(p, Len(BgSeq), Bgp)] IN <<b[1], b[2]>>
                    ELSE <<"-", "">>]
        /\ rounds = [p \in Workers |-> IF p \in Bgs THEN BgSeq[IdxOf(p, Len(BgSeq), Bgp)][3] - 1 ELSE 0]
        /\ lmode = [t \in Torrents |-> "idle"]
        /\ pc = [p \in Procs |-> IF p \in Children THEN 0 ELSE 1]
        /\ lk = NoLock
        /\ closed = [t \in Torrents |-> FALSE]
        /\ done = [t \in Torrents |-> FALSE]
        /\ reply = [p \in Workers |-> "no"]
        /\ budget = [t \in Torrents |-> Budget]

Next ==
    \/ \E p \in Procs : Step(p)
    \/ \E t \in Torrents : LoopClose(t) \/ LoopInternal(t)

Spec == Init /\ [][Next]_vars
FairSpec == Spec /\ WF_vars(Next)

(***************************************************************************)
(* Properties                                                              *)
(***************************************************************************)
Pending == {p \in Workers : Active(p)}

CanMove == \/ \E p \in Procs : Can(p)
           \/ \E t \in Torrents : Idle(t) /\ (closed[t] \/ budget[t] > 0)

\* @obligation C20.lockup
Lockup == Pending # {} /\ ~CanMove
NoLockup == ~Lockup
\* call ~> return, for every call and background round (the programs are finite)
Returns == <>[](Pending = {})

TypeOK ==
    /\ \A m \in Mutexes : lk.wh[m] => (lk.wr[m] # "none" /\ lk.rdr[m] = {})
    /\ lk.db \in Procs \cup {"none"}
    /\ \A t \in Torrents : done[t] => closed[t]

(***************************************************************************)
(* Wait-for graph of a lock-up state; the processes on a cycle (or waiting *)
(* on a loop that is itself stuck) are what the stress recipe must run.    *)
(***************************************************************************)
WaitsFor(p) ==
    IF ~Active(p) THEN {}
    ELSE LET s == Cur(p) IN
       CASE s.k = "RL" -> {lk.wr[s.m]} \ {"none"}
         [] s.k = "WL" -> IF lk.wr[s.m] = p THEN (IF lk.wh[s.m] THEN {p} ELSE lk.rdr[s.m]) ELSE {lk.wr[s.m]} \ {"none"}
         [] s.k \in {"DBB", "DBX"} -> {lk.db} \ {"none"}
         [] s.k \in {"SEND", "RECV", "WAITDONE"} -> {LoopOf(s.t)}
         [] s.k = "WAITALL" -> {LoopOf(t) : t \in {x \in Torrents : ~done[x]}}
         [] s.k = "REPLY" -> IF \E c \in Workers : reply[c] = "owed" /\ Active(c) THEN {c \in Workers : reply[c] = "owed"}
                             ELSE {p}                            \* the receiver has gone: nobody can release the loop
         [] OTHER -> {}

RECURSIVE Reach(_, _)
Reach(X, n) == IF n = 0 THEN X ELSE Reach(X \cup UNION {WaitsFor(q) : q \in X}, n - 1)
After(p) == Reach(WaitsFor(p), Cardinality(Procs))
Core == {p \in Procs : p \in After(p)}
Involved == Core \cup {p \in Procs : After(p) \cap Core # {}}

Describe(p) ==
    [p |-> p, op |-> IF p \in Loops THEN "torrent.run" ELSE who[p][1], tgt |-> IF p \in Loops THEN TorOf(p) ELSE who[p][2],
     mode |-> IF p \in Loops THEN lmode[TorOf(p)] ELSE "", k |-> Cur(p).k, m |-> Cur(p).m, t |-> Cur(p).t, pc |-> pc[p],
     core |-> p \in Core, waits |-> WaitsFor(p),
     holds |-> {m \in Mutexes : p \in lk.rdr[m] \/ (lk.wr[m] = p /\ lk.wh[m])} \cup (IF lk.db = p THEN {"db"} ELSE {})]
=============================================================================
