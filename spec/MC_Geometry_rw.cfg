SPECIFICATION MCSpec
CONSTANTS
  MaxFiles = 3
  MaxLen = 3
  MaxPL = 4
  BSS = {2, 3}
INVARIANT ReadBackInv
INVARIANT DiskInv
INVARIANT AllWrittenIsFinal
INVARIANT VerifyInv
CHECK_DEADLOCK FALSE
