--------------------------- MODULE Trace_Announce ---------------------------
(***************************************************************************)
(* Trace specification for C15/C16: judges ndjson traces recorded from the *)
(* REAL code (harness/c15: real torrent.Session against scripted HTTP/UDP  *)
(* trackers and scripted peers; harness/c16: real tracker.Tier +           *)
(* PeriodicalAnnouncer, real Sessions sharing a UDP tracker, reply fuzz    *)
(* of the real HTTP/UDP tracker clients) with the MONITOR of Announce.tla. *)
(*                                                                         *)
(* One trace-spec action per recorded line.  What a scripted tracker       *)
(* RECEIVED (`ann`) and the calls the driver made on the torrent (`start`, *)
(* `stop`, `need`), the completion it observed (`complete`), the counters  *)
(* read at a quiescent point (`stats`) are the only inputs.  A failed      *)
(* obligation does not block the step: its tag goes to `viol` and a line   *)
(*    @@VIOL <position> <tag>                                              *)
(* is printed, so ONE run judges the whole file (Trace_Announce.cfg has no *)
(* stopping invariant; Trace_Announce_strict.cfg stops at the first one    *)
(* and shows the monitor state).  A line that no action matches is a       *)
(* driver/spec mismatch (never a verdict).  Scenarios are concatenated; an *)
(* "Init" line starts a new one with its own configuration.                *)
(***************************************************************************)
EXTENDS Announce, Json

VARIABLES l,
          tord, tfl      \* tier-level histories: member order of the Tier under test, position used by each running call
tvars == <<vars, l, tord, tfl>>

Trace == ndJsonDeserialize("trace.ndjson")
Ev == Trace[l]

CfgOf(e) == [ ann |-> e.ann, tor |-> e.tor, trk |-> e.trk, cmin |-> e.cmin, unit |-> e.unit, gslack |-> e.gslack,
              bo |-> e.bo, lat |-> e.lat, slk |-> e.slk, timed |-> TRUE, gapk |-> e.gapk, asis |-> {}, ivals |-> {}, cids |-> {} ]

Idle == /\ tor = <<>> /\ an = <<>> /\ rq = {} /\ idx = <<>> /\ up = <<>> /\ uc = <<>>

TraceInit ==
    /\ l = 2 /\ viol = ""
    /\ Trace[1].op = "Init"
    /\ cfg = CfgOf(Trace[1])
    /\ mon = MonInit(CfgOf(Trace[1])).mon /\ mt = MonInit(CfgOf(Trace[1])).mt /\ mk = MonInit(CfgOf(Trace[1])).mk
    /\ Idle /\ tord = <<>> /\ tfl = [s \in 1 .. 8 |-> -1]
    /\ TLCSet(1, 1)

Step(v) ==
    /\ l' = l + 1 /\ viol' = v
    /\ IF v = "" THEN TRUE ELSE PrintT("@@VIOL " \o ToString(l) \o " " \o v)
    /\ UNCHANGED xvars
TKeep == UNCHANGED <<tord, tfl>>

TrReset ==
    /\ Ev.op = "Init"
    /\ cfg' = CfgOf(Ev)
    /\ mon' = MonInit(CfgOf(Ev)).mon /\ mt' = MonInit(CfgOf(Ev)).mt /\ mk' = MonInit(CfgOf(Ev)).mk
    /\ tord' = <<>> /\ tfl' = [s \in 1 .. 8 |-> -1]
    /\ Step("")

\* every timed line first settles the deadlines that have passed (each is reported once)
Due == Join(<<DueViol(mon, Ev.now), RDueViol(mon, Ev.now)>>)
M0  == ClearDue(mon, Ev.now)

TrStart ==
    /\ Ev.op = "start" /\ Ev.t \in T /\ ~mt[Ev.t].run
    /\ mon' = StartF(M0, Ev.t, Ev.now) /\ mt' = StartT(mt, Ev.t)
    /\ UNCHANGED <<cfg, mk>> /\ Step(Due) /\ TKeep

TrStop ==
    /\ Ev.op = "stop" /\ Ev.t \in T /\ mt[Ev.t].run
    /\ mon' = StopF(M0, Ev.t, Ev.now) /\ mt' = StopT(mt, Ev.t)
    /\ UNCHANGED <<cfg, mk>> /\ Step(Due) /\ TKeep

TrComplete ==
    /\ Ev.op = "complete" /\ Ev.t \in T
    /\ mon' = EventF(M0, Ev.t) /\ mt' = CompleteT(mt, Ev.t)
    /\ UNCHANGED <<cfg, mk>> /\ Step(Due) /\ TKeep

TrNeed ==                                          \* Torrent.Announce(): not an event in the sense of C15.gap
    /\ Ev.op = "need" /\ Ev.t \in T
    /\ mon' = M0 /\ UNCHANGED <<cfg, mt, mk>> /\ Step(Due) /\ TKeep

TrStats ==                                         \* counters read by the driver at a quiescent point before stop
    /\ Ev.op = "stats" /\ Ev.t \in T
    /\ mt' = [mt EXCEPT ![Ev.t] = [@ EXCEPT !.exp = TRUE, !.eup = Ev.up, !.edown = Ev.down, !.eleft = Ev.left]]
    /\ mon' = M0 /\ UNCHANGED <<cfg, mk>> /\ Step(Due) /\ TKeep

TrUp ==
    /\ Ev.op = "up" /\ Ev.k \in K
    /\ mk' = [mk EXCEPT ![Ev.k] = Ev.v] /\ mon' = UpF(M0, Ev.k)
    /\ UNCHANGED <<cfg, mt>> /\ Step(Due) /\ TKeep

TrTick ==
    /\ Ev.op \in {"tick", "end", "note"}
    /\ mon' = M0 /\ UNCHANGED <<cfg, mt, mk>> /\ Step(Due) /\ TKeep

\* the completion of this run may be logged by the driver slightly after the tracker saw "completed"
Ahead(t) == \E j \in (l + 1) .. Min2(Len(Trace), l + 40) :
               /\ Trace[j].op = "complete" /\ Trace[j].t = t
               /\ \A i \in (l + 1) .. j : Trace[i].op # "Init" /\ ~(Trace[i].op \in {"start", "stop"} /\ Trace[i].t = t)

EOf(e) == [ev |-> e.ev, ih |-> e.ih, pid |-> e.pid, port |-> e.port, up |-> e.up, down |-> e.down, left |-> e.left]

\* an announce arrived at scripted tracker k; the driver attributed it to torrent t (0 = to none of them)
TrAnn ==
    /\ Ev.op = "ann" /\ Ev.k \in K
    /\ IF Ev.t \notin T \/ AnnFor(Ev.t, Ev.k) = {}
       THEN /\ mon' = M0 /\ UNCHANGED <<cfg, mt, mk>>
            /\ Step(Join(<<Due, "C15.id.infohash">>)) /\ TKeep
       ELSE LET t == Ev.t
                a == CHOOSE x \in AnnFor(t, Ev.k) : TRUE
                e == EOf(Ev)
                gap == IF M0[a].lastat[Ev.k] >= 0 THEN Ev.now - M0[a].lastat[Ev.k] ELSE 0
            IN IF Ev.ev = "stopped"
               THEN /\ mon' = StoppedF(M0, a, Ev.k) /\ UNCHANGED <<cfg, mt, mk>>
                    /\ Step(Join(<<Due>> \o StoppedViol(M0, a, Ev.k, t, e))) /\ TKeep
               ELSE /\ mon' = LET M1 == ResUpd(AnnUpdF(M0, a, Ev.k, Ev.ev, Ev.now, gap), a, Ev.k, Ev.res, Ev.iv, Ev.miv, Ev.now, Ev.dur)
                              IN \* "rtx": the tracker ignores this datagram and waits for its retransmission (BEP 15: 15 s)
                                 IF Ev.res = "never" /\ Ev.kind = "rtx" THEN RDueSet(M1, a, Ev.now + 15000 + cfg.lat + cfg.slk) ELSE M1
                    /\ mt' = mt
                    /\ mk' = [mk EXCEPT ![Ev.k] = Ev.nxt]
                    /\ UNCHANGED cfg
                    /\ Step(Join(<<Due>> \o AnnViol(M0, a, Ev.k, t, e, Ev.now, gap, mt[t].cinrun \/ Ahead(t)))) /\ TKeep

\* @obligation C16.retry.hang  an announce handed to a real tracker client whose scripted server answers every request at once
\*   ENDS - reply or error - within the envelope (loopback connect + announce or the client's own time-out, plus the slack):
\*   it is not parked inside the transport (the announcer would stay in Contacting for ever, without any retry)
TrCret ==
    /\ Ev.op = "cret" /\ Ev.k \in K
    /\ mon' = M0 /\ UNCHANGED <<cfg, mt, mk>>
    /\ Step(Join(<<Due, IF Ev.dur > Ev.env + cfg.slk THEN "C16.retry.hang" ELSE "">>)) /\ TKeep

\* a datagram whose (connection id, action, transaction id) was seen before arrived at UDP tracker k
TrRtx ==
    /\ Ev.op = "rtx" /\ Ev.k \in K
    /\ IF Ev.t \in T /\ AnnFor(Ev.t, Ev.k) # {}
       THEN LET a == CHOOSE x \in AnnFor(Ev.t, Ev.k) : TRUE IN
            mon' = IF Ev.answered THEN ResUpd(RDueSet(M0, a, -1), a, Ev.k, Ev.res, Ev.iv, Ev.miv, Ev.now, Ev.dur) ELSE M0
       ELSE mon' = M0
    /\ UNCHANGED <<cfg, mt, mk>>
    /\ Step(Join(<<Due>> \o RtxViol(Ev.same, Ev.late))) /\ TKeep

\* tier-level histories (harness/c16, real tracker.Tier, rendezvous inside the scripted members): every line is one atomic
\* step of the Tier - "tl": the call in lane `slot` has loaded the index and reached member k; "tr": that call returned
TrTNew ==
    /\ Ev.op = "tnew"
    /\ tord' = Ev.ks /\ tfl' = [s \in 1 .. 8 |-> -1]
    /\ mon' = TNewF(mon, 1) /\ UNCHANGED <<cfg, mt, mk>> /\ Step("")
TrTL ==
    /\ Ev.op = "tl" /\ Ev.slot \in 1 .. 8 /\ tfl[Ev.slot] = -1 /\ Ev.k \in SeqSet(tord)
    /\ mon' = TLoadF(mon, 1, tord, Ev.k) /\ tfl' = [tfl EXCEPT ![Ev.slot] = PosIn(tord, Ev.k)] /\ tord' = tord
    /\ UNCHANGED <<cfg, mt, mk>> /\ Step(TLoadViol(mon[1], tord, Ev.k))
TrTR ==
    /\ Ev.op = "tr" /\ Ev.slot \in 1 .. 8 /\ tfl[Ev.slot] # -1
    /\ mon' = TRetF(mon, 1, tord, tfl[Ev.slot], Ev.ok) /\ tfl' = [tfl EXCEPT ![Ev.slot] = -1] /\ tord' = tord
    /\ UNCHANGED <<cfg, mt, mk>> /\ Step("")

\* (an IPv6 literal in a dictionary-model reply is a well-formed address: counted by the check, not judged)
\* @obligation C16.reply.*  any reply bytes yield an error or well-formed peer addresses: never a crash or hang,
\*                          never more than the response limit read, never a reply accepted under another transaction id
FzViol(e) ==
    IF e.out = "crash" THEN "C16.reply.crash"
    ELSE IF e.out = "hang" THEN "C16.reply.hang"
    ELSE IF e.out = "ok" /\ e.nilip > 0 THEN "C16.reply.peer.nilip"
    ELSE IF e.out = "ok" /\ e.badtx THEN "C16.reply.txid"
    ELSE IF e.over THEN "C16.reply.limit"
    ELSE IF e.mix THEN "C16.reply.mixup"        \* a reply was delivered to (or parsed for) another announce than the one it answers
    ELSE IF e.lost THEN "C16.reply.lost"        \* an announce whose reply was sent ended without it
    ELSE IF e.out = "ok" /\ e.mustfail THEN "C16.reply.accepted"
    ELSE ""

TrFz ==
    /\ Ev.op = "fz"
    /\ UNCHANGED <<cfg, mon, mt, mk>> /\ Step(FzViol(Ev)) /\ TKeep

TraceNext ==
    /\ l <= Len(Trace)
    /\ \/ TrReset \/ TrStart \/ TrStop \/ TrComplete \/ TrNeed \/ TrStats \/ TrUp \/ TrTick \/ TrAnn \/ TrFz \/ TrRtx \/ TrCret \/ TrTNew \/ TrTL \/ TrTR

TraceSpec == TraceInit /\ [][TraceNext]_tvars

HighWater == TLCSet(1, IF l > TLCGet(1) THEN l ELSE TLCGet(1))
TraceAccepted ==
    LET hw == TLCGet(1) IN
    IF hw = Len(Trace) + 1 THEN TRUE
    ELSE /\ PrintT("@@REJECT " \o ToString(hw - 1) \o " " \o ToString(Len(Trace)))
         /\ FALSE
=============================================================================
