--------------------------- MODULE Trace_Announce ---------------------------
(***************************************************************************)
(* Trace specification for C15/C16: judges ndjson traces recorded from the *)
(* REAL code (harness/c15: real torrent.Session against scripted HTTP/UDP  *)
(* trackers and scripted peers; harness/c16: real tracker.Tier +           *)
(* PeriodicalAnnouncer, real Sessions sharing a UDP tracker, reply fuzz    *)
(* of the real HTTP/UDP tracker clients) with the MONITOR of Announce.tla. *)
(*                                                                         *)
(* One trace-spec action per recorded line.  What a scripted tracker       *)
(* RECEIVED (`ann`) and the calls the driver made on the torrent (`start`, *)
(* `stop`, `need`), the completion it observed (`complete`), the counters  *)
(* read at a quiescent point (`stats`) are the only inputs.  A failed      *)
(* obligation does not block the step: its tag goes to `viol` and a line   *)
(*    @@VIOL <position> <tag>                                              *)
(* is printed, so ONE run judges the whole file (Trace_Announce.cfg has no *)
(* stopping invariant; Trace_Announce_strict.cfg stops at the first one    *)
(* and shows the monitor state).  A line that no action matches is a       *)
(* driver/spec mismatch (never a verdict).  Scenarios are concatenated; an *)
(* "Init" line starts a new one with its own configuration.                *)
(***************************************************************************)
EXTENDS Announce, Json

VARIABLES l
tvars == <<vars, l>>

Trace == ndJsonDeserialize("trace.ndjson")
Ev == Trace[l]

CfgOf(e) == [ ann |-> e.ann, tor |-> e.tor, trk |-> e.trk, cmin |-> e.cmin, unit |-> e.unit, gslack |-> e.gslack,
              bo |-> e.bo, lat |-> e.lat, slk |-> e.slk, timed |-> TRUE, gapk |-> e.gapk, asis |-> {}, ivals |-> {} ]

Idle == /\ tor = <<>> /\ an = <<>> /\ rq = {} /\ idx = <<>> /\ up = <<>> /\ uc = <<>>

TraceInit ==
    /\ l = 2 /\ viol = ""
    /\ Trace[1].op = "Init"
    /\ cfg = CfgOf(Trace[1])
    /\ mon = MonInit(CfgOf(Trace[1])).mon /\ mt = MonInit(CfgOf(Trace[1])).mt /\ mk = MonInit(CfgOf(Trace[1])).mk
    /\ Idle
    /\ TLCSet(1, 1)

Step(v) ==
    /\ l' = l + 1 /\ viol' = v
    /\ IF v = "" THEN TRUE ELSE PrintT("@@VIOL " \o ToString(l) \o " " \o v)
    /\ UNCHANGED xvars

TrReset ==
    /\ Ev.op = "Init"
    /\ cfg' = CfgOf(Ev)
    /\ mon' = MonInit(CfgOf(Ev)).mon /\ mt' = MonInit(CfgOf(Ev)).mt /\ mk' = MonInit(CfgOf(Ev)).mk
    /\ Step("")

\* every timed line first settles the deadlines that have passed (each is reported once)
Due == DueViol(mon, Ev.now)
M0  == ClearDue(mon, Ev.now)

TrStart ==
    /\ Ev.op = "start" /\ Ev.t \in T /\ ~mt[Ev.t].run
    /\ mon' = StartF(M0, Ev.t, Ev.now) /\ mt' = StartT(mt, Ev.t)
    /\ UNCHANGED <<cfg, mk>> /\ Step(Due)

TrStop ==
    /\ Ev.op = "stop" /\ Ev.t \in T /\ mt[Ev.t].run
    /\ mon' = StopF(M0, Ev.t, Ev.now) /\ mt' = StopT(mt, Ev.t)
    /\ UNCHANGED <<cfg, mk>> /\ Step(Due)

TrComplete ==
    /\ Ev.op = "complete" /\ Ev.t \in T
    /\ mon' = EventF(M0, Ev.t) /\ mt' = CompleteT(mt, Ev.t)
    /\ UNCHANGED <<cfg, mk>> /\ Step(Due)

TrNeed ==                                          \* Torrent.Announce(): not an event in the sense of C15.gap
    /\ Ev.op = "need" /\ Ev.t \in T
    /\ mon' = M0 /\ UNCHANGED <<cfg, mt, mk>> /\ Step(Due)

TrStats ==                                         \* counters read by the driver at a quiescent point before stop
    /\ Ev.op = "stats" /\ Ev.t \in T
    /\ mt' = [mt EXCEPT ![Ev.t] = [@ EXCEPT !.exp = TRUE, !.eup = Ev.up, !.edown = Ev.down, !.eleft = Ev.left]]
    /\ mon' = M0 /\ UNCHANGED <<cfg, mk>> /\ Step(Due)

TrUp ==
    /\ Ev.op = "up" /\ Ev.k \in K
    /\ mk' = [mk EXCEPT ![Ev.k] = Ev.v] /\ mon' = UpF(M0, Ev.k)
    /\ UNCHANGED <<cfg, mt>> /\ Step(Due)

TrTick ==
    /\ Ev.op \in {"tick", "end", "note"}
    /\ mon' = M0 /\ UNCHANGED <<cfg, mt, mk>> /\ Step(Due)

\* the completion of this run may be logged by the driver slightly after the tracker saw "completed"
Ahead(t) == \E j \in (l + 1) .. Min2(Len(Trace), l + 40) :
               /\ Trace[j].op = "complete" /\ Trace[j].t = t
               /\ \A i \in (l + 1) .. j : Trace[i].op # "Init" /\ ~(Trace[i].op \in {"start", "stop"} /\ Trace[i].t = t)

EOf(e) == [ev |-> e.ev, ih |-> e.ih, pid |-> e.pid, port |-> e.port, up |-> e.up, down |-> e.down, left |-> e.left]

\* an announce arrived at scripted tracker k; the driver attributed it to torrent t (0 = to none of them)
TrAnn ==
    /\ Ev.op = "ann" /\ Ev.k \in K
    /\ IF Ev.t \notin T \/ AnnFor(Ev.t, Ev.k) = {}
       THEN /\ mon' = M0 /\ UNCHANGED <<cfg, mt, mk>>
            /\ Step(Join(<<Due, "C15.id.infohash">>))
       ELSE LET t == Ev.t
                a == CHOOSE x \in AnnFor(t, Ev.k) : TRUE
                e == EOf(Ev)
                gap == IF M0[a].lastat[Ev.k] >= 0 THEN Ev.now - M0[a].lastat[Ev.k] ELSE 0
            IN IF Ev.ev = "stopped"
               THEN /\ mon' = M0 /\ UNCHANGED <<cfg, mt, mk>>
                    /\ Step(Join(<<Due>> \o StoppedViol(M0, a, Ev.k, t, e)))
               ELSE /\ mon' = ResUpd(AnnUpdF(M0, a, Ev.k, Ev.ev, Ev.now, gap), a, Ev.k, Ev.res, Ev.iv, Ev.miv, Ev.now, Ev.dur)
                    /\ mt' = mt
                    /\ mk' = [mk EXCEPT ![Ev.k] = Ev.nxt]
                    /\ UNCHANGED cfg
                    /\ Step(Join(<<Due>> \o AnnViol(M0, a, Ev.k, t, e, Ev.now, gap, mt[t].cinrun \/ Ahead(t))))

\* (an IPv6 literal in a dictionary-model reply is a well-formed address: counted by the check, not judged)
\* @obligation C16.reply.*  any reply bytes yield an error or well-formed peer addresses: never a crash or hang,
\*                          never more than the response limit read, never a reply accepted under another transaction id
FzViol(e) ==
    IF e.out = "crash" THEN "C16.reply.crash"
    ELSE IF e.out = "hang" THEN "C16.reply.hang"
    ELSE IF e.out = "ok" /\ e.nilip > 0 THEN "C16.reply.peer.nilip"
    ELSE IF e.out = "ok" /\ e.badtx THEN "C16.reply.txid"
    ELSE IF e.over THEN "C16.reply.limit"
    ELSE IF e.out = "ok" /\ e.mustfail THEN "C16.reply.accepted"
    ELSE ""

TrFz ==
    /\ Ev.op = "fz"
    /\ UNCHANGED <<cfg, mon, mt, mk>> /\ Step(FzViol(Ev))

TraceNext ==
    /\ l <= Len(Trace)
    /\ \/ TrReset \/ TrStart \/ TrStop \/ TrComplete \/ TrNeed \/ TrStats \/ TrUp \/ TrTick \/ TrAnn \/ TrFz

TraceSpec == TraceInit /\ [][TraceNext]_tvars

HighWater == TLCSet(1, IF l > TLCGet(1) THEN l ELSE TLCGet(1))
TraceAccepted ==
    LET hw == TLCGet(1) IN
    IF hw = Len(Trace) + 1 THEN TRUE
    ELSE /\ PrintT("@@REJECT " \o ToString(hw - 1) \o " " \o ToString(Len(Trace)))
         /\ FALSE
=============================================================================
