SPECIFICATION GLSpec
CONSTANTS
  BITS = 4
  CAP = 0
  ASIS = FALSE
  K = 0
  ALPHA = "narrow"
INVARIANT GLPrint
CHECK_DEADLOCK FALSE
