SPECIFICATION TraceSpec
CONSTRAINT HighWater
INVARIANT NoViolation
POSTCONDITION TraceAccepted
CHECK_DEADLOCK FALSE
