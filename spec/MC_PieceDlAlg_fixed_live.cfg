SPECIFICATION ALiveSpec
CONSTANTS
  SECS <- Secs_plain4
  BS = 2
  QLENS = {1, 2}
  FAST = FALSE
  AF = FALSE
  REJ = "none"
  UNREQ = TRUE
  ENDS = FALSE
  VARIANT = "fixed"
  IGNORE = {}
INVARIANT AInv
VIEW AView
CHECK_DEADLOCK FALSE
PROPERTY Completes
