SPECIFICATION MCSpec
CONSTANTS
  NP = 2
  POLS <- PolsLive2
  BS = 2
  TSIZES = {3}
  MAXSZ = 4
  PARS = {1}
  QS = {1, 2}
  ADVS = {0, 2, 3, 4, 5}
  LENS = {0, 1, 2, 3}
  RESTART = FALSE
  DUPOKS = {TRUE}
  DROPS = FALSE
  PRIVATES = {FALSE}
INVARIANT Inv
PROPERTY Live
CHECK_DEADLOCK FALSE
