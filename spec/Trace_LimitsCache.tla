------------------------- MODULE Trace_LimitsCache -------------------------
(***************************************************************************)
(* Trace specification for the piece cache: judges histories recorded from *)
(* the REAL internal/piececache (harness/c17, sub-drivers cache and        *)
(* cacheconc) against LimitsCache.tla.                                     *)
(*                                                                         *)
(* Lines: call/ret of Get per goroutine, LoaderEnter/LoaderExit logged     *)
(* inside the loader the cache calls, Poll (Size(), LoadsActive() read by  *)
(* the scheduler while readers are in flight), Snap (full projection read  *)
(* through the overlay shim when no reader is in flight), Crash, Hang.     *)
(*                                                                         *)
(* LimitsCache leaves eviction to the code, so an explanation of a history *)
(* would have to guess after every load which entries were kept.  The      *)
(* trace spec uses the determinised form of that guess: `cached` is the    *)
(* set of entries that MAY be in the cache (every value loaded since the   *)
(* last quiescent snapshot plus what that snapshot showed); a Snap line    *)
(* shrinks it to what is really there.  All obligations are evaluated on   *)
(* OBSERVED values; acceptance uses the same registers as Trace_LimitsRM.  *)
(***************************************************************************)
EXTENDS LimitsCache, LimitsTrace

VARIABLES pend
tvars == <<cvars, pend, l, viol, vl>>

Ent(e) == [k |-> e[1], sz |-> e[2], ver |-> e[3]]
Val(e) == [k |-> e.k, sz |-> e.sz, ver |-> e.ver]

NoCall == [f |-> "none"]
CfgOf(e) == [max |-> e.max, par |-> e.par]

TraceInit ==
    /\ TraceInit0
    /\ CInitWith(CfgOf(Trace[1]))
    /\ pend = [g \in 1 .. Trace[1].ng |-> NoCall]

TrReset ==
    /\ Ev.op = "Init" /\ Boundary
    /\ CResetWith(CfgOf(Ev))
    /\ pend' = [g \in 1 .. Ev.ng |-> NoCall]

TrCall ==
    /\ Ev.op = "call" /\ Ev.f = "Get" /\ pend[Ev.g].f = "none"
    /\ pend' = [pend EXCEPT ![Ev.g] = [f |-> "Get", k |-> Ev.k, ran |-> FALSE, own |-> Val(Ev), oerr |-> FALSE]]
    /\ l' = l + 1
    /\ UNCHANGED <<cvars, viol, vl>>

\* @obligation C17.cache.parallel
TrLoaderEnter ==
    /\ Ev.op = "LoaderEnter" /\ pend[Ev.g].f = "Get" /\ ~pend[Ev.g].ran
    /\ ALoadBegin
    /\ SetViol(IF ParOK(inflight + 1) THEN "" ELSE "C17.cache.parallel")
    /\ pend' = [pend EXCEPT ![Ev.g].ran = TRUE]
    /\ l' = l + 1

TrLoaderExit ==
    /\ Ev.op = "LoaderExit" /\ pend[Ev.g].f = "Get" /\ pend[Ev.g].ran /\ inflight > 0
    /\ inflight' = inflight - 1
    /\ loadedv' = IF Ev.err THEN loadedv ELSE loadedv \cup {Val(Ev)}
    /\ cached' = IF Ev.err THEN cached ELSE cached \cup {Val(Ev)}       \* may be kept
    /\ pend' = [pend EXCEPT ![Ev.g].own = Val(Ev), ![Ev.g].oerr = Ev.err]
    /\ l' = l + 1
    /\ UNCHANGED <<ccfg, viol, vl>>

\* @obligation C17.cache.value
TrRet ==
    /\ Ev.op = "ret" /\ Ev.f = "Get" /\ pend[Ev.g].f = "Get"
    /\ LET p == pend[Ev.g]
           v == Val(Ev)
       IN SetViol(IF p.ran THEN (IF Ev.err # p.oerr \/ (~Ev.err /\ v # p.own) THEN "C17.cache.value.own" ELSE "")
                  ELSE IF Ev.err THEN ""
                  ELSE IF v.k # p.k \/ v \notin cached THEN "C17.cache.value.hit"
                  ELSE "")
    /\ pend' = [pend EXCEPT ![Ev.g] = NoCall]
    /\ l' = l + 1
    /\ UNCHANGED cvars

\* Size() read while readers may be in flight (the LoadsActive gauge is judged by the semaphore sub-model)
\* @obligation C17.cache.limit
TrPoll ==
    /\ Ev.op = "Poll"
    /\ SetViol(IF Ev.size < 0 \/ Ev.size > ccfg.max \/ Ev.rem # 0 THEN "C17.cache.limit" ELSE "")
    /\ l' = l + 1
    /\ UNCHANGED <<cvars, pend>>

\* projection read when no reader is in flight
\* @obligation C17.cache.limit  @obligation C17.cache.balance  @obligation C17.cache.value
TrSnap ==
    /\ Ev.op = "Snap"
    /\ LET es == {Ent(x) : x \in SetOf(Ev.ents)}
       IN /\ SetViol(IF Ev.size > ccfg.max \/ Ev.size < 0 THEN "C17.cache.limit"
                     ELSE IF Ev.size # SumSz(es) \/ Ev.rem # 0 THEN "C17.cache.balance.size"
                     ELSE IF Ev.len # Len(Ev.ents) \/ Cardinality(CKeys(es)) # Len(Ev.ents) THEN "C17.cache.balance.len"
                     ELSE IF ~Ev.heapok \/ ~Ev.timersok THEN "C17.cache.balance.heap"
                     ELSE IF ~(es \subseteq cached) THEN "C17.cache.value.phantom"
                     ELSE IF Ev.active # 0 \/ Ev.waiting # 0 THEN "C17.cache.parallel.gauge"
                     ELSE "")
          /\ cached' = es
    /\ inflight = 0
    /\ l' = l + 1
    /\ UNCHANGED <<ccfg, loadedv, inflight, pend>>

TrClear ==
    /\ Ev.op = "Clear" /\ inflight = 0
    /\ cached' = {}
    /\ l' = l + 1
    /\ UNCHANGED <<ccfg, loadedv, inflight, pend, viol, vl>>

\* @obligation C17.cache.crash
TrCrash ==
    /\ Ev.op = "Crash"
    /\ SetViol("C17.cache.crash")
    /\ l' = l + 1
    /\ UNCHANGED <<cvars, pend>>

TrHang ==
    /\ Ev.op = "Hang"
    /\ SetViol("C17.cache.hang")
    /\ l' = l + 1
    /\ UNCHANGED <<cvars, pend>>

TrLoaderEnterFull ==
    /\ TrLoaderEnter
    /\ UNCHANGED <<ccfg, cached, loadedv>>

TrEnd == Ev.op = "End" /\ Boundary /\ UNCHANGED <<cvars, pend>>

TraceNext ==
    /\ l <= Len(Trace)
    /\ \/ TrReset \/ TrEnd \/ TrCall \/ TrLoaderEnterFull \/ TrLoaderExit \/ TrRet \/ TrPoll \/ TrSnap \/ TrClear \/ TrCrash \/ TrHang

TraceSpec == TraceInit /\ [][TraceNext]_tvars

=============================================================================
