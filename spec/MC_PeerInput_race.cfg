SPECIFICATION MCSpec
CONSTANTS
  N = 4
  NPE = 1
  K = 3
  ASIS = FALSE
  ALPHA = "race"
  MAXLEN = 10
  GUARD = FALSE
  AFPARK = FALSE
INVARIANT Inv
VIEW MCView
CHECK_DEADLOCK FALSE
