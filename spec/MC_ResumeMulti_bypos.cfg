SPECIFICATION Spec
CONSTANTS
  NT = 2
  NPIECE = 2
  PAIRING = "bypos"
INVARIANT Inv
CHECK_DEADLOCK FALSE
