SPECIFICATION MCSpec
CONSTANTS
  NP = 2
  PLEN <- PLEN_43
  MAXBLK = 3
  MAXQ = 1
  CB = 2
  NCONN = 1
  IMPL = "loop"
  HAVE0 = {0}
  REQS <- REQS_A
  CANS <- REQS_1
  AFP = {0}
  NSEND = 3
  NFLIP = 1
  NOPEN = 1
  AFSEND = "all"
  GROW = FALSE
INVARIANT NoBad
INVARIANT QueueBound
INVARIANT QueuedValid
INVARIANT ChokedQueue
INVARIANT CacheTruth
INVARIANT ViewSound
CHECK_DEADLOCK FALSE
