SPECIFICATION MCSpec
CONSTANTS
  MODE = "pads"
  PADS_AB = {0, 1, 256, 511}
  PADS_CD = {0}
  PADS_FRAG = {}
  FULLFR = TRUE
INVARIANT Inv
CHECK_DEADLOCK TRUE
