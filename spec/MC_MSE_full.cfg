SPECIFICATION MCSpec
CONSTANTS
  MODE = "pads"
  PADS_AB = {0, 1, 2, 255, 256, 510, 511}
  PADS_CD = {0, 511}
  FULLFR = TRUE
INVARIANT Inv
CHECK_DEADLOCK TRUE
