SPECIFICATION MCSpec
CONSTANTS
  MAXACC = 2
  MAXDIAL = 1
  BLOCKED = {}
  DEV = {"completeLeak"}
  UNIVERSE = 1
INVARIANT TypeOK
INVARIANT Balance
INVARIANT Caps
INVARIANT Uniq
INVARIANT GoodPeers
INVARIANT Closed
INVARIANT StoppedClean
CHECK_DEADLOCK FALSE
