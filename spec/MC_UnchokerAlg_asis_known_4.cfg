SPECIFICATION ASpec
CONSTANTS
  NPEERS = 4
  NN = 2
  MM = 1
  RMAX = 1
  VARIANT = "asis"
  IGNORE = {"X01.f", "X01.a.reg", "X01.a.opt"}
  VICTIM = 0
INVARIANT AInv
CHECK_DEADLOCK FALSE
