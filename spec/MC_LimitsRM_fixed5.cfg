SPECIFICATION PSpec
CONSTANTS
  Reqs <- MCReqs5
  LIMIT = 2
  FIXED = TRUE
  PRECANCEL = TRUE
  ANYCANCEL = TRUE
  ANYCLOSE = TRUE
  RECHECK = FALSE
INVARIANT AInv
INVARIANT ToldIsHeld
INVARIANT NoOrphan
INVARIANT NoStuckManager
INVARIANT CandOK
PROPERTY Refines
CHECK_DEADLOCK TRUE
