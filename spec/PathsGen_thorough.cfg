SPECIFICATION Spec
CONSTANTS
  TIER = "thorough"
CHECK_DEADLOCK FALSE
