SPECIFICATION Spec
CONSTANTS
  TorrentSeq <- T1
  NClients = 3
  Choices <- ChoicesHyp
  BgSeq <- BgOne
  Fixed = {"StartAll", "StopAll", "resolveAndAddPeer", "moveTorrent", "reserveID", "cleanLive", "cleanReset", "compactLocks", "dhtDropOnStop"}
  Budget = 0
  Unbuffered = {"statsCommandC", "peersCommandC", "trackersCommandC", "webseedsCommandC"}
  SrcOver <- HypSendInTx
  Allowed <- PairsHyp
CONSTRAINT Report
INVARIANT TypeOK
CHECK_DEADLOCK FALSE
