SPECIFICATION MCSpec
CONSTANTS
  SECS <- Secs_plain4
  BS = 2
  QLENS = {1, 2, 3}
  FAST = TRUE
  AF = TRUE
  REJ = "any"
  UNREQ = TRUE
  ENDS = TRUE
INVARIANT Inv
CHECK_DEADLOCK FALSE
