SPECIFICATION MSpec
CONSTANTS
  NP = 3
  NSRC = 3
  CAPD = 2
  RI = 1
  VARIANT = "fixed"
  NSTOPS = 1
  NERRS = 1
INVARIANT MInv
VIEW MView
CHECK_DEADLOCK FALSE
