SPECIFICATION MCSpec
CONSTANTS
  VARIANT = "links"
  BIG = FALSE
INVARIANT TarComplete
CHECK_DEADLOCK FALSE
