SPECIFICATION Spec
CONSTANTS
  NP = 2
  NB = 2
  PAD <- Pad01
  NSRC = 1
  WS = FALSE
  FIX <- None
  MUT = "none"
  IGNORE <- OnlyMono
  RXMAX = 3
  NJUNK = 0
  NWRITE = 1
  NFAIL = 0
  NCRASH = 1
  NCLOSE = 0
  NSTOP = 2
  NUP = 0
  NINV = 0
  NLATE = 0
  TMAX = 4
  PERIOD = 2
  LATE = 1
  SEEDTOL = 0
INVARIANT Inv
VIEW View
CHECK_DEADLOCK FALSE
