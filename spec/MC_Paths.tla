------------------------------ MODULE MC_Paths ------------------------------
(* Exhaustive check of the MODEL layer of Paths over all small symbolic     *)
(* torrents (name x <= 2 files x <= 2 components of length <= MAXLEN over   *)
(* the alphabet SYMS), both layouts:                                        *)
(*   Complete : with the "fix" filter every accepted torrent is confined,   *)
(*              its files are distinct and its removal stays inside the     *)
(*              data directory;                                             *)
(*   Holes    : with the filter as found ("cur") the ONLY accepted torrents *)
(*              that are not confined are those whose cleaned, trimmed name *)
(*              is "." or ".." - and those exist (the design-level form of  *)
(*              the finding); files are distinct in any case;               *)
(*   RawRemove: removal by the RAW name leaves the data directory exactly   *)
(*              for names that resolve to the data directory or above.      *)
EXTENDS Paths
CONSTANTS SYMS, MAXLEN, FULLPAIRS

Comps == UNION {[1 .. k -> SYMS] : k \in 0 .. MAXLEN}
FilePaths == UNION {[1 .. k -> Comps] : k \in 1 .. 2}
\* two-file torrents: first file any path (FULLPAIRS) or a one-component path, second file one component
FileLists == {<<>>} \cup {<<f>> : f \in FilePaths}
             \cup {<<f, <<c>>>> : f \in (IF FULLPAIRS THEN FilePaths ELSE {<<d>> : d \in Comps}), c \in Comps}

VARIABLE t
MCInit == t \in [name : Comps, files : FileLists]
MCNext == FALSE /\ UNCHANGED t
MCSpec == MCInit /\ [][MCNext]_t

DotName(x) == Kind(Trim(Clean(EffName(x)))) \in {"d", "dd"}

Complete == \A w \in {0, 1} :
    Accepts(t, "fix") => ModelConfined(t, w) /\ ModelDistinct(t, w) /\ ModelRemoveOK(t, w, "fix")
Holes == \A w \in {0, 1} :
    Accepts(t, "cur") => /\ ModelDistinct(t, w)
                         /\ (~ModelConfined(t, w) => DotName(t))
RawRemove ==
    Accepts(t, "cur") /\ ~ModelRemoveOK(t, 0, "cur") => \E i \in 1 .. Len(EffName(t)) : EffName(t)[i] \in {"D", "S"}
Inv == Complete /\ Holes /\ RawRemove
\* vacuity guards (must be VIOLATED when checked as invariants; see props/c07.py)
NoHole == \A w \in {0, 1} : Accepts(t, "cur") => ModelConfined(t, w)
NoRawEscape == Accepts(t, "cur") => ModelRemoveOK(t, 0, "cur")
=============================================================================
