---------------------------- MODULE LimitsRMProto ----------------------------
(***************************************************************************)
(* C17 sub-model RM, part B: the goroutines and unbuffered channels of     *)
(* internal/resourcemanager as RENDEZVOUS steps.                           *)
(*                                                                         *)
(*  manager goroutine  run():  mpc = "loop"   in the big select (:107)     *)
(*                              mpc = "handle" in handleRequest's select   *)
(*                                             (:167) for request mreq     *)
(*                              mpc = "done"   after closeC                *)
(*    cand = the request chosen by randomRequest() at the top of the loop  *)
(*           (any request of any key; NoReq if the chosen one does not fit)*)
(*  client goroutine c (= one torrent event loop, key c): calls Request    *)
(*    and Release, closes cancel channels (peer.Close) and receives on its *)
(*    notify channel - all in ONE goroutine, so while it is inside         *)
(*    Request/Release it does not receive notifications.                   *)
(*      pc[c] = "loop"     in its own select (receives notify)             *)
(*              "reqSend"  Request: select{requestC<-r | <-closeC}  (:85)  *)
(*              "reqWait"  Request: select{<-r.doneC  | <-closeC}   (:87)  *)
(*              "relSend"  Release: select{releaseC<-n | <-closeC}  (:98)  *)
(*              "stopped"                                                  *)
(*  closer: Close() = close(closeC); <-doneC                               *)
(*                                                                         *)
(* A rendezvous on an unbuffered channel is one atomic step in which both  *)
(* sides are at matching program points; the manager's counter update      *)
(* that follows the rendezvous in the same goroutine is part of the step   *)
(* (nobody can observe the counters in between).                           *)
(*                                                                         *)
(* FIXED = FALSE  : the code as it is: handleRequest selects on            *)
(*                  {doneC<-acquired, <-r.cancelC}                         *)
(* FIXED = TRUE   : repaired manager: cancelC is polled first, the caller  *)
(*                  is ALWAYS answered, select on {doneC<-.., <-closeC}    *)
(* PRECANCEL      : a cancel channel may already be closed when Request is *)
(*                  called (torrent: pe.Done() of a peer closed earlier)   *)
(* ANYCANCEL      : cancel channels may also be closed by another          *)
(*                  goroutine while the client is inside a call            *)
(* ANYCLOSE       : Close() may race with calls (the session only closes   *)
(*                  the manager after all torrents have stopped)           *)
(* RECHECK        : MUTATION of the manager (never the code as it is): the *)
(*                  grant of a queued request looks at the cancel channel  *)
(*                  once more AFTER the notification was delivered and     *)
(*                  does not charge a cancelled request                    *)
(*                                                                         *)
(* told = what the clients were TOLD they hold (Request returned true or a *)
(* notification was received) and have not given back: a client releases   *)
(* exactly that.  When the budget is exhausted a queued request is not a   *)
(* candidate; the moment another holder releases, a queued request whose   *)
(* cancel channel was closed meanwhile (peer gone) and whose owner is back *)
(* in its select has BOTH manager cases ready (MRvNotify and MCancelCand,  *)
(* state predicate GrantCancelRace); whichever is taken, what the owner    *)
(* was told must be what the manager charged:                              *)
(*   @obligation C17.rm.grant_vs_cancel   ToldIsHeld == told = holders     *)
(***************************************************************************)
EXTENDS LimitsRM

CONSTANTS Reqs,      \* set of [id, key, n] : the requests the clients may issue
          LIMIT, FIXED, PRECANCEL, ANYCANCEL, ANYCLOSE, RECHECK

VARIABLES pc, cur, mpc, mreq, cand, fresh, closed, closer, told

pvars == <<pc, cur, mpc, mreq, cand, fresh, closed, closer, told>>
vars  == <<avars, pvars>>

NoReq  == [id |-> 0, key |-> 0, n |-> 0]
Client == Keys(Reqs)

\* randomRequest(): any waiter; if the one drawn does not fit nobody is served in this iteration
Pick(w, a) == {r \in w : r.n <= a} \cup (IF w = {} \/ \E r \in w : r.n > a THEN {NoReq} ELSE {})

PInit ==
    /\ AInitWith([limit |-> LIMIT])
    /\ pc = [c \in Client |-> "loop"] /\ cur = [c \in Client |-> NoReq]
    /\ mpc = "loop" /\ mreq = NoReq /\ cand = NoReq
    /\ fresh = Reqs /\ closed = FALSE /\ closer = "idle" /\ told = {}

-----------------------------------------------------------------------------
(* client steps                                                            *)
CStartReq(c, r) ==
    /\ pc[c] = "loop" /\ r \in fresh /\ r.key = c
    /\ pc' = [pc EXCEPT ![c] = "reqSend"] /\ cur' = [cur EXCEPT ![c] = r]
    /\ fresh' = fresh \ {r}
    /\ UNCHANGED <<avars, mpc, mreq, cand, closed, closer, told>>

CStartRel(c, r) ==
    /\ pc[c] = "loop" /\ r \in told /\ r.key = c          \* a client gives back what it was told it holds
    /\ pc' = [pc EXCEPT ![c] = "relSend"] /\ cur' = [cur EXCEPT ![c] = r]
    /\ UNCHANGED <<avars, mpc, mreq, cand, fresh, closed, closer, told>>

CCancel(c, r) ==
    /\ r \in Reqs /\ r.key = c /\ r.id \notin canc
    /\ ANYCANCEL \/ pc[c] = "loop"
    /\ PRECANCEL \/ r \notin fresh
    /\ ACancel(r.id)
    /\ UNCHANGED pvars

CStop(c) ==
    /\ pc[c] = "loop"
    /\ pc' = [pc EXCEPT ![c] = "stopped"]
    /\ UNCHANGED <<avars, cur, mpc, mreq, cand, fresh, closed, closer, told>>

\* any blocked call returns through <-m.closeC
CClosedReturn(c) ==
    /\ closed /\ pc[c] \in {"reqSend", "reqWait", "relSend"}
    /\ pc' = [pc EXCEPT ![c] = "loop"]
    /\ UNCHANGED <<avars, cur, mpc, mreq, cand, fresh, closed, closer, told>>

-----------------------------------------------------------------------------
(* manager steps                                                           *)
Repick == cand' \in Pick(waiters', avail')

MRvRequest(c) ==                          \* case r := <-m.requestC
    /\ mpc = "loop" /\ pc[c] = "reqSend"
    /\ mpc' = "handle" /\ mreq' = cur[c]
    /\ pc' = [pc EXCEPT ![c] = "reqWait"]
    /\ UNCHANGED <<avars, cur, cand, fresh, closed, closer, told>>

MRvDone ==                                \* case r.doneC <- acquired
    /\ mpc = "handle" /\ pc[mreq.key] = "reqWait" /\ cur[mreq.key] = mreq
    /\ LET cancelled == FIXED /\ mreq.id \in canc
           acq == ~cancelled /\ avail >= mreq.n
       IN /\ IF cancelled THEN ARefuse ELSE AReq(mreq, acq)
          /\ told' = IF acq THEN told \cup {mreq} ELSE told
    /\ pc' = [pc EXCEPT ![mreq.key] = "loop"]
    /\ mpc' = "loop" /\ mreq' = NoReq /\ Repick
    /\ UNCHANGED <<cur, fresh, closed, closer>>

MHandleCancel ==                          \* case <-r.cancelC   (code as it is)
    /\ ~FIXED
    /\ mpc = "handle" /\ mreq.id \in canc
    /\ UNCHANGED <<avars, pc, cur, fresh, closed, closer, told>>
    /\ mpc' = "loop" /\ mreq' = NoReq /\ Repick

MHandleClosed ==                          \* case <-m.closeC    (repaired code)
    /\ FIXED
    /\ mpc = "handle" /\ closed
    /\ UNCHANGED <<avars, pc, cur, fresh, closed, closer, told>>
    /\ mpc' = "loop" /\ mreq' = NoReq /\ Repick

MRvRelease(c) ==                          \* case n := <-m.releaseC
    /\ mpc = "loop" /\ pc[c] = "relSend"
    /\ IF cur[c] \in holders THEN ARelease(cur[c])
       ELSE /\ avail' = avail + cur[c].n                  \* (a reservation the manager never charged)
            /\ UNCHANGED <<rcfg, holders, waiters, canc>>
    /\ told' = told \ {cur[c]}
    /\ pc' = [pc EXCEPT ![c] = "loop"]
    /\ Repick
    /\ UNCHANGED <<cur, mpc, mreq, fresh, closed, closer>>

MRvNotify ==                              \* case req.notifyC <- req.data
    /\ mpc = "loop" /\ cand # NoReq /\ pc[cand.key] = "loop"
    /\ IF RECHECK /\ cand.id \in canc THEN ADrop(cand)   \* mutation: delivered, then treated like a refused request
       ELSE ANotify(cand)                                \* the code: a delivered notification is a charged reservation,
    /\ told' = told \cup {cand}                           \*           also when cand.id \in canc (select picked this case)
    /\ Repick
    /\ UNCHANGED <<pc, cur, mpc, mreq, fresh, closed, closer>>

MCancelCand ==                            \* case <-req.cancelC
    /\ mpc = "loop" /\ cand # NoReq /\ cand.id \in canc
    /\ ADrop(cand)
    /\ Repick
    /\ UNCHANGED <<pc, cur, mpc, mreq, fresh, closed, closer, told>>

MRvStats ==                               \* case ch := <-m.statsC : only re-draws cand
    /\ mpc = "loop" /\ ~closed
    /\ UNCHANGED <<avars, pc, cur, mpc, mreq, fresh, closed, closer, told>>
    /\ Repick

MDone ==                                  \* case <-m.closeC
    /\ mpc = "loop" /\ closed
    /\ mpc' = "done"
    /\ UNCHANGED <<avars, pc, cur, mreq, cand, fresh, closed, closer, told>>

-----------------------------------------------------------------------------
CloseCall ==
    /\ closer = "idle"
    /\ ANYCLOSE \/ \A c \in Client : pc[c] = "stopped"
    /\ closed' = TRUE /\ closer' = "wait"
    /\ UNCHANGED <<avars, pc, cur, mpc, mreq, cand, fresh, told>>

CloseReturn ==
    /\ closer = "wait" /\ mpc = "done"
    /\ closer' = "returned"
    /\ UNCHANGED <<avars, pc, cur, mpc, mreq, cand, fresh, closed, told>>

Terminated ==
    /\ closer = "returned" /\ \A c \in Client : pc[c] = "stopped"
    /\ UNCHANGED vars

PNext ==
    \/ \E c \in Client : CStop(c) \/ CClosedReturn(c) \/ MRvRequest(c) \/ MRvRelease(c)
    \/ \E c \in Client, r \in Reqs : CStartReq(c, r) \/ CStartRel(c, r) \/ CCancel(c, r)
    \/ MRvDone \/ MHandleCancel \/ MHandleClosed \/ MRvNotify \/ MCancelCand \/ MRvStats \/ MDone
    \/ CloseCall \/ CloseReturn \/ Terminated

PSpec == PInit /\ [][PNext]_vars

-----------------------------------------------------------------------------
(* What TLC checks                                                          *)

\* the goroutine model refines the counting object with the strict obligations
Refines == [][AStrictStep(Reqs) \/ UNCHANGED avars]_avars

\* @obligation C17.rm.handshake  a caller waiting for the answer is being served
NoOrphan ==
    \A c \in Client : pc[c] = "reqWait" => (closed \/ (mpc = "handle" /\ mreq = cur[c]))
\* the manager never waits for a caller that has gone away
NoStuckManager ==
    mpc = "handle" => \/ pc[mreq.key] = "reqWait" /\ cur[mreq.key] = mreq
                      \/ (~FIXED /\ mreq.id \in canc)
                      \/ (FIXED /\ closed)
CandOK == cand # NoReq => (cand \in waiters /\ cand.n <= avail)

\* @obligation C17.rm.grant_vs_cancel  what the clients were told they hold is what the manager charged - in particular
\* when a notification and the close of the cancel channel of the same queued request were ready together
ToldIsHeld == told = holders
\* both cases of the manager's select are ready for the drawn request (reachability witness, MC_LimitsRM_race.cfg)
GrantCancelRace == mpc = "loop" /\ cand # NoReq /\ cand.id \in canc /\ pc[cand.key] = "loop"
NoGrantCancelRace == ~GrantCancelRace
\* ... and the notification case was taken for it at least once (witness of the second kind)
NoCancelledHolder == ~ \E r \in holders : r.id \in canc /\ r \in told /\ pc[r.key] = "loop" /\ cur[r.key] # r

PInv == AInv /\ NoOrphan /\ NoStuckManager /\ CandOK /\ ToldIsHeld

\* design observation (not an obligation of C17): a waiter that fits and whose owner is listening is
\* not offered the resource because randomRequest() drew a request that does not fit and gave up
NoLostWakeup ==
    (mpc = "loop" /\ cand = NoReq) => ~ \E w \in waiters : w.n <= avail /\ pc[w.key] = "loop"

\* liveness form of the handshake obligation (checked in the small fixed configuration)
Fair ==
    /\ WF_vars(MRvDone) /\ WF_vars(MHandleCancel) /\ WF_vars(MHandleClosed) /\ WF_vars(MDone)
    /\ \A c \in Client : SF_vars(MRvRequest(c)) /\ SF_vars(MRvRelease(c)) /\ WF_vars(CClosedReturn(c))
PFairSpec == PSpec /\ Fair
CallsReturn == \A c \in Client : (pc[c] \in {"reqSend", "reqWait", "relSend"}) ~> (pc[c] = "loop")
=============================================================================
