SPECIFICATION MCSpec
CONSTANTS
  MODE = "all"
  PADS_AB = {0, 1, 2, 255, 256, 510, 511}
  PADS_CD = {0, 1, 2, 255, 256, 510, 511}
  PADS_FRAG = {0, 255, 492, 493, 504, 505, 511}
  FULLFR = FALSE
INVARIANT Inv
CHECK_DEADLOCK TRUE
