---------------------------- MODULE MC_WebseedGen ----------------------------
(***************************************************************************)
(* TLC as generator (E-gen, -simulate) of input histories for the X06 unit *)
(* driver: random walks of the repaired algorithm of MC_WebseedAlg in      *)
(* which the goroutine always runs until it is blocked (that is how the    *)
(* driver schedules) and the environment's inputs are recorded in h.  A    *)
(* history is printed when the goroutine has ended; the driver replays the *)
(* inputs (those that are applicable in the state the REAL code is in)     *)
(* on a torrent of the same geometry built by vh.Build, and goes on at     *)
(* random afterwards.  Trace_Webseed judges what the code did.             *)
(***************************************************************************)
EXTENDS MC_WebseedAlg, Json
VARIABLE h
gvars == <<avars, h>>

GInit == AInit /\ h = <<>>

Blocked == al.pc \in {"do", "read", "send", "sendE"} /\ ~al.closed
Rec(op, a, m) == h' = Append(h, [op |-> op, a |-> a, m |-> m])

\* the dummy dependence on the state keeps TLC from evaluating a draw once as a constant; a draw is bound through
\* a singleton set (a LET definition would be re-evaluated at every use)
Dice(k) == RandomElement(1 .. (k + 0 * Len(h)))
Draw(S) == RandomElement({x \in S : Len(h) >= 0})

Default ==
    CASE al.pc = "do" -> EResp("206") /\ Rec("resp", 0, "206")
      [] al.pc = "read" -> \E k \in {Draw(1 .. Min2(al.want, MAXCH))} : EChunk(k, FALSE) /\ Rec("chunk", k, "")
      [] al.pc = "send" -> ERecv /\ Rec("recv", 0, "")
      [] al.pc = "sendE" -> ERecvErr /\ Rec("recv", 0, "")
CanStop == src[S1].active /\ bud.stop < NSTOP /\ al.cur <= E1 - 1
CanErr == bud.err < NERR /\ al.pc \in {"do", "read"} /\ (al.pc = "do" => MODES # {"206"})
Held == {k \in 1 .. Len(own) : own[k] \in {"loop", "writer"}}

GEnv ==
    \E d \in {Dice(100)} :
       IF d <= 68 THEN Default
       ELSE IF d <= 80
       THEN IF CanStop THEN \E i \in {Draw(al.cur .. (E1 - 1))} : EStopAt(i) /\ Rec("stopat", i, "") ELSE Default
       ELSE IF d <= 84
       THEN IF bud.close < NCLOSE THEN EClose /\ Rec("close", 0, "") ELSE Default
       ELSE IF d <= 91
       THEN IF CanErr
            THEN IF al.pc = "do" THEN \E mode \in {Draw(MODES \ {"206"})} : EResp(mode) /\ Rec("resp", 0, mode)
                 ELSE \E k \in {Draw(0 .. (Min2(al.want, MAXCH + 1) - 1))} : EChunk(k, TRUE) /\ Rec("short", k, "")
            ELSE Default
       ELSE IF Held # {}
            THEN \E k \in {Draw(Held)}, w \in {Dice(2) = 1} :
                    /\ UNCHANGED <<al, bud>>
                    /\ IF w /\ own[k] = "loop" THEN Ev(CWriteViols(k), CWriteUpd(k)) /\ Rec("cw", k, "")
                       ELSE Ev(CRelViols(k), CRelUpd(k)) /\ Rec("cr", k, "")
            ELSE Default

GNext == al.pc # "ended" /\ IF Blocked THEN GEnv ELSE DStep /\ UNCHANGED h
GSpec == GInit /\ [][GNext]_gvars

GenPrint ==
    IF al.pc = "ended"
    THEN PrintT("@@" \o ToJson([pl |-> PL, files |-> [k \in 1 .. Len(FILES) |-> <<FILES[k].len, IF FILES[k].pad THEN 1 ELSE 0>>],
                               rb |-> RB, re |-> RE, ops |-> h]))
    ELSE TRUE
=============================================================================
