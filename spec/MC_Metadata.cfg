SPECIFICATION MCSpec
CONSTANTS
  NP = 2
  POLS <- PolsQuick
  BS = 2
  TSIZES = {3}
  MAXSZ = 4
  PARS = {1, 2}
  QS = {2}
  ADVS = {0, 1, 3, 4, 5}
  LENS = {0, 1, 2, 3}
  MODES = {"asis", "asis_nodrop", "fixed"}
  DUPOKS = {TRUE}
  PRIVATES = {FALSE}
INVARIANT Inv
PROPERTY Live
CHECK_DEADLOCK FALSE
