SPECIFICATION MCSpec
CONSTANTS
  NP = 2
  POLS <- PolsAny2
  BS = 2
  TSIZES = {3}
  MAXSZ = 4
  PARS = {1, 2}
  QS = {1, 2}
  ADVS = {0, 1, 3, 4, 5}
  LENS = {0, 1, 2, 3}
  RESTART = FALSE
  DUPOKS = {TRUE, FALSE}
  DROPS = TRUE
  PRIVATES = {FALSE}
INVARIANT Inv
CHECK_DEADLOCK FALSE
