SPECIFICATION PSpec
CONSTANTS
  Workers = {1, 2, 3}
  CAP = 2
  ROUNDS = 2
  FIXED = TRUE
INVARIANT PLimit
INVARIANT PLenNonNeg
INVARIANT PRest
INVARIANT PLenBound
CHECK_DEADLOCK FALSE
