------------------------------ MODULE LimitsSem ------------------------------
(***************************************************************************)
(* C17 sub-model Semaphore (internal/semaphore: Wait / Signal / Len /      *)
(* Waiting; it bounds the parallel reads of the piece cache).              *)
(*                                                                         *)
(* Part A - the counting object:  scfg [cap], inside = number of callers   *)
(* between the return of Wait and the call of Signal.                      *)
(*   @obligation C17.sem.limit   inside <= cap at all times                *)
(*   @obligation C17.sem.len     0 <= Len() <= cap, Waiting() >= 0;        *)
(*                               both 0 when nobody uses the semaphore     *)
(* Part B - the code: Wait  = waiting++ ; Acquire ; waiting-- ; active++   *)
(*                    Signal = Release ; active--      (FIXED: active-- ;  *)
(*                    Release)  with x/sync's weighted semaphore as an     *)
(*                    atomic permit counter.                               *)
(* TLC shows: permits and `inside` never leave 0..cap; the gauge `active`  *)
(* (= Len()) never goes negative but, in the order of the code as it is,   *)
(* can exceed cap for an instant (a waiter woken by Release increments it  *)
(* before the releaser decrements).  The stress sampler of the harness     *)
(* observes that transient on the real code under load (Stress lines).     *)
(***************************************************************************)
EXTENDS Integers, FiniteSets, Sequences, TLC

VARIABLES scfg, inside
svars == <<scfg, inside>>

SemInitWith(c) == scfg = c /\ inside = 0
SemResetWith(c) == scfg' = c /\ inside' = 0
AEnter == inside' = inside + 1 /\ UNCHANGED scfg
ALeave == inside' = inside - 1 /\ UNCHANGED scfg
EnterOK == inside + 1 <= scfg.cap
LenViol(len, waiting, final) ==
    IF len > scfg.cap THEN "C17.sem.len.above"
    ELSE IF len < 0 THEN "C17.sem.len.negative"
    ELSE IF waiting < 0 THEN "C17.sem.waiting"
    ELSE IF final /\ (len # 0 \/ waiting # 0) THEN "C17.sem.len.final"
    ELSE ""
SemInv == 0 <= inside /\ inside <= scfg.cap
=============================================================================
