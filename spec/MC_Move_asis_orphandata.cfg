SPECIFICATION MCSpec
CONSTANTS
  U = 2
  RANGE = {1, 2}
  FIX = {}
  MAXF = 1
  FAULTS = {"cut", "disk", "dbfail"}
  BINITS = {"empty"}
  RUNS = {TRUE}
  DIRTYS = {FALSE}
  DSTS = {"B"}
  FINAL = FALSE
INVARIANT TypeOK
INVARIANT NoOrphanData
CHECK_DEADLOCK FALSE
