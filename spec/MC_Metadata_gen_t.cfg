SPECIFICATION Spec
CONSTANTS
  TIER = "t"
CHECK_DEADLOCK FALSE
