SPECIFICATION MCSpec
CONSTANTS
  NP = 1
  PLEN <- Plen_1
  BSZ = 1
  CONNS = {1, 2}
  FASTS = {TRUE, FALSE}
  DEV = {}
  MINE0 = {{}}
INVARIANT InvOutAnnounced
INVARIANT InvOutChoke
INVARIANT InvAnncTruth
INVARIANT InvFirst
INVARIANT InvClosed
INVARIANT InvDueEnabled
CHECK_DEADLOCK FALSE
