---------------------------- MODULE Trace_Private ----------------------------
(***************************************************************************)
(* Judges scenarios recorded from a real torrent.Session (harness/c19)     *)
(* against Private.tla (property C19).                                     *)
(*                                                                         *)
(* Stimulus lines (what the harness did: tracker reply, AddPeer, incoming  *)
(* connection, extension handshake, PEX message, port message, DHT values, *)
(* sibling magnet, start/stop) evolve the shadow state with the INTENDED   *)
(* actions of Private.tla.  Observation lines (a connection arriving at    *)
(* the listener of an address source, a ut_pex message from the client, a  *)
(* KRPC query carrying the info-hash, Magnet(), the fate of the metadata,  *)
(* identity strings, Stats / loop snapshot) are compared with what the     *)
(* shadow state permits.  A failed obligation is printed                   *)
(* (@@VIOL tag line) and does not block; tags starting with NOTE are       *)
(* remarks outside the property (never a verdict).                         *)
(***************************************************************************)
EXTENDS Private, Json

VARIABLES l,
          pend     \* sources admitted before the last stop / refusal and not yet seen dialled: their connections may still be in flight
tvars == <<vars, l, pend>>

Trace == ndJsonDeserialize("trace.ndjson")
Ev == Trace[l]
SetOf(q) == {q[i] : i \in 1 .. Len(q)}
Note(v) == IF v = "" THEN TRUE ELSE PrintT("@@VIOL " \o v \o " " \o ToString(l))

\* the private flag of the scenario comes from the ENCODING the harness put into the info dict, read by Private!IsPrivateEncoding
CfgOf(e) == [priv |-> IsPrivateEncoding(e.encv), dht |-> e.dht, pex |-> e.pex, sibling |-> e.sibling, mode |-> e.mode]

\* e.co = "none" | "file" | "magnet": a co-tenant (public torrent / magnet link announcing to the same URL) was added to the session first
CoOf(e) == e.co # "none"
TraceInit == l = 2 /\ Trace[1].ev = "init" /\ InitWith2(CfgOf(Trace[1]), CoOf(Trace[1])) /\ pend = {} /\ TLCSet(1, 1)

TrReset ==
    /\ Ev.ev = "init"
    /\ cfg' = CfgOf(Ev) /\ pend' = {}
    /\ info' = (IF Ev.mode = "file" THEN "known" ELSE "none")
    /\ running' = FALSE /\ stopping' = FALSE /\ conn' = {} /\ pexOn' = {} /\ queue' = {} /\ dialled' = {}
    /\ dhtAnn' = FALSE /\ dhtPending' = FALSE /\ asked' = FALSE /\ sibAsked' = FALSE /\ nodes' = FALSE
    /\ magnetRes' = "none" /\ leak' = {} /\ hist' = 0
    /\ life' = [bf |-> FALSE, ident |-> IF Ev.mode = "file" /\ IsPrivateEncoding(Ev.encv) THEN "private" ELSE "public", gone |-> FALSE, co |-> CoOf(Ev)]
    /\ l' = l + 1

Keep == UNCHANGED <<hist, pend>> /\ l' = l + 1
Skip == UNCHANGED vars /\ UNCHANGED pend /\ l' = l + 1

\* which restriction is in force: names the violated half of the property
Why == IF IsPriv THEN "private" ELSE IF info = "refused" THEN "refused" ELSE ""

\* ---- stimuli ---------------------------------------------------------------
TrStart == Ev.ev = "start" /\ (IF running THEN UNCHANGED vars ELSE DoStart /\ UNCHANGED hist) /\ pend' = {} /\ l' = l + 1
\* "stop" = the harness saw the torrent in Stopped state (both steps of the stop); "stopping" = it saw it enter Stopping;
\* "stopped" = the torrent that was seen Stopping has reached Stopped
TrStop  == Ev.ev = "stop" /\ (IF running THEN DoStopTo(FALSE) /\ UNCHANGED hist ELSE IF stopping THEN DoStopped /\ UNCHANGED hist ELSE UNCHANGED vars)
           /\ pend' = pend \cup queue /\ l' = l + 1
TrStopping == Ev.ev = "stopping" /\ (IF running THEN DoStopTo(TRUE) /\ UNCHANGED hist ELSE UNCHANGED vars) /\ pend' = pend \cup queue /\ l' = l + 1
TrStopped == Ev.ev = "stopped" /\ (IF stopping THEN DoStopped /\ UNCHANGED hist ELSE UNCHANGED vars) /\ UNCHANGED pend /\ l' = l + 1
\* a co-tenant is added while the torrent exists (matters for the next reload)
TrCoTenant == Ev.ev = "cotenant" /\ (IF life.co THEN UNCHANGED vars ELSE DoCoTenant /\ UNCHANGED hist) /\ UNCHANGED pend /\ l' = l + 1
TrTrackerReply == Ev.ev = "trkreply" /\ DoTrackerPeers /\ Keep
TrAddPeer == Ev.ev = "addpeer" /\ DoAddPeer /\ Keep
TrConnIn == Ev.ev = "conn_in" /\ (IF running THEN DoIncoming /\ UNCHANGED hist ELSE UNCHANGED vars) /\ UNCHANGED pend /\ l' = l + 1
TrExtHs == Ev.ev = "exths" /\ (IF Ev.p \in conn THEN DoExtHs(Ev.p) /\ UNCHANGED hist ELSE UNCHANGED vars) /\ UNCHANGED pend /\ l' = l + 1
TrPexMsg == Ev.ev = "pexmsg" /\ (IF Ev.p \in conn THEN DoPexMsg(Ev.p) /\ UNCHANGED hist ELSE UNCHANGED vars) /\ UNCHANGED pend /\ l' = l + 1
TrPortMsg == Ev.ev = "port" /\ (IF Ev.p \in conn THEN DoPortMsg(Ev.p) /\ UNCHANGED hist ELSE UNCHANGED vars) /\ UNCHANGED pend /\ l' = l + 1
TrSibling == Ev.ev = "sibling" /\ (IF cfg.sibling /\ cfg.dht THEN DoSiblingAsk /\ UNCHANGED hist ELSE UNCHANGED vars) /\ UNCHANGED pend /\ l' = l + 1
\* the session was closed and a new one loaded the torrent from its resume record; Ev.bf = the record held a bitfield
\* (read from the database by the harness between the two sessions)
TrReload ==
    /\ Ev.ev = "reload"
    /\ life' = [bf |-> Ev.bf, ident |-> IF IsPriv THEN "private" ELSE "public", gone |-> FALSE, co |-> life.co]
    /\ StopEffects /\ info' = (IF info = "refused" THEN "none" ELSE info)
    /\ UNCHANGED <<cfg, dialled, asked, sibAsked, nodes, magnetRes, leak, hist>>
    /\ pend' = pend \cup queue /\ l' = l + 1
\* RemoveTorrent / Session.Close; the harness keeps the handle
TrGone ==
    /\ Ev.ev = "gone"
    /\ DoGone /\ UNCHANGED hist
    /\ pend' = pend \cup queue /\ l' = l + 1
TrDhtValues ==       \* the DHT stub answered a get_peers for the info-hash with a peer address
    /\ Ev.ev = "dhtvalues"
    /\ IF asked \/ sibAsked THEN DoDhtPeers /\ UNCHANGED hist ELSE UNCHANGED vars
    /\ UNCHANGED pend /\ l' = l + 1

\* ---- observations ------------------------------------------------------------
\* @obligation C19.pex.acted / C19.dht.fed / C19.metadata.leak.dial
\* a connection arrived at the listener that stands for address source Ev.src
TrDial ==
    /\ Ev.ev = "dial"
    /\ IF Ev.who # "t1" THEN UNCHANGED vars
       ELSE IF running /\ Ev.src \in queue
            THEN DoDial(Ev.src) /\ UNCHANGED hist
            ELSE /\ Note(IF running /\ (Ev.src \in Allowed \/ (Ev.src \in dialled /\ ~Restricted)) THEN ""   \* further address of an admitted source
                         ELSE IF ~running /\ Ev.src \in pend THEN ""                    \* admitted before the stop / refusal: in flight
                         ELSE IF Ev.src \in Allowed THEN "NOTE.dial.unexplained." \o Ev.src        \* an allowed source is never a leak
                         ELSE IF Why = "private" THEN (IF Ev.src = "pex" THEN "C19.pex.acted" ELSE "C19.dht.fed")
                         ELSE IF Why = "refused" THEN "C19.metadata.leak.dial"
                         ELSE "NOTE.dial.unexplained." \o Ev.src)
                 /\ dialled' = dialled \cup {Ev.src} /\ conn' = conn \cup {Ev.src}
                 /\ UNCHANGED <<cfg, info, running, stopping, pexOn, queue, dhtAnn, dhtPending, asked, sibAsked, nodes, magnetRes, leak, hist, life>>
    /\ UNCHANGED pend /\ l' = l + 1

\* @obligation C19.pex.sent   the client sent a ut_pex message to peer Ev.p
TrPexRx ==
    /\ Ev.ev = "pexrx"
    /\ Note(IF Ev.p \in pexOn /\ ~Restricted THEN ""
            ELSE IF Why = "private" THEN "C19.pex.sent"
            ELSE IF Why = "refused" THEN "C19.metadata.leak.pex"
            ELSE "NOTE.pex.sent.unexplained")
    /\ Skip

\* @obligation C19.dht.asked / C19.metadata.leak.dht   a KRPC get_peers / announce_peer with the info-hash reached a DHT node
TrDhtQ ==
    /\ Ev.ev = "dhtq"
    /\ LET mine == dhtAnn \/ dhtPending                                   \* this torrent may ask
           sib == cfg.sibling /\ sibAsked /\ Ev.who # "t1"                \* the sibling asks on its own behalf
       IN IF mine
          THEN /\ asked' = TRUE /\ dhtPending' = dhtPending
               /\ UNCHANGED <<cfg, info, running, stopping, conn, pexOn, queue, dialled, dhtAnn, sibAsked, nodes, magnetRes, leak, hist, life>>
          ELSE /\ Note(IF sib THEN ""
                       ELSE IF Why = "private" THEN "C19.dht.asked"
                       \* .stopping: the query left while the refusing torrent was sending the "stopped" event to its trackers
                       ELSE IF Why = "refused" THEN (IF stopping THEN "C19.metadata.leak.dht.stopping" ELSE "C19.metadata.leak.dht")
                       ELSE "NOTE.dht.unexplained")
               /\ asked' = TRUE
               /\ UNCHANGED <<cfg, info, running, stopping, conn, pexOn, queue, dialled, dhtAnn, dhtPending, sibAsked, nodes, magnetRes, leak, hist, life>>
    /\ UNCHANGED pend /\ l' = l + 1

\* @obligation C19.metadata   private metadata from a magnet link is refused (and public metadata is adopted)
TrMeta ==
    /\ Ev.ev = "meta"
    /\ cfg.mode = "magnet"
    /\ Note(IF Ev.outcome = "adopted" /\ cfg.priv THEN "C19.metadata.adopted"
            ELSE IF Ev.outcome = "refused" /\ ~cfg.priv THEN "NOTE.metadata.public.refused"
            ELSE IF Ev.outcome = "none" THEN "NOTE.metadata.none"
            ELSE "")
    /\ IF Ev.outcome \in {"adopted", "refused"} /\ info = "none" /\ running
       THEN DoMetadata(Ev.outcome = "adopted") /\ UNCHANGED hist
       ELSE UNCHANGED vars
    /\ pend' = IF Ev.outcome = "refused" THEN pend \cup queue ELSE pend
    /\ l' = l + 1

\* @obligation C19.magnet   in every life-cycle state of the handle (before the metadata, running, stopped, removed, session closed)
TrMagnet ==
    /\ Ev.ev = "magnet"
    /\ Note(IF IsPriv /\ ~Ev.err THEN (IF life.gone THEN "C19.magnet.gone" ELSE "C19.magnet")
            ELSE IF ~IsPriv /\ Ev.err THEN "NOTE.magnet.public.err"
            ELSE "")
    /\ DoMagnet(~Ev.err) /\ Keep

\* @obligation C19.identity.*
TrIdent ==
    /\ Ev.ev = "ident"
    \* .cotenant: the session holds another torrent that announces to the same tracker URL and was added first
    /\ Note(IF IsPriv /\ Ev.cls # "private" THEN "C19.identity." \o Ev.what \o (IF life.co /\ Ev.what = "ua" THEN ".cotenant" ELSE "")
            ELSE IF ~cfg.priv /\ Ev.cls = "private" THEN "C19.identity." \o Ev.what \o ".public"
            ELSE "")
    /\ Skip

\* @obligation C19.flag   the client's reading of every encoding equals the fail-safe reading of Private.tla
\* Stats / loop snapshot (hook H1) at a quiet point
TrObs ==
    /\ Ev.ev = "obs"
    /\ Note(IF info = "known" /\ (Ev.private # cfg.priv \/ Ev.snapPrivate # cfg.priv) THEN "C19.flag"
            ELSE IF IsPriv /\ (Ev.qpex > 0 \/ Ev.qdht > 0) THEN "C19.sources.queued"
            ELSE IF IsPriv /\ Ev.dhtAnnouncer THEN "C19.dht.announcer"
            ELSE IF IsPriv /\ Ev.pexPeers > 0 THEN "C19.pex.started"
            ELSE IF IsPriv /\ ~(SetOf(Ev.srcs) \subseteq (Allowed \cup {"incoming"})) THEN "C19.sources.connected"
            ELSE IF info = "refused" /\ (Ev.status # "Stopped" \/ Ev.dhtAnnouncer \/ Ev.hasInfo) THEN "C19.metadata.notstopped"
            ELSE "")
    /\ Skip

TrSkip == Ev.ev \in {"end", "note"} /\ Skip

TraceNext ==
    /\ l <= Len(Trace)
    /\ \/ TrReset \/ TrStart \/ TrStop \/ TrStopping \/ TrStopped \/ TrCoTenant \/ TrTrackerReply \/ TrAddPeer \/ TrConnIn \/ TrExtHs \/ TrPexMsg \/ TrPortMsg
       \/ TrSibling \/ TrReload \/ TrGone \/ TrDhtValues \/ TrDial \/ TrPexRx \/ TrDhtQ \/ TrMeta \/ TrMagnet \/ TrIdent \/ TrObs \/ TrSkip

TraceSpec == TraceInit /\ [][TraceNext]_tvars

HighWater == TLCSet(1, IF l > TLCGet(1) THEN l ELSE TLCGet(1))
TraceAccepted ==
    LET hw == TLCGet(1) IN
    IF hw = Len(Trace) + 1 THEN TRUE
    ELSE /\ PrintT("@@REJECT " \o ToString(hw - 1) \o " " \o ToString(Len(Trace)))
         /\ FALSE
=============================================================================
