----------------------------- MODULE LimitsSessWS -----------------------------
(* Design model of the web-seed slots of one torrent (torrent.go:372, torrent_start.go:162-176,                   *)
(* torrent_webseed.go, torrent_write.go, torrent_stop.go): K url-list entries cut to CAPS sources; a source is    *)
(* idle / downloading / disabled; `active` is the counter webseedActiveDownloads.  A piece result may still be    *)
(* in the piece writer (`inwr` = its source) when the download that produced it has ended.                        *)
(* FIXED = FALSE is the code as it is: a corrupt piece always frees a slot, also when its download has ended.     *)
EXTENDS LimitsSess
CONSTANTS K, CAPS, CAPD, FIXED
VARIABLES st, active, inwr, running
vars == <<st, active, inwr, running>>
Src == 1 .. Min2(K, IF CAPS < 0 THEN 0 ELSE CAPS)
Downloading == {s \in Src : st[s] = "dl"}
Init == st = [s \in Src |-> "idle"] /\ active = 0 /\ inwr = 0 /\ running = TRUE
Start(s) == running /\ st[s] = "idle" /\ active < CAPD /\ st' = [st EXCEPT ![s] = "dl"] /\ active' = active + 1 /\ UNCHANGED <<inwr, running>>
\* a piece arrives and goes to the writer; last = it was the last piece of the range (download closed, slot freed)
Piece(s, last) == /\ running /\ st[s] = "dl" /\ inwr = 0 /\ inwr' = s
                  /\ IF last THEN st' = [st EXCEPT ![s] = "idle"] /\ active' = active - 1 ELSE UNCHANGED <<st, active>>
                  /\ UNCHANGED running
WriteOK == inwr # 0 /\ inwr' = 0 /\ UNCHANGED <<st, active, running>>
WriteBad == /\ inwr # 0 /\ inwr' = 0
            /\ st' = [st EXCEPT ![inwr] = "disabled"]
            /\ active' = IF FIXED /\ st[inwr] # "dl" THEN active ELSE active - 1
            /\ UNCHANGED running
Error(s) == running /\ st[s] = "dl" /\ st' = [st EXCEPT ![s] = "disabled"] /\ active' = active - 1 /\ UNCHANGED <<inwr, running>>
Stop == running /\ running' = FALSE /\ st' = [s \in Src |-> IF st[s] = "dl" THEN "idle" ELSE st[s]] /\ active' = 0 /\ inwr' = 0
Restart == ~running /\ running' = TRUE /\ UNCHANGED <<st, active, inwr>>
Next == Stop \/ Restart \/ WriteOK \/ WriteBad \/ \E s \in Src : Start(s) \/ Error(s) \/ \E l \in BOOLEAN : Piece(s, l)
Spec == Init /\ [][Next]_vars
SourcesBound == Cardinality(Src) <= (IF CAPS < 0 THEN 0 ELSE CAPS)     \* @obligation C17.webseed.sources
ActiveBound == 0 <= active /\ active <= CAPD                            \* @obligation C17.webseed.active
ActiveExact == active = Cardinality(Downloading) /\ Cardinality(Downloading) <= CAPD
=============================================================================
