SPECIFICATION PSpec
CONSTANTS
  Reqs <- MCReqs3
  LIMIT = 2
  FIXED = TRUE
  PRECANCEL = TRUE
  ANYCANCEL = TRUE
  ANYCLOSE = TRUE
INVARIANT AInv
INVARIANT NoOrphan
INVARIANT NoStuckManager
INVARIANT CandOK
PROPERTY Refines
CHECK_DEADLOCK TRUE
