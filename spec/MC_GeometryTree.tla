-------------------------- MODULE MC_GeometryTree --------------------------
(* Creation axis of C02: TLC enumerates every directory tree of the small   *)
(* space (<= MaxTreeFiles files, each in one of the directories Dirs under  *)
(* one of the names Names) together with every creation argument kind that  *)
(* applies to it ("file", "dir", "paths"), proves the walk-order theorem for*)
(* each, and prints each case; harness/c02 (-mode rt -trees <file>) builds  *)
(* the tree on disk, creates the torrent through the real                   *)
(* metainfo.NewInfoBytes with that argument and verifies it against the     *)
(* same directory; Trace_Geometry judges the recorded line.                 *)
(* The tree is handed over in REVERSE walk order: the expected file order   *)
(* is computed by TLC (WalkOrder), not by the driver.                       *)
(* Classes that arise: a directory with exactly one file at depth 0, 1, 2;  *)
(* a plain file argument; a directory name that is a prefix of a sibling    *)
(* file name continued by a byte below '/' (a  next to  a-b); upper/lower   *)
(* case siblings; several top-level entries given one by one.               *)
EXTENDS Geometry, Json
CONSTANTS MaxTreeFiles

VARIABLE tc
tvars2 == <<vars, tc>>

\* component ids = positions in the driver's name table (byte order):
\* 1 "0", 2 "B", 3 "Sub", 4 "a", 5 "a-b", 6 "a.d", 7 "b", 8 "c.txt", 9 "deep", 10 "sub", 11 "z.d"
Dirs  == {<<>>, <<10>>, <<10, 9>>, <<4>>, <<3>>}
Names == {1, 4, 5, 7}
Paths == {d \o <<n>> : d \in Dirs, n \in Names}

Trees == UNION {{t \in [1 .. n -> Paths] : /\ ValidTree(t)
                                           /\ \A k \in 1 .. (n - 1) : PathLess(t[k + 1], t[k])}
                  : n \in 1 .. MaxTreeFiles}
Kinds == {"file", "dir", "paths"}
Cases == {[tree |-> t, kind |-> k, order |-> WalkOrder(t)] : t \in Trees, k \in {k \in Kinds : TRUE}}

TreeInit == /\ InitWith(Prep([files |-> <<<<1, 0>>>>, pl |-> 1, unit |-> 1]))
            /\ tc \in {c \in Cases : KindOK(c.kind, c.tree)}
            /\ PrintT("@@" \o ToJson(tc))
TreeSpec == TreeInit /\ [][UNCHANGED tvars2]_tvars2

ThmTree == ValidTree(tc.tree) /\ ThmWalk(tc.tree) /\ KindOK(tc.kind, tc.tree)
\* vacuity guards: the classes named above do occur (checked as a property of the whole case set)
ClassesOccur ==
    /\ \E c \in Cases : c.kind = "dir" /\ Len(c.tree) = 1 /\ Len(c.tree[1]) = 1     \* dir/only
    /\ (MaxTreeFiles >= 1) => \E c \in Cases : c.kind = "dir" /\ Len(c.tree) = 1 /\ Len(c.tree[1]) = 3   \* dir/sub/deep/only
    /\ \E c \in Cases : c.kind = "file"
    /\ (MaxTreeFiles >= 2) => \E c \in Cases : c.kind = "paths" /\ KindOK("paths", c.tree)
    \* component order differs from joined-string order: a/x next to a-b
    /\ (MaxTreeFiles >= 2) => \E c \in Cases : \E j, k \in 1 .. Len(c.tree) :
            Len(c.tree[j]) = 2 /\ c.tree[j][1] = 4 /\ c.tree[k] = <<5>>
ASSUME ClassesOccur
=============================================================================
