---------------------------- MODULE ResumeMulti ----------------------------
(***************************************************************************)
(* Crash-consistent resume (property C05) for SEVERAL torrents in one      *)
(* session: all of them share one database and one periodic writer         *)
(* (session_stats.go updateStats: ONE transaction that stores the          *)
(* in-memory bitfield of EVERY torrent), besides the writers of single     *)
(* records (writeBitfield on stop / completion / after verification).      *)
(*                                                                         *)
(* Each torrent is the image of one instance of Resume.tla under the       *)
(* abstraction  good[t] = {p : disk[p] = "good"},  mem[t] = memBit,        *)
(* db[t] = dbBit  (file sections, write faults, allocation and file        *)
(* deletion are the business of Resume.tla; here a piece write is one      *)
(* durable step).  What this module adds is the PAIRING of bitfields with  *)
(* records inside the shared transaction:                                  *)
(*   PAIRING = "byid"   every record receives the bitfield of its own      *)
(*                      torrent (the code);                                *)
(*   PAIRING = "bypos"  bitfields are collected in one pass over the       *)
(*                      torrent map and stored in a second pass, paired by *)
(*                      position - the two passes may enumerate the map in *)
(*                      different orders (a design that is EXPECTED to     *)
(*                      fail: sensitivity of the obligation).              *)
(* Obligations (per torrent, as in Resume.tla):                            *)
(*   C05.db     db[t] \subseteq good[t]  at every instant (= after a crash *)
(*              at every instant: a crash changes neither db nor good,     *)
(*              apart from the open transaction applied wholly or not)     *)
(*   C05.ahead  mem[t] \subseteq good[t] while the session is up           *)
(***************************************************************************)
EXTENDS Integers, FiniteSets, TLC

CONSTANTS NT, NPIECE, PAIRING

Tor   == 1 .. NT
Piece == 0 .. (NPIECE - 1)
NoWrite == {-1}                 \* "this transaction does not touch the record"

VARIABLES up,     \* the process runs
          good,   \* [Tor -> SUBSET Piece]  durable complete content
          mem,    \* [Tor -> SUBSET Piece]  in-memory bitfields
          db,     \* [Tor -> SUBSET Piece]  durable resume bitfields
          txn     \* [active, vals : Tor -> SUBSET Piece \cup {NoWrite}]

vars == <<up, good, mem, db, txn>>
NoTxn == [active |-> FALSE, vals |-> [t \in Tor |-> NoWrite]]
Perms == {f \in [Tor -> Tor] : \A a, b \in Tor : f[a] = f[b] => a = b}

Init ==
    /\ up = FALSE /\ good = [t \in Tor |-> {}] /\ mem = [t \in Tor |-> {}] /\ db = [t \in Tor |-> {}] /\ txn = NoTxn

Restart ==        \* every record is loaded (Restart .. AllocDone of Resume: all files exist, the bits are trusted)
    /\ ~up /\ up' = TRUE /\ mem' = db /\ UNCHANGED <<good, db, txn>>

Write(t, p) ==    \* WriteBegin .. WriteEnd of Resume without a fault: the content is durable when the write returns
    /\ up /\ p \notin mem[t]
    /\ good' = [good EXCEPT ![t] = good[t] \cup {p}] /\ UNCHANGED <<up, mem, db, txn>>

SetBit(t, p) ==   \* handlePieceWriteDone (after the write returned) / the verifier found the piece in the files
    /\ up /\ p \in good[t] /\ p \notin mem[t]
    /\ mem' = [mem EXCEPT ![t] = mem[t] \cup {p}] /\ UNCHANGED <<up, good, db, txn>>

PeriodicBegin ==  \* updateStats: the bitfield of every torrent goes into one transaction
    /\ up /\ ~txn.active
    /\ \E f \in (IF PAIRING = "byid" THEN {[t \in Tor |-> t]} ELSE Perms) :
          txn' = [active |-> TRUE, vals |-> [t \in Tor |-> mem[f[t]]]]
    /\ UNCHANGED <<up, good, mem, db>>

SingleBegin(t) == \* writeBitfield of one torrent (stop, completion, verification done)
    /\ up /\ ~txn.active
    /\ txn' = [active |-> TRUE, vals |-> [u \in Tor |-> IF u = t THEN mem[t] ELSE NoWrite]]
    /\ UNCHANGED <<up, good, mem, db>>

Apply(d, v) == [t \in Tor |-> IF v[t] = NoWrite THEN d[t] ELSE v[t]]

Commit ==
    /\ txn.active /\ db' = Apply(db, txn.vals) /\ txn' = NoTxn /\ UNCHANGED <<up, good, mem>>

Crash ==          \* at any instant; an open transaction is applied wholly or not at all
    /\ up /\ up' = FALSE /\ mem' = [t \in Tor |-> {}] /\ txn' = NoTxn
    /\ \/ UNCHANGED db
       \/ txn.active /\ db' = Apply(db, txn.vals)
    /\ UNCHANGED good

Next ==
    \/ Restart \/ PeriodicBegin \/ Commit \/ Crash
    \/ \E t \in Tor : SingleBegin(t) \/ \E p \in Piece : Write(t, p) \/ SetBit(t, p)

Spec == Init /\ [][Next]_vars

\* @obligation C05.db (per torrent of a session)
InvDb    == \A t \in Tor : db[t] \subseteq good[t]
\* @obligation C05.ahead (per torrent of a session)
InvTrust == up => \A t \in Tor : mem[t] \subseteq good[t]
\* the open transaction never carries more than the disk holds either (it may be applied by a crash)
InvTxn   == txn.active => \A t \in Tor : txn.vals[t] = NoWrite \/ txn.vals[t] \subseteq good[t]
TypeOK   == up \in BOOLEAN /\ good \in [Tor -> SUBSET Piece] /\ mem \in [Tor -> SUBSET Piece] /\ db \in [Tor -> SUBSET Piece]
Inv      == TypeOK /\ InvDb /\ InvTrust /\ InvTxn
=============================================================================
