SPECIFICATION MCSpec
CONSTANTS
  NT = 2
  NM = 1
  UDP = TRUE
  CMIN = 2
  BO = 3
  IVALS <- IvOne
  ASIS = {"connid0"}
  CIDS = {0, 7}
  ENV = {"expire", "stop"}
INVARIANT NoViolation
INVARIANT NoParked
PROPERTY Live
CHECK_DEADLOCK FALSE
