SPECIFICATION MCSpec
CONSTANTS
  NT = 1
  NM = 1
  UDP = FALSE
  CMIN = 2
  BO = 3
  IVALS <- IvOne
  ASIS = {"recomplete"}
  CIDS = {0}
  ENV = {"complete", "flip", "stop"}
INVARIANT Inv
PROPERTY Live
CHECK_DEADLOCK FALSE
