SPECIFICATION MCSpec
CONSTANTS
  NP = 2
  PLEN <- PLEN_53
  MAXBLK = 3
  MAXQ = 2
  CB = 3
  NCONN = 1
  IMPL = "loop"
  HAVE0 = {0}
  REQS <- REQS_G
  CANS <- NONE
  AFP = {1}
  NSEND = 2
  NFLIP = 1
  NOPEN = 1
  AFSEND = "held"
  GROW = TRUE
INVARIANT NoBad
INVARIANT QueueBound
INVARIANT QueuedValid
INVARIANT ChokedQueue
INVARIANT CacheTruth
INVARIANT ViewSound
CHECK_DEADLOCK FALSE
