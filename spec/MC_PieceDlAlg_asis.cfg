SPECIFICATION ASpec
CONSTANTS
  SECS <- Secs_plain4
  BS = 2
  QLENS = {1, 2, 3}
  FAST = FALSE
  AF = FALSE
  REJ = "none"
  UNREQ = TRUE
  ENDS = TRUE
  VARIANT = "asis"
  IGNORE = {}
INVARIANT AInvConf
VIEW AView
CHECK_DEADLOCK FALSE
CONSTRAINT Alive
