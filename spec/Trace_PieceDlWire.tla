------------------------- MODULE Trace_PieceDlWire -------------------------
(***************************************************************************)
(* Trace specification of the END-TO-END family of X04: the messages of    *)
(* one connection between a real torrent.Session (leeching) and the        *)
(* scripted peer of harness/x04/e2e.go, as the peer saw them.  The peer    *)
(* sends one stimulus at a time (txpiece / txreject / txchoke / txunchoke) *)
(* and then waits for a barrier echo ("bar"): at a barrier it has received *)
(* everything the session sent in reaction, so the history is in the       *)
(* session's own processing order and the envelope of PieceDl.tla applies  *)
(* message by message:                                                     *)
(*   rxreq     one request message: X04.a (queue length), X04.b (block of  *)
(*             the piece, not stored), X04.c (not outstanding already),    *)
(*             X04.f.choked (none while the peer chokes, except for an     *)
(*             allowed-fast download)                                      *)
(*   bar       after a stimulus that makes the loop call RequestBlocks     *)
(*             (start of a download, block stored, unchoke): X04.g.fill /  *)
(*             X04.g.stuck on the requests received up to the barrier      *)
(*   rxcancel  only for an outstanding request (X04.c.cancel); cancelbar   *)
(*             (the piece was completed by a second peer): nothing is left *)
(*             outstanding (X04.c.cancel)                                  *)
(*   end       after an honest finishing phase: the offered pieces are     *)
(*             complete (X04.g.live); Stats().Bytes: downloaded = all      *)
(*             piece payload sent, wasted = payload that was not stored    *)
(*             (X04.d.bytes)                                               *)
(* One trace per piece download ("Init", first = new scenario); a scenario *)
(* is judged up to its first violation.                                    *)
(***************************************************************************)
EXTENDS PieceDl, Json

VARIABLES l, dead, due, q, sent, stored
tvars == <<vars, l, dead, due, q, sent, stored>>

Trace == ndJsonDeserialize("trace.ndjson")
Ev == Trace[l]

CfgOf(e) == [idx |-> e.idx, bs |-> e.bs, secs |-> e.secs, fast |-> e.fast, af |-> e.af]
Note(S) == \A t \in S : PrintT("@@VIOL " \o t \o " " \o ToString(l))
TableViols(e) ==
    LET bt == MkCfg(CfgOf(e)).bt IN
    Tag(~(Len(bt) = Len(e.bt) /\ \A x \in 1 .. Len(bt) : bt[x].b = e.bt[x][1] /\ bt[x].n = e.bt[x][2]), "X04.machinery.table")

TraceInit ==
    /\ l = 2
    /\ Trace[1].op = "Init"
    /\ InitWith(CfgOf(Trace[1]), Trace[1].chokd)
    /\ Note(TableViols(Trace[1]))
    /\ dead = FALSE /\ due = TRUE /\ q = Trace[1].q /\ sent = 0 /\ stored = 0
    /\ TLCSet(1, 1)

Judge(S) == Note(S) /\ dead' = (dead \/ S # {}) /\ l' = l + 1
Msg1 == << [i |-> Ev.i, b |-> Ev.b, n |-> Ev.n] >>
Mine == open /\ Ev.i = cfg.idx

\* a new piece download (first = a new scenario: everything is reset)
TrReset ==
    /\ Ev.op = "Init" /\ ResetWith(CfgOf(Ev), Ev.chokd) /\ Note(TableViols(Ev))
    /\ l' = l + 1 /\ due' = TRUE /\ q' = Ev.q
    /\ dead' = (IF Ev.first THEN FALSE ELSE dead)
    /\ sent' = (IF Ev.first THEN 0 ELSE sent) /\ stored' = (IF Ev.first THEN 0 ELSE stored)

\* a judged-out scenario: only the byte counters go on
TrSkip ==
    /\ dead /\ Ev.op # "Init" /\ l' = l + 1
    /\ UNCHANGED <<vars, dead, due, q, sent, stored>>

TrRxReq ==
    /\ ~dead /\ Ev.op = "rxreq"
    /\ Judge((RequestViols(q, Msg1) \ {"X04.g.fill", "X04.g.stuck"})
             \cup Tag(chokd /\ ~cfg.af, "X04.f.choked")
             \cup Tag(~open, "X04.b.closed"))
    /\ RequestUpdate(Msg1) /\ UNCHANGED <<due, q, sent, stored>>

TrRxCancel ==
    /\ ~dead /\ Ev.op = "rxcancel"
    /\ LET id == IF Ev.i = cfg.idx THEN IdOf(Ev.b, Ev.n) ELSE 0 IN
       /\ Judge(Tag(id = 0 \/ out[id] = 0, "X04.c.cancel"))
       /\ out' = Answered(out, id)
    /\ UNCHANGED <<cfg, have, store, chokd, snub, open, due, q, sent, stored>>

TrTxPiece ==
    /\ ~dead /\ Ev.op = "txpiece" /\ Judge({})
    /\ sent' = sent + Ev.n
    /\ IF Mine
       THEN /\ BlockUpdate(Ev.b, Ev.n, 1)
            /\ open' = ~AllStored(HaveAfter(Ev.b, Ev.n))
            /\ stored' = stored + (IF Accepted(IdOf(Ev.b, Ev.n)) THEN Ev.n ELSE 0)
            /\ due' = (Accepted(IdOf(Ev.b, Ev.n)) /\ ~AllStored(HaveAfter(Ev.b, Ev.n)) /\ (cfg.af \/ ~chokd))
       ELSE UNCHANGED <<vars, stored, due>>
    /\ UNCHANGED q

TrTxReject ==
    /\ ~dead /\ Ev.op = "txreject" /\ Judge({})
    /\ IF Mine THEN RejectUpdate(Ev.b, Ev.n) ELSE UNCHANGED vars
    /\ UNCHANGED <<due, q, sent, stored>>

TrTxChoke ==
    /\ ~dead /\ Ev.op = "txchoke" /\ Judge({})
    /\ IF open THEN Choke ELSE chokd' = TRUE /\ UNCHANGED <<cfg, out, have, store, snub, open>>
    /\ UNCHANGED <<due, q, sent, stored>>

TrTxUnchoke ==
    /\ ~dead /\ Ev.op = "txunchoke" /\ Judge({})
    /\ chokd' = FALSE /\ UNCHANGED <<cfg, out, have, store, snub, open>>
    /\ due' = (open /\ ~cfg.af) /\ UNCHANGED <<q, sent, stored>>

TrBar ==
    /\ ~dead /\ Ev.op = "bar"
    /\ Judge(IF due /\ open /\ (cfg.af \/ ~chokd)
             THEN RequestViols(q, <<>>) \cap {"X04.g.fill", "X04.g.stuck"} ELSE {})
    /\ due' = FALSE /\ UNCHANGED <<vars, q, sent, stored>>

\* the piece was completed by another peer: every outstanding request has been cancelled, the download is closed
TrCancelBar ==
    /\ ~dead /\ Ev.op = "cancelbar"
    /\ Judge(Tag(open /\ Total(out) > 0, "X04.c.cancel"))
    /\ IF open THEN CloseUpdate ELSE UNCHANGED vars
    /\ UNCHANGED <<due, q, sent, stored>>

TrClosed == ~dead /\ Ev.op = "closed" /\ Judge({}) /\ UNCHANGED <<vars, due, q, sent, stored>>

TrEnd ==
    /\ ~dead /\ Ev.op = "end"
    /\ Judge(Tag(~Ev.complete, "X04.g.live")
             \cup Tag(Ev.complete /\ Ev.good # Ev.offered, "X04.e.content")
             \cup Tag(~Ev.closed /\ Ev.single /\ (Ev.downloaded # sent \/ Ev.wasted # sent - stored), "X04.d.bytes"))
    /\ UNCHANGED <<vars, due, q, sent, stored>>

TraceNext ==
    /\ l <= Len(Trace)
    /\ \/ TrReset \/ TrSkip \/ TrRxReq \/ TrRxCancel \/ TrTxPiece \/ TrTxReject \/ TrTxChoke \/ TrTxUnchoke
       \/ TrBar \/ TrCancelBar \/ TrClosed \/ TrEnd

TraceSpec == TraceInit /\ [][TraceNext]_tvars

HighWater == TLCSet(1, IF l > TLCGet(1) THEN l ELSE TLCGet(1))
TraceAccepted ==
    LET hw == TLCGet(1) IN
    IF hw = Len(Trace) + 1 THEN TRUE
    ELSE /\ PrintT("@@REJECT " \o ToString(hw - 1) \o " " \o ToString(Len(Trace)))
         /\ FALSE
=============================================================================
