SPECIFICATION MCSpec
CONSTANTS
  U = 2
  RANGE = {1, 2}
  FIX = {}
  MAXF = 1
  FAULTS = {"tadd"}
  BINITS = {"empty"}
  RUNS = {FALSE}
  DIRTYS = {FALSE}
  DSTS = {"B"}
  FINAL = FALSE
INVARIANT TypeOK
INVARIANT SessionInvariants
CHECK_DEADLOCK FALSE
