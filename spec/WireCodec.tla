----------------------------- MODULE WireCodec -----------------------------
(***************************************************************************)
(* Independent reference codec of the BitTorrent peer wire protocol        *)
(* (BEP 3 core messages, BEP 6 fast extension, BEP 10 extension protocol,  *)
(* BEP 9 ut_metadata, BEP 11 ut_pex), written from the BEPs and not from   *)
(* the Go code.  Pure operators only (no variables):                       *)
(*                                                                         *)
(*   Heads(m)      set of admissible encodings of everything that precedes *)
(*                 the opaque payload of message m (4-byte big-endian      *)
(*                 length, id, fixed fields, bencoded dictionary).  More   *)
(*                 than one element only for extension dictionaries, where *)
(*                 a key whose value is the default (0 / empty) may be     *)
(*                 present or absent -- both are the same message.         *)
(*   Encode(m)     canonical element: Head with defaults omitted \o payload*)
(*   DecodeFrame   inverse of the above for one frame                      *)
(*   Feed / Drain  the reader: consumes an arbitrary fragmentation         *)
(*                                                                         *)
(* Numbers.  TLC integers are 32-bit, protocol fields are unsigned 32-bit  *)
(* and bencoded integers are unbounded, so every such value is carried as  *)
(* a sequence of base-65536 limbs, most significant first (u32 = exactly   *)
(* two limbs <<hi, lo>>; bencoded integers = normalised, 0 = <<>>).        *)
(* Frame lengths, string lengths, ports, ids are plain integers.           *)
(*                                                                         *)
(* Payload abstraction.  Piece blocks, bitfield bits and metadata pieces   *)
(* are a verbatim SUFFIX of their frame; Heads(m) depends on the payload   *)
(* only through its length PLen(m).  A message is either concrete (field   *)
(* `payload` \in Seq(Byte), used by the exhaustive configs) or abstract    *)
(* (fields plen, psha, pfirst, plast = length, SHA-1, first/last <= 8      *)
(* bytes; used by traces).  wire = Encode(m) iff                           *)
(*      wire[1 .. n-plen] \in Heads(m)  /\  wire[n-plen+1 .. n] = payload  *)
(* and the second conjunct is established by (length, SHA-1) equality plus *)
(* a literal comparison of the boundary bytes (sound up to SHA-1           *)
(* collisions; the split point n-plen is arithmetic, not protocol          *)
(* knowledge of the driver).                                               *)
(***************************************************************************)
EXTENDS Integers, Sequences, FiniteSets, SequencesExt, TLC

Byte == 0 .. 255

\* big-endian, k bytes, plain integer n (n < 2^31)
BE(n, k) == [i \in 1 .. k |-> (n \div (256 ^ (k - i))) % 256]
U16(n)   == BE(n, 2)
U32I(n)  == BE(n, 4)
\* u32 given as two limbs
U32(l)   == BE(l[1], 2) \o BE(l[2], 2)
U32Limbs(b) == << b[1] * 256 + b[2], b[3] * 256 + b[4] >>
U32IVal(b)  == ((b[1] * 256 + b[2]) * 256 + b[3]) * 256 + b[4]      \* only used when b[1] < 128

-----------------------------------------------------------------------------
(* limb arithmetic                                                          *)
RECURSIVE Norm(_)
Norm(n) == IF n = <<>> THEN <<>> ELSE IF n[1] = 0 THEN Norm(Tail(n)) ELSE n

RECURSIVE DMx(_, _, _, _, _)
DMx(n, i, d, r, acc) ==
    IF i > Len(n) THEN [q |-> acc, r |-> r]
    ELSE LET t == r * 65536 + n[i] IN DMx(n, i + 1, d, t % d, Append(acc, t \div d))
DivMod(n, d) == DMx(n, 1, d, 0, <<>>)                 \* d <= 10

RECURSIVE MAx(_, _, _, _)
MAx(n, i, m, c) ==
    IF i = 0 THEN (IF c = 0 THEN <<>> ELSE <<c>>)
    ELSE LET t == n[i] * m + c IN MAx(n, i - 1, m, t \div 65536) \o << t % 65536 >>
MulAdd(n, m, a) == MAx(n, Len(n), m, a)               \* n*m + a, m <= 10, a <= 9

-----------------------------------------------------------------------------
(* bencode encoder (BEP 3): ints, byte strings, dictionaries with keys in   *)
(* strictly increasing bytewise order                                       *)
RECURSIVE DecStrI(_)
DecStrI(n) == IF n < 10 THEN << 48 + n >> ELSE DecStrI(n \div 10) \o << 48 + (n % 10) >>

RECURSIVE DecStrL(_)
DecStrL(n) ==                                          \* n normalised, non-empty
    LET dm == DivMod(n, 10)
        q  == Norm(dm.q)
    IN  (IF q = <<>> THEN <<>> ELSE DecStrL(q)) \o << 48 + dm.r >>
DecStr(n) == IF Norm(n) = <<>> THEN <<48>> ELSE DecStrL(Norm(n))

BInt(n)  == <<105>> \o DecStr(n) \o <<101>>            \* i<decimal>e   (limbs, non-negative)
BIntI(n) == <<105>> \o DecStrI(n) \o <<101>>           \* plain non-negative integer
BStr(s)  == DecStrI(Len(s)) \o <<58>> \o s             \* <len>:<bytes>

LexLess(a, b) ==
    \E i \in 1 .. (IF Len(a) < Len(b) THEN Len(a) ELSE Len(b)) + 1 :
        /\ \A j \in 1 .. (i - 1) : a[j] = b[j]
        /\ \/ i > Len(a) /\ i <= Len(b)
           \/ i <= Len(a) /\ i <= Len(b) /\ a[i] < b[i]

RECURSIVE Cat(_)
Cat(ss) == IF ss = <<>> THEN <<>> ELSE Head(ss) \o Cat(Tail(ss))

\* fs: sequence of [key, enc, def]; sorted here, so the caller cannot get the order wrong
SortedFields(fs) == SortSeq(fs, LAMBDA a, b : LexLess(a.key, b.key))
BDictOf(fs) == <<100>> \o Cat([i \in 1 .. Len(fs) |-> BStr(fs[i].key) \o fs[i].enc]) \o <<101>>
\* dictionary without the default-valued keys listed in omit
DictOmit(fs, omit) == BDictOf(SelectSeq(SortedFields(fs), LAMBDA f : ~(f.def /\ f.key \in omit)))
Omittable(fs) == {fs[i].key : i \in {j \in 1 .. Len(fs) : fs[j].def}}

K_m             == <<109>>
K_v             == <<118>>
K_yourip        == <<121, 111, 117, 114, 105, 112>>
K_metadata_size == <<109, 101, 116, 97, 100, 97, 116, 97, 95, 115, 105, 122, 101>>
K_reqq          == <<114, 101, 113, 113>>
K_msg_type      == <<109, 115, 103, 95, 116, 121, 112, 101>>
K_piece         == <<112, 105, 101, 99, 101>>
K_total_size    == <<116, 111, 116, 97, 108, 95, 115, 105, 122, 101>>
K_added         == <<97, 100, 100, 101, 100>>
K_dropped       == <<100, 114, 111, 112, 112, 101, 100>>
K_ut_metadata   == <<117, 116, 95, 109, 101, 116, 97, 100, 97, 116, 97>>
K_ut_pex        == <<117, 116, 95, 112, 101, 120>>
Pstr            == <<66, 105, 116, 84, 111, 114, 114, 101, 110, 116, 32, 112, 114, 111, 116, 111, 99, 111, 108>>

-----------------------------------------------------------------------------
(* messages                                                                 *)
EmptyKinds == {"choke", "unchoke", "interested", "not_interested", "have_all", "have_none"}
IndexKinds == {"have", "suggest", "allowed_fast"}
ReqKinds   == {"request", "cancel", "reject"}
ExtKinds   == {"ext_handshake", "ext_metadata", "ext_pex"}
PayloadKinds == {"piece", "bitfield", "ext_metadata", "unknown"}

Id(k) == CASE k = "choke" -> 0 [] k = "unchoke" -> 1 [] k = "interested" -> 2 [] k = "not_interested" -> 3
           [] k = "have" -> 4 [] k = "bitfield" -> 5 [] k = "request" -> 6 [] k = "piece" -> 7
           [] k = "cancel" -> 8 [] k = "port" -> 9
           [] k = "suggest" -> 13 [] k = "have_all" -> 14 [] k = "have_none" -> 15      \* BEP 6
           [] k = "reject" -> 16 [] k = "allowed_fast" -> 17
           [] k \in ExtKinds -> 20                                                      \* BEP 10

Payload(m) == IF "payload" \in DOMAIN m THEN m.payload ELSE <<>>
PLen(m)    == IF "plen" \in DOMAIN m THEN m.plen
              ELSE IF "payload" \in DOMAIN m THEN Len(m.payload) ELSE 0

\* the "m" dictionary of the extension handshake: set of <<name, id>>
MDict(s) == LET q == SetToSortSeq(s, LAMBDA a, b : LexLess(a[1], b[1]))
            IN  <<100>> \o Cat([i \in 1 .. Len(q) |-> BStr(q[i][1]) \o BIntI(q[i][2])]) \o <<101>>

ExtFields(m) ==
    CASE m.k = "ext_handshake" ->
           << [key |-> K_m, enc |-> MDict(m.m), def |-> m.m = {}],
              [key |-> K_v, enc |-> BStr(m.v), def |-> m.v = <<>>],
              [key |-> K_yourip, enc |-> BStr(m.yourip), def |-> m.yourip = <<>>],
              [key |-> K_metadata_size, enc |-> BInt(m.metadata_size), def |-> Norm(m.metadata_size) = <<>>],
              [key |-> K_reqq, enc |-> BInt(m.reqq), def |-> Norm(m.reqq) = <<>>] >>
      [] m.k = "ext_metadata" ->                          \* BEP 9: msg_type and piece are mandatory
           << [key |-> K_msg_type, enc |-> BIntI(m.msg_type), def |-> FALSE],
              [key |-> K_piece, enc |-> BInt(m.piece), def |-> FALSE],
              [key |-> K_total_size, enc |-> BInt(m.total_size), def |-> Norm(m.total_size) = <<>>] >>
      [] m.k = "ext_pex" ->
           << [key |-> K_added, enc |-> BStr(m.added), def |-> m.added = <<>>],
              [key |-> K_dropped, enc |-> BStr(m.dropped), def |-> m.dropped = <<>>] >>

\* body between the id byte and the payload; omit = default-valued dictionary keys left out
Body(m, omit) ==
    CASE m.k \in EmptyKinds -> <<>>
      [] m.k \in IndexKinds -> U32(m.index)
      [] m.k \in ReqKinds   -> U32(m.index) \o U32(m.begin) \o U32(m.length)
      [] m.k = "piece"      -> U32(m.index) \o U32(m.begin)
      [] m.k = "bitfield"   -> <<>>
      [] m.k = "port"       -> U16(m.port)
      [] m.k \in ExtKinds   -> <<m.extid>> \o DictOmit(ExtFields(m), omit)

HeadWith(m, omit) ==
    CASE m.k = "keepalive" -> <<0, 0, 0, 0>>
      [] m.k = "handshake" -> <<19>> \o Pstr \o m.reserved \o m.ih \o m.pid
      [] m.k = "unknown"   -> U32I(1 + PLen(m)) \o <<m.id>>
      [] OTHER -> LET b == Body(m, omit) IN U32I(1 + Len(b) + PLen(m)) \o <<Id(m.k)>> \o b

OmitSets(m) == IF m.k \in ExtKinds THEN SUBSET Omittable(ExtFields(m)) ELSE {{}}
Heads(m)    == {HeadWith(m, s) : s \in OmitSets(m)}
HeadCanon(m) == HeadWith(m, IF m.k \in ExtKinds THEN Omittable(ExtFields(m)) ELSE {})
Encode(m)    == HeadCanon(m) \o Payload(m)
Encodings(m) == {h \o Payload(m) : h \in Heads(m)}

-----------------------------------------------------------------------------
(* bencode decoder                                                          *)
IsDigit(b) == b >= 48 /\ b <= 57
PErr == [t |-> "err", v |-> <<>>, j |-> 0]

\* decimal digits from i: value as limbs, j = first non-digit position
RECURSIVE PNumL(_, _, _)
PNumL(s, i, acc) == IF i <= Len(s) /\ IsDigit(s[i]) THEN PNumL(s, i + 1, MulAdd(acc, 10, s[i] - 48))
                    ELSE [v |-> acc, j |-> i]
\* decimal digits from i as a plain integer, saturating above Len(s) (no overflow)
RECURSIVE PNumI(_, _, _)
PNumI(s, i, acc) == IF i <= Len(s) /\ IsDigit(s[i])
                    THEN PNumI(s, i + 1, IF acc > Len(s) THEN acc ELSE acc * 10 + (s[i] - 48))
                    ELSE [v |-> acc, j |-> i]

RECURSIVE PVal(_, _), PItems(_, _, _)
PVal(s, i) ==
    IF i > Len(s) THEN PErr
    ELSE IF s[i] = 105 THEN                                  \* 'i'
        LET r == PNumL(s, i + 1, <<>>)
        IN  IF r.j > i + 1 /\ r.j <= Len(s) /\ s[r.j] = 101
               /\ (r.j - (i + 1) = 1 \/ s[i + 1] # 48)       \* no leading zeros
            THEN [t |-> "i", v |-> r.v, j |-> r.j + 1] ELSE PErr
    ELSE IF IsDigit(s[i]) THEN
        LET r == PNumI(s, i, 0)
        IN  IF r.j <= Len(s) /\ s[r.j] = 58 /\ r.j + r.v <= Len(s)
            THEN [t |-> "s", v |-> SubSeq(s, r.j + 1, r.j + r.v), j |-> r.j + r.v + 1] ELSE PErr
    ELSE IF s[i] = 100 THEN PItems(s, i + 1, <<>>)           \* 'd'
    ELSE PErr
PItems(s, i, acc) ==
    IF i > Len(s) THEN PErr
    ELSE IF s[i] = 101 THEN [t |-> "d", v |-> acc, j |-> i + 1]
    ELSE LET k == PVal(s, i)
         IN  IF k.t # "s" THEN PErr
             ELSE LET x == PVal(s, k.j)
                  IN  IF x.t = "err" THEN PErr
                      ELSE PItems(s, x.j, Append(acc, [key |-> k.v, val |-> x]))

Has(d, key)  == \E i \in 1 .. Len(d) : d[i].key = key
Get(d, key)  == d[CHOOSE i \in 1 .. Len(d) : d[i].key = key].val
IntOr0(d, key) == IF Has(d, key) /\ Get(d, key).t = "i" THEN Get(d, key).v ELSE <<>>
StrOrE(d, key) == IF Has(d, key) /\ Get(d, key).t = "s" THEN Get(d, key).v ELSE <<>>
SmallInt(l)  == IF l = <<>> THEN 0 ELSE IF Len(l) = 1 THEN l[1] ELSE -1

Invalid == [k |-> "invalid"]

\* extension ids of OUR side (the ones announced in our handshake): 0 handshake, 1 ut_metadata, 2 ut_pex
DecodeExt(body) ==
    IF Len(body) < 1 THEN Invalid
    ELSE LET d == PVal(body, 2) IN
         IF d.t # "d" THEN Invalid
         ELSE IF body[1] = 0 THEN
                  LET md == IF Has(d.v, K_m) /\ Get(d.v, K_m).t = "d" THEN Get(d.v, K_m).v ELSE <<>>
                  IN  [k |-> "ext_handshake", extid |-> 0,
                       m |-> {<<md[i].key, SmallInt(md[i].val.v)>> : i \in 1 .. Len(md)},
                       v |-> StrOrE(d.v, K_v), yourip |-> StrOrE(d.v, K_yourip),
                       metadata_size |-> IntOr0(d.v, K_metadata_size), reqq |-> IntOr0(d.v, K_reqq)]
         ELSE IF body[1] = 1 THEN
                  [k |-> "ext_metadata", extid |-> 1, msg_type |-> SmallInt(IntOr0(d.v, K_msg_type)),
                   piece |-> IntOr0(d.v, K_piece), total_size |-> IntOr0(d.v, K_total_size),
                   payload |-> SubSeq(body, d.j, Len(body))]
         ELSE IF body[1] = 2 THEN
                  [k |-> "ext_pex", extid |-> 2, added |-> StrOrE(d.v, K_added), dropped |-> StrOrE(d.v, K_dropped)]
         ELSE Invalid

KindOfId(id) == CASE id = 0 -> "choke" [] id = 1 -> "unchoke" [] id = 2 -> "interested" [] id = 3 -> "not_interested"
                  [] id = 4 -> "have" [] id = 5 -> "bitfield" [] id = 6 -> "request" [] id = 7 -> "piece"
                  [] id = 8 -> "cancel" [] id = 9 -> "port" [] id = 13 -> "suggest" [] id = 14 -> "have_all"
                  [] id = 15 -> "have_none" [] id = 16 -> "reject" [] id = 17 -> "allowed_fast"
                  [] id = 20 -> "ext" [] OTHER -> "unknown"

DecodeFrame(id, body) ==
    LET k == KindOfId(id) IN
    CASE k \in EmptyKinds -> IF body = <<>> THEN [k |-> k] ELSE Invalid
      [] k \in IndexKinds -> IF Len(body) = 4 THEN [k |-> k, index |-> U32Limbs(body)] ELSE Invalid
      [] k \in ReqKinds   -> IF Len(body) = 12
                             THEN [k |-> k, index |-> U32Limbs(SubSeq(body, 1, 4)), begin |-> U32Limbs(SubSeq(body, 5, 8)),
                                   length |-> U32Limbs(SubSeq(body, 9, 12))]
                             ELSE Invalid
      [] k = "piece"      -> IF Len(body) >= 8
                             THEN [k |-> k, index |-> U32Limbs(SubSeq(body, 1, 4)), begin |-> U32Limbs(SubSeq(body, 5, 8)),
                                   payload |-> SubSeq(body, 9, Len(body))]
                             ELSE Invalid
      [] k = "bitfield"   -> [k |-> k, payload |-> body]
      [] k = "port"       -> IF Len(body) = 2 THEN [k |-> k, port |-> body[1] * 256 + body[2]] ELSE Invalid
      [] k = "ext"        -> DecodeExt(body)
      [] k = "unknown"    -> [k |-> "unknown", id |-> id, payload |-> body]

DecodeHandshake(b) ==
    IF Len(b) = 68 /\ b[1] = 19 /\ SubSeq(b, 2, 20) = Pstr
    THEN [k |-> "handshake", reserved |-> SubSeq(b, 21, 28), ih |-> SubSeq(b, 29, 48), pid |-> SubSeq(b, 49, 68)]
    ELSE Invalid

-----------------------------------------------------------------------------
(* the reader: bytes arrive in arbitrary fragments                          *)
RdInit(hs) == [phase |-> IF hs THEN "hs" ELSE "msg", buf |-> <<>>, out |-> <<>>, err |-> FALSE]

\* messages that the reader hands on (keep-alives and unknown ids are consumed silently)
Visible(m) == m.k \notin {"keepalive", "unknown"}

RECURSIVE Drain(_)
Drain(rd) ==
    IF rd.err THEN rd
    ELSE IF rd.phase = "hs" THEN
        IF Len(rd.buf) < 68 THEN rd
        ELSE LET h == DecodeHandshake(SubSeq(rd.buf, 1, 68))
             IN  IF h.k = "invalid" THEN [rd EXCEPT !.err = TRUE]
                 ELSE Drain([rd EXCEPT !.phase = "msg", !.buf = SubSeq(rd.buf, 69, Len(rd.buf)), !.out = Append(@, h)])
    ELSE IF Len(rd.buf) < 4 THEN rd
    ELSE IF rd.buf[1] >= 128 THEN [rd EXCEPT !.err = TRUE]          \* length >= 2^31: no such message
    ELSE LET n == U32IVal(rd.buf) IN
         IF n = 0 THEN Drain([rd EXCEPT !.buf = SubSeq(rd.buf, 5, Len(rd.buf))])       \* keep-alive
         ELSE IF Len(rd.buf) < 4 + n THEN rd
         ELSE LET m    == DecodeFrame(rd.buf[5], SubSeq(rd.buf, 6, 4 + n))
                  rest == SubSeq(rd.buf, 5 + n, Len(rd.buf))
              IN  IF m.k = "invalid" THEN [rd EXCEPT !.err = TRUE]
                  ELSE Drain([rd EXCEPT !.buf = rest, !.out = IF Visible(m) THEN Append(@, m) ELSE @])

Feed(rd, chunk) == Drain([rd EXCEPT !.buf = @ \o chunk])

\* one-shot decoder of a complete stream
Decode(hs, bytes) == Feed(RdInit(hs), bytes).out

-----------------------------------------------------------------------------
(* messages as they appear in ndjson traces (abstract payloads) -> records  *)
PFields(e) == [plen |-> e.plen, psha |-> e.psha, pfirst |-> e.pfirst, plast |-> e.plast]
Merge(a, b) == [x \in (DOMAIN a) \cup (DOMAIN b) |-> IF x \in DOMAIN a THEN a[x] ELSE b[x]]

CanonJ(e) ==
    CASE e.k \in EmptyKinds \cup {"keepalive"} -> [k |-> e.k]
      [] e.k \in IndexKinds -> [k |-> e.k, index |-> e.index]
      [] e.k \in ReqKinds   -> [k |-> e.k, index |-> e.index, begin |-> e.begin, length |-> e.length]
      [] e.k = "piece"      -> Merge([k |-> e.k, index |-> e.index, begin |-> e.begin], PFields(e))
      [] e.k = "bitfield"   -> Merge([k |-> e.k], PFields(e))
      [] e.k = "unknown"    -> Merge([k |-> e.k, id |-> e.id], PFields(e))
      [] e.k = "port"       -> [k |-> e.k, port |-> e.port]
      [] e.k = "handshake"  -> [k |-> e.k, reserved |-> e.reserved, ih |-> e.ih, pid |-> e.pid]
      [] e.k = "ext_handshake" ->
            [k |-> e.k, extid |-> e.extid, m |-> {<<e.m[i].key, e.m[i].id>> : i \in 1 .. Len(e.m)},
             v |-> e.v, yourip |-> e.yourip, metadata_size |-> Norm(e.metadata_size), reqq |-> Norm(e.reqq)]
      [] e.k = "ext_metadata" ->
            Merge([k |-> e.k, extid |-> e.extid, msg_type |-> e.msg_type, piece |-> Norm(e.piece),
                   total_size |-> Norm(e.total_size)], PFields(e))
      [] e.k = "ext_pex"    -> [k |-> e.k, extid |-> e.extid, added |-> e.added, dropped |-> e.dropped]

\* the reader does not hand on the extended message id (it is implied by the payload type)
NoExtId(m) == IF "extid" \in DOMAIN m THEN [x \in (DOMAIN m) \ {"extid"} |-> m[x]] ELSE m
=============================================================================
