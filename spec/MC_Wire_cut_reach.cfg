SPECIFICATION MCSpecF
CONSTANTS
  LEVEL = 1
INVARIANT NoCutCredit
CHECK_DEADLOCK FALSE
