SPECIFICATION MCSpec
CONSTANTS
  NP = 3
  NF = 2
  FO <- Geo3x2
  SYNC = TRUE
  WERR = "first"
  DESIGN = "safe"
INVARIANT Inv
CHECK_DEADLOCK FALSE
