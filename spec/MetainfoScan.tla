---------------------------- MODULE MetainfoScan ----------------------------
(***************************************************************************)
(* Property C06, input family "declared string length": design model of    *)
(* the NON-RECURSIVE pre-scan that every untrusted byte string (.torrent   *)
(* file, URL body, resume record, info dictionary from a peer) goes        *)
(* through before the recursive decoder (internal/metainfo/validate.go     *)
(* validateBencode; one action ScanStep per iteration of its loop).        *)
(*                                                                         *)
(* The input is ANY byte string over a small alphabet (container open      *)
(* "d", container close "e", the digits "1" "3" "9", the separator ":" and *)
(* a payload byte "x").  A string token is <digits> ":" <payload>; the     *)
(* declared length is an UNBOUNDED natural number (as many digits as the   *)
(* attacker likes), the machine integer that holds it is not: Mod is the   *)
(* size of the machine word (2^64 in the code, 16 here so that two digits  *)
(* overflow it), IMax the largest length the scanner may take over         *)
(* (2^31-1 in the code).                                                   *)
(*                                                                         *)
(*   RULE = "checked"  the digits are converted with a range check: a      *)
(*                     value above IMax is refused (strconv.ParseUint(..,  *)
(*                     31) in the code)                                    *)
(*   RULE = "wrap"     the digits are accumulated in a machine word that   *)
(*                     silently wraps (the defective design): a value in   *)
(*                     the upper half of the word is a NEGATIVE length,    *)
(*                     passes the bound check and moves the scan position  *)
(*                     backwards - outside the buffer (index error) or     *)
(*                     back onto the same token (endless loop).            *)
(*                                                                         *)
(* Obligations of the property that the design has to meet for every input *)
(* (MC_MetainfoScan.cfg: hold for "checked";  MC_MetainfoScan_wrap.cfg:    *)
(* violated for "wrap" - vacuity guard of the model):                      *)
(*   @obligation C06.crash  the scan position never leaves the buffer      *)
(*   @obligation C06.hang   every step moves the position forward, the     *)
(*                          scan ends within Len(input) steps              *)
(* The real scanner is driven with the same family at full scale by        *)
(* MetainfoGen.tla (StrLenVars: declared lengths 2^31 .. 10^30 at every    *)
(* position of a .torrent) and judged by Trace_Metainfo (C06.crash/hang).  *)
(***************************************************************************)
EXTENDS Integers, Sequences, FiniteSets, TLC
CONSTANTS MaxLen,   \* inputs of length 0 .. MaxLen
          Mod,      \* size of the machine word (a power of two)
          IMax,     \* largest declared length the scanner accepts (< Mod \div 2)
          MaxDepth, \* nesting limit
          RULE      \* "checked" | "wrap"

Alphabet == {"d", "e", "1", "3", "9", ":", "x"}
Digit(c) == c \in {"1", "3", "9"}
Val(c) == IF c = "1" THEN 1 ELSE IF c = "3" THEN 3 ELSE 9
Inputs == UNION {[1 .. k -> Alphabet] : k \in 0 .. MaxLen}

VARIABLES inp,    \* the byte string (chosen once)
          i,      \* scan position, 0-based like the code
          depth,  \* open containers
          pc,     \* "scan" | "ok" | "err" | "crash"
          steps   \* loop iterations so far
svars == <<inp, i, depth, pc, steps>>

L == Len(inp)
At(k) == inp[k + 1]                      \* b[k]

\* position of the first ":" at or after k (L if there is none)
RECURSIVE Colon(_)
Colon(k) == IF k >= L THEN L ELSE IF At(k) = ":" THEN k ELSE Colon(k + 1)
\* true value of the digit run [k, j)  (unbounded)
RECURSIVE Decl(_, _, _)
Decl(k, j, acc) == IF k >= j THEN acc ELSE Decl(k + 1, j, acc * 10 + Val(At(k)))
AllDigits(k, j) == \A m \in k .. (j - 1) : Digit(At(m))
\* the machine word read as a signed integer
Signed(v) == LET w == v % Mod IN IF w >= Mod \div 2 THEN w - Mod ELSE w

Init ==
    /\ inp \in Inputs
    /\ i = 0 /\ depth = 0 /\ pc = "scan" /\ steps = 0

Finish(pc1, i1, d1) ==
    /\ i' = i1 /\ depth' = d1 /\ steps' = steps + 1
    /\ pc' = IF pc1 # "scan" THEN pc1
             ELSE IF i1 < 0 \/ i1 > L THEN "crash"         \* the next b[i] (or b[i:]) is out of range
             ELSE IF d1 = 0 THEN "ok"                      \* first value complete
             ELSE IF i1 = L THEN "err"                     \* unexpected end
             ELSE "scan"
    /\ UNCHANGED inp

ScanStep ==
    /\ pc = "scan"
    /\ IF i >= L THEN Finish("err", i, depth)
       ELSE LET c == At(i) IN
         IF c = "d" THEN (IF depth + 1 > MaxDepth THEN Finish("err", i, depth) ELSE Finish("scan", i + 1, depth + 1))
         ELSE IF c = "e" THEN (IF depth = 0 THEN Finish("err", i, depth) ELSE Finish("scan", i + 1, depth - 1))
         ELSE IF Digit(c) THEN
            LET j == Colon(i) IN
            IF j = L THEN Finish("err", i, depth)
            ELSE IF ~AllDigits(i, j) THEN Finish("err", i, depth)
            ELSE LET v == Decl(i, j, 0)
                     n == IF RULE = "checked" THEN v ELSE Signed(v)
                 IN IF RULE = "checked" /\ v > IMax THEN Finish("err", i, depth)
                    ELSE IF n > L - j - 1 THEN Finish("err", i, depth)
                    ELSE Finish("scan", j + 1 + n, depth)
         ELSE Finish("err", i, depth)

Next == ScanStep \/ (pc # "scan" /\ UNCHANGED svars)
Spec == Init /\ [][Next]_svars

\* @obligation C06.crash
InBuffer == pc # "crash" /\ i \in 0 .. L
\* @obligation C06.hang  (work bounded by the input size: every iteration consumes at least one byte)
Bounded == steps <= L + 1
Progress == [][pc = "scan" /\ pc' = "scan" => i' > i]_svars
Inv == InBuffer /\ Bounded
\* vacuity guards (checked as ASSUMEs of the MC module): some input with an over-long declared length exists in Inputs
=============================================================================
