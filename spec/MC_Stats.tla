------------------------------ MODULE MC_Stats ------------------------------
(***************************************************************************)
(* Exhaustive configurations of Stats.tla (X07).                           *)
(*   MC_Stats_fixed*.cfg        FIX = all repairs            passes        *)
(*        _q1 two peers (end-game), junk, hash failure, late block, crash  *)
(*            between resume writes; _q2 peer + web seed, invalid block,   *)
(*            clean close; (none) everything with one peer + web seed;     *)
(*            _big everything with two peers + web seed; _ul uploads and   *)
(*            stop; _seed time, SeededFor, late ticks                      *)
(*   MC_Stats_asis.cfg          FIX = {} (the code as it is) FAILS with    *)
(*                              tags of PREDICTED (props/x07.py)           *)
(*   MC_Stats_asis_known*.cfg   FIX = {}, IGNORE = PREDICTED passes: the   *)
(*                              code violates nothing else                 *)
(*   MC_Stats_asis*_only_<t>    FIX = {}, IGNORE = PREDICTED minus one tag *)
(*                              FAILS: every predicted tag is reachable    *)
(*   MC_Stats_asis_seed_tol     as is minus the stale tick: the over-count *)
(*                              of SeededFor is <= PERIOD + LATE per cycle *)
(*   MC_Stats_diff*.cfg         FIX = the repairs shipped as fixes/X07-*   *)
(*   MC_Stats_mut_<m>.cfg       FIX = all, MUT = m           FAILS: the    *)
(*                              envelope rejects the mutation              *)
(***************************************************************************)
EXTENDS Stats
Pad01 == <<0, 1>>
Pad00 == <<0, 0>>
AllFix == {"late", "pad", "close", "seed", "tick"}
DiffFix == {"late", "pad", "tick"}               \* fixes/X07-*.diff
None == {}
Predicted == {"X07.a.dl", "X07.a.wa", "X07.a.sub", "X07.a.use", "X07.f.sess", "X07.b.clean", "X07.e.seed", "X07.b.mono.sf"}
PredictedBytes == Predicted \ {"X07.e.seed", "X07.b.mono.sf"}
OnlySeed == {"X07.b.mono.sf"}
OnlyMono == {"X07.e.seed"}
NotRepaired == {"X07.b.clean", "X07.e.seed"}    \* predicted, no repair shipped (see props/x07.py)
Only_a_dl == PredictedBytes \ {"X07.a.dl"}
Only_a_wa == PredictedBytes \ {"X07.a.wa"}
Only_a_sub == PredictedBytes \ {"X07.a.sub"}
Only_a_use == PredictedBytes \ {"X07.a.use"}
Only_f_sess == PredictedBytes \ {"X07.f.sess"}
Only_b_clean == PredictedBytes \ {"X07.b.clean"}
=============================================================================
