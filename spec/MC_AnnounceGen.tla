--------------------------- MODULE MC_AnnounceGen ---------------------------
(* TLC as generator for C16: EVERY answer pattern of length L over {ok, fail} ("the n-th announce of the tier, whoever   *)
(* receives it, is answered / fails").  The driver replays each pattern into the real tracker.Tier + PeriodicalAnnouncer *)
(* for tiers of 2 and 3 members; the recorded histories are judged by Trace_Announce.                                    *)
EXTENDS Integers, Sequences, TLC, Json
CONSTANTS L
VARIABLE x
Pats == [1 .. L -> {"O", "F"}]
Init == x = 0 /\ \A p \in Pats : PrintT("@@" \o ToJson(p))
Next == UNCHANGED x
Spec == Init /\ [][Next]_x
=============================================================================
