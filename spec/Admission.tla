------------------------------ MODULE Admission ------------------------------
(***************************************************************************)
(* Property C18: which addresses the client may talk to.                   *)
(*                                                                         *)
(* Part 1 (blocklist).  The specification of internal/blocklist is the     *)
(* naive definition                                                        *)
(*     Blocked(ip) == \E r \in rules : r.f <= ip <= r.t                    *)
(* where `rules` are the ranges of the CIDR lines of the last successful   *)
(* Reload.  An IPv4 address is a pair <<hi, lo>> of 16-bit halves (TLC     *)
(* integers are 32-bit signed, 255.255.255.255 does not fit), ordered      *)
(* lexicographically.  The range of a CIDR line is computed HERE from      *)
(* (ip, prefix length) - host bits are masked off as net.ParseCIDR does.   *)
(* A design model of the segment tree of internal/blocklist/stree          *)
(* (closed elementary intervals over the deduplicated sorted endpoints,    *)
(* canonical-cover insertion, stabbing query) is included and proved       *)
(* equivalent to the naive definition by MC_Admission.                     *)
(*                                                                         *)
(* Part 2 (candidate queue).  internal/addrlist.AddrList is specified as   *)
(* a bounded priority set: a set q of (address, source) pairs, at most     *)
(* qc.cap elements, no two elements with the same ip:port.  Push / Pop /   *)
(* Reset are ENVELOPES: the new content `new` is whatever the code         *)
(* produced; the obligations say which contents are acceptable.  What the  *)
(* property does not state is left open: which element is evicted when     *)
(* the set is full, and what happens to two different addresses of equal   *)
(* BEP-40 priority (the code keys the set by priority: the newer one       *)
(* replaces the older one).  The priority function itself is given         *)
(* (internal/peerpriority); priorities arrive with the address pool.       *)
(*                                                                         *)
(* Every obligation is tagged  @obligation C18.x                           *)
(***************************************************************************)
EXTENDS Integers, FiniteSets, Sequences, TLC

VARIABLES rules,   \* set of [f |-> Ip, t |-> Ip]: ranges currently loaded
          lines,   \* the lines of the last successful Reload (sequence of Line records)
          qc,      \* queue configuration, constant after Init:
                   \*   [cap, port, cip, bl, pool, moved];  pool[i] = [ip, port, prio, ext];
                   \*   cip / pool[i].prio follow the client's external address (moved: it changed)
          q,       \* queue content: set of [a |-> pool index, s |-> source]
          out      \* last Pop result [a, s] (a = 0: none); forgotten at Reload/Reset

vars == <<rules, lines, qc, q, out>>

NoOut == [a |-> 0, s |-> 0]
NoIp  == <<-1, -1>>

-----------------------------------------------------------------------------
(* IPv4 addresses as <<hi, lo>>                                            *)

Leq(a, b) == a[1] < b[1] \/ (a[1] = b[1] /\ a[2] <= b[2])
Lt(a, b)  == Leq(a, b) /\ a # b

\* first / last address of the network ip/p  (0 <= p <= 32; host bits of ip may be set)
CidrFirst(ip, p) ==
    IF p <= 16 THEN << ip[1] - (ip[1] % (2 ^ (16 - p))), 0 >>
               ELSE << ip[1], ip[2] - (ip[2] % (2 ^ (32 - p))) >>
CidrLast(ip, p) ==
    IF p <= 16 THEN << CidrFirst(ip, p)[1] + (2 ^ (16 - p)) - 1, 65535 >>
               ELSE << ip[1], CidrFirst(ip, p)[2] + (2 ^ (32 - p)) - 1 >>
RangeOf(ln) == [f |-> CidrFirst(ln.ip, ln.p), t |-> CidrLast(ln.ip, ln.p)]

\* second, independent reading of "ip lies in network c": the first p bits agree
PrefixEq(ip, c, p) ==
    IF p <= 16 THEN (ip[1] \div (2 ^ (16 - p))) = (c[1] \div (2 ^ (16 - p)))
               ELSE ip[1] = c[1] /\ (ip[2] \div (2 ^ (32 - p))) = (c[2] \div (2 ^ (32 - p)))

InRange(ip, r) == Leq(r.f, ip) /\ Leq(ip, r.t)

\* @obligation C18.blocked  blocked exactly when inside at least one loaded range
Blocked(ip, rs) == \E r \in rs : InRange(ip, r)

-----------------------------------------------------------------------------
(* Reload.  A line is [k, ip, p]:  k = "cidr" (a.b.c.d/p, host bits allowed), *)
(* "skip" (blank / comment) or "bad" (malformed, must be ignored).            *)

CidrIdx(ls)  == {i \in 1 .. Len(ls) : ls[i].k = "cidr"}
RulesOf(ls)  == {RangeOf(ls[i]) : i \in CidrIdx(ls)}
\* the code refuses a stream in which nothing could be parsed; the old rules then stay loaded
MayFail(ls)  == CidrIdx(ls) = {} /\ \E i \in 1 .. Len(ls) : ls[i].k = "bad"

\* @obligation C18.reload.err  a stream with a valid line (or without malformed lines) is loaded
ReloadViol(ls, err) == IF err /\ ~MayFail(ls) THEN "C18.reload.err" ELSE ""

ReloadUpdate(ls, err) ==
    /\ IF err THEN UNCHANGED <<rules, lines>>
              ELSE rules' = RulesOf(ls) /\ lines' = ls     \* old rules vanish
    /\ out' = NoOut
    /\ UNCHANGED <<qc, q>>

Reload(ls, err) == ReloadViol(ls, err) = "" /\ (err => MayFail(ls)) /\ ReloadUpdate(ls, err)

-----------------------------------------------------------------------------
(* Design model of internal/blocklist/stree (stree.go, node.go)            *)

RECURSIVE SortSet(_)
SortSet(S) == IF S = {} THEN <<>>
              ELSE LET m == CHOOSE x \in S : \A y \in S : Leq(x, y) IN <<m>> \o SortSet(S \ {m})

\* endpoints(): all From/To values, sorted, duplicates removed
EndP(rs) == SortSet({r.f : r \in rs} \cup {r.t : r \in rs})
\* elementaryIntervals(): [p1,p1],[p1,p2],[p2,p2],...,[pn,pn]  (all closed)
Leaves(es) == [i \in 1 .. (2 * Len(es) - 1) |->
                  IF i % 2 = 1 THEN [f |-> es[(i + 1) \div 2], t |-> es[(i + 1) \div 2]]
                               ELSE [f |-> es[i \div 2], t |-> es[i \div 2 + 1]]]
\* node over leaves lo..hi: segment {leaves[lo].From, leaves[hi].To}; children split at len/2
Seg(lv, lo, hi) == [f |-> lv[lo].f, t |-> lv[hi].t]
Mid(lo, hi)     == lo + ((hi - lo + 1) \div 2)           \* first leaf of the right child
SubsetOf(s, o)  == Leq(o.f, s.f) /\ Leq(s.t, o.t)
Intersects(s, o) == Leq(o.f, s.t) /\ Leq(s.f, o.t)
Disjoint(s, v)  == Lt(s.t, v) \/ Lt(v, s.f)

\* insertInterval: the nodes at which rule r is stored
RECURSIVE Ins(_, _, _, _)
Ins(lv, lo, hi, r) ==
    IF SubsetOf(Seg(lv, lo, hi), r) THEN {<<lo, hi>>}
    ELSE IF lo = hi THEN {}
    ELSE LET m == Mid(lo, hi) IN
         (IF Intersects(Seg(lv, lo, m - 1), r) THEN Ins(lv, lo, m - 1, r) ELSE {})
         \cup (IF Intersects(Seg(lv, m, hi), r) THEN Ins(lv, m, hi, r) ELSE {})

\* querySingle(v, v): the nodes visited
RECURSIVE Visit(_, _, _, _)
Visit(lv, lo, hi, v) ==
    IF Disjoint(Seg(lv, lo, hi), v) THEN {}
    ELSE IF lo = hi THEN {<<lo, hi>>}
    ELSE LET m == Mid(lo, hi) IN {<<lo, hi>>} \cup Visit(lv, lo, m - 1, v) \cup Visit(lv, m, hi, v)

\* Build() once, then one stabbing query per address of P: the addresses the tree reports as contained
StreeHits(P, rs) ==
    IF rs = {} THEN {}
    ELSE LET lv     == Leaves(EndP(rs))
             stored == UNION {Ins(lv, 1, Len(lv), r) : r \in rs}      \* nodes with a non-empty overlap list
         IN  {v \in P : Visit(lv, 1, Len(lv), v) \cap stored # {}}
StreeContains(v, rs) == v \in StreeHits({v}, rs)

-----------------------------------------------------------------------------
(* Candidate queue                                                         *)

Addr   == 1 .. Len(qc.pool)
A(i)   == qc.pool[i]
Source == 0 .. 4                        \* peersource: tracker, dht, pex, manual, incoming

IsLoopback(ip)  == (ip[1] \div 256) = 127
Port0(i)        == A(i).port = 0
\* own listening address: the client's IP (or loopback) with the listening port
Self(i)         == A(i).port = qc.port /\ (IsLoopback(A(i).ip) \/ A(i).ip = qc.cip)
BlockedA(i)     == qc.bl /\ Blocked(A(i).ip, rules)
MustNot(i)      == Port0(i) \/ Self(i) \/ BlockedA(i)
\* dropped by the code although the property does not demand it (any port on the client's own
\* IP; addresses of the host's public interfaces): allowed either way
MayDrop(i)      == A(i).ext \/ A(i).ip = qc.cip
SameAddr(i, j)  == A(i).ip = A(j).ip /\ A(i).port = A(j).port
AddrsOf(S)      == {e.a : e \in S}
SeqSet(sq)      == {sq[i] : i \in 1 .. Len(sq)}
\* An element is [a, s, p]: address, source and the priority it was queued with.  The priority of an
\* address is its BEP 40 priority w.r.t. the CURRENT client address (qc.pool[a].prio follows qc.cip).
Elem(a, s)      == [a |-> a, s |-> s, p |-> A(a).prio]

\* @obligation C18.q.port0     an address with port 0 never enters
\* @obligation C18.q.self      the own listening address (current client IP / loopback + listening port) never enters
\* @obligation C18.q.blocked   an address blocked at push time never enters
\* @obligation C18.q.spurious  nothing enters that was not pushed; the source is the pushed one
\* @obligation C18.q.prio      an address enters with its priority w.r.t. the current client address
\* @obligation C18.q.dup       no two elements with the same ip:port (after a change of the client address the
\*                             same ip:port may be queued once under its old and once under its new priority:
\*                             the set is keyed by priority)
\* @obligation C18.q.bound     never more than cap elements
\* @obligation C18.q.lost      below capacity nothing admissible disappears (an address of equal
\*                             priority taking its place is tolerated: the set is keyed by priority)
PushViol(batch, s, new) ==
    LET bset  == SeqSet(batch)
        fresh == new \ q
        adm   == {a \in bset : ~MustNot(a) /\ ~MayDrop(a)}
        cand  == AddrsOf(q) \cup adm
        lost  == cand \ AddrsOf(new)
        \* the priorities under which address a was / would be queued
        pr(a) == {e.p : e \in {x \in q : x.a = a}} \cup (IF a \in adm THEN {A(a).prio} ELSE {})
    IN  IF \E e \in fresh : ~(e.a \in bset /\ e.s = s) THEN "C18.q.spurious"
        ELSE IF \E e \in fresh : Port0(e.a) THEN "C18.q.port0"
        ELSE IF \E e \in fresh : Self(e.a) THEN "C18.q.self"
        ELSE IF \E e \in fresh : BlockedA(e.a) THEN "C18.q.blocked"
        ELSE IF \E e \in fresh : e.p # A(e.a).prio THEN "C18.q.prio"
        ELSE IF \E e1 \in new, e2 \in new : e1 # e2 /\ SameAddr(e1.a, e2.a) /\ ~(qc.moved /\ e1.p # e2.p) THEN "C18.q.dup"
        ELSE IF Cardinality(new) > qc.cap THEN "C18.q.bound"
        ELSE IF Cardinality(new) < qc.cap
                /\ \E a \in lost : ~\E e \in new : e.a # a /\ e.p \in pr(a) THEN "C18.q.lost"
        ELSE ""

\* @obligation C18.q.popnil     Pop returns nothing only if nothing (unblocked) is queued
\* @obligation C18.q.popmember  Pop returns a queued element with its source
\* @obligation C18.pop.blocked  the address handed to the dialer is not blocked by the loaded rules
\* @obligation C18.q.popmax     no queued (unblocked) element has a higher priority
\* @obligation C18.q.popremove  exactly the returned element leaves (blocked ones may be dropped too)
PopViol(r, s, new) ==
    LET ok   == {e \in q : ~BlockedA(e.a)}
        mine == {e \in q : e.a = r /\ e.s = s}
        me   == CHOOSE e \in mine : \A f \in mine : Leq(f.p, e.p)
    IN  IF r = 0 THEN (IF ok # {} THEN "C18.q.popnil"
                       ELSE IF ~(new \subseteq q) THEN "C18.q.popremove" ELSE "")
        ELSE IF mine = {} THEN "C18.q.popmember"
        ELSE IF BlockedA(r) THEN "C18.pop.blocked"
        ELSE IF \E e \in ok : ~Leq(e.p, me.p) THEN "C18.q.popmax"
        ELSE IF ~(new \subseteq (q \ {me})) \/ (\E e \in (q \ new) \ {me} : e \in ok) THEN "C18.q.popremove"
        ELSE ""

\* The torrent learns (or changes) its external address: the list refers to that variable, so the own-address
\* filter and the priorities of later pushes follow it.  The queued elements stay as they are.
\* @obligation C18.q.setcip  a change of the client address does not change the queue content
SetCipViol(new) == IF new # q THEN "C18.q.setcip" ELSE ""
SetCipUpdate(cip, prios) ==
    qc' = [qc EXCEPT !.cip = cip, !.moved = TRUE,
                     !.pool = [i \in 1 .. Len(qc.pool) |-> [qc.pool[i] EXCEPT !.prio = prios[i]]]]

\* @obligation C18.q.reset  Reset empties the queue
ResetViol(new) == IF new # {} THEN "C18.q.reset" ELSE ""

\* @obligation C18.q.len        Len() = number of queued addresses
\* @obligation C18.q.lensource  LenSource(s) = number of queued addresses of source s
ViewViol(len, ls, new) ==
    IF len # Cardinality(new) THEN "C18.q.len"
    ELSE IF \E s \in Source : ls[s + 1] # Cardinality({e \in new : e.s = s}) THEN "C18.q.lensource"
    ELSE ""

Push(batch, s, new) ==
    /\ PushViol(batch, s, new) = ""
    /\ q' = new
    /\ UNCHANGED <<rules, lines, qc, out>>

Pop(r, s, new) ==
    /\ PopViol(r, s, new) = ""
    /\ q' = new /\ out' = [a |-> r, s |-> s]
    /\ UNCHANGED <<rules, lines, qc>>

\* the code as it is: Pop hands out the maximum without looking at the (possibly reloaded) rules
PopAsIs(r, s) ==
    /\ Elem(r, s) \in q /\ \A e \in q : Leq(e.p, A(r).prio)
    /\ q' = q \ {Elem(r, s)} /\ out' = [a |-> r, s |-> s]
    /\ UNCHANGED <<rules, lines, qc>>

Reset ==
    /\ q' = {} /\ out' = NoOut
    /\ UNCHANGED <<rules, lines, qc>>

-----------------------------------------------------------------------------
(* Contact obligations (session level).  Pure operators over the loaded    *)
(* rules and the observed admission state of one torrent:                  *)
(*   sw     [out, inc, trk]  blocklist switches for outgoing / incoming    *)
(*          connections and trackers                                       *)
(*   self   {<<ip, port>>}   the torrent's own listening addresses (the    *)
(*          address it listens on; its external IP once learned, same port)*)
(*   conn   IPs the client is connected or connecting to                   *)
(*   banned IPs banned for sending corrupt data                            *)
(* Each returns the tag of the violated obligation ("" if none) for one    *)
(* observed contact.                                                       *)

\* @obligation C18.contact.dial.port0    never dials an address with port 0
\* @obligation C18.contact.dial.self     never dials its own listening address
\* @obligation C18.contact.dial.blocked  with the blocklist enabled for outgoing connections never dials a blocked address
\* @obligation C18.contact.dial.dup      never dials an IP it is already connected or connecting to
\* @obligation C18.contact.dial.banned   never dials an IP banned for sending corrupt data
DialViol(ip, port, sw, self, conn, banned) ==
    IF port = 0 THEN "C18.contact.dial.port0"
    ELSE IF <<ip, port>> \in self THEN "C18.contact.dial.self"
    ELSE IF sw.out /\ Blocked(ip, rules) THEN "C18.contact.dial.blocked"
    \* (banned first: a ban is for good - `banned` only grows, also across stop / start / verify of the torrent - while the
    \* scripted side may notice the end of its own connection with that IP a moment late)
    ELSE IF ip \in banned THEN "C18.contact.dial.banned"
    ELSE IF ip \in conn THEN "C18.contact.dial.dup"
    ELSE ""

\* @obligation C18.contact.accept.blocked  with the blocklist enabled for incoming connections a blocked address gets no handshake answer
AcceptViol(ip, sw) == IF sw.inc /\ Blocked(ip, rules) THEN "C18.contact.accept.blocked" ELSE ""

\* @obligation C18.contact.announce.blocked  with the blocklist enabled for trackers no request goes to a tracker on a blocked address
AnnounceViol(ip, sw) == IF sw.trk /\ Blocked(ip, rules) THEN "C18.contact.announce.blocked" ELSE ""

\* @obligation C18.contact.webseed.blocked  (all switches on) no request goes to a web seed on a blocked address
WebseedViol(ip, sw) == IF sw.out /\ sw.inc /\ sw.trk /\ Blocked(ip, rules) THEN "C18.contact.webseed.blocked" ELSE ""

-----------------------------------------------------------------------------
(* Global form of the obligations (checked by MC_Admission)                *)

QBound  == Cardinality(q) <= qc.cap
QNoDup  == \A e1 \in q, e2 \in q : e1 # e2 => ~SameAddr(e1.a, e2.a)
QStatic == \A e \in q : ~Port0(e.a) /\ ~Self(e.a)
\* nothing that must not be dialled is ever handed to the dialer
PopSafe == out.a # 0 => (~Port0(out.a) /\ ~Self(out.a) /\ ~BlockedA(out.a))
QInv    == QBound /\ QNoDup /\ QStatic /\ PopSafe
=============================================================================
