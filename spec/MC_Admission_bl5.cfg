SPECIFICATION BlSpec
CONSTANTS
  BITS = 5
  CAP = 0
  ASIS = FALSE
INVARIANT RangeIsPrefix
INVARIANT StreeExact
INVARIANT OnlyLoaded
CHECK_DEADLOCK FALSE
