SPECIFICATION BlSpec
CONSTANTS
  BITS = 5
  CAP = 0
  ASIS = FALSE
INVARIANT BlInv
CHECK_DEADLOCK FALSE
