SPECIFICATION TreeSpec
CONSTANTS
  MaxTreeFiles = 3
INVARIANT ThmTree
CHECK_DEADLOCK FALSE
