SPECIFICATION Spec
CONSTANTS
  K = 3
  CAPS = 0
  CAPD = 0
  FIXED = TRUE
INVARIANT SourcesBound
INVARIANT ActiveBound
INVARIANT ActiveExact
CHECK_DEADLOCK FALSE
