---------------------------- MODULE MC_Startup ----------------------------
(* Exhaustive configurations of Startup.tla: layout a(data) | pad | b(data) | e(empty), 3 pieces:
   piece 1 = {a}, piece 2 = {a, pad, b} (or pad only in the "padwhole" variant), piece 3 = {b, e}. *)
EXTENDS Startup
CONSTANT Variant
C0 == IF Variant = "span"
      THEN [nf |-> 4, np |-> 3, kind |-> <<"data", "pad", "data", "empty">>, pf |-> <<{1}, {1, 2, 3}, {3, 4}>>]
      ELSE [nf |-> 3, np |-> 3, kind |-> <<"data", "pad", "data">>, pf |-> <<{1}, {2}, {3}>>]
Pads0 == {p \in 1 .. C0.np : \A f \in C0.pf[p] : C0.kind[f] = "pad"}
MCInit ==
    \E fs0 \in [1 .. C0.nf -> {"absent", "ok"}] :
      /\ \A f \in 1 .. C0.nf : C0.kind[f] = "pad" => fs0[f] = "ok"
      /\ \E g \in SUBSET {p \in 1 .. C0.np : \A f \in C0.pf[p] : fs0[f] = "ok"} :
            I0(C0, fs0, g \cup Pads0)
MCSpec == MCInit /\ [][Next]_vars
=============================================================================
