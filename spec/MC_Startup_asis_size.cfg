SPECIFICATION MCSpec
CONSTANT FixNames = {"allocstop"}
CONSTANT Variant = "span"
INVARIANT Inv
INVARIANT Trust
INVARIANT TrustDisk
CHECK_DEADLOCK FALSE
