---------------------------- MODULE MC_UnchokerAlg ----------------------------
(***************************************************************************)
(* The algorithm of internal/unchoker/unchoker.go (Unchoker!Alg...) run    *)
(* against the envelope: every TickUnchoke / FastUnchoke step of the       *)
(* algorithm - every order slices.SortFunc may produce for equal rates,    *)
(* every optimistic draw - is judged by TickViols / FastViols; `av` holds  *)
(* the tags violated by the last step (minus IGNORE).                      *)
(*   VARIANT = "asis",  IGNORE = {}             expected to FAIL (findings *)
(*             predicted at design level: X01.f, X01.a.reg, X01.a.opt)     *)
(*   VARIANT = "asis",  IGNORE = those 3 tags   passes: nothing else fails *)
(*   VARIANT = "fixed", IGNORE = {}             passes: the two repairs    *)
(*             (fixes/X01-*.diff) are sufficient                           *)
(* ALiveSpec: with strong fairness of "the draw picks p" the algorithm     *)
(* gives every waiting peer the optimistic slot eventually (X01.l).        *)
(***************************************************************************)
EXTENDS Unchoker
CONSTANTS NPEERS, NN, MM, RMAX, VARIANT, IGNORE, VICTIM
VARIABLE av

avars == <<vars, av>>

AInit == InitWith([npeers |-> NPEERS, N |-> NN, M |-> MM]) /\ av = {}

ARates == IF VICTIM = 0 THEN [Peer -> 0 .. RMAX] ELSE {[p \in Peer |-> IF p = VICTIM THEN 0 ELSE 1]}

ATickWith(r, ord, OS) ==
    LET res == AlgTickResult(VARIANT, ord, OS)
    IN /\ av' = TickViols(r, res[1], res[2]) \ IGNORE
       /\ TickUpdate(res[1], res[2])

ATick == \E r \in ARates : \E ord \in Orders(I, r) :
            \E OS \in Draws(AlgTickResult(VARIANT, ord, {})[3]) : ATickWith(r, ord, OS)

AInterested(p) ==
    /\ conn[p]
    /\ LET res == AlgFastResult(p)
       IN /\ av' = FastViols(p, res[1], res[2]) \ IGNORE
          /\ InterestedUpdate(p, res[1], res[2])

ANext ==
    \/ \E p \in Peer : (Connect(p) \/ Disconnect(p) \/ NotInterested(p)) /\ av' = {}
    \/ \E p \in Peer : AInterested(p)
    \/ ATick

ASpec == AInit /\ [][ANext]_avars

Conforms == av = {}
AInv == TypeOK /\ NoChokedOptimistic /\ Conforms

ATickUnchokes(p) == \E r \in ARates : \E ord \in Orders(I, r) :
            \E OS \in Draws(AlgTickResult(VARIANT, ord, {})[3]) : ATickWith(r, ord, OS) /\ chk[p] /\ ~chk'[p]
ALiveSpec == ASpec /\ WF_avars(ATick) /\ SF_avars(ATickUnchokes(VICTIM))
Waiting(p) == conn[p] /\ intr[p] /\ chk[p]
EventuallyUnchoked == []<>(~Waiting(VICTIM))
AView == vars
=============================================================================
