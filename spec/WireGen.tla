------------------------------ MODULE WireGen ------------------------------
(***************************************************************************)
(* TLC as encoder: for every message of gen.ndjson print all admissible    *)
(* encodings of its non-payload part (WireCodec!Heads).  The driver feeds  *)
(* these bytes (+ the payload it materialises from the seed) to the real   *)
(* reader, so the reader is exercised with bytes that no Go code of the    *)
(* project -- and no encoder of mine written in Go -- has produced.        *)
(***************************************************************************)
EXTENDS WireCodec, Json

VARIABLE x
Msgs == ndJsonDeserialize("gen.ndjson")

\* at most MaxVariants of the admissible encodings are printed per message (the driver picks one per stream)
MaxVariants == 8
First(q) == SubSeq(q, 1, IF Len(q) > MaxVariants THEN MaxVariants ELSE Len(q))

ASSUME \A i \in 1 .. Len(Msgs) :
          PrintT("@@" \o ToJson([i |-> i, heads |-> First(SetToSeq(Heads(CanonJ(Msgs[i]))))]))

GenSpec == x = 0 /\ [][FALSE]_x
=============================================================================
