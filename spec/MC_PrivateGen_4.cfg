SPECIFICATION Spec
CONSTANTS
  MaxLen = 4
INVARIANT Emit
CHECK_DEADLOCK FALSE
