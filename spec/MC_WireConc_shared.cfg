SPECIFICATION CSpec
CONSTANTS
  MaxConns = 3
  SHARED = TRUE
INVARIANT MCInv
CHECK_DEADLOCK FALSE
