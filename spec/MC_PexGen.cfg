SPECIFICATION GenSpec
CONSTANTS
  NADDR = 5
  K = 40
INVARIANT GenPrint
CHECK_DEADLOCK FALSE
