SPECIFICATION ASpec
CONSTANTS
  ADDRS = {1, 2, 3}
  SELF = 9
  LL = 2
  BUDGET = 6
  VARIANT = "fixed"
  IGNORE = {}
INVARIANT AInv
CHECK_DEADLOCK FALSE
