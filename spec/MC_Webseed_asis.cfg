SPECIFICATION MSpec
CONSTANTS
  NP = 3
  NSRC = 2
  CAPD = 1
  RI = 1
  VARIANT = "asis"
  NSTOPS = 1
  NERRS = 2
INVARIANT MInv
VIEW MView
CHECK_DEADLOCK FALSE
