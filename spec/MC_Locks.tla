------------------------------ MODULE MC_Locks ------------------------------
(***************************************************************************)
(* Exhaustive configurations of Locks.tla.                                 *)
(*   MC_Locks_fixed*.cfg   the repaired transcription (Fixed = FixNames):  *)
(*                         NoLockup must hold for every choice of NClients *)
(*                         concurrent operations + the background writers  *)
(*   MC_Locks_asis*.cfg    the transcription of the tree as it is: TLC is  *)
(*                         used as a GENERATOR -- every lock-up state is   *)
(*                         printed (@@{..}) with its wait-for cycle; each  *)
(*                         distinct cycle becomes a stress recipe that is  *)
(*                         replayed on the real Session by harness/c20.    *)
(*   MC_Locks_live.cfg     call ~> return under weak fairness              *)
(*   MC_Locks_hyp.cfg      the repaired transcription with two design rules*)
(*                         of the command protocol dropped (generator):    *)
(*                         - the Response channels have no buffer          *)
(*                         - a command is sent to the loop from inside a   *)
(*                           write transaction (AddTracker)                *)
(*                         the lock-up cycles TLC finds are the            *)
(*                         interleavings in which the rule matters; they   *)
(*                         are replayed on the real Session as PROBES      *)
(*                         (a hang there is judged like any other hang).   *)
(***************************************************************************)
EXTENDS Locks, Json

T2 == <<"t1", "t2">>
T1 == <<"t1">>

\* every operation class of the public API (ops with the same step sequence are represented once:
\* ListTorrents = GetTorrent; Peers = Trackers = Webseeds = Stats; addMagnet = AddTorrent)
ChoicesAll == <<
    <<"Session.GetTorrent", "">>, <<"Session.Stats", "">>, <<"Session.AddTorrent", "new">>,
    <<"Session.RemoveTorrent", "t1">>, <<"Session.StartAll", "">>, <<"Session.StopAll", "">>,
    <<"Session.CleanDatabase", "">>, <<"Session.CompactDatabase", "">>, <<"Session.Close", "">>,
    <<"Torrent.Start", "t1">>, <<"Torrent.Stop", "t1">>, <<"Torrent.Verify", "t1">>, <<"Torrent.Announce", "t1">>,
    <<"Torrent.AddTracker", "t1">>, <<"Torrent.AddPeer", "t1">>, <<"Torrent.AddPeer#host", "t1">>,
    <<"Torrent.Stats", "t1">>, <<"Torrent.NotifyStop", "t1">>, <<"Torrent.Move", "t1">>,
    <<"rpcHandler.handleMoveTorrent", "new">>,
    <<"Torrent.Stop", "t2">>, <<"Torrent.Stats", "t2">>, <<"Session.RemoveTorrent", "t2">> >>

\* the same without the second torrent
ChoicesAll1 == SelectSeq(ChoicesAll, LAMBDA c : c[2] # "t2")

\* one representative per distinct lock shape (nested acquisitions, pending writers, loop rendezvous, close)
ChoicesCore == <<
    <<"Session.GetTorrent", "">>, <<"Session.AddTorrent", "new">>, <<"Session.RemoveTorrent", "t1">>,
    <<"Session.StartAll", "">>, <<"Session.StopAll", "">>, <<"Session.Close", "">>,
    <<"Torrent.Stop", "t1">>, <<"Torrent.Stats", "t1">>, <<"Torrent.Move", "t1">>, <<"Torrent.AddPeer", "t1">> >>

Nop == << <<"-", "">> >>          \* a client that does nothing (a configuration with fewer clients)
ChoicesQ == ChoicesAll1 \o Nop

AnyPick(f) == TRUE
\* the operations that talk to the loop of t1, close it, or make it write: every pair of them
ChoicesHyp == <<
    <<"Session.RemoveTorrent", "t1">>, <<"Session.StopAll", "">>, <<"Session.Close", "">>,
    <<"Torrent.Start", "t1">>, <<"Torrent.Stop", "t1">>, <<"Torrent.Verify", "t1">>, <<"Torrent.AddTracker", "t1">>,
    <<"Torrent.Stats", "t1">>, <<"Torrent.Move", "t1">>, <<"-", "">> >>
PairsHyp(f) == ChoicesHyp[f[3]][1] = "-" /\ ChoicesHyp[f[2]][1] # "-"

\* the tree as it is: step sequences extracted from the sources for the operations that equal no transcription of ProgV
\* (props/c20.py rewrites this definition in its scratch copy; NoOver when the sources are transcribed exactly)
SrcOverDef == NoOver
\* hypothetical: AddTracker hands the tracker to the loop before its write transaction is committed
HypSendInTx == ("Torrent.AddTracker" :> <<S("DBB", "Update"), S("SEND", "addTrackersCommandC"), S("DBE", "Update")>>)
\* quick tier: every PAIR of operations, and every TRIPLE of the operations with nested acquisitions / registry writers
Core5 == {"Session.AddTorrent", "Session.RemoveTorrent", "Session.StartAll", "Session.Close", "Torrent.Stop"}
PairsAndCoreTriples(f) ==
    \/ ChoicesQ[f[3]][1] = "-" /\ ChoicesQ[f[2]][1] # "-"
    \/ \A i \in 1 .. 3 : ChoicesQ[f[i]][1] \in Core5

\* background goroutines: the periodic stats writer (2 rounds), one announcer reading the bitfield
BgStats == << <<"Session.updateStats", "", 2>>, <<"torrent.announcerFields", "t1", 1>> >>
BgAll   == << <<"Session.updateStats", "", 1>>, <<"torrent.announcerFields", "t1", 1>>,
              <<"Session.reloadBlocklist", "", 1>>, <<"Session.processDHTResults", "", 1>>, <<"torrent.announceDHT", "t1", 1>> >>
BgOne   == << <<"Session.updateStats", "", 1>> >>

\* generator: print every lock-up state (props/c20.py groups them into cycles)
Report ==
    IF Lockup
    THEN PrintT("@@" \o ToJson([kind |-> "lockup", procs |-> {Describe(p) : p \in Involved},
                                  ops |-> {who[p][1] : p \in Clients} \ {"-"}]))
    ELSE TRUE
=============================================================================
