SPECIFICATION Spec
CONSTANTS
  TorrentSeq <- T1
  NClients = 3
  Choices <- ChoicesQ
  BgSeq <- BgOne
  Fixed = {}
  Budget = 0
  Unbuffered = {}
  SrcOver <- SrcOverDef
  Allowed <- PairsAndCoreTriples
CONSTRAINT Report
INVARIANT TypeOK
CHECK_DEADLOCK FALSE
