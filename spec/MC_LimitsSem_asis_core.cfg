SPECIFICATION PSpec
CONSTANTS
  Workers = {1, 2, 3}
  CAP = 2
  ROUNDS = 2
  FIXED = FALSE
INVARIANT PLimit
INVARIANT PLenNonNeg
INVARIANT PRest
CHECK_DEADLOCK FALSE
