----------------------------- MODULE MC_Resume -----------------------------
(* Exhaustive configurations of Resume: every interleaving of download, persistence, crash, file deletion *)
(* and restart for a small geometry.  FO[p+1] = files of piece p.                                          *)
EXTENDS Resume
CONSTANTS NP, NF, FO, SYNC, DESIGN

Geo2x2 == <<{0}, {0, 1}>>
Geo3x2 == <<{0}, {0, 1}, {1}>>
Geo4x3 == <<{0}, {0, 1}, {1, 2}, {2}>>

MCInit == InitWith([np |-> NP, nf |-> NF, fo |-> [p \in 0 .. (NP - 1) |-> FO[p + 1]], sync |-> SYNC, design |-> DESIGN])
MCSpec == MCInit /\ [][Next]_vars
=============================================================================
