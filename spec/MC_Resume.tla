----------------------------- MODULE MC_Resume -----------------------------
(* Exhaustive configurations of Resume: every interleaving of download, persistence, crash, file deletion *)
(* and restart for a small geometry.  FO[p+1] = files of piece p.                                          *)
EXTENDS Resume
CONSTANTS NP, NF, FO, SYNC, DESIGN, WERR

Geo2x2 == <<{0}, {0, 1}>>
Geo3x2 == <<{0}, {0, 1}, {1}>>
Geo4x3 == <<{0}, {0, 1}, {1, 2}, {2}>>
Geo2x3 == <<{0, 1, 2}, {2}>>      \* a piece that spans three files (a middle section exists)

MCInit == InitWith([np |-> NP, nf |-> NF, fo |-> [p \in 0 .. (NP - 1) |-> FO[p + 1]], sync |-> SYNC, design |-> DESIGN, werr |-> WERR,
                   env |-> FALSE, onforeign |-> "refuse", readd |-> "fresh"])
MCSpec == MCInit /\ [][Next]_vars
=============================================================================
