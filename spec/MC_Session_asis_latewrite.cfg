\* expected-fail variant: RemoveTorrent gives the id back when the record is deleted, before the removed (running) torrent is
\* closed - an add of the same id in between gets the removed torrent's bitfield written into its record (RecordIsOwn)
SPECIFICATION MCSpec
CONSTANTS
  IDS = {"a"}
  RANGE = {1, 2}
  K = 2
  ATOMIC = TRUE
  FULL = FALSE
  SPARSE = FALSE
  STORAGE = FALSE
  RUNNING <- On
  EARLY <- On
INVARIANT RecordIsOwn
CHECK_DEADLOCK FALSE
