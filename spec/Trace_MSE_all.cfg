SPECIFICATION TraceSpec
CONSTRAINT HighWater
INVARIANT Inv
POSTCONDITION TraceAccepted
CHECK_DEADLOCK FALSE
