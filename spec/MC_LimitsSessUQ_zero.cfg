SPECIFICATION Spec
CONSTANTS
  CAP = 0
  N = 4
  STRICT = TRUE
INVARIANT QueueBound
INVARIANT FloodBound
INVARIANT Answered
CHECK_DEADLOCK FALSE
