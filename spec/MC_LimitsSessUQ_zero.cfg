SPECIFICATION Spec
CONSTANTS
  CAP = 0
  N = 4
  STRICT = TRUE
  CANCELREJ = FALSE
  FAST = FALSE
INVARIANT QueueBound
INVARIANT FloodBound
INVARIANT Answered
CHECK_DEADLOCK FALSE
