SPECIFICATION MCSpec
CONSTANTS
  NP = 3
  POLS <- PolsLive
  BS = 2
  TSIZES = {3}
  MAXSZ = 4
  PARS = {1, 2}
  QS = {1, 2}
  ADVS = {0, 2, 3, 4, 5}
  LENS = {0, 1, 2, 3}
  MODES = {"fixed"}
  DUPOKS = {TRUE}
  PRIVATES = {FALSE}
INVARIANT Inv
PROPERTY Live
CHECK_DEADLOCK FALSE
