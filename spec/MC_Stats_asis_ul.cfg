SPECIFICATION Spec
CONSTANTS
  NP = 2
  NB = 2
  PAD <- Pad01
  NSRC = 1
  WS = FALSE
  FIX <- None
  MUT = "none"
  IGNORE <- PredictedBytes
  RXMAX = 4
  NJUNK = 0
  NWRITE = 1
  NFAIL = 0
  NCRASH = 1
  NCLOSE = 1
  NSTOP = 1
  NUP = 2
  NINV = 0
  NLATE = 0
  TMAX = 0
  PERIOD = 2
  LATE = 0
  SEEDTOL = 0
INVARIANT Inv
VIEW View
CHECK_DEADLOCK FALSE
