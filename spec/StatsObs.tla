----------------------------- MODULE StatsObs -----------------------------
(***************************************************************************)
(* X07 - byte and piece accounting reported to the user is conserved.      *)
(*                                                                         *)
(* Code: torrent/torrent_stats.go (Stats), torrent_messagehandler.go       *)
(* (handlePieceMessage, BlockUploaded), torrent_write.go                   *)
(* (handlePieceWriteDone), torrent_webseed.go (handleWebseedPieceResult),  *)
(* session_stats.go (Session.Stats, updateStats = the resume write),       *)
(* session.go (Close), torrent.go (newTorrent: counters seeded from the    *)
(* resume record), session_load.go.                                        *)
(*                                                                         *)
(* PART 1 (observable, shared with Trace_Stats): the obligations as        *)
(* predicates over  ground truth kept by the environment  x  numbers       *)
(* reported by Stats().  Ground truth is an interval [lo, hi] per counter  *)
(* (the design-level machine below knows it exactly: lo = hi; the driver   *)
(* of the real code knows exactly at quiescent points, and only an upper   *)
(* bound while blocks are in flight or after a connection was cut).        *)
(*                                                                         *)
(* What the counters mean (doc comments of Stats in torrent_stats.go):     *)
(*   Downloaded "number of bytes downloaded from swarm. Because some       *)
(*              pieces may be downloaded more than once, this number may   *)
(*              be greater than completed bytes"                           *)
(*              => every payload byte of every piece message received      *)
(*              (requested, unrequested, duplicate, end-game duplicate,    *)
(*              of pieces that later fail the hash) + every byte fetched   *)
(*              from a web seed for a delivered piece, each ONCE.          *)
(*   Wasted     "Bytes downloaded due to duplicate/non-requested pieces"   *)
(*              => a part of Downloaded: blocks that were not stored       *)
(*              (duplicate, no/other piece downloader, invalid, peer       *)
(*              already closed) + (what the code adds) the data of pieces  *)
(*              discarded for hash failure and of web-seed pieces that     *)
(*              arrive for a piece already complete.                       *)
(*              NOT wasted (code and doc agree): blocks of partial pieces  *)
(*              dropped at stop / disconnect / when another source wins    *)
(*              the end-game.                                              *)
(*   Uploaded   payload bytes of piece messages written to peers' sockets. *)
(*   Completed  sum of the lengths (padding included, like Total) of the   *)
(*              pieces in the bitfield; Incomplete = Total - Completed.    *)
(*   SeededFor  "Duration while the torrent is in Seeding status", sampled *)
(*              by a 1 s ticker and by every Stats() call.                 *)
(* Persistence: the four counters are written by the periodic resume write *)
(* (Config.ResumeWriteInterval) and by Session.Close - NOT at Torrent.Stop *)
(* - and are added to fresh zero counters at load.                         *)
(*                                                                         *)
(* PART 2: the algorithm of the code as a state machine over abstract      *)
(* units (1 unit = 1 block; a piece has NB units of which PAD[p] are       *)
(* padding that is never transferred), run against PART 1.  FIX selects    *)
(* repairs; FIX = {} is the code as it is.                                 *)
(***************************************************************************)
EXTENDS Integers, Sequences, FiniteSets, TLC

Tag(c, t) == IF c THEN {t} ELSE {}
Max(a, b) == IF a > b THEN a ELSE b
Min(a, b) == IF a < b THEN a ELSE b

RECURSIVE SumOver(_, _)
SumOver(S, f) == IF S = {} THEN 0 ELSE LET x == CHOOSE y \in S : TRUE IN f[x] + SumOver(S \ {x}, f)

(***************************************************************************)
(* PART 1 - obligations                                                    *)
(*   lo, hi : [dl, ul, wa]   bounds from ground truth (base value at load  *)
(*                           included)                                     *)
(*   r      : the report     [dl, ul, wa, ...]                             *)
(*   q      : TRUE at a quiescent point (lower bounds are due only there)  *)
(***************************************************************************)
\* @obligation X07.a  conservation: Downloaded = payload received (+ web-seed bytes), each byte once
\* @obligation X07.c  ... in particular end-game duplicates and re-requested blocks are counted once per wire message
DlViols(lo, hi, r, q) == Tag(r.dl > hi.dl \/ (q /\ r.dl < lo.dl), "X07.a.dl")
\* @obligation X07.a  Wasted = blocks not stored + data of pieces discarded for hash failure
WaViols(lo, hi, r, q) == Tag(r.wa > hi.wa \/ (q /\ r.wa < lo.wa), "X07.a.wa")
\* @obligation X07.a  Uploaded = payload bytes written to peers' sockets in piece messages
UlViols(lo, hi, r, q) == Tag(r.ul > hi.ul \/ (q /\ r.ul < lo.ul), "X07.a.ul")
\* @obligation X07.a  wasted bytes are downloaded bytes
SubViols(r) == Tag(r.wa > r.dl, "X07.a.sub")
\* @obligation X07.a  useful bytes: what was downloaded and not wasted covers the data of the pieces gained by download
\*                    (dl0, wa0: the counters when this session loaded the torrent; gain: data bytes of pieces gained since)
UseViols(r, dl0, wa0, gain) == Tag((r.dl - dl0) - (r.wa - wa0) < gain, "X07.a.use")
\* @obligation X07.a  Completed = sum of piece lengths of the verified pieces; Completed + Incomplete = Total; Have + Missing = Total pieces
\* @obligation X07.c  a piece obtained from two sources is counted once
PieceViols(r, plen, haveSet) ==
    Tag(r.completed + r.incomplete # r.total \/ r.completed < 0 \/ r.incomplete < 0, "X07.a.bytes.sum")
    \cup Tag(r.completed # SumOver(haveSet, plen), "X07.a.bytes.completed")
    \cup Tag(r.have + r.missing # r.np \/ r.have # Cardinality(haveSet), "X07.a.pieces")
\* @obligation X07.b  the persistent counters never decrease (floor = previous report of this session, or what is known to be persisted)
MonoViols(r, floor) ==
    Tag(r.dl < floor.dl, "X07.b.mono.dl") \cup Tag(r.ul < floor.ul, "X07.b.mono.ul")
    \cup Tag(r.wa < floor.wa, "X07.b.mono.wa") \cup Tag(r.sf < floor.sf, "X07.b.mono.sf")

=============================================================================
