SPECIFICATION ASpec
CONSTANTS
  NPEERS = 3
  NN = 1
  MM = 0
  RMAX = 2
  VARIANT = "fixed"
  IGNORE = {}
  VICTIM = 0
INVARIANT AInv
CHECK_DEADLOCK FALSE
