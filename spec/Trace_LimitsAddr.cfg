SPECIFICATION TraceSpec
CONSTANTS
  Sources = {1, 2, 3, 4, 5}
CONSTRAINT HighWater
CONSTRAINT CleanOnly
POSTCONDITION TraceAccepted
CHECK_DEADLOCK FALSE
