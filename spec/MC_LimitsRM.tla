---------------------------- MODULE MC_LimitsRM ----------------------------
(* Exhaustive configurations of the resource-manager rendezvous model.      *)
EXTENDS LimitsRMProto

R(i, k, n) == [id |-> i, key |-> k, n |-> n]
\* two torrents (keys 1, 2); limit 2; one request that can never fit (n > limit); a zero-size request
MCReqs4 == {R(1, 1, 1), R(2, 1, 2), R(3, 2, 1), R(4, 2, 3)}
MCReqs5 == {R(1, 1, 1), R(2, 1, 2), R(3, 2, 1), R(4, 2, 3), R(5, 2, 0)}
MCReqs3 == {R(1, 1, 1), R(2, 1, 2), R(3, 2, 2)}
MCReqs6 == {R(1, 1, 1), R(2, 1, 2), R(3, 2, 1), R(4, 2, 3), R(5, 3, 2), R(6, 3, 1)}
=============================================================================
