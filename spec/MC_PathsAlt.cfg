SPECIFICATION MCSpec
CONSTANTS
  SYMS = {"L", "D"}
  MAXLEN = 2
INVARIANT UsedIsValidated
CHECK_DEADLOCK FALSE
