"""C15 — announces carry the torrent's true identity and follow the event discipline.

spec/Announce.tla (monitor + machine), MC_Announce_ev*.cfg / MC_Announce_stop_asis.cfg, Trace_Announce; driver harness/c15
(real torrent.Session against scripted HTTP/UDP trackers and scripted peers).  The helpers of this file are shared with
props/c16.py (same module, same trace format)."""
import collections, json, os, re
import vlib

SLACK_TEXT = ("C15.gap slack: a gap is 'short' below bound - min(bound*0.5, 1000 ms), bound = min(client TrackerMinAnnounceInterval, "
              "positive tracker intervals so far), judged only after an ANSWERED announce to the same tracker without intervening event; "
              "on real-time traces the obligation is violated by 3 consecutive short gaps (one short gap can be an artefact of a slow "
              "request: the client counts from its send time), at design level by one")


# ----------------------------------------------------------------------------------------------------------- design level
MCW = 4   # TLC workers per configuration (they run concurrently): the drivers run (and mostly sleep) at the same time


def mc_pass(ctx, cfg, timeout=900):
    ctx.tlc_mc("MC_Announce", cfg, timeout=timeout, workers=MCW)


def mc_all(ctx, jobs):
    """Run the design-level configurations concurrently: jobs = [("pass"|"asis", cfg, kwargs)]."""
    import threading
    from concurrent.futures import ThreadPoolExecutor
    if os.environ.get("VERIF_SKIP_MC"):      # development aid for the mutation smoke test (the MC part does not depend on /repo)
        vlib.log("VERIF_SKIP_MC set: design-level model checking skipped")
        ctx.extra["mc_skipped"] = True
        return
    lock = threading.Lock()
    orig = ctx._spec_copy

    def locked():
        with lock:
            return orig()
    ctx._spec_copy = locked
    try:
        with ThreadPoolExecutor(max_workers=len(jobs)) as ex:
            futs = [ex.submit({"pass": mc_pass, "asis": mc_asis, "mut": mc_mut}[kind], ctx, cfg, **kw) for kind, cfg, kw in jobs]
            errs = []
            for f in futs:
                try:
                    f.result()
                except BaseException as e:
                    errs.append(e)
        if errs:
            raise errs[0]
    finally:
        ctx._spec_copy = orig
    ctx.cov["states"] = sum(r["distinct"] for r in ctx.mc_runs)
    ctx.cov["transitions"] = sum(r["generated"] for r in ctx.mc_runs)


def start_driver(ctx, drv, args, timeout):
    """Run the driver in the background (its scenarios mostly sleep) while TLC checks the design-level configurations."""
    import threading
    box = {}

    def work():
        try:
            box["r"] = ctx.run_drv(drv, args, timeout=timeout)
        except BaseException as ex:      # reported by join()
            box["e"] = ex
    th = threading.Thread(target=work, daemon=True)
    th.start()

    def join():
        th.join()
        if "e" in box:
            raise box["e"]
        return json.loads(box["r"].stdout.strip().splitlines()[-1])
    return join


def mc_asis(ctx, cfg, expect_tag=None, expect_inv=None, expect_live=False, timeout=900):
    """The configuration that transcribes the UNCHANGED tree must be rejected by TLC, with the expected obligation."""
    ok, out = ctx.tlc_mc("MC_Announce", cfg, timeout=timeout, expect_ok=False, workers=MCW)
    if ok:
        raise vlib.MachineryError("as-is configuration %s was expected to violate the design obligations but passed" % cfg)
    tags = [expect_tag] if isinstance(expect_tag, str) else list(expect_tag or [])
    if tags and not any(('viol = "%s"' % t) in out for t in tags):
        raise vlib.MachineryError("as-is configuration %s failed, but not with %s:\n%s" % (cfg, expect_tag, out[-3000:]))
    if expect_live and "Temporal properties were violated" not in out and "Invariant Inv is violated" not in out:
        raise vlib.MachineryError("as-is configuration %s: expected a liveness/invariant counterexample:\n%s" % (cfg, out[-3000:]))
    got = [t for t in tags if ('viol = "%s"' % t) in out]
    ctx.extra.setdefault("asis_design_counterexamples", []).append({"cfg": cfg, "obligation": (got[0] if got else "Live/NoLostAnnounce")})


def mc_mut(ctx, cfg, expect_tag=None, expect_inv=None, timeout=900):
    """A design mutant (a seeded fault class written into the machine, not the behaviour of the tree) must be rejected by TLC with
    the expected obligation tag / invariant: shows that the design-level obligations are sensitive to that class."""
    ok, out = ctx.tlc_mc("MC_Announce", cfg, timeout=timeout, expect_ok=False, workers=MCW)
    if ok:
        raise vlib.MachineryError("design mutant %s was expected to violate the design obligations but passed" % cfg)
    if expect_tag and ('viol = "%s"' % expect_tag) not in out:
        raise vlib.MachineryError("design mutant %s failed, but not with %s:\n%s" % (cfg, expect_tag, out[-3000:]))
    if expect_inv and ("Invariant %s is violated" % expect_inv) not in out:
        raise vlib.MachineryError("design mutant %s failed, but not on invariant %s:\n%s" % (cfg, expect_inv, out[-3000:]))
    ctx.extra.setdefault("design_mutants_rejected", []).append({"cfg": cfg, "by": expect_tag or expect_inv})


# ----------------------------------------------------------------------------------------------------------- traces
def read_trace(path):
    L = vlib.read_ndjson(path)
    scs, cur = [], None
    for i, d in enumerate(L):
        if d["op"] == "Init":
            cur = {"name": d["sc"], "kind": d.get("kind", "?"), "init": d, "lines": [], "first": i + 1}
            scs.append(cur)
        elif cur is not None:
            cur["lines"].append((i + 1, d))
    return L, scs


def validate(ctx, path, chunk_lines=6000):
    """Run Trace_Announce over the file (scenario-aligned chunks); return [(global_pos, [tags])] and scenarios."""
    L, scs = read_trace(path)
    viols = []
    chunk, start = [], 0
    groups = []
    for s in scs:
        n = 1 + len(s["lines"])
        if chunk and len(chunk) + n > chunk_lines:
            groups.append((start, chunk))
            start += len(chunk)
            chunk = []
        chunk.extend(L[s["first"] - 1: s["first"] - 1 + n])
    if chunk:
        groups.append((start, chunk))
    for gi, (off, lines) in enumerate(groups):
        p = ctx.path("val%d.ndjson" % gi)
        vlib.write_ndjson(p, lines)
        nsc = sum(1 for d in lines if d["op"] == "Init")
        res = ctx.tlc_validate("Trace_Announce", p, ntraces=nsc, timeout=1500)
        if not res["ok"]:
            hw = res["hwm"]
            bad = lines[hw] if hw is not None and hw < len(lines) else None
            raise vlib.MachineryError("trace not explained by Trace_Announce at line %s (%s) — driver/spec mismatch, not a verdict\n%s"
                                      % (hw, json.dumps(bad)[:400], res["out"][-2500:]))
        for m in re.finditer(r'@@VIOL (\d+) ([A-Za-z0-9_.,]+)', res["out"]):
            viols.append((off + int(m.group(1)), m.group(2).split(",")))
    ctx.cov["traces_validated_against_impl"] = ctx.cov.get("traces_validated_against_impl", 0)
    return L, scs, viols


def scenario_of(scs, pos):
    for s in scs:
        if s["first"] <= pos <= s["first"] + len(s["lines"]):
            return s
    return None


def prev_ann(s, pos, k=None, t=None, periodic=True):
    """Previous announce line (same tracker / torrent) before global position pos in scenario s."""
    out = None
    for p, d in s["lines"]:
        if p >= pos:
            break
        if d["op"] == "ann" and (k is None or d["k"] == k) and (t is None or d["t"] == t) and (not periodic or d["ev"] != "stopped"):
            out = d
    return out


def brief(s, pos, n=14):
    """The scenario history up to pos (compact), for the replay file."""
    keep = ("op", "now", "k", "t", "ev", "res", "kind", "iv", "miv", "dur", "pid", "left", "down", "up", "tp", "case", "out", "what", "n", "v",
            "slot", "ok", "ks", "h", "same", "late", "answered", "after_ms", "status", "nmix", "nlost", "burst", "env", "cid")
    rows = [{k: d[k] for k in keep if k in d} for p, d in s["lines"] if p <= pos and d["op"] != "tick"]
    return {"scenario": s["name"], "kind": s["kind"], "cfg": {k: s["init"][k] for k in ("ann", "tor", "trk", "cmin", "unit", "bo", "lat", "slk", "meta")},
            "history_tail": rows[-n:]}


# ----------------------------------------------------------------------------------------------------------- signatures
def signature(tag, s, pos, d):
    init = s["init"]
    if tag == "C15.id.peerid":
        want = init["tor"][d["t"] - 1]["pid"] if 1 <= d.get("t", 0) <= len(init["tor"]) else ""
        got = d.get("pid", "")
        if len(got) == 40 and got[:32] == want[:32] and got[32:] == "00000000" and want[32:] != "00000000":
            diff = "last4zero"
        else:
            diff = "other"
        return "tag=%s transport=%s diff=%s key=%s" % (tag, d.get("tp"), diff, d.get("key") if d.get("tp") == "udp" else "n/a")
    if tag == "C15.gap":
        pv = prev_ann(s, pos, k=d["k"], t=d["t"])
        cls = "?"
        if pv is not None:
            cls = "nonpositive" if pv["iv"] <= 0 else "positive"
        return "tag=%s transport=%s prev_reply=ok prev_interval=%s" % (tag, d.get("tp"), cls)
    if tag in ("C15.cnt.leftdone", "C15.cnt.stats") and d.get("ev") == "stopped":
        tot = init["tor"][d["t"] - 1]["total"]
        return "tag=%s ev=stopped left=%s" % (tag, "total_length" if d["left"] == tot else "other")
    if tag == "C15.ev.stopped.member":
        a = [x for x in init["ann"] if d["k"] in x["ks"]]
        return "tag=%s tier_members=%d target=member_that_never_accepted" % (tag, len(a[0]["ks"]) if a else 0)
    if tag in ("C16.tier.next", "C16.tier.reach", "C16.tier.sticky"):
        a = [x for x in init["ann"] if d["k"] in x["ks"]]
        nm = len(a[0]["ks"]) if a else 0
        fails = 0       # failed announces since the Tier object exists: each one advances the stored index
        for p, x in s["lines"]:
            if p >= pos:
                break
            if x["op"] == "ann" and x["res"] != "ok":
                fails += 1
        pv = prev_ann(s, pos, t=d["t"])
        return "tag=%s members=%d after_full_cycle=%s repeats_member=%s" % (tag, nm, "yes" if fails >= nm else "no",
                                                                           "yes" if pv is not None and pv["k"] == d["k"] else "no")
    if tag == "C16.tier.conc":
        # tier-level history: the steps since the last "tnew" line
        hist, order = [], None
        for p, x in s["lines"]:
            if p > pos:
                break
            if x["op"] == "tnew":
                hist, order = [], x["ks"]
            elif x["op"] in ("tl", "tr"):
                hist.append(x)
        running = {}
        overlap_fail = False
        for x in hist[:-1]:
            if x["op"] == "tl":
                running[x["slot"]] = x["k"]
            else:
                k = running.pop(x["slot"], None)
                if not x["ok"] and k in running.values():
                    overlap_fail = True
        return "tag=%s members=%d overlapping_failures_on_one_member=%s" % (tag, len(order or []), "yes" if overlap_fail else "no")
    if tag.startswith("C15.id.retransmit"):
        return "tag=%s same_bytes=%s late=%s after_ms~%ds" % (tag, d.get("same"), d.get("late"), int(d.get("after_ms", 0)) // 1000)
    if tag == "C16.retry":
        last = None
        for p, x in s["lines"]:
            if p >= pos:
                break
            if x["op"] == "ann":
                last = x
        cause = "?"
        if s["kind"] == "udpshare":
            cause = "variant=%s" % init.get("meta", {}).get("variant")
        elif last is not None:
            cause = "last_outcome=%s" % ("foreign_context_canceled" if last.get("kind") == "C" else last.get("kind"))
        return "tag=%s kind=%s %s" % (tag, s["kind"], cause)
    if tag.startswith("C16.reply"):
        return "tag=%s transport=%s model=%s case=%s" % (tag, d.get("tp"), d.get("model"), d.get("case"))
    return "tag=%s kind=%s op=%s ev=%s transport=%s" % (tag, s["kind"], d.get("op"), d.get("ev"), d.get("tp"))


def report(ctx, L, scs, viols, prefix, max_per_sig=1):
    """Turn @@VIOL lines into ctx.violation calls (own property only); returns Counter of foreign tags."""
    foreign = collections.Counter()
    seen = collections.Counter()
    for pos, tags in viols:
        s = scenario_of(scs, pos)
        d = L[pos - 1]
        for tag in tags:
            if not tag.startswith(prefix + "."):
                foreign[tag] += 1
                continue
            sig = signature(tag, s, pos, d)
            seen[sig] += 1
            if seen[sig] > max_per_sig:
                continue
            what = "%s violated at event %d of scenario %s (%s): %s" % (
                tag, pos - s["first"], s["name"], s["kind"], json.dumps({k: d[k] for k in d if k not in ("ih", "sc")})[:300])
            ctx.violation(tag, sig, what, brief(s, pos))
    ctx.extra["violation_signatures"] = dict(seen)
    if foreign:
        ctx.extra["tags_of_the_sibling_property_seen"] = dict(foreign)
    return seen, foreign


def drop_failed(ctx, results, max_frac=0.34):
    bad = [r for r in results if r.get("err")]
    if bad:
        vlib.log("scenarios dropped for machinery reasons: %s" % [(r["name"], r["err"]) for r in bad][:8])
        ctx.extra["scenarios_dropped"] = [(r["name"], r["err"]) for r in bad]
    if len(bad) > max_frac * max(1, len(results)):
        raise vlib.MachineryError("too many scenarios failed for machinery reasons: %s" % bad[:5])


def selftest(ctx, path, mutate, expect_tag):
    """Binding demonstration: corrupt one recorded field and require the rejection."""
    L = vlib.read_ndjson(path)
    if not mutate(L):
        raise vlib.MachineryError("selftest: nothing to corrupt for %s" % expect_tag)
    p = ctx.path("selftest.ndjson")
    vlib.write_ndjson(p, L)
    _, _, viols = validate(ctx, p)
    tags = {t for _, ts in viols for t in ts}
    if expect_tag not in tags:
        raise vlib.MachineryError("selftest: corrupted trace was not rejected with %s (got %s)" % (expect_tag, sorted(tags)))
    vlib.log("selftest: corruption detected as %s" % expect_tag)
    ctx.extra.setdefault("selftest_detected", []).append(expect_tag)


# ----------------------------------------------------------------------------------------------------------- C15
def run(ctx):
    ctx.level = "model_checking"
    ctx.cov["rule"] = ("scenario = one real Session run (start/stop/complete/manual-announce schedule x per-tracker reply sequence x transport); "
                       "non-trivial if at least two announces reached a scripted tracker; distinct = distinct (kind, per-tracker sequence of "
                       "(event, reply class, interval, min interval)) histories")
    ctx.assumptions += [
        "announces are judged on what the scripted HTTP/UDP trackers receive (raw query / datagram decoded by the harness' own codec); "
        "the peer id is the one a scripted peer reads in the BT handshake of that torrent",
        SLACK_TEXT,
        "a tier counts as one logical tracker for 'first announce says started'; 'stopped' is judged per member",
        "counters: left is compared with the generated torrent's length and the driver's Stats() at a quiescent point before Stop; "
        "downloaded is bounded by what the scripted seeder served",
        "UDP retransmissions (same connection id / action / transaction id) are compared byte for byte with the first datagram of the "
        "transaction, and none may arrive for a transaction the tracker has answered - by data OR by an error packet (two torrents of the "
        "family get a plain-text / bencoded error packet for 'started', their retry is accepted with a 1800 s interval, the window covers "
        "the first retransmission time-out + 4.5 s); the 15 s BEP 15 retransmission timer is not configurable (a literal inside "
        "udpBackOff.NextBackOff, no variable a shim could shorten), so that family runs in real time in parallel with the others; Torrent.AddTracker is exercised in every torrent state (allocation / verification held by a storage gate)",
        "real time; scenarios run in parallel goroutines (they mostly sleep); the announce-storm scenarios run in a separate phase and are capped at 150 announces",
    ]
    # 2. implementation -> specification (driver started first: it runs while TLC works on step 1)
    drv = ctx.build_go("c15")
    n = ctx.pick(39, 806)     # multiples of 13: every scenario family (six AddTracker states, retransmission) is present
    # round 3 (not yet enabled by default: no full quiet run on the unchanged tree yet): family 14 `completefail` - the download
    # completes during the run and the announce carrying "completed" ends without an accepted reply; the retry carries no event
    cfail = bool(os.environ.get("VERIF_C15_COMPLETEFAIL"))
    fam = []
    if cfail:
        n = ctx.pick(42, 812)
        fam = ["-families", "14"]
    tp = ctx.path("c15.ndjson")
    join = start_driver(ctx, drv, ["-seed", str(ctx.seed), "-n", str(n), "-par", str(ctx.pick(10, 14)), "-out", tp, "-root", ctx.path("drv", "x")] + fam,
                        ctx.pick(400, 1500))
    # 1. design level: the announcer machine implies the obligations for every environment; the as-is transcription does not
    mc_all(ctx, [("pass", "MC_Announce_ev.cfg", {}),
                 ("asis", "MC_Announce_ev_asis.cfg", {"expect_tag": "C15.gap"}),
                 ("asis", "MC_Announce_stop_asis.cfg", {"expect_tag": "C15.ev.stopped.member"}),
                 # BEP 15 retransmission as an environment action of the machine: a transaction answered by an error packet is finished
                 ("mut", "MC_Announce_udp_mut_errkeep.cfg", {"expect_tag": "C15.id.retransmit.stale"})]
           # a "completed" that stays pending after a failed announce and is sent again by the retry
           + ([("mut", "MC_Announce_ev_mut_recomplete.cfg", {"expect_tag": "C15.ev.completed.twice"})] if cfail else []))
    results = join()
    drop_failed(ctx, results)
    L, scs, viols = validate(ctx, tp)
    vac = account(ctx, scs)
    report(ctx, L, scs, viols, "C15")
    if vac and not ctx.violations:
        raise vlib.MachineryError(vac)
    if getattr(ctx, "selftest", False):
        def m1(L):
            for d in L:
                if d["op"] == "ann" and d["ev"] == "started" and d.get("tp") == "http":
                    d["ev"] = "none"
                    return True
        selftest(ctx, tp, m1, "C15.ev.started")

        def m2(L):
            for d in L:
                if d["op"] == "ann" and d.get("tp") == "http":
                    d["port"] += 1
                    return True
        selftest(ctx, tp, m2, "C15.id.port")


def account(ctx, scs):
    """Measured coverage: cases, obligation evaluation counts, vacuity guards."""
    ob = collections.Counter()
    classes = collections.Counter()
    for s in scs:
        anns = [d for _, d in s["lines"] if d["op"] == "ann"]
        per = collections.defaultdict(list)
        for d in anns:
            per[d["k"]].append((d["ev"], d.get("kind"), d.get("iv"), d.get("miv"), d.get("tp")))
        key = (s["kind"], tuple(sorted((k, tuple(v)) for k, v in per.items())),
               tuple(d["op"] for _, d in s["lines"] if d["op"] in ("start", "stop", "complete", "need")))
        ctx.count_case(key, len(anns) >= 2)
        last = {}
        evs = {}
        first = set()
        for _, d in s["lines"]:
            if d["op"] in ("start", "stop", "complete"):
                evs = {}
            if d["op"] == "start":
                first = set()
            if d["op"] == "rtx":
                ob["C15.id.retransmit"] += 1
            if s["kind"] == "rtx" and d["op"] == "ann" and d.get("tp") == "udp" and d.get("kind") == "fail":
                ob["C15.id.retransmit.after_error_packet"] += 1     # transactions answered by an ERROR packet and watched for >= 15 s
            if d["op"] != "ann":
                continue
            ob["C15.id"] += 1
            ob["C15.cnt"] += 1
            classes["tp=%s" % d.get("tp")] += 1
            if d["ev"] == "stopped":
                ob["C15.ev.stopped"] += 1
                continue
            tier = tuple(sorted(next((a["ks"] for a in s["init"]["ann"] if d["k"] in a["ks"]), [d["k"]])))
            if (d["t"], tier) not in first:          # the first announce of this run to that (logical) tracker
                first.add((d["t"], tier))
                ob["C15.ev.started"] += 1
            if d["ev"] == "completed":
                ob["C15.ev.completed"] += 1
            k = (d["k"], d["t"])
            if k in last and evs.get(k) and last[k]["res"] == "ok":
                ob["C15.gap"] += 1
                classes["gap_after_iv=%s" % ("abs" if last[k].get("ivabs") else last[k]["iv"])] += 1
            last[k] = d
            evs[k] = True
            if d["res"] == "ok":
                classes["iv=%s miv=%s" % ("abs" if d.get("ivabs") else d["iv"], "abs" if d.get("mivabs") else d["miv"])] += 1
            else:
                classes["reply=%s" % d.get("kind")] += 1
        ob["C15.ev.completed"] += sum(1 for _, d in s["lines"] if d["op"] == "complete")   # runs in which a completion was observed
    for k, v in ob.items():
        ctx.oblig(k, v)
    ctx.extra["reply_and_transport_classes_seen"] = dict(classes)
    if scs:
        s = scs[0]
        ctx.sample({"scenario": s["name"], "kind": s["kind"], "first_events": [
            {k: d[k] for k in ("op", "now", "k", "ev", "res", "iv", "miv", "tp", "left") if k in d} for _, d in s["lines"][:8]]})
    if ctx.prop == "C15":
        need = ["C15.ev.started", "C15.ev.completed", "C15.ev.stopped", "C15.gap", "C15.id.retransmit", "C15.id.retransmit.after_error_packet"]
        miss = [x for x in need if ob[x] == 0]
        kinds = {s["kind"] for s in scs}
        miss += [k for k in ("addtracker-stopped", "addtracker-allocating", "addtracker-verifying", "addtracker-downloading",
                             "addtracker-seeding", "addtracker-stopping") if k not in kinds]
        if miss or classes["tp=udp"] == 0 or classes["tp=http"] == 0:
            return "vacuous run: obligations never exercised: %s (classes %s)" % (miss, dict(classes))
    return None
