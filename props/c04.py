"""C04 — lifecycle safety (spec/Lifecycle.tla + MC_Lifecycle.cfg, Trace_Lifecycle.tla; driver harness/life)."""
import json, os, random, re
import vlib, xfer_common as xc

LAYOUTS = ["single", "multi", "padmid", "empties"]


def S(**kw):
    return kw


def blocks_for(k):
    return 2 * k


def fixed_histories():
    """Deterministic base set: every gate point and every mutation kind at least once."""
    dl1 = [S(wait="downloading"), S(do="seed", n=1), S(do="blocks", n=2), S(wait="have>=1")]
    complete = [S(wait="running"), S(do="seed", n=1), S(do="free", n=1), S(wait="seeding", ms=8000), S(do="free", n=0)]
    stop = [S(do="stop"), S(do="checkstopped")]
    hs = []
    hs.append([S(do="start")] + complete + stop + [S(do="mutate", kind="corrupt", piece=0), S(do="verify"), S(do="checkstopped"), S(do="start")] + complete + [S(do="stats")])
    hs.append([S(do="start")] + complete + stop + [S(do="mutate", kind="deleteall"), S(do="start"), S(wait="running"), S(do="stats"), S(do="sleep", ms=100)])
    hs.append([S(do="start")] + complete + stop + [S(do="mutate", kind="deletesome"), S(do="start"), S(wait="running"), S(do="sleep", ms=100)])
    hs.append([S(do="start")] + dl1 + [S(do="gate", kind="stopping"), S(do="stop"), S(wait="stopping"), S(do="start"), S(do="sleep", ms=2900), S(do="release", kind="stopping")])
    hs.append([S(do="verify"), S(do="checkstopped")])
    hs.append([S(do="gate", kind="alloc"), S(do="start"), S(wait="gated:alloc"), S(do="stop"), S(do="release", kind="alloc"), S(do="checkstopped")])
    hs.append([S(do="start")] + [S(wait="downloading"), S(do="seed", n=1), S(do="gate", kind="write"), S(do="free", n=1), S(wait="gated:write"), S(do="stop"), S(wait="stopped"),
                                 S(do="start"), S(wait="running"), S(do="release", kind="write"), S(do="sleep", ms=200)])
    hs.append([S(do="start")] + dl1 + [S(do="verify"), S(do="checkstopped"), S(do="stats")])
    hs.append([S(do="start")] + complete + [S(do="verify"), S(do="checkstopped"), S(do="start"), S(wait="running"), S(do="sleep", ms=100)])
    hs.append([S(do="start"), S(do="stop"), S(do="start"), S(do="stop"), S(do="start"), S(do="stop"), S(do="checkstopped")])
    hs.append([S(do="start")] + dl1 + stop + [S(do="gate", kind="verify"), S(do="mutate", kind="truncate"), S(do="verify"), S(wait="gated:verify"), S(do="verify"), S(do="release", kind="verify"), S(do="checkstopped")])
    hs.append([S(do="start")] + dl1 + stop + [S(do="gate", kind="verify"), S(do="verify"), S(wait="gated:verify"), S(do="stop"), S(do="release", kind="verify"), S(do="checkstopped")])
    hs.append([S(do="announce"), S(do="addpeer"), S(do="addtracker", n=1), S(do="stats"), S(do="peers"), S(do="start"), S(do="announce"), S(do="addpeer"), S(do="addtracker", n=2),
               S(do="stats"), S(do="peers"), S(do="start")] + dl1 + [S(do="announce"), S(do="addtracker", n=3), S(do="stop"), S(do="announce"), S(do="addpeer"), S(do="stats"), S(do="checkstopped")])
    hs.append([S(do="start")] + complete + stop + [S(do="start"), S(wait="seeding"), S(do="stats")] + stop + [S(do="mutate", kind="corrupt", piece=1), S(do="start"), S(wait="running"), S(do="verify"), S(do="checkstopped")])
    hs.append([S(do="start")] + complete + stop + [S(do="mutate", kind="truncate"), S(do="verify"), S(do="checkstopped"), S(do="stats")])
    # the tracker answers 'stopped' only after TrackerStopTimeout: Stopped must still be reached, every time
    late = [S(do="gate", kind="stoptimeout"), S(do="start")] + dl1
    for _ in range(4):
        late += [S(do="stop"), S(do="checkstopped"), S(do="start"), S(wait="running")]
    hs.append(late + [S(do="verify"), S(do="checkstopped")])
    hs.append([S(do="gate", kind="stoptimeout"), S(do="start")] + complete + [S(do="verify"), S(do="checkstopped"), S(do="start"), S(wait="running"), S(do="stop"), S(do="checkstopped")])
    return hs


def extra_histories():
    """(layout, out, steps): round-3 classes. (a) Start while the torrent is Stopping on behalf of a Verify issued while it ran (the
    tracker has answered an announce, so Stopping lasts until the delayed 'stopped' answer / TrackerStopTimeout); (b) AddPeer with the
    address of a reachable seed while the torrent is Allocating / Verifying on a start (files partly missing): the peer connects
    before the bitfield is known."""
    dl1 = [S(wait="downloading"), S(do="seed", n=1), S(do="blocks", n=2), S(wait="have>=1")]
    stop = [S(do="stop"), S(do="checkstopped")]
    ex = []
    for gk, slp in (("stopping", 700), ("stoptimeout", 1500)):
        ex.append(("single", False, [S(do="start")] + dl1 + [S(do="gate", kind=gk), S(do="verify"), S(wait="stopping", ms=1000), S(do="start"), S(do="sleep", ms=slp),
                                                             S(do="release", kind=gk), S(do="sleep", ms=300)] + stop))
    ex.append(("multi", True, [S(do="start")] + dl1 + [S(do="gate", kind="stopping"), S(do="verify"), S(wait="stopping", ms=1000), S(do="start"), S(do="start"),
                                                       S(do="release", kind="stopping"), S(wait="stopped", ms=4000), S(do="stats")] + stop))   # ends with a stop: what the code makes of the Verify+Start pair is not judged (DESIGN 11.3)
    vp = [S(do="mutate", kind="deletesome"), S(do="gate", kind="verify"), S(do="start"), S(wait="gated:verify", ms=2500), S(do="addseed"), S(wait="peer", ms=2500),
          S(do="sleep", ms=150), S(do="release", kind="verify"), S(wait="downloading", ms=2500)]
    for lay in ("multi", "padmid", "empties"):
        ex.append((lay, False, [S(do="start")] + dl1 + stop + vp))
    ex.append(("multi", True, [S(do="start")] + dl1 + stop + vp + [S(do="stats")]))
    ap = [S(do="gate", kind="alloc"), S(do="start"), S(wait="gated:alloc", ms=2500), S(do="addseed"), S(wait="peer", ms=2500), S(do="sleep", ms=150),
          S(do="release", kind="alloc"), S(wait="downloading", ms=2500)]
    ex.append(("single", False, ap))
    ex.append(("multi", False, [S(do="start")] + dl1 + stop + [S(do="mutate", kind="deletesome")] + ap))
    return ex


def random_history(rng):
    steps = []
    st = "S"       # S stopped / R running (abstract expectation; the driver waits are best effort)
    progress = 0
    complete = False
    data = False
    n = rng.randint(3, 7)
    for _ in range(n):
        if st == "S":
            c = rng.choice(["start", "start", "start", "verify", "mutate", "allocstop", "misc", "stop", "startstart", "earlypeer"])
            if c == "start":
                steps += [S(do="start"), S(wait="running")]
                st = "R"
            elif c == "startstart":
                steps += [S(do="start"), S(do="start"), S(wait="running")]
                st = "R"
            elif c == "verify":
                steps += [S(do="verify"), S(do="checkstopped")]
            elif c == "mutate" and data:
                k = rng.choice(["corrupt", "truncate", "deletesome", "deleteall"])
                steps += [S(do="mutate", kind=k, piece=rng.randint(0, 2))]
                if k in ("corrupt", "truncate") and rng.random() < 0.6:
                    steps += [S(do="verify"), S(do="checkstopped")]
            elif c == "allocstop":
                steps += [S(do="gate", kind="alloc"), S(do=rng.choice(["start", "verify"])), S(wait="gated:alloc"), S(do=rng.choice(["stop", "stop", "verify", "start"])),
                          S(do="release", kind="alloc"), S(do="sleep", ms=150)]
                steps += [S(do="stop"), S(do="checkstopped")]
            elif c == "misc":
                steps += [S(do=rng.choice(["announce", "addpeer", "addtracker", "stats", "peers"]), n=rng.randint(1, 9))]
            elif c == "earlypeer":
                # the address of a reachable seed is added while the torrent is Allocating / Verifying (verification on a start needs
                # files partly missing: layouts with >= 2 data files, see run())
                g = "alloc"
                if data and rng.random() < 0.7:
                    steps += [S(do="mutate", kind="deletesome")]
                    g = rng.choice(["verify", "verify", "alloc"])
                    progress, complete = 0, False
                steps += [S(do="gate", kind=g), S(do="start"), S(wait="gated:" + g, ms=2000), S(do="addseed"), S(wait="peer", ms=2000), S(do="sleep", ms=100),
                          S(do="release", kind=g), S(wait="running")]
                st = "R"
            else:
                steps += [S(do="stop")]
        else:
            c = rng.choice(["progress", "complete", "stop", "stop", "verify", "stopstart", "writestop", "misc", "start", "latestop"])
            if c == "progress" and not complete:
                progress += 1
                steps += [S(wait="downloading"), S(do="seed", n=1), S(do="blocks", n=2), S(wait="have>=%d" % progress, ms=2500)]
                data = True
            elif c == "complete":
                steps += [S(wait="running"), S(do="seed", n=1), S(do="free", n=1), S(wait="seeding", ms=8000), S(do="free", n=0)]
                complete = data = True
            elif c == "stop":
                steps += [S(do="stop"), S(do="checkstopped")]
                st = "S"
            elif c == "verify":
                steps += [S(do="verify"), S(do="checkstopped")]
                st = "S"
            elif c == "stopstart":
                steps += [S(do="gate", kind="stopping"), S(do=rng.choice(["stop", "stop", "verify"])), S(wait="stopping", ms=1000), S(do=rng.choice(["start", "start", "verify", "stop"])),
                          S(do="sleep", ms=rng.choice([700, 2900])), S(do="release", kind="stopping"), S(do="sleep", ms=100)]
                steps += [S(do="stop"), S(do="checkstopped")]
                st = "S"
            elif c == "latestop":
                steps += [S(do="gate", kind="stoptimeout"), S(do=rng.choice(["stop", "stop", "verify"])), S(do="checkstopped"), S(do="release", kind="stoptimeout")]
                st = "S"
            elif c == "writestop" and not complete:
                steps += [S(wait="downloading"), S(do="seed", n=1), S(do="gate", kind="write"), S(do="free", n=1), S(wait="gated:write", ms=2500),
                          S(do=rng.choice(["stop", "verify"])), S(wait="stopped", ms=2500), S(do=rng.choice(["start", "release"]), kind="write"), S(do="sleep", ms=50),
                          S(do="release", kind="write"), S(do="free", n=0), S(do="sleep", ms=200), S(do="stop"), S(do="checkstopped")]
                data = True
                st = "S"
            elif c == "misc":
                steps += [S(do=rng.choice(["announce", "addpeer", "addtracker", "stats", "peers"]), n=rng.randint(1, 9))]
            else:
                steps += [S(do="start")]
    return steps


stacks = {}


def project(raw_path, crashed):
    per = {}
    for e in vlib.read_ndjson(raw_path) if os.path.exists(raw_path) else []:
        per.setdefault(e.get("tr"), []).append(e)
    out = {}
    for sid, evs in per.items():
        evs.sort(key=lambda e: e["seq"])
        # the tracer's history id is process-global: goroutines of the previous history of this child (closing session, scripted
        # seeders) may still emit a line after the id has changed and before this history's "init" line; they are not part of it
        while evs and evs[0]["ev"] != "init":
            evs.pop(0)
        if not evs:
            continue
        a = [{"ev": "init", "plen": evs[0]["plen"], "stopTimeoutMs": evs[0]["stopTimeoutMs"], "sid": sid}]
        good_of = lambda cls: [i for i, c in enumerate(cls) if c == "good"]
        for e in evs[1:]:
            k, t = e["ev"], e["t_ms"]
            if k == "cmd":
                a.append({"ev": "call" if e["phase"] == "call" else "ret", "op": e["op"], "t": t})
            elif k == "snap":
                a.append({"ev": "snap", "t": t, "status": e["status"], "have": e["have"], "peers": e["peers"], "downloads": e["downloads"],
                          "files": e["filesOpen"], "doVerify": bool(e["doVerify"]), "lastErr": e["lastErr"]})
            elif k == "sto" and e["op"] == "write" and e["phase"] == "exit":
                for p, g in zip(e.get("piece") or [], e.get("pgood") or []):
                    a.append({"ev": "w", "p": p, "pgood": bool(g)})
            elif k == "mut":
                a.append({"ev": "mut", "kind": e["kind"], "good": good_of(e["class"]), "t": t})
            elif k == "stoppedobs":
                a.append({"ev": "stoppedobs", "handles": e["handles"], "good": good_of(e["class"]), "t": t})
            elif k == "final":
                x = {"ev": "final", "phase": e["phase"], "t": t, "good": good_of(e["class"])}
                if e["phase"] == "end":
                    x["ok"], x["filesOK"] = bool(e["ok"]), bool(e["filesOK"])
                a.append(x)
            elif k == "stats":
                a.append({"ev": "stats", "have": e["have"], "missing": e["missing"], "total": e["total"], "completed": e["completed"],
                          "incomplete": e["incomplete"], "btotal": e["btotal"]})
            elif k == "proc":
                a.append({"ev": "proc", "what": e["what"], "site": e.get("site", "")})
                if e.get("stacks"):
                    stacks[sid] = e["stacks"]
        ended = evs[-1]["ev"] == "end"
        if sid in crashed:
            a.append({"ev": "proc", "what": "crash", "site": crashed[sid]})
        elif not ended and not any(x["ev"] == "proc" for x in a):
            continue
        out[sid] = a
    return out


def early_peers(evs):
    """histories in which a peer was connected while the torrent was Allocating / Verifying on a start (not a Verify command)"""
    return 1 if any(e["ev"] == "snap" and e["status"] in ("Allocating", "Verifying") and e["peers"] > 0 and not e["doVerify"] for e in evs) else 0


def start_in_verify_stop(evs):
    """histories in which a Start call was open while a snapshot showed Stopping with a verification request pending"""
    last, open_call = None, False
    for e in evs:
        if e["ev"] == "snap":
            last = e
        elif e["op" if "op" in e else "ev"] == "start":
            open_call = e["ev"] == "call"
        if (open_call or (e["ev"] == "ret" and e["op"] == "start")) and last and last["status"] == "Stopping" and last["doVerify"]:
            return 1        # (the snapshot may also follow the "call" line: both are written by different goroutines)
    return 0


def history_class(h):
    """abstract history string used in violation signatures (commands, gates and mutations in order)."""
    parts = []
    for s in h["steps"]:
        d = s.get("do")
        if d in ("start", "stop", "verify", "addseed"):
            parts.append(d)
        elif d == "mutate":
            parts.append("mut:" + s["kind"])
        elif d == "gate":
            parts.append("gate:" + s["kind"])
        elif d == "free" and s.get("n"):
            parts.append("dl")
        elif d == "blocks":
            parts.append("dl1")
    return ";".join(parts)


def run(ctx):
    ctx.level = "model_checking"
    ctx.cov["rule"] = ("lifecycle histories = sequences of user commands (start/stop/verify/announce/add peer/add tracker/stats) interleaved with external file "
                       "mutations at stopped points (corrupt/truncate/delete some/delete all) and with allocation / verification / piece-write / stop-announce "
                       "completions held back by gates, each followed by a convergence phase with an honest seed; non-trivial = contains a gate or a "
                       "mutation or >= 3 state-changing commands; distinct = distinct abstract history strings")
    ctx.assumptions += ["bounded-time response obligations: Stopped within TrackerStopTimeout+2.5 s, start effective within 4 s, verification of a <= 6-piece torrent ends within 8 s",
                        "crash containment: histories run in child processes; a panic of the client is a crash event of that history"]
    ctx.tlc_mc("Lifecycle", "MC_Lifecycle.cfg", timeout=900)
    if not ctx.quick():
        ctx.tlc_mc("Lifecycle", "MC_Lifecycle_big.cfg", timeout=2400)
    drv = ctx.build_go("life")
    rng = random.Random(ctx.seed)
    hs = []
    for i, steps in enumerate(fixed_histories()):
        hs.append({"id": i + 1, "layout": LAYOUTS[i % len(LAYOUTS)], "unit": 16384, "seed": 1000 + i, "steps": steps})
    # outgoing-connection variants of two fixed histories (stop with an undialled address waiting)
    dl1 = [S(wait="downloading"), S(do="seed", n=1), S(do="blocks", n=2), S(wait="have>=1")]
    for k in range(2):
        hs.append({"id": len(hs) + 1, "layout": "single", "unit": 16384, "seed": 2000 + k, "out": True,
                   "steps": [S(do="start")] + dl1 + [S(do="stop"), S(do="checkstopped"), S(do="sleep", ms=300), S(do="stats"), S(do="start")] + dl1 + [S(do="stop"), S(do="checkstopped"), S(do="sleep", ms=300), S(do="stats")]})
    for lay, out, steps in extra_histories():
        hs.append({"id": len(hs) + 1, "layout": lay, "unit": 16384, "seed": 3000 + len(hs), "out": out, "steps": steps})
    nrand = ctx.pick(70, 900)
    for i in range(nrand):
        hs.append({"id": len(hs) + 1, "layout": rng.choice(LAYOUTS), "unit": 16384, "seed": rng.randrange(1, 1 << 30), "steps": random_history(rng),
                   "out": rng.random() < 0.3})
        if hs[-1]["layout"] == "single" and any(s.get("do") == "addseed" for s in hs[-1]["steps"]):
            hs[-1]["layout"] = "multi"      # deleting "some" files of a single-file torrent deletes all of them: no verification on start
    by_id = {h["id"]: h for h in hs}
    raws, crashed = xc.run_scenarios(ctx, drv, hs, nproc=ctx.pick(8, 12), per_timeout=60, flag="-histories")
    crash_site = {c["id"]: (c["panic"] or "exit %s" % c["rc"]) for c in crashed}
    abstract = {}
    for rp in raws:
        abstract.update(project(rp, crash_site))
    for sid, evs in abstract.items():
        hc = history_class(by_id[sid])
        ctx.count_case(hc, ("gate:" in hc or "mut:" in hc or hc.count(";") >= 2))
        ctx.oblig("C04.L2/L3(snap)", sum(1 for e in evs if e["ev"] == "snap"))
        ctx.oblig("C04.L5(ret)", sum(1 for e in evs if e["ev"] == "ret"))
        ctx.oblig("C04.L6(final)", sum(1 for e in evs if e["ev"] == "final" and e["phase"] == "end"))
        ctx.oblig("C04.L3(handles)", sum(1 for e in evs if e["ev"] == "stoppedobs"))
        ctx.oblig("C04.L5.addpeer(early peer)", early_peers(evs))
        ctx.oblig("C04.L1(start while stopping for verify)", start_in_verify_stop(evs))
    ctx.extra["histories_run"] = len(hs)
    ctx.extra["histories_judged"] = len(abstract)
    ctx.extra["histories_crashed"] = [{"id": c["id"], "panic": c["panic"], "history": history_class(c["scenario"])} for c in crashed]
    if abstract:
        k = sorted(abstract)[0]
        ctx.sample({"history": by_id[k], "abstract_trace_prefix": abstract[k][:14]})
    ctx.extra["histories_without_trace"] = [{"id": h["id"], "history": history_class(h)} for h in hs if h["id"] not in abstract][:40]
    if len(abstract) < 0.8 * len(hs):
        raise vlib.MachineryError("only %d of %d histories produced a trace: %s" % (len(abstract), len(hs), ctx.extra["histories_without_trace"][:12]))
    order = sorted(abstract)
    cur = ctx.path("abs.ndjson")
    index = []
    with open(cur, "w") as fh:
        for sid in order:
            for e in abstract[sid]:
                fh.write(json.dumps(e, separators=(",", ":")) + "\n")
            index.append((sid, len(abstract[sid])))
    res = ctx.tlc_validate("Trace_Lifecycle", cur, ntraces=len(order), timeout=1800)
    if res["hwm"] is not None and not res["ok"]:
        raise vlib.MachineryError("Trace_Lifecycle could not explain line %s:\n%s" % (res["hwm"], res["out"][-2500:]))
    cands = []
    seen = set()
    for tag, line in res["viols"]:
        n = 0
        for sid, ln in index:
            if n + ln >= line:
                break
            n += ln
        pos = line - n
        if (sid, tag) in seen:
            continue
        seen.add((sid, tag))
        cands.append((sid, tag, pos))
    # time-based obligations are re-executed once in isolation (no sibling processes) before they are reported
    timing = [c for c in cands if c[1].startswith(("C04.L5", "C04.L1.hang", "C04.L6"))]
    confirmed = set()
    # up to three isolated re-executions: a defect that needs a coin flip of the scheduler (e.g. a select with two ready cases)
    # reproduces in one of them with high probability; a stall of the machine during the first run does not
    for attempt in range(3):
        todo = sorted({c[0] for c in timing if (c[0], c[1]) not in confirmed})
        if not todo:
            break
        redo = [by_id[sid] for sid in todo]
        raws2, crashed2 = xc.run_scenarios(ctx, drv, redo, nproc=1, per_timeout=90, flag="-histories")
        cs2 = {c["id"]: (c["panic"] or "exit %s" % c["rc"]) for c in crashed2}
        ab2 = {}
        for rp in raws2:
            ab2.update(project(rp, cs2))
        if ab2:
            order2 = sorted(ab2)
            cur2 = ctx.path("abs2-%d.ndjson" % attempt)
            idx2 = []
            with open(cur2, "w") as fh:
                for sid in order2:
                    for e in ab2[sid]:
                        fh.write(json.dumps(e, separators=(",", ":")) + "\n")
                    idx2.append((sid, len(ab2[sid])))
            res2 = ctx.tlc_validate("Trace_Lifecycle", cur2, ntraces=len(order2), timeout=900)
            for tag, line in res2["viols"]:
                n = 0
                for sid, ln in idx2:
                    if n + ln >= line:
                        break
                    n += ln
                confirmed.add((sid, tag))
    unrep = []
    for sid, tag, pos in cands:
        ev = abstract[sid][pos - 1]
        h = by_id[sid]
        hc = history_class(h)
        if (sid, tag, pos) in timing and (sid, tag) not in confirmed:
            unrep.append({"id": sid, "tag": tag, "history": hc})
            continue
        site = ev.get("site", "") if ev["ev"] == "proc" else ""
        site = re.sub(r"0x[0-9a-f]+|\d{3,}", "N", site)[:120]
        sig = "tag=%s site=%s history=%s" % (tag, site, hc)
        ctx.violation(tag, sig, "lifecycle history violates %s at %s" % (tag, json.dumps(ev)[:200]),
                      {"history": h, "abstract_trace": abstract[sid][:pos], "stacks": stacks.get(sid)})
    ctx.extra["unreproduced_timing_candidates"] = unrep
