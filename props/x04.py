"""X04 — request pipeline of a piece download (spec/PieceDl.tla, MC_PieceDl, MC_PieceDlAlg, MC_PieceDlGen, Trace_PieceDl,
Trace_PieceDlWire; driver harness/x04).

Specification-coverage extension (not one of the 20 listed properties; not in MANIFEST.json).
1. design level: the envelope's per-call obligations imply the global forms (queue bound, no duplicate outstanding request,
   stored => not outstanding, choke voids) for every interleaving of {request, block arrival incl. late / unrequested /
   duplicate, reject, choke, unchoke, snub, cancel, disconnect} and are jointly satisfiable (MC_PieceDl*); no stuck state
   and completion under fairness of delivery (MC_PieceDl_live*); the loop's discipline stalls when every outstanding
   request is rejected while the peer does not choke / for an allowed-fast download (MC_PieceDl_rejstall*: expected
   counterexamples); the algorithm of piecedownloader.go against the envelope (MC_PieceDlAlg: as-is predicted to fail
   X04.g.fill / X04.g.stuck / X04.c.cancel with late blocks and X04.c / X04.a with rejects that are not outstanding; the
   repaired algorithm passes everywhere, incl. liveness).
2. implementation -> specification: histories (TLC simulation of MC_PieceDlGen + seeded random, classes honest / sloppy /
   hostile) are replayed into the real PieceDownloader with a stub peer; Trace_PieceDl judges every call in one TLC pass
   (requests / cancels sent, results, Done(), buffer content block by block).
3. end to end: a real torrent.Session leeches from a scripted peer (harness/vh wire codec) that chokes with requests in
   flight, delivers late, rejects, serves an allowed-fast piece; the request / cancel / piece / reject / choke / unchoke
   messages seen by the peer are judged by Trace_PieceDlWire (X04.a / b / c / f on the wire, completion = X04.g).
"""
import json, os, re
import vlib

PRED_LATE = {"X04.g.fill", "X04.g.stuck", "X04.c.cancel"}
PRED_REJ = {"X04.c", "X04.a", "X04.g.fill", "X04.g.stuck", "X04.c.cancel"}


def run(ctx):
    ctx.level = "model_checking"
    ctx.cov["rule"] = ("histories of one piece download from one peer: RequestBlocks / GotBlock / Rejected / Choked / unchoke / "
                       "CancelPending / disconnect in the torrent loop's discipline; non-trivial = contains a choke with requests "
                       "outstanding or a reject or a block that is not outstanding; distinct = distinct sequences of "
                       "(call, arguments, messages sent, result)")
    ctx.assumptions += ["API level: the peer is a stub implementing piecedownloader.Peer (records RequestPiece / CancelPiece); the real "
                        "peer.Peer methods are SendMessage wrappers (internal/peer/peer.go) exercised by the end-to-end family only",
                        "the driver does the calls of the loop's handlers (torrent_messagehandler.go) itself at API level; the discipline "
                        "itself is judged on the wire in the end-to-end family",
                        "rain has no reduced queue for a snubbed peer and a request timeout does not re-request: X04.a is checked with "
                        "the configured queue length in every state (snub is a no-op for the pipeline)"]
    if not os.environ.get("VERIF_SKIP_MC"):       # development knob (mutation runs change the implementation only)
        design_level(ctx)
    implementation(ctx)
    if not os.environ.get("VERIF_SKIP_E2E"):
        end_to_end(ctx)


def last_av(out):
    m = re.findall(r'av = \{([^}]*)\}', out)
    return set(m[-1].replace('"', "").replace(" ", "").split(",")) - {""} if m else set()


def expect_fail(ctx, module, cfg, what, timeout=600):
    ok, out = ctx.tlc_mc(module, cfg, timeout=timeout, expect_ok=False, workers=4)
    if ok or not re.search(what, out):
        raise vlib.MachineryError("%s/%s: expected a counterexample (%s), got ok=%s\n%s" % (module, cfg, what, ok, out[-1500:]))
    return out


def design_level(ctx):
    for c in ("MC_PieceDl.cfg", "MC_PieceDl_fast.cfg", "MC_PieceDl_af.cfg"):
        ctx.tlc_mc("MC_PieceDl", c, timeout=600, workers=4)
    ctx.tlc_mc("MC_PieceDl", "MC_PieceDl_live.cfg", timeout=600, workers=4)
    # the loop's discipline: rejects do not trigger RequestBlocks, unchoke is ignored for an allowed-fast download
    expect_fail(ctx, "MC_PieceDl", "MC_PieceDl_rejstall.cfg", "Invariant InvNoStuck is violated")
    expect_fail(ctx, "MC_PieceDl", "MC_PieceDl_rejstall_af.cfg", "Invariant InvNoStuck is violated")
    # the algorithm of the code against the envelope
    out = expect_fail(ctx, "MC_PieceDlAlg", "MC_PieceDlAlg_asis.cfg", "Invariant AInvConf is violated")
    pred = last_av(out)
    if not pred or not pred <= PRED_LATE:
        raise vlib.MachineryError("MC_PieceDlAlg_asis: counterexample with unexpected tags %s" % pred)
    out = expect_fail(ctx, "MC_PieceDlAlg", "MC_PieceDlAlg_asis_rej.cfg", "Invariant AInvConf is violated")
    pred2 = last_av(out)
    if not pred2 or not pred2 <= PRED_REJ:
        raise vlib.MachineryError("MC_PieceDlAlg_asis_rej: counterexample with unexpected tags %s" % pred2)
    ctx.extra["design_level_prediction_asis"] = {"late_blocks": sorted(pred), "reject_not_outstanding": sorted(pred2)}
    for c in ("MC_PieceDlAlg_asis_known.cfg", "MC_PieceDlAlg_fixed.cfg", "MC_PieceDlAlg_fixed_fast.cfg", "MC_PieceDlAlg_fixed_live.cfg"):
        ctx.tlc_mc("MC_PieceDlAlg", c, timeout=600, workers=4)
    if not ctx.quick():
        for c in ("MC_PieceDl_fastany.cfg", "MC_PieceDl_pad.cfg", "MC_PieceDl_afany.cfg", "MC_PieceDl_5.cfg", "MC_PieceDl_live_fast.cfg", "MC_PieceDl_live_af.cfg"):
            ctx.tlc_mc("MC_PieceDl", c, timeout=900, workers=4)
        expect_fail(ctx, "MC_PieceDl", "MC_PieceDl_live_rejout.cfg", r"Temporal propert(y|ies) .*violated")
        for c in ("MC_PieceDlAlg_asis_honest.cfg", "MC_PieceDlAlg_asis_honest_fast.cfg", "MC_PieceDlAlg_asis_honest_af.cfg", "MC_PieceDlAlg_fixed_af.cfg", "MC_PieceDlAlg_fixed_pad.cfg",
                  "MC_PieceDlAlg_fixed_5.cfg", "MC_PieceDlAlg_fixed_live_fast.cfg", "MC_PieceDlAlg_asis_live_honest.cfg",
                  "MC_PieceDlAlg_asis_rej_known.cfg"):
            ctx.tlc_mc("MC_PieceDlAlg", c, timeout=1500, workers=6)
        expect_fail(ctx, "MC_PieceDlAlg", "MC_PieceDlAlg_asis_live.cfg", r"Temporal propert(y|ies) .*violated")


def implementation(ctx):
    items = []
    for cfg, n in (("MC_PieceDlGen.cfg", ctx.pick(120, 900)), ("MC_PieceDlGen_honest.cfg", ctx.pick(120, 900))):
        it, _ = ctx.tlc_gen("MC_PieceDlGen", cfg, simulate=n, depth=60, timeout=900)
        items += it
    if len(items) < ctx.pick(200, 1500):
        raise vlib.MachineryError("MC_PieceDlGen produced only %d histories" % len(items))
    sp = ctx.path("scripts.ndjson")
    vlib.write_ndjson(sp, items)
    ctx.extra["tlc_generated_histories"] = len(items)
    drv = ctx.build_go("x04")
    tp = ctx.path("trace.ndjson")
    r = ctx.run_drv(drv, ["-seed", str(ctx.seed), "-scripts", sp, "-n", str(ctx.pick(500, 6000)), "-ops", str(ctx.pick(60, 90)),
                          "-out", tp])
    ctx.extra["driver"] = json.loads(r.stdout.strip().splitlines()[-1])
    judge(ctx, tp)


def split(path):
    traces, cur = [], []
    for line in open(path):
        e = json.loads(line)
        if e["op"] == "Init":
            if cur:
                traces.append(cur)
            cur = []
        cur.append(e)
    if cur:
        traces.append(cur)
    return traces


class Shadow:
    """Wire view of one history in Python: for the evidence counters and the cause analysis of a violation only
    (the verdicts are TLC's)."""

    def __init__(self, ini):
        self.ini = ini
        self.bt = [tuple(x) for x in ini["bt"]]
        self.out = {}
        self.have = set()
        self.chokd = ini["chokd"]
        self.requeued = set()      # stored while not outstanding, or rejected after they were stored
        self.rej_not_out = set()   # rejected while not outstanding and not stored
        self.ever_req = set()
        self.cnt = {}

    def c(self, k, n=1):
        self.cnt[k] = self.cnt.get(k, 0) + n

    def idof(self, b, n):
        return self.bt.index((b, n)) if (b, n) in self.bt else -1

    def step(self, e):
        op = e["op"]
        total = sum(self.out.values())
        if op == "Request":
            self.c("req_calls")
            if len(self.have) < len(self.bt):
                self.c("g_calls_missing")
            if self.have:
                self.c("b_have_calls")
            for r in e["reqs"]:
                x = self.idof(r["b"], r["n"])
                self.c("requests")
                if x >= 0:
                    if x in self.ever_req:
                        self.c("rerequests")
                    if self.bt[x][1] != self.ini["bs"]:
                        self.c("short_block_requests")
                    self.ever_req.add(x)
                    self.out[x] = self.out.get(x, 0) + 1
            if e["reqs"] and total + len(e["reqs"]) == e["q"]:
                self.c("a_bound_reached")
        elif op == "Block":
            x = self.idof(e["b"], e["n"])
            # class of the delivery as the wire history says (not as the code answered)
            self.c("block_" + ("invalid" if x < 0 else "dup" if x in self.have else "ok" if self.out.get(x, 0) > 0 else "notreq"))
            if x >= 0:
                if x not in self.have and self.out.get(x, 0) == 0:
                    self.requeued.add(x)
                    if self.chokd:
                        self.c("late_block_while_choked")
                if self.out.get(x, 0) > 0:
                    self.out[x] -= 1
                self.have.add(x)
            if len(self.have) == len(self.bt):
                self.c("completed")
        elif op == "Reject":
            x = self.idof(e["b"], e["n"])
            self.c("rejects")
            if x >= 0:
                if self.out.get(x, 0) > 0:
                    self.out[x] -= 1
                    self.c("rejects_outstanding")
                elif x in self.have:
                    self.requeued.add(x)
                else:
                    self.rej_not_out.add(x)
            else:
                self.c("rejects_invalid")
        elif op == "Choke":
            self.chokd = True
            if total > 0:
                if self.ini["fast"] or self.ini["af"]:
                    self.c("f_choke_fast_outstanding")
                else:
                    self.c("f_choke_nofast_outstanding")
            if not (self.ini["fast"] or self.ini["af"]):
                self.out = {}
        elif op == "Unchoke":
            self.chokd = False
        elif op == "Cancel":
            self.c("cancel_calls")
            if e["cans"]:
                self.c("cancels_nonempty")


def _wire(self, e):
    """One event of the end-to-end wire history (harness/x04/e2e.go), mapped onto the API-level shadow."""
    op = e["op"]
    mine = e["i"] == self.ini["idx"]
    if op == "rxreq":
        self.step({"op": "Request", "q": self.ini["q"], "reqs": [{"b": e["b"], "n": e["n"]}] if mine else []})
    elif op == "txpiece" and mine:
        x = self.idof(e["b"], e["n"])
        res = "invalid" if x < 0 else "dup" if x in self.have else "ok" if self.out.get(x, 0) > 0 else "notreq"
        self.step({"op": "Block", "b": e["b"], "n": e["n"], "res": res, "done": False})
    elif op == "txreject" and mine:
        self.step({"op": "Reject", "b": e["b"], "n": e["n"]})
    elif op == "txchoke":
        self.step({"op": "Choke"})
    elif op == "txunchoke":
        self.step({"op": "Unchoke"})
    elif op == "rxcancel":
        x = self.idof(e["b"], e["n"]) if mine else -1
        self.c("wire_cancels")
        if x >= 0 and self.out.get(x, 0) > 0:
            self.out[x] -= 1
    elif op == "cancelbar":
        self.c("wire_cancelbars")
    elif op == "bar":
        self.c("bars")
    elif op == "end":
        self.c("ends")
        if e["complete"]:
            self.c("ends_complete")
        if e.get("wasted", 0) > 0:
            self.c("ends_wasted")


Shadow.wire = _wire


def judge(ctx, tp):
    traces = split(tp)
    index, n = [], 0
    tot = {}
    for t in traces:
        index.append((n, t))
        n += len(t)
        sh = Shadow(t[0])
        for e in t[1:]:
            if e["op"] != "Panic":
                sh.step(e)
        for k, v in sh.cnt.items():
            tot[k] = tot.get(k, 0) + v
        key = tuple((e["op"], e.get("q"), e.get("b"), e.get("n"), e.get("res"), tuple((m["b"], m["n"]) for m in e.get("reqs", ())),
                     tuple((m["b"], m["n"]) for m in e.get("cans", ()))) for e in t[1:]) + (t[0]["fast"], t[0]["af"], str(t[0]["secs"]))
        nontriv = any(k in sh.cnt for k in ("f_choke_nofast_outstanding", "f_choke_fast_outstanding", "rejects", "block_notreq", "block_dup"))
        ctx.count_case(key, nontriv)
    ctx.sample({"trace_prefix": traces[0][:8]})
    g = lambda k: tot.get(k, 0)
    ctx.oblig("X04.a", g("req_calls"))
    ctx.oblig("X04.a.bound_reached", g("a_bound_reached"))
    ctx.oblig("X04.b.geom", g("requests"))
    ctx.oblig("X04.b.geom.short_block", g("short_block_requests"))
    ctx.oblig("X04.b.have", g("b_have_calls"))
    ctx.oblig("X04.c", g("rerequests"))
    ctx.oblig("X04.c.cancel", g("cancels_nonempty"))
    ctx.oblig("X04.d.ok", g("block_ok"))
    ctx.oblig("X04.d.notreq", g("block_notreq"))
    ctx.oblig("X04.d.dup", g("block_dup"))
    ctx.oblig("X04.d.invalid", g("block_invalid"))
    ctx.oblig("X04.e.done", g("completed"))
    ctx.oblig("X04.e.buf", n - len(traces))
    ctx.oblig("X04.f.choke_nofast", g("f_choke_nofast_outstanding"))
    ctx.oblig("X04.f.choke_fast", g("f_choke_fast_outstanding"))
    ctx.oblig("X04.f.rejres", g("rejects"))
    ctx.oblig("X04.f.rejres.invalid", g("rejects_invalid"))
    ctx.oblig("X04.g.fill", g("g_calls_missing"))
    vac = [k for k, v in ctx.obligation_counts.items() if k.startswith("X04.") and v == 0]
    res = ctx.tlc_validate("Trace_PieceDl", tp, ntraces=len(traces), timeout=1800)
    if not res["ok"] and res["hwm"] is not None:
        raise vlib.MachineryError("Trace_PieceDl could not explain line %s (driver/spec mismatch, not a verdict):\n%s"
                                  % (res["hwm"], res["out"][-2500:]))
    report(ctx, res, index, "api")
    if vac and not ctx.violations:      # (a violating implementation may end every history early)
        raise vlib.MachineryError("vacuous obligations (never exercised by the recorded histories): %s" % vac)
    if getattr(ctx, "selftest", False):
        selftest(ctx, traces)


def report(ctx, res, index, fam):
    seen, nrep, tags = set(), 0, {}
    for tag, line in res["viols"]:
        tags[tag] = tags.get(tag, 0) + 1
        if tag.startswith("X04.machinery"):
            raise vlib.MachineryError("%s at line %d of the %s trace file" % (tag, line, fam))
        i = max(k for k, (off, _) in enumerate(index) if off < line)
        off, t = index[i]
        pos = line - off
        sig = signature(tag, t, pos, fam)
        if sig in seen:
            continue
        seen.add(sig)
        if nrep >= 12:
            continue
        if ctx.violation(tag, sig, "%s: %s violated at event %d of a recorded history: %s"
                         % (fam, tag, pos, json.dumps(t[pos - 1])[:300]), {"trace": t[:pos]}):
            nrep += 1
    ctx.extra["violated_tags_by_count_" + fam] = tags


def signature(tag, t, pos, fam="api"):
    """Class of the violating call: kind of peer, call, and the cause analysis for the two known defect classes."""
    ini = t[0]
    sh = Shadow(ini)
    for e in t[1:pos - 1]:
        if fam == "e2e":
            sh.wire(e)
        elif e["op"] != "Panic":
            sh.step(e)
    e = t[pos - 1]
    cause = "-"
    if fam == "e2e" and tag in ("X04.c", "X04.a") and e["op"] == "rxreq":
        if sh.idof(e["b"], e["n"]) in sh.rej_not_out:
            cause = "reject-not-outstanding"
    elif tag == "X04.g.live" and not sh.requeued and ini["af"] and sh.cnt.get("rejects", 0) > 0 and not any(sh.out.values()):
        # every request of an allowed-fast download was rejected; the later unchoke does not make the loop ask again
        cause = "af-requests-rejected"
    elif tag in ("X04.g.fill", "X04.g.stuck", "X04.c.cancel", "X04.g.live") and sh.requeued:
        # a block that was stored while it was still queued for a (re-)request: late after a choke of a peer without
        # fast extension, never requested, or rejected after it had arrived
        cause = "stored-block-requeued"
    elif tag in ("X04.g.fill", "X04.g.stuck", "X04.c.cancel", "X04.g.live") and \
            any(x in sh.have or sh.out.get(x, 0) > 0 for x in sh.rej_not_out):
        # a reject for a request that was not outstanding queued the block a second time; the first copy has been
        # requested (and stored) since, the second copy takes a queue slot without a request
        cause = "reject-not-outstanding"
    elif tag in ("X04.c", "X04.a") and e["op"] == "Request":
        dup = [sh.idof(r["b"], r["n"]) for r in e["reqs"]]
        if any(x in sh.rej_not_out for x in dup):
            cause = "reject-not-outstanding"
    return "tag=%s fam=%s op=%s fast=%d af=%d cause=%s" % (tag, fam, e["op"], ini["fast"], ini["af"], cause)


def selftest(ctx, traces):
    """Binding demonstration: corrupt one recorded field and require the rejection."""
    done = set()
    for t in traces:
        for k, e in enumerate(t):
            if "buf" not in done and e["op"] == "Block" and e["res"] == "ok":
                bad = [dict(x) for x in t[:k + 1]]
                bad[k]["buf"] = list(bad[k]["buf"])
                x = [i for i, (b, n) in enumerate(t[0]["bt"]) if b == e["b"]][0]
                bad[k]["buf"][x] = e["tag"] % 250 + 1
                check_rejected(ctx, bad, "X04.e.buf", "a changed buffer byte value")
                done.add("buf")
            if "req" not in done and e["op"] == "Request" and len(e["reqs"]) >= 2:
                bad = [dict(x) for x in t[:k + 1]]
                bad[k]["reqs"] = bad[k]["reqs"][1:]
                check_rejected(ctx, bad, "X04.g.fill", "a dropped request")
                bad = [dict(x) for x in t[:k + 1]]
                bad[k]["reqs"] = bad[k]["reqs"] + bad[k]["reqs"][:1]
                check_rejected(ctx, bad, "X04.c", "a doubled request")
                done.add("req")
            if "res" not in done and e["op"] == "Block" and e["res"] == "dup":
                bad = [dict(x) for x in t[:k + 1]]
                bad[k]["res"] = "ok"
                check_rejected(ctx, bad, "X04.d.accept", "a duplicate reported as accepted")
                done.add("res")
            if len(done) == 3:
                return
    raise vlib.MachineryError("selftest: no suitable events found (%s)" % sorted(done))


def check_rejected(ctx, bad, tag, what):
    p = ctx.path("selftest.ndjson")
    vlib.write_ndjson(p, bad)
    res = ctx.tlc_validate("Trace_PieceDl", p, ntraces=0)
    if not any(tg == tag for tg, _ in res["viols"]):
        raise vlib.MachineryError("selftest: %s was not rejected as %s (got %s)" % (what, tag, res["viols"]))
    print("selftest ok: %s rejected as %s" % (what, tag), flush=True)


def end_to_end(ctx):
    drv = ctx.build_go("x04")
    tp = ctx.path("e2e.ndjson")
    nscn = ctx.pick(14, 90)
    r = ctx.run_drv(drv, ["-e2e", "-seed", str(ctx.seed), "-n", str(nscn), "-out", tp], timeout=1500)
    info = json.loads(r.stdout.strip().splitlines()[-1])
    ctx.extra["e2e_driver"] = info
    if info.get("machinery"):
        raise vlib.MachineryError("e2e driver: %s" % info["machinery"][:3])
    traces = split(tp)
    index, n, tot = [], 0, {}
    for t in traces:
        index.append((n, t))
        n += len(t)
        sh = Shadow(t[0])
        for e in t[1:]:
            sh.wire(e)
        for k, v in sh.cnt.items():
            tot[k] = tot.get(k, 0) + v
        key = tuple((e["op"], e["i"], e["b"], e["n"]) for e in t[1:]) + (t[0]["fast"], t[0]["af"], t[0]["q"])
        ctx.count_case(("e2e",) + key, any(k in sh.cnt for k in ("f_choke_nofast_outstanding", "f_choke_fast_outstanding", "rejects",
                                                              "block_notreq", "block_dup")))
    g = lambda k: tot.get(k, 0)
    ctx.oblig("X04.wire.a", g("requests"))
    ctx.oblig("X04.wire.a.bound_reached", g("a_bound_reached"))
    ctx.oblig("X04.wire.c.rerequest", g("rerequests"))
    ctx.oblig("X04.wire.c.cancel", g("wire_cancels"))
    ctx.oblig("X04.wire.d.bytes", g("ends"))
    ctx.oblig("X04.wire.d.bytes.wasted", g("ends_wasted"))
    ctx.oblig("X04.wire.f.choke_nofast", g("f_choke_nofast_outstanding"))
    ctx.oblig("X04.wire.f.choke_fast", g("f_choke_fast_outstanding"))
    ctx.oblig("X04.wire.f.late_block", g("late_block_while_choked"))
    ctx.oblig("X04.wire.f.reject", g("rejects_outstanding"))
    ctx.oblig("X04.wire.g.fill", g("bars"))
    ctx.oblig("X04.wire.g.live", g("ends_complete"))
    vac = [k for k, v in ctx.obligation_counts.items() if k.startswith("X04.wire.") and v == 0]
    res = ctx.tlc_validate("Trace_PieceDlWire", tp, ntraces=len(traces), timeout=1800)
    if not res["ok"] and res["hwm"] is not None:
        raise vlib.MachineryError("Trace_PieceDlWire could not explain line %s (driver/spec mismatch, not a verdict):\n%s"
                                  % (res["hwm"], res["out"][-2500:]))
    report(ctx, res, index, "e2e")
    if vac and not ctx.violations:
        raise vlib.MachineryError("vacuous wire obligations: %s" % vac)
    if getattr(ctx, "selftest", False):
        for t in traces:
            ks = [k for k, e in enumerate(t) if e["op"] == "rxreq"]
            if len(ks) >= 2 and t[0]["first"]:
                bad = [dict(x) for x in t[:ks[1] + 1]]
                bad[ks[1]]["b"] = bad[ks[0]]["b"]
                p = ctx.path("selftest_wire.ndjson")
                vlib.write_ndjson(p, bad)
                r2 = ctx.tlc_validate("Trace_PieceDlWire", p, ntraces=0)
                if not any(tg == "X04.c" for tg, _ in r2["viols"]):
                    raise vlib.MachineryError("selftest: a repeated request on the wire was not rejected as X04.c (%s)" % r2["viols"])
                print("selftest ok: a repeated request on the wire rejected as X04.c", flush=True)
                break
