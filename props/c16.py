"""C16 — tracker tier fail-over cycles for ever; every announce that ends without a reply is retried; tracker replies cannot
crash the client.  Same module as C15 (spec/Announce.tla, Trace_Announce); driver harness/c16 (real tracker.Tier +
PeriodicalAnnouncer over scripted members, real Sessions sharing one UDP tracker, reply fuzz of the real tracker clients in
child processes)."""
import collections, json
import vlib
import c15 as base


def run(ctx):
    ctx.level = "model_checking"
    ctx.cov["rule"] = ("scenario = (tier size, per-member answer pattern, event schedule) at announcer level, (start/stop order of two torrents "
                       "sharing a UDP connect) at session level, one reply byte string / datagram sequence per fuzz case; non-trivial if "
                       "a fail-over, a retry or a reply decision was observed; distinct = distinct (kind, per-member outcome sequence) / fuzz case")
    ctx.assumptions += [
        "announcer-level scenarios drive the REAL tracker.Tier and PeriodicalAnnouncer; tier members are scripted tracker.Tracker values or the "
        "real HTTP/UDP tracker clients against scripted servers; the announcer's back-off constants (a struct field, 5 s initial) are replaced "
        "through an overlay shim by 300 ms (multiplier 1) so that >= 3 full cycles fit into seconds; the retry/fail-over logic is untouched",
        "session-level scenarios use the real back-off (2.5-7.5 s after the first failure)",
        "C16.retry deadlines: end of the announce + upper end of the back-off (initial*2^(n-1)*1.5) + scripted latency + 4 s slack + twice the "
        "scheduling stall the driver measured during the scenario; the design-level statement is the TLC liveness property Live",
        "a UDP announce that is never answered does not end (the client retransmits for ever, there is no overall timeout), so it is outside "
        "'every announce that ends without a reply' and is not scripted in judged scenarios",
        "the tier order is learned from the trace (NewTier shuffles): the successor of a member is fixed by its first strict fail-over",
        "tier-level concurrent histories: every linearised history of 2 (thorough: also 3) concurrent callers of the REAL tracker.Tier up to a "
        "fixed depth, made deterministic by a rendezvous inside the scripted members; C16.tier.conc is the compare-and-swap pointer discipline "
        "(advance by one when an announce that used the current member fails), judged step by step",
        "UDP burst family: 2..32 announces with distinct info-hashes through ONE transport/socket, held by the tracker and answered back-to-back "
        "(with duplicates, in other order), each reply with content derived from its info-hash; a second wave is answered one by one with "
        "duplicates right behind each reply",
        "UDP connection ids: every scripted BEP 15 tracker answers its connect requests with ids from a class sequence (0, 1, all ones, sign "
        "bit, the protocol magic, half-zero words, hashed 64-bit values; the next class at every connect); the udpconn family (real UDP "
        "clients as tier members, mixed ok / error-packet / garbage answers, 300 ms back-off) and the latejoin variant of the sharing family "
        "(second torrent starts on the live connection, both re-announce on it) put several announces on ONE live connection for every class; "
        "C16.retry.hang: a call into a real tracker client whose scripted server answers at once ends within scripted latency (+ the HTTP "
        "client's time-out) + slack - a single UDP datagram lost on loopback would be misread as a hang (not seen so far)",
        "reply fuzz: fixed tables of malformed HTTP bodies / UDP datagram sequences plus seeded random mutations; 'read beyond the limit' is judged "
        "by the bytes the scripted server could push (limit + 12 MiB of kernel buffering); IPv6 literals in dictionary-model replies are counted, not judged",
    ]
    # 2. implementation -> specification (driver started first: it runs while TLC works on step 1)
    drv = ctx.build_go("c16")
    tp = ctx.path("c16.ndjson")
    args = ["-seed", str(ctx.seed), "-out", tp, "-root", ctx.path("drv", "x"), "-par", str(ctx.pick(14, 16)),
            "-tcdepth", str(ctx.pick(7, 9)), "-tcdepth3", str(ctx.pick(0, 7)),
            "-ntier", str(ctx.pick(27, 162)), "-nshare", str(ctx.pick(4, 12)), "-nconn", str(ctx.pick(8, 32)),
            "-nsess", str(ctx.pick(0, 6)), "-nfuzz", str(ctx.pick(60, 1500))]
    # TLC as generator: every ok/fail answer pattern of length L over the announces of a tier (replayed for 2 and 3 members)
    pats, _ = ctx.tlc_gen("MC_AnnounceGen", ctx.pick("MC_AnnounceGen_5.cfg", "MC_AnnounceGen_8.cfg"))
    if len(pats) != ctx.pick(32, 256):
        raise vlib.MachineryError("generator produced %d patterns" % len(pats))
    gp = ctx.path("gpats.ndjson")
    vlib.write_ndjson(gp, pats)
    args += ["-gpats", gp]
    ctx.extra["tlc_generated_patterns"] = len(pats)
    join = base.start_driver(ctx, drv, args, ctx.pick(400, 1500))
    # 1. design level
    jobs = [("pass", "MC_Announce_tier2.cfg", {}),
            ("asis", "MC_Announce_tier2_asis.cfg", {"expect_tag": ["C16.tier.next", "C16.tier.conc"]}),
            ("asis", "MC_Announce_conc_asis.cfg", {"expect_tag": ["C16.tier.conc", "C16.tier.next", "C16.tier.sticky"]}),
            ("pass", "MC_Announce_udp.cfg", {}),
            ("asis", "MC_Announce_udp_asis.cfg", {"expect_live": True}),
            # the tracker picks the connection id (0 included): a request waits for a connection only while the connect is under way
            ("mut", "MC_Announce_udp_mut_connid0.cfg", {"expect_inv": "NoParked"})]
    if not ctx.quick():
        jobs += [("pass", "MC_Announce_tier.cfg", {"timeout": 2400}), ("pass", "MC_Announce_udp_mid.cfg", {"timeout": 2400}),
                 ("pass", "MC_Announce_udp_cid.cfg", {"timeout": 2400}),      # two connection ids (0 and another), connections expire
                 ("asis", "MC_Announce_tier_asis.cfg", {"expect_tag": ["C16.tier.next", "C16.tier.conc"]})]
    base.mc_all(ctx, jobs)
    results = join()
    base.drop_failed(ctx, results, max_frac=0.2)
    if any(x["kind"] == "fuzz" and x.get("err") for x in results):
        raise vlib.MachineryError("reply fuzz did not produce results: %s" % [x for x in results if x["kind"] == "fuzz"])
    L, scs, viols = base.validate(ctx, tp)
    vac = account(ctx, scs)
    base.report(ctx, L, scs, viols, "C16")
    if vac and not ctx.violations:
        raise vlib.MachineryError(vac)
    if getattr(ctx, "selftest", False):
        def m1(L):
            for d in L:
                if d["op"] == "fz" and d["out"] == "err":
                    d["out"] = "crash"
                    return True
        base.selftest(ctx, tp, m1, "C16.reply.crash")


def account(ctx, scs):
    ob = collections.Counter()
    cls = collections.Counter()
    for s in scs:
        anns = [d for _, d in s["lines"] if d["op"] == "ann" and d["ev"] != "stopped"]
        fz = [d for _, d in s["lines"] if d["op"] == "fz"]
        if s["kind"] == "tierconc":
            hist = []
            for _, d in s["lines"] + [(0, {"op": "tnew"})]:
                if d["op"] == "tnew":
                    if hist:
                        ctx.count_case(("tc",) + tuple(hist), True)
                        running, ovf = {}, False
                        for op, slot, x in hist[1:]:
                            if op == "tl":
                                running[slot] = x
                            else:
                                k = running.pop(slot, None)
                                ovf = ovf or (not x and k in running.values())
                        cls["tierconc_histories"] += 1
                        cls["tierconc_with_overlapping_failures_on_one_member"] += ovf
                    hist = [("new", 0, tuple(d.get("ks", [])))]
                elif d["op"] == "tl":
                    hist.append(("tl", d["slot"], d["k"]))
                    ob["C16.tier.conc"] += 1
                elif d["op"] == "tr":
                    hist.append(("tr", d["slot"], d["ok"]))
            continue
        if fz:
            for d in fz:
                ctx.count_case(("fz", d["tp"], d["case"]), True)
                ob["C16.reply"] += 1
                cls["fz_%s_%s" % (d["tp"], d["out"])] += 1
                if d.get("ip6"):
                    cls["fz_ipv6_literal_passed"] += 1
                if d["tp"] == "udpburst":
                    ob["C16.reply.burst"] += 2 * d["burst"]
            continue
        ob["C16.retry.hang"] += sum(1 for _, d in s["lines"] if d["op"] == "cret")
        cids = [d["cid"] for _, d in s["lines"] if d["op"] == "note" and d.get("what") == "connect-request"]
        for c in cids:
            cls["connection_id=%s" % c] += 1
        if s["kind"] == "udpshare":
            cls["share_variant=%s" % s["init"].get("meta", {}).get("variant")] += 1
        udpk = {i + 1 for i, x in enumerate(s["init"]["trk"]) if x["udp"]}
        per = collections.Counter(d["k"] for d in anns if d["k"] in udpk)
        if "zero" in cids[:1] and per and max(per.values()) >= 2:
            cls["announces_on_live_connection_with_id_0"] += max(per.values()) - 1
        key = (s["kind"], tuple((d["k"], d["ev"], d["res"]) for d in anns))
        fo = sum(1 for a, b in zip(anns, anns[1:]) if a["res"] != "ok")
        ctx.count_case(key, fo > 0 or s["kind"] == "udpshare")
        ob["C16.tier.next"] += fo
        ob["C16.tier.sticky"] += sum(1 for a, b in zip(anns, anns[1:]) if a["res"] == "ok")
        ob["C16.retry"] += sum(1 for a in anns if a["res"] not in ("ok",)) + sum(1 for _, d in s["lines"] if d["op"] == "start")
        nm = max(len(a["ks"]) for a in s["init"]["ann"])
        cls["kind=%s" % s["kind"]] += 1
        cls["tier_size=%d" % nm] += 1
        nfail = sum(1 for a in anns if a["res"] != "ok")
        if nm > 1 and nfail >= 3 * nm:
            cls["three_full_cycles_of_failures"] += 1
    for k, v in ob.items():
        ctx.oblig(k, v)
    ctx.extra["classes_seen"] = dict(cls)
    for s in scs:
        if s["kind"] not in ("fuzz",):
            ctx.sample({"scenario": s["name"], "kind": s["kind"], "pats": s["init"].get("meta", {}).get("pats"),
                        "announces": [(d["now"], d["k"], d["ev"], d["res"]) for _, d in s["lines"] if d["op"] == "ann"][:12]})
            break
    if (ob["C16.reply"] == 0 or ob["C16.tier.next"] == 0 or cls["kind=udpshare"] == 0 or cls["three_full_cycles_of_failures"] == 0
            or ob["C16.reply.burst"] == 0 or cls["tierconc_with_overlapping_failures_on_one_member"] == 0 or cls["kind=overlap"] == 0
            or cls["kind=udpconn"] == 0 or cls["share_variant=latejoin"] == 0 or ob["C16.retry.hang"] == 0
            or cls["announces_on_live_connection_with_id_0"] == 0):
        return "vacuous run: %s %s" % (dict(ob), dict(cls))
    return None
