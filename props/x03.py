"""X03 — connection establishment and admission of a torrent (specification-coverage extension, not in MANIFEST).

spec/Connect.tla (design: one action per handler of the torrent loop that touches the connection bookkeeping),
MC_Connect*.cfg (exhaustive: small universes of scripted remote sides x every interleaving, stop/complete/ban at any
point; *_asis_*.cfg = the two deviations of the code as it is, each must yield the counterexample of its obligation),
Trace_Connect.tla (judge), driver harness/x03 (real torrent.Session + scripted peers/listeners), shim
harness/shim/torrent/zz_verif_x03.go (complete connection state on the loop goroutine).

Obligation tags: X03.balance.* X03.uniq.* X03.refuse.* X03.admit.* X03.stop.* X03.timeout.* X03.live.* and the
session-level part of C17: C17.conn.accept / C17.conn.dial / C17.conn.closed.in / C17.conn.closed.out
(`conn_subcheck(ctx)` runs everything and can be attached to C17 as a sub-check).

Development aids: X03_SKIP_MC=1 skips the design-level runs (they do not depend on /repo); X03_ONLY=fam1,fam2 restricts
the scenario families; X03_N=n overrides the number of random scenarios.
"""
import json, os, random, re
import vlib, xfer_common as xc

CT, HT = 400, 600          # PeerConnectTimeout / PeerHandshakeTimeout of the scenarios (ms)
BAD_IN = ["silent", "half", "garbage", "wronghash", "ownid"]
OUT_CLS = ["good", "silent", "close", "late", "wronghash", "ownid", "refuse", "blackhole", "half"]
# the socket reports of a "check" point depend on the scripted side having noticed the close (a goroutine woken by EOF): under load
# that can lag behind the quiescence test, so these tags are re-run in isolation too (a real leak reproduces every time)
TIMING = ("X03.timeout.", "X03.live.", "X03.hang", "C17.conn.closed", "X03.stop.socket")
IP_POOL = [4, 5, 16, 17, 20, 21, 64, 65, 68, 69, 80, 81, 84, 85]


def S(do, **kw):
    kw["do"] = do
    return kw


class Gen:
    """Builds one scenario; hands out fresh socket keys, address keys, IPs and peer ids."""

    def __init__(self, fam, **cfg):
        self.fam = fam
        self.cfg = dict(maxAccept=2, maxDial=2, noEnc=False, ctMs=CT, htMs=HT)
        self.cfg.update(cfg)
        self.steps = []
        self.k = self.a = 0
        self.ip = 1
        self.idn = 0

    def key(self):
        self.k += 1
        return self.k

    def akey(self):
        self.a += 1
        return self.a

    def newip(self):
        # the address queue keys addresses by BEP 40 priority; against a client address 0.0.0.0 the last byte is masked
        # with 0x55, so 127.0.0.5 and 127.0.0.7 replace each other. Fresh IPs are taken from a collision-free pool
        # first (2 and 3 collide with nothing else in the pool but with each other's class only through 0x55: 2->0, 3->1).
        self.ip += 1
        if self.ip - 2 < len(IP_POOL):
            return IP_POOL[self.ip - 2]
        return 170 + (self.ip - 2 - len(IP_POOL)) % 80

    def newid(self):
        self.idn += 1
        return self.idn

    def add(self, *st):
        self.steps += list(st)
        return self

    def inn(self, cls, ip=None, id=None, **kw):
        ip = ip or self.newip()
        id = id or self.newid()
        self.add(S("in", key=self.key(), ip=ip, cls=cls, id=id, **kw))
        return ip, id

    def listen(self, cls, ip=None, id=None):
        ip = ip or self.newip()
        id = id or self.newid()
        a = self.akey()
        self.add(S("listen", key=a, ip=ip, cls=cls, id=id))
        return a, ip, id

    def done(self):
        d = dict(self.cfg)
        d["fam"] = self.fam
        d["steps"] = self.steps
        return d


def fixed_scenarios():
    out = []
    # F1: every kind of incoming handshake that must fail; its slot and its IP are free again afterwards
    for cls in BAD_IN:
        g = Gen("in-" + cls)
        g.add(S("start"))
        g.inn("good", expect=True)
        ip, _ = g.inn(cls)
        g.add(S("settle"))
        g.inn("good", ip=ip, expect=True)
        g.add(S("check"), S("stop"), S("check"))
        out.append(g.done())
    # F1b: as F1 with the accept cap at 1: the failed handshake must free the only slot
    for cls in ["silent", "wronghash"]:
        g = Gen("in1-" + cls, maxAccept=1)
        g.add(S("start"))
        ip, _ = g.inn(cls)
        g.inn("good")            # over the cap while the first one is handshaking: refused
        g.add(S("check"), S("settle"))
        g.inn("good", expect=True)
        g.add(S("check"), S("stop"), S("check"))
        out.append(g.done())
    # F2: duplicate peer id from a second IP; F3: second connection from a connected IP
    g = Gen("dupid", maxAccept=3)
    g.add(S("start"))
    _, id1 = g.inn("good", expect=True)
    ip3, _ = g.inn("good", id=id1)
    g.add(S("settle"))
    g.inn("good", ip=ip3, expect=True)
    g.add(S("check"), S("stop"), S("check"))
    out.append(g.done())
    g = Gen("dupip", maxAccept=3)
    g.add(S("start"))
    ip2, _ = g.inn("good", expect=True)
    g.inn("good", ip=ip2)
    g.inn("silent", ip=ip2)
    g.add(S("settle"))
    g.add(S("closepeers", n=1), S("sleep", ms=150))
    g.inn("good", ip=ip2, expect=True)
    g.add(S("check"), S("stop"), S("check"))
    out.append(g.done())
    # F4: floods beyond the accept cap
    for cls, cap in [("good", 2), ("silent", 2), ("good", 1), ("half", 3)]:
        g = Gen("flood-" + cls, maxAccept=cap)
        g.add(S("start"))
        g.add(S("flood", key=100, ip=100, cls=cls, id=100, n=cap + 3))
        g.k, g.idn = 200, 200
        g.add(S("check"), S("settle"))
        if cls == "good":
            g.add(S("closepeers", n=1), S("sleep", ms=150))
        g.inn("good", expect=True)
        g.add(S("flood", key=300, ip=120, cls="good", id=300, n=cap + 2))
        g.add(S("settle"), S("stop"), S("check"))
        out.append(g.done())
    # F5: every kind of dialled address; the dial slot is free again afterwards
    for cls in OUT_CLS:
        for noenc in ([False, True] if cls in ("good", "silent", "late", "close", "blackhole") else [False]):
            g = Gen("out-" + cls + ("-noenc" if noenc else ""), maxDial=1, noEnc=noenc)
            g.add(S("start"))
            a, ip, _ = g.listen(cls)
            g.add(S("addpeer", keys=[a]), S("settle"))
            if cls == "good":
                g.add(S("closeout", key=a), S("sleep", ms=150))
            a2, _, _ = g.listen("good")
            g.add(S("addpeer", keys=[a2], expect=True), S("check"), S("stop"), S("check"))
            out.append(g.done())
    # F6: duplicates across directions
    g = Gen("out-dupid", maxDial=2)
    g.add(S("start"))
    _, id1 = g.inn("good", expect=True)
    a, ip, _ = g.listen("good", id=id1)
    g.add(S("addpeer", keys=[a]), S("settle"))
    g.inn("good", ip=ip, expect=True)       # the address's IP must be free again
    g.add(S("check"), S("stop"), S("check"))
    out.append(g.done())
    g = Gen("out-dupip", maxDial=2)
    g.add(S("start"))
    ip2, _ = g.inn("good", expect=True)
    a, _, _ = g.listen("good", ip=ip2)
    a2, _, _ = g.listen("good", ip=ip2)
    g.add(S("addpeer", keys=[a, a2]), S("settle"), S("closepeers", n=1), S("sleep", ms=150))
    a3, _, _ = g.listen("good", ip=ip2)
    g.add(S("addpeer", keys=[a3], expect=True), S("check"), S("stop"), S("check"))
    out.append(g.done())
    # F7: more addresses than dial slots, mixed outcomes
    for cap in (1, 2):
        g = Gen("dialcap%d" % cap, maxDial=cap)
        g.add(S("start"))
        ks = [g.listen(c)[0] for c in ["silent", "good", "wronghash", "good", "refuse", "good"]]
        g.add(S("addpeer", keys=ks, nowait=True), S("settle"), S("stop"), S("check"))
        out.append(g.done())
    # F8: stop while handshaking (both directions), start again: nothing may be remembered
    for what in ["in-silent", "in-half", "out-silent", "out-blackhole", "out-late", "both"]:
        g = Gen("stop-" + what, maxDial=2)
        g.add(S("start"))
        ips = []
        if what.startswith("in-") or what == "both":
            ips.append(g.inn(what[3:] if what != "both" else "silent", nowait=True)[0])
        oip = None
        if what.startswith("out-") or what == "both":
            a, oip, _ = g.listen(what[4:] if what != "both" else "silent")
            g.add(S("addpeer", keys=[a], nowait=True))
        g.add(S("sleep", ms=60), S("stop"), S("check"), S("start"))
        for ip in ips:
            g.inn("good", ip=ip, expect=True)
        if oip:
            g.inn("good", ip=oip, expect=True)
        g.add(S("check"), S("stop"), S("check"))
        out.append(g.done())
    # F8b: Stop must not wait for the remote side of a handshake (long handshake time limit, silent remote sides)
    for what in ["in-silent", "in-half", "out-silent", "out-blackhole"]:
        g = Gen("stopprompt-" + what, htMs=3000, ctMs=3000)
        g.add(S("start"))
        if what.startswith("in-"):
            g.inn(what[3:], nowait=True)
        else:
            a, _, _ = g.listen(what[4:])
            g.add(S("addpeer", keys=[a], nowait=True))
        g.add(S("sleep", ms=150), S("stop", expect=True), S("check"))
        out.append(g.done())
    # F9: the download completes while an outgoing handshake is in progress
    for pending in ["silent", "none", "blackhole"]:
        g = Gen("complete-" + pending, maxDial=2, maxAccept=3)
        g.add(S("start"))
        g.add(S("seed", key=g.key(), ip=g.newip(), id=g.newid()))
        oip = None
        if pending != "none":
            a, oip, _ = g.listen(pending)
            g.add(S("addpeer", keys=[a]), S("sleep", ms=40))
        g.add(S("complete"), S("settle"))
        if oip:
            g.inn("good", ip=oip, expect=True)
        g.inn("good", expect=True)
        g.add(S("check"), S("stop"), S("check"))
        out.append(g.done())
    # F10: a banned IP is neither accepted nor dialled
    g = Gen("ban", maxDial=2, maxAccept=3)
    g.add(S("start"))
    lip = g.newip()
    g.add(S("liar", key=g.key(), ip=lip, id=g.newid()))
    g.add(S("check"))
    g.inn("good", ip=lip)
    a, _, _ = g.listen("good", ip=lip)
    a2, _, _ = g.listen("good")
    g.add(S("addpeer", keys=[a, a2]), S("settle"), S("stop"), S("check"))
    out.append(g.done())
    return out


def random_scenario(rng, n):
    g = Gen("random", maxAccept=rng.choice([1, 2, 2, 3]), maxDial=rng.choice([1, 2, 2, 3]), noEnc=rng.random() < 0.4)
    g.add(S("start"))
    running = True
    used_ips = []
    for _ in range(n):
        c = rng.random()
        if not running:
            if rng.random() < 0.3:
                g.inn("good")        # the listener is closed: the connection attempt is refused by the kernel
            g.add(S("start"))
            running = True
            continue
        if c < 0.30:
            ip = rng.choice(used_ips) if used_ips and rng.random() < 0.35 else None
            cls = rng.choice(BAD_IN + ["good", "good", "good", "goodclose"])
            idd = rng.choice([None, None, 1, 2])
            ip, _ = g.inn(cls, ip=ip, id=idd, nowait=rng.random() < 0.5, ms=rng.choice([0, 0, 30]))
            used_ips.append(ip)
        elif c < 0.55:
            ks = []
            for _ in range(rng.choice([1, 1, 2, 3])):
                ip = rng.choice(used_ips) if used_ips and rng.random() < 0.3 else None
                a, ip, _ = g.listen(rng.choice(OUT_CLS + ["good", "good"]), ip=ip, id=rng.choice([None, None, 1, 2]))
                used_ips.append(ip)
                ks.append(a)
            g.add(S("addpeer", keys=ks, nowait=rng.random() < 0.6))
        elif c < 0.63:
            n = rng.randint(2, 5)
            k0 = g.k + 1
            g.k += n
            g.add(S("flood", key=k0, ip=100 + rng.randrange(0, 60), cls=rng.choice(["good", "silent", "half"]), id=1000 + k0, n=n))
        elif c < 0.71:
            g.add(S("closepeers", n=rng.randint(1, 2)))
        elif c < 0.80:
            g.add(S("sleep", ms=rng.choice([20, 80, 300, 700])))
        elif c < 0.88:
            g.add(S("settle"))
            if rng.random() < 0.7:
                g.inn("good", expect=True)
        elif c < 0.93:
            g.add(S("check"))
        else:
            g.add(S("stop", nowait=rng.random() < 0.3), S("check"))
            running = False
    if running:
        g.add(S("settle"), S("stop"))
    g.add(S("check"))
    return g.done()


# ----------------------------------------------------------------------------------------------- projection

def ipn(addr):
    host, _, port = addr.rpartition(":")
    return int(host.rsplit(".", 1)[1]), int(port)


def project(raw_path, crashed):
    """raw driver trace -> {scenario id: (abstract events, info)}"""
    per = {}
    for e in vlib.read_ndjson(raw_path) if os.path.exists(raw_path) else []:
        per.setdefault(e.get("tr"), []).append(e)
    out = {}
    for sid, evs in per.items():
        evs.sort(key=lambda e: e["seq"])
        # the tracer's scenario id is process-global: leftovers of the previous scenario of this child may precede "init"
        while evs and evs[0]["ev"] != "init":
            evs.pop(0)
        if not evs:
            continue
        ended = evs[-1]["ev"] == "end"
        if not ended and sid not in crashed and not any(e["ev"] == "proc" for e in evs):
            continue
        inport, outport, pidmap, cls = {}, {}, {}, {}
        for e in evs:
            if e["ev"] == "conn" and e.get("dir") == "in":
                inport[(e["ip"], e["lport"])] = e["key"]
            elif e["ev"] == "script":
                cls[(e["dir"], e["key"])] = e["cls"]
                if e["dir"] == "out":
                    outport[(e["ip"], e["port"])] = e["key"]
                if e["id"] > 0:
                    pidmap[e["pid"]] = e["id"]
        ini = evs[0]
        a = [{"ev": "init", "sid": sid, "maxAccept": ini["maxAccept"], "maxDial": ini["maxDial"], "blocked": ini["blocked"],
              "inLimit": ini["inLimit"], "outLimit": ini["outLimit"], "slack": ini["slack"]}]
        born, nsnap, stale, unknown = {}, 0, 0, []
        own_seen = [None]

        def conn_in(addr):
            ip, port = ipn(addr)
            k = inport.get((ip, port))
            if k is None:
                unknown.append(addr)
                k = -port
            return ip, k

        def conn_out(addr):
            ip, port = ipn(addr)
            k = outport.get((ip, port))
            if k is None:
                unknown.append(addr)
                k = -port
            return ip, k

        for e in evs[1:]:
            k, t = e["ev"], e["t_ms"]
            if k == "script":
                a.append({"ev": "script", "dir": e["dir"], "ip": e["ip"], "key": e["key"], "ok": bool(e["ok"]), "id": e["id"]})
            elif k == "addpeer":
                a.append({"ev": "addpeer", "addrs": e["addrs"]})
            elif k == "snap":
                nsnap += 1
                own = e["ownID"]
                own_seen[0] = own
                pid = lambda h: 0 if h == own else pidmap.get(h, 99)
                live = set()
                ins, outs = [], []
                for h in e["inHS"]:
                    live.add(h["ptr"])
                    born.setdefault(h["ptr"], t)
                    ins.append(list(conn_in(h["addr"])) + [born[h["ptr"]]])
                for h in e["outHS"]:
                    live.add(h["ptr"])
                    born.setdefault(h["ptr"], t)
                    outs.append(list(conn_out(h["addr"])) + [born[h["ptr"]]])
                for p in list(born):
                    if p not in live:
                        del born[p]
                peers = []
                for p in e["peers"]:
                    d = "in" if p["incoming"] else "out"
                    ip, key = conn_in(p["addr"]) if p["incoming"] else conn_out(p["addr"])
                    peers.append({"dir": d, "ip": ip, "key": key, "id": pid(p["id"])})
                a.append({"ev": "snap", "t": t, "run": e["status"] not in ("Stopped", "Stopping"), "acc": bool(e["acc"]), "completed": bool(e["completed"]),
                          "queue": [list(conn_out(x)) for x in e["queue"]], "outHS": outs, "inHS": ins, "peers": peers,
                          "connIPs": sorted(ipn(x + ":0")[0] for x in e["connIPs"]), "peerIDs": sorted(pid(x) for x in e["peerIDs"]),
                          "banned": sorted(ipn(x + ":0")[0] for x in e["banned"]), "nIn": e["nIn"], "nOut": e["nOut"], "status": e["status"]})
            elif k in ("hsreply", "hsseen"):
                # the peer id the client puts on the wire is the one its bookkeeping compares with (own-id scripts rely on it)
                if nsnap and e["peerid"] != own_seen[0]:
                    raise vlib.MachineryError("scenario %s: the client's handshake carries peer id %s, the loop says %s" % (sid, e["peerid"], own_seen[0]))
            elif k == "check":
                if e["nchg"] != nsnap:       # taken under an older state than the one the judge would compare it with
                    stale += 1
                    continue
                a.append({"ev": "check", "t": t, "openIn": e["openIn"], "openOut": e["openOut"]})
            elif k == "expect":
                a.append({"ev": "expect", "what": e["what"], "ok": bool(e["ok"]), "key": e["key"], "ms": e.get("ms", 0)})
            elif k == "proc":
                a.append({"ev": "proc", "what": e["what"], "site": e.get("site", "")})
        if sid in crashed:
            a.append({"ev": "proc", "what": "crash", "site": crashed[sid]})
        raw = [{k: v for k, v in e.items() if k not in ("tr", "pid")} for e in evs if e["ev"] not in ("wire", "sto")]
        out[sid] = (a, {"cls": cls, "stale_checks": stale, "unknown": unknown, "raw": raw})
    return out


def transition_kind(prev, cur):
    if prev is None:
        return "first"
    hs = lambda l: {(x[0], x[1]) for x in l}
    pc = lambda l: {(p["dir"], p["ip"], p["key"]) for p in l}
    if prev["run"] and not cur["run"]:
        return "stop"
    if not prev["completed"] and cur["completed"]:
        return "complete"
    if not prev["run"] and cur["run"]:
        return "start"
    if pc(prev["peers"]) - pc(cur["peers"]):
        return "peer-gone"
    newp = pc(cur["peers"]) - pc(prev["peers"])
    if hs(prev["inHS"]) - hs(cur["inHS"]):
        return "inhs-ok" if newp else "inhs-fail"
    if hs(prev["outHS"]) - hs(cur["outHS"]):
        return "ouths-ok" if newp else "ouths-fail"
    if hs(cur["inHS"]) - hs(prev["inHS"]):
        return "accept"
    if hs(cur["outHS"]) - hs(prev["outHS"]) or hs(cur["queue"]) - hs(prev["queue"]):
        return "addaddrs"
    return "other"


def history_of(evs, pos, dirn, ip, key):
    """what became of one connection before event pos: never admitted / handshake failed / peer closed"""
    was_hs = was_peer = False
    for e in evs[:pos]:
        if e["ev"] != "snap":
            continue
        hs = e["inHS"] if dirn == "in" else e["outHS"]
        if any(x[0] == ip and x[1] == key for x in hs):
            was_hs = True
        if any(p["dir"] == dirn and p["ip"] == ip and p["key"] == key for p in e["peers"]):
            was_peer = True
    return "peer-closed" if was_peer else ("%shs-failed" % dirn if was_hs else "not-admitted")


def signature(tag, evs, pos, info, fam=""):
    """canonical description of the violated obligation's circumstances (known-findings matcher works on it)"""
    ev = evs[pos - 1]
    prev = None
    for e in evs[:pos - 1]:
        if e["ev"] == "snap":
            prev = e
        elif e["ev"] == "init":
            prev = None
    if ev["ev"] == "snap":
        on = transition_kind(prev, ev)
        extra = ""
        if tag == "X03.balance.leak" and prev is not None:
            held = {x[0] for x in ev["inHS"] + ev["outHS"]} | {p["ip"] for p in ev["peers"]}
            leaked = set(ev["connIPs"]) - held
            src = set()
            for ip in leaked:
                if any(x[0] == ip for x in prev["outHS"]):
                    src.add("ouths")
                elif any(x[0] == ip for x in prev["inHS"]):
                    src.add("inhs")
                elif any(p["ip"] == ip for p in prev["peers"]):
                    src.add("peer")
                else:
                    src.add("old")
            extra = " src=" + ",".join(sorted(src))
        return "tag=%s on=%s%s" % (tag, on, extra)
    if ev["ev"] == "check":
        cur = prev or {"inHS": [], "outHS": [], "peers": []}
        held_in = {(x[0], x[1]) for x in cur["inHS"]} | {(p["ip"], p["key"]) for p in cur["peers"] if p["dir"] == "in"}
        held_out = {(x[0], x[1]) for x in cur["outHS"]} | {(p["ip"], p["key"]) for p in cur["peers"] if p["dir"] == "out"}
        how = set()
        for x in ev["openIn"]:
            if (x[0], x[1]) not in held_in:
                how.add(history_of(evs, pos, "in", x[0], x[1]) + ":" + info["cls"].get(("in", x[1]), "?"))
        for x in ev["openOut"]:
            if x[2] > (1 if (x[0], x[1]) in held_out else 0):
                how.add(history_of(evs, pos, "out", x[0], x[1]) + ":" + info["cls"].get(("out", x[1]), "?"))
        if tag != "X03.stop.socket" and any(not h.startswith("not-admitted") for h in how):
            how = {h for h in how if not h.startswith("not-admitted")}    # those may still be waiting in the acceptor
        return "tag=%s how=%s" % (tag, ",".join(sorted(how)))
    if ev["ev"] == "expect":
        cur = prev or {"inHS": [], "outHS": []}
        if tag.endswith("stop.prompt"):      # what was going on when the stop was issued
            for e in evs[:pos - 1]:
                if e["ev"] == "snap" and e["run"]:
                    cur = e
        hs = ("in" if cur["inHS"] else "") + ("out" if cur["outHS"] else "") or "none"
        return "tag=%s handshaking=%s fam=%s" % (tag, hs, fam)
    if ev["ev"] == "proc":
        return "tag=%s site=%s" % (tag, re.sub(r"0x[0-9a-f]+|\d{3,}", "N", ev.get("site", ""))[:120])
    return "tag=%s" % tag


# ----------------------------------------------------------------------------------------------- run / judge

def run_and_judge(ctx, drv, scen, nproc, label):
    raws, crashed = xc.run_scenarios(ctx, drv, scen, nproc=nproc, per_timeout=25, flag="-scenarios")
    for c in crashed:      # the driver's own failures are never a verdict about the client
        if c["rc"] == -9 or "x03 driver" in (c["panic"] or ""):
            raise vlib.MachineryError("driver failure in scenario %s (%s): rc=%s %s\n%s" % (c["id"], c["scenario"].get("fam"), c["rc"], c["panic"], c["stderr_tail"][-1500:]))
    crash_site = {c["id"]: (c["panic"] or "exit %s" % c["rc"]) for c in crashed}
    proj = {}
    for rp in raws:
        proj.update(project(rp, crash_site))
    if len(proj) < 0.9 * len(scen):
        raise vlib.MachineryError("only %d of %d scenarios produced a trace (%s)" % (len(proj), len(scen), label))
    order = sorted(proj)
    unknown = [(sid, proj[sid][1]["unknown"]) for sid in order if proj[sid][1]["unknown"]]
    if unknown:
        raise vlib.MachineryError("connection addresses that the scripted side does not know: %s" % unknown[:3])
    cur = ctx.path("abs-%s.ndjson" % label)
    index = []
    with open(cur, "w") as fh:
        for sid in order:
            for e in proj[sid][0]:
                fh.write(json.dumps(e, separators=(",", ":")) + "\n")
            index.append((sid, len(proj[sid][0])))
    res = ctx.tlc_validate("Trace_Connect", cur, ntraces=len(order), timeout=1800)
    if res["hwm"] is not None and not res["ok"]:
        raise vlib.MachineryError("Trace_Connect could not explain line %s:\n%s" % (res["hwm"], res["out"][-2500:]))
    cands = []
    seen = set()
    for tag, line in res["viols"]:
        n = 0
        for sid, ln in index:
            if n + ln >= line:
                break
            n += ln
        pos = line - n
        if (sid, tag) in seen:
            continue
        seen.add((sid, tag))
        cands.append((sid, tag, pos))
    return proj, cands, crashed


def conn_subcheck(ctx):
    ctx.level = "model_checking"
    ctx.cov["rule"] = ("connection histories of one torrent = sequences of scripted remote sides (peers that connect: silent / half handshake / "
                       "garbage / wrong info-hash / the client's own peer id / valid with a chosen peer id; addresses the client dials: valid / "
                       "silent / closing / late / wrong info-hash / own id / refused / black hole), floods beyond the caps, peer closures, "
                       "completion, a ban and stop/start at any point; every loop event is judged on the complete connection state; "
                       "non-trivial = at least one handshake that fails or is refused; distinct = distinct (family, step list)")
    ctx.assumptions += ["scripted remote sides speak plaintext (an MSE attempt of the client is closed so that it retries in plaintext)",
                        "real-time obligations with slack 1.5 s: incoming handshaker <= PeerHandshakeTimeout, outgoing <= (1 or 2, with encryption) x "
                        "(PeerConnectTimeout + PeerHandshakeTimeout); timing findings are re-run in isolation before they are reported",
                        "the garbage collector is off during a scenario: a socket the code forgets is not closed behind its back by a finalizer",
                        "address list capacity and blocklist content are not exercised here (C17 addr sub-check, C18)"]
    # the design-level runs do not depend on /repo: they run beside the driver (one thread, sequentially)
    import threading
    lock = threading.Lock()
    orig_copy = ctx._spec_copy

    def locked_copy():
        with lock:
            return orig_copy()
    ctx._spec_copy = locked_copy
    box = {}

    def design():
        try:
            ctx.tlc_mc("MC_Connect", "MC_Connect.cfg", timeout=600, workers=4)
            ctx.tlc_mc("MC_Connect", "MC_Connect_u1b.cfg", timeout=600, workers=4)
            if not ctx.quick():
                ctx.tlc_mc("MC_Connect", "MC_Connect_u2.cfg", timeout=1500, workers=6)
            leads = []
            for cfg, inv in [("MC_Connect_asis_infail.cfg", "Closed"), ("MC_Connect_asis_complete.cfg", "Balance")]:
                ok, out = ctx.tlc_mc("MC_Connect", cfg, timeout=600, workers=2, expect_ok=False)
                m = re.search(r"Invariant (\S+) is violated", out)
                if ok or not m or m.group(1) != inv:
                    raise vlib.MachineryError("%s must violate %s (design-level image of a deviation of the code)\n%s" % (cfg, inv, out[-1500:]))
                leads.append({"cfg": cfg, "violates": inv})
            ctx.extra["asis_design_leads"] = leads
        except BaseException as ex:
            box["err"] = ex
    th = None
    if not os.environ.get("X03_SKIP_MC"):
        th = threading.Thread(target=design)
        th.start()
    try:
        real_code(ctx)
    finally:
        if th:
            th.join()
    if "err" in box:
        raise box["err"]


def real_code(ctx):
    drv = ctx.build_go("x03")
    rng = random.Random(ctx.seed)
    scen = fixed_scenarios()
    only = os.environ.get("X03_ONLY")
    nrand = int(os.environ.get("X03_N", ctx.pick(40, 700)))
    for _ in range(nrand):
        scen.append(random_scenario(rng, rng.randint(5, 12)))
    if only:
        scen = [s for s in scen if any(s["fam"].startswith(o) for o in only.split(","))]
    for i, s in enumerate(scen):
        s["id"] = i + 1
        s["seed"] = ctx.seed * 100000 + i
    by_id = {s["id"]: s for s in scen}
    proj, cands, crashed = run_and_judge(ctx, drv, scen, ctx.pick(8, 12), "main")
    for sid, (evs, info) in proj.items():
        sc = by_id[sid]
        key = (sc["fam"], json.dumps(sc["steps"], sort_keys=True))
        snaps = [e for e in evs if e["ev"] == "snap"]
        failed = 0
        prev = None
        for e in snaps:
            if transition_kind(prev, e) in ("inhs-fail", "ouths-fail"):
                failed += 1
            prev = e
        ctx.count_case(key, failed > 0 or any(e["ev"] == "check" and (e["openIn"] or e["openOut"]) for e in evs))
        ctx.oblig("X03.balance+C17.conn.caps+X03.uniq+X03.refuse+X03.timeout(snap)", len(snaps))
        ctx.oblig("X03.model.step(snap)", len(snaps))
        ctx.oblig("C17.conn.closed(check)", sum(1 for e in evs if e["ev"] == "check"))
        ctx.oblig("X03.stop(clean+socket)", sum(1 for e in evs if (e["ev"] == "snap" and not e["run"]) or (e["ev"] == "check")))
        ctx.oblig("X03.live(expect)", sum(1 for e in evs if e["ev"] == "expect"))
        ctx.oblig("handshakes_failed", failed)
    ctx.extra["scenarios_run"] = len(scen)
    ctx.extra["scenarios_judged"] = len(proj)
    ctx.extra["stale_checks_dropped"] = sum(i["stale_checks"] for _, i in proj.values())
    ctx.extra["scenarios_crashed"] = [{"id": c["id"], "panic": c["panic"], "fam": by_id[c["id"]]["fam"]} for c in crashed]
    if proj:
        k = sorted(proj)[0]
        ctx.sample({"scenario": by_id[k], "abstract_trace_prefix": proj[k][0][:10]})
    # time-based obligations are re-executed once in isolation before they are reported
    timing = [c for c in cands if c[1].startswith(TIMING)]
    confirmed = set()
    if timing:
        redo = [by_id[sid] for sid in sorted({c[0] for c in timing})]
        _, cands2, _ = run_and_judge(ctx, drv, redo, 1, "redo")
        confirmed = {(sid, tag) for sid, tag, _ in cands2}
    unrep, model = [], []
    for sid, tag, pos in cands:
        evs, info = proj[sid]
        sc = by_id[sid]
        if tag.startswith("X03.model"):
            model.append((sid, tag, pos))
            continue
        if (sid, tag, pos) in timing and (sid, tag) not in confirmed:
            unrep.append({"id": sid, "tag": tag, "fam": sc["fam"]})
            continue
        sig = signature(tag, evs, pos, info, sc["fam"])
        ctx.violation(tag, sig, "connection history (family %s) violates %s at %s" % (sc["fam"], tag, json.dumps(evs[pos - 1])[:260]),
                      {"scenario": sc, "abstract_trace": evs[:pos], "raw_trace": info["raw"]})
    ctx.extra["unreproduced_timing_candidates"] = unrep
    if model:
        sid, tag, pos = model[0]
        evs = proj[sid][0]
        prev = [e for e in evs[:pos - 1] if e["ev"] == "snap"][-1:]
        raise vlib.MachineryError("%d transition(s) of the real code are not a step of Connect.tla (specification/driver mismatch, not a verdict); first: "
                                  "scenario %d (%s) event %d\nprev=%s\ncur=%s" % (len(model), sid, by_id[sid]["fam"], pos, json.dumps(prev), json.dumps(evs[pos - 1])))


def run(ctx):
    conn_subcheck(ctx)
