"""Shared by C01 and C10: scenario generation for harness/xfer, parallel execution with crash containment,
projection of raw driver traces to the abstract events of Trace_Transfer.tla, and the TLC judge loop.

Scenario families (gen_scenarios; every family rotates over the layout classes and both picker modes):
  honest / listen            one honest seeder (dialling in / dialled by rain)
  sole_corrupt, sole_corruptclose, liar_and_honest, partial_liars, ignoring, dropping
                             corrupting / protocol-violating / vanishing peers next to an honest seeder; ban + no reuse expected
  wronghash                  metainfo hash of one piece wrong in one byte: honest data of that piece must be refused
  split_have, choke_inflight, ws_only, ws_and_peer, ws_corrupt, ws_and_liar, ws_and_staller
                             source mixes (peers with partial bitfields, choke with blocks in flight, web seeds honest/slow/erroring/corrupt)
  stopstart                  Stop + Start while a piece write is blocked in the storage
  write_fault                the N-th storage write FAILS (I/O error) on a hash-OK piece: the torrent stops with the error; Start again,
                             honest sources reconnect; claims (bitfield, have, stats, resume) are judged against storage truth all along,
                             completion is expected afterwards
  damage_verify_start        after completion: Stop, one piece damaged in storage, Verify, Start: the piece must be reported missing,
                             fetched again, and completion reported only when the files are right again
  prefill                    .torrent added on top of a partly right / partly wrong / zero-filled / partly absent copy of the files
  magnet                     added by magnet link (peers serve ut_metadata), honest seeder alone or next to a liar
  magnet_prefill             magnet link + pre-existing files: verification runs while the metadata peers are connected (their
                             bitfield / have-all arrived before the metadata and must be replayed afterwards)
  magnet_metastall           magnet link, ParallelMetadataDownloads peers that advertise ut_metadata, take the requests and stall for ever;
                             an honest seeder joins later: the metadata must still arrive and the download complete
  lose_files_start           after completion: Stop, one / some / all files of the torrent vanish from the storage (user deletes a file,
                             partial restore), Start: the resume bitfield must not be trusted for them (claims judged against the storage
                             truth from the moment the files are open again), they are fetched again, completion expected again;
                             on the recording storage and on the real file system
  realfs                     the session's own file storage on a real directory (writes unobserved, files compared at completion and at the
                             end): empty directory or pre-existing files that are right / partly wrong / absent / LONGER than the metainfo's
                             file (older, bigger version; data in a zero-length file) / shorter; optionally followed by damage+Verify+Start
                             or by lose_files_start
  endgame_orphan             two stalling peers each swallow the request for one piece, an honest seeder joins, finishes the rest, enters
                             end-game mode and duplicates one of the two pieces; at that moment the other stalling peer hangs up: its piece
                             is unrequested again AFTER end-game mode was entered and must still be asked from the honest peer
  ws_corrupt_slots           as many web seeds serving an outdated copy as there are web-seed download slots (Config.WebseedMaxDownloads 1, 2
                             or the default 4), listed before the honest web seed, no peer: every hash failure must give its slot back
  ws_pair_corrupt (heavy)    48..72 pieces of 64 or 128 KiB (web-seed requests span several pieces), two web seeds, one serving an outdated copy
                             (every piece wrong), no peer or a late honest peer: completion from the honest web seed
  ws_many (heavy)            48..160 pieces, multi-file (a file boundary in almost every web-seed range), two honest (slow) web seeds and a
                             fast honest peer: running ranges are shortened / stolen at file boundaries; optionally a slow disk
"""
import json, os, random, re, subprocess, concurrent.futures as cf
import vlib

LAYOUTS = ["single", "multi", "empties", "padmid", "padalign", "padend", "odd", "onepiece", "padwhole"]
IGNORING = ["dup", "unreq", "reverse", "chokeafter"]          # liar policies that must be tolerated without ban
DROPPING = ["oob", "oobbegin", "trunc", "disconnect", "stall"]  # the peer is dropped / goes silent
CORRUPT = ["corrupt", "wrongpiece"]


def gen_scenarios(rng, n, focus):
    """focus: 'c01' (adversarial mixes) or 'c10' (layout x mode x source matrix with benign faults)."""
    out = []
    sid = 0

    def add(**kw):
        nonlocal sid
        sid += 1
        kw.setdefault("unit", rng.choice([16384, 16384, 8192, 5000]))
        kw.setdefault("seed", rng.randrange(1, 1 << 30))
        kw.setdefault("timeoutMs", 8000)
        kw.setdefault("peers", [])
        kw["id"] = sid
        out.append(kw)

    def src_mix():
        """honest sources for families whose point is not the source kind: peer (mostly), web seed, or both"""
        x = rng.random()
        if x < 0.6:
            return [dict(honest)], []
        if x < 0.8:
            return [], [{"policy": "honest"}]
        return [dict(honest)], [{"policy": "honest"}]

    honest = {"name": "h", "ip": "127.0.0.9", "policy": "honest", "have": "all"}
    fams = []
    if focus == "c01":
        fams = ["sole_corrupt"] * 4 + ["sole_corruptclose"] * 3 + ["wronghash"] * 4 + ["liar_and_honest"] * 4 + ["ignoring"] * 3 + ["dropping"] * 3 + ["ws_corrupt"] * 2 + \
               ["ws_and_liar"] * 2 + ["stopstart"] * 3 + ["partial_liars"] * 2 + ["honest"] + \
               ["write_fault"] * 4 + ["damage_verify_start"] * 3 + ["magnet"] * 3 + ["magnet_prefill"] * 2 + ["prefill"] * 2 + \
               ["lose_files_start"] * 4 + ["realfs"] * 4 + ["ws_corrupt_slots"] * 1
    else:
        fams = ["honest"] * 3 + ["ws_only"] * 3 + ["ws_and_peer"] * 2 + ["split_have"] * 2 + ["dropping"] * 2 + ["ignoring"] * 2 + \
               ["listen"] * 1 + ["liar_and_honest"] * 2 + ["choke_inflight"] * 3 + ["choke_cycle"] * 3 + ["af_reject"] * 2 + ["ws_and_staller"] * 2 + \
               ["write_fault"] * 2 + ["damage_verify_start"] * 2 + ["magnet"] * 2 + ["magnet_prefill"] * 4 + ["prefill"] * 1 + \
               ["magnet_metastall"] * 2 + ["lose_files_start"] * 2 + ["realfs"] * 2 + ["endgame_orphan"] * 3 + ["ws_corrupt_slots"] * 3
    # round-3 families (lose_files_start, realfs, endgame_orphan, ws_corrupt_slots) are OFF by default: they were run on the unchanged
    # tree only in small development batches, not yet in a full check run. VERIF_R3_FAMILIES=all (or a comma list) enables them.
    r3all = {"lose_files_start", "realfs", "endgame_orphan", "ws_corrupt_slots"}
    r3 = os.environ.get("VERIF_R3_FAMILIES", "")
    r3_on = r3all if r3 == "all" else set(x for x in r3.split(",") if x in r3all)
    fams = [f for f in fams if f not in r3all or f in r3_on]
    k = 0
    used = {}
    while len(out) < n:
        fam = fams[k % len(fams)]
        # every family walks through all layout classes (own counter per family, staggered start)
        used[fam] = used.get(fam, -1) + 1
        lay = LAYOUTS[(used[fam] + fams.index(fam)) % len(LAYOUTS)]
        k += 1
        seq = rng.random() < 0.4
        if fam == "honest":
            add(layout=lay, seq=seq, peers=[dict(honest, noFast=rng.random() < 0.3)], honest=True)
        elif fam == "listen":
            add(layout=lay, seq=seq, peers=[dict(honest, listen=True)], honest=True)
        elif fam == "sole_corrupt":
            pol = rng.choice(CORRUPT)
            add(layout=lay, seq=seq, honest=True,
                peers=[{"name": "liar", "ip": "127.0.0.2", "policy": pol, "k": rng.randint(1, 3), "have": "all", "sole": True,
                        "noFast": rng.random() < 0.3}, honest])
        elif fam == "wronghash":
            # the metainfo's hash of one piece differs from the hash of the served content in ONE byte (position rotates over all 20):
            # the hash gate must compare the whole digest; nothing of that piece may be written or reported
            wh = getattr(gen_scenarios, "_wh", 0)
            gen_scenarios._wh = wh + 1
            add(layout=rng.choice(["single", "multi", "odd", "padmid"]), seq=seq, honest=False, timeoutMs=1200, badHash=True,
                badHashPiece=rng.randint(0, 2), badHashPos=wh % 20,
                peers=[dict(honest), {"name": "h2", "ip": "127.0.0.10", "policy": "honest", "have": "all", "joinAfterMs": 150}],
                webseeds=([{"policy": "honest"}] if rng.random() < 0.3 else []))
        elif fam == "sole_corruptclose":
            add(layout=rng.choice(["single", "multi", "odd"]), seq=seq, honest=True, unit=rng.choice([65536, 262144]),
                peers=[{"name": "liar", "ip": "127.0.0.2", "policy": "corruptclose", "have": "all", "sole": True,
                        "noFast": rng.random() < 0.3}, honest])
        elif fam == "liar_and_honest":
            pol = rng.choice(CORRUPT + IGNORING)
            add(layout=lay, seq=seq, honest=True, endgame=rng.choice([2, 2, 20]),
                peers=[{"name": "liar", "ip": "127.0.0.2", "policy": pol, "k": rng.randint(0, 4), "have": "all"},
                       dict(honest, joinAfterMs=rng.choice([0, 0, 5, 30]))])
        elif fam == "ignoring":
            add(layout=lay, seq=seq, honest=True,
                peers=[{"name": "odd", "ip": "127.0.0.2", "policy": rng.choice(IGNORING), "k": rng.randint(1, 3), "have": "all",
                        "noFast": rng.random() < 0.5}, dict(honest, joinAfterMs=rng.choice([0, 40]))])
        elif fam == "dropping":
            add(layout=lay, seq=seq, honest=True,
                peers=[{"name": "drop", "ip": "127.0.0.2", "policy": rng.choice(DROPPING), "k": rng.randint(1, 3), "have": "all"},
                       dict(honest, joinAfterMs=rng.choice([0, 40]))])
        elif fam == "partial_liars":
            add(layout=lay, seq=seq, honest=True,
                peers=[{"name": "l1", "ip": "127.0.0.2", "policy": rng.choice(CORRUPT), "k": 0, "have": "evens"},
                       {"name": "l2", "ip": "127.0.0.3", "policy": rng.choice(IGNORING + DROPPING), "k": 2, "have": "odds"},
                       dict(honest, joinAfterMs=rng.choice([0, 20, 60]))])
        elif fam == "split_have":
            add(layout=lay, seq=seq, honest=True,
                peers=[{"name": "e", "ip": "127.0.0.2", "policy": "honest", "have": "evens"},
                       {"name": "o", "ip": "127.0.0.3", "policy": "honest", "have": "odds", "joinAfterMs": rng.choice([0, 30])}])
        elif fam == "choke_inflight":   # the only source chokes with requests in flight, delivers them anyway, unchokes again
            add(layout=lay, seq=seq, honest=True,
                peers=[dict(honest, policy="chokedeliver", k=rng.randint(1, 4), noFast=rng.random() < 0.7)])
        elif fam == "choke_cycle":      # the only source (no fast extension) chokes every k-th request, still delivers what is in flight, unchokes;
            # short request pipeline and pieces of many blocks: late blocks must not eat pipeline slots (found by extension check X04)
            add(layout=rng.choice(["single", "multi", "odd"]), seq=seq, honest=True, unit=rng.choice([131072, 262144]), requestsOut=rng.choice([1, 2, 2, 3]),
                timeoutMs=12000, peers=[dict(honest, policy="chokecycle", k=rng.randint(2, 5), noFast=True)])
        elif fam == "af_reject":        # the only source offers allowed-fast pieces while choking, rejects the first k requests, then unchokes
            add(layout=lay, seq=seq, honest=True, peers=[dict(honest, policy="afreject", k=rng.randint(1, 6))])
        elif fam == "ws_and_staller":   # honest web seed + a peer that accepts requests and never sends data
            add(layout=lay, seq=seq, honest=True, webseeds=[{"policy": "honest"}],
                peers=[{"name": "stall", "ip": "127.0.0.2", "policy": "stall", "k": 1, "have": "all", "noFast": rng.random() < 0.5}])
        elif fam == "ws_only":
            add(layout=lay, seq=seq, honest=True, webseeds=[{"policy": rng.choice(["honest", "honest", "slow"])}])
        elif fam == "ws_and_peer":
            add(layout=lay, seq=seq, honest=True, webseeds=[{"policy": "honest"}], peers=[dict(honest, joinAfterMs=rng.choice([0, 10]))])
        elif fam == "ws_corrupt":
            add(layout=lay, seq=seq, honest=True, webseeds=[{"policy": "corrupt", "k": rng.randrange(0, 20000)}],
                peers=[dict(honest, joinAfterMs=rng.choice([0, 50, 150]))])
        elif fam == "ws_and_liar":
            add(layout=lay, seq=seq, honest=True, webseeds=[{"policy": rng.choice(["honest", "error"]), "k": 2}],
                peers=[{"name": "liar", "ip": "127.0.0.2", "policy": rng.choice(CORRUPT), "k": rng.randint(0, 2), "have": "all"},
                       dict(honest, joinAfterMs=rng.choice([0, 30]))])
        elif fam == "stopstart":
            add(layout=lay, seq=seq, honest=True, timing=[{"when": "write-enter", "n": rng.randint(1, 3), "do": "stopstart"}],
                peers=[dict(honest)], unit=16384)
        elif fam == "write_fault":
            ps, ws = src_mix()
            add(layout=lay, seq=seq, honest=True, timing=[{"when": "write-enter", "n": rng.randint(1, 4), "do": "fail"}],
                peers=ps, webseeds=ws, timeoutMs=12000)
        elif fam == "damage_verify_start":
            ps, ws = src_mix()
            add(layout=lay, seq=seq, honest=True, after="damage_verify_start", damagePiece=rng.randint(0, 5),
                peers=ps, webseeds=ws, timeoutMs=10000)
        elif fam == "prefill":
            ps, ws = src_mix()
            add(layout=lay, seq=seq, honest=True, prefill=rng.choice(["partial", "onebad", "zeros", "somefiles"]), peers=ps, webseeds=ws)
        elif fam == "lose_files_start":
            ps, ws = src_mix()
            add(layout=lay, seq=seq, honest=True, after="lose_files_start", loseFiles=rng.choice(["first", "last", "alternate", "allbutfirst", "all"]),
                realfs=rng.random() < 0.4, peers=ps, webseeds=ws, timeoutMs=10000)
        elif fam == "realfs":
            ps, ws = src_mix()
            pf = rng.choice(["longer", "longer", "longerbad", "shorter", "partial", "somefiles", "full", "none"])
            kw = {}
            x = rng.random()
            if x < 0.2:
                kw = dict(after="damage_verify_start", damagePiece=rng.randint(0, 5))
            elif x < 0.4:
                kw = dict(after="lose_files_start", loseFiles=rng.choice(["first", "last", "alternate", "allbutfirst"]))
            add(layout=lay, seq=seq, honest=True, realfs=True, prefill=pf, peers=ps, webseeds=ws, timeoutMs=10000, **kw)
        elif fam == "endgame_orphan":
            add(layout=rng.choice(["single", "multi", "odd", "padmid", "many8", "many12"]), unit=rng.choice([1024, 2048]),
                seq=rng.random() < 0.25, honest=True, endgame=rng.choice([2, 20, 20]), timeoutMs=8000,
                peers=[{"name": "s1", "ip": "127.0.0.2", "policy": "stall", "k": 1, "have": "all", "noFast": rng.random() < 0.5},
                       {"name": "s2", "ip": "127.0.0.3", "policy": "stall", "k": 1, "have": "all", "noFast": rng.random() < 0.5},
                       dict(honest, trigger="dropstallers", joinAfterMs=20)])
        elif fam == "ws_corrupt_slots":
            slots = rng.choice([1, 1, 2, 0])        # 0 = default configuration (4 slots)
            m = (slots or 4) + rng.choice([0, 0, 1])
            add(layout=rng.choice([lay, "many12", "many16", "many24"]), unit=rng.choice([1024, 2048]), seq=seq, honest=True, wsMax=slots,
                webseeds=[{"policy": "stale"}] * m + [{"policy": "honest"}], timeoutMs=12000)
        elif fam == "magnet":
            ps = [dict(honest)]
            if rng.random() < 0.5:
                pol = rng.choice(CORRUPT + IGNORING + DROPPING)
                ps = [{"name": "liar", "ip": "127.0.0.2", "policy": pol, "k": rng.randint(0, 3), "have": "all",
                       "meta": rng.choice(["", "no"])}, dict(honest, joinAfterMs=rng.choice([0, 0, 30]))]
            add(layout=lay, seq=seq, honest=True, magnet=True, endgame=rng.choice([2, 20]), peers=ps)
        elif fam == "magnet_prefill":
            ps = [dict(honest, noFast=rng.random() < 0.3)]
            if rng.random() < 0.4:      # a second honest peer that has no metadata to offer; its bitfield is queued as well
                ps.append({"name": "h2", "ip": "127.0.0.10", "policy": "honest", "have": rng.choice(["all", "evens"]), "meta": "no"})
            add(layout=lay, seq=seq, honest=True, magnet=True, prefill=rng.choice(["partial", "partial", "onebad", "zeros", "somefiles", "full"]),
                peers=ps)
        elif fam == "magnet_metastall":
            hv = rng.choice(["none", "all"])
            add(layout=lay, seq=seq, honest=True, magnet=True, timeoutMs=15000,
                peers=[{"name": "s1", "ip": "127.0.0.2", "policy": "honest", "have": hv, "meta": "stall"},
                       {"name": "s2", "ip": "127.0.0.3", "policy": "honest", "have": hv, "meta": "stall", "noFast": rng.random() < 0.3},
                       dict(honest, joinAfterMs=rng.choice([150, 300, 600]))])
    return out


def gen_heavy(rng, n, first_id, focus="c10"):
    """A few scenarios on torrents of 48..160 pieces (web-seed requests of 5% of the pieces span several pieces).
    ws_pair_corrupt: single file, pieces of 64 / 128 KiB, one web seed serves an outdated copy, the other is honest, no peer or a late one.
    ws_many: multi-file (a file boundary in almost every web-seed range), two slow honest web seeds and a fast honest peer that keeps
    taking the tails of their ranges (WebseedStopAt shortens running ranges), optionally a slow disk (every write takes a few ms)."""
    out = []
    npair = 0
    honest = {"name": "h", "ip": "127.0.0.9", "policy": "honest", "have": "all"}
    for k in range(n):
        many = (k % 3 != 0) if focus == "c01" else (k % 3 == 2)
        sc = {"id": first_id + k, "seed": rng.randrange(1, 1 << 30), "timeoutMs": 40000, "honest": True, "seq": rng.random() < 0.3, "peers": []}
        if not many:
            np_ = rng.choice([48, 56, 65, 72])
            unit = rng.choice([4096, 4096, 4096, 8192])        # pieces of 64 KiB, sometimes 128 KiB (the recording storage is slow on big files)
            if unit == 8192:
                np_ = 48
            ws = [{"policy": "stale"}, {"policy": "honest"}]
            if rng.random() < 0.5:
                ws.reverse()
            # rarest-first only: in sequential mode the first web-seed requests are single pieces at file ends (no multi-piece range)
            sc.update(layout="many%d" % np_, unit=unit, webseeds=ws, heavy="ws_pair_corrupt", seq=False)
            npair += 1
            if npair % 2 == 0:      # alternately no peer at all / a late honest peer
                sc["peers"] = [dict(honest, joinAfterMs=rng.choice([200, 500, 900]))]
        else:
            if rng.random() < 0.7:
                lay, unit = "manyfiles%d" % rng.choice([96, 128, 160]), rng.choice([1024, 2048])
            else:
                lay, unit = "manymulti%d" % rng.choice([48, 56, 65, 72]), 4096
            sc.update(layout=lay, unit=unit, webseeds=[{"policy": "slow"}, {"policy": rng.choice(["slow", "honest"])}], heavy="ws_many",
                      peers=[dict(honest, joinAfterMs=rng.choice([0, 20, 60]))] if rng.random() < 0.85 else [])
            if rng.random() < 0.65:
                sc["timing"] = [{"when": "write-enter", "n": rng.randint(1, 3), "do": "slow"}]
        out.append(sc)
    return out


def run_scenarios(ctx, drv, scenarios, nproc=8, per_timeout=40, flag="-scenarios", tag=""):
    """Runs the scenarios in nproc child processes; returns (list of raw trace files, crashed scenario records)."""
    shards = [scenarios[i::nproc] for i in range(nproc)]
    shards = [s for s in shards if s]
    crashed = []
    traces = []

    def work(i, shard):
        res_tr, res_cr = [], []
        todo = list(shard)
        part = 0
        while todo:
            part += 1
            sp = ctx.path("sc%s-%d-%d.ndjson" % (tag, i, part))
            tp = ctx.path("raw%s-%d-%d.ndjson" % (tag, i, part))
            with open(sp, "w") as fh:
                for s in todo:
                    fh.write(json.dumps(s) + "\n")
            try:
                r = subprocess.run([drv, "run", flag, sp, "-out", tp], cwd=ctx.scratch, env=vlib.GOENV,
                                   capture_output=True, text=True, timeout=per_timeout * len(todo) + 30)
                rc, out, err = r.returncode, r.stdout, r.stderr
            except subprocess.TimeoutExpired as ex:
                rc, out, err = -9, (ex.stdout or b"").decode() if isinstance(ex.stdout, bytes) else (ex.stdout or ""), "watchdog"
            res_tr.append(tp)
            begun = [int(x) for x in re.findall(r"^BEGIN (\d+)$", out, re.M)]
            ended = set(int(x) for x in re.findall(r"^END (\d+)$", out, re.M))
            if rc == 0:
                break
            bad = [b for b in begun if b not in ended]
            if not bad:
                raise vlib.MachineryError("xfer child failed outside a scenario: rc=%s %s" % (rc, err[-2000:]))
            site = ""
            m = re.search(r"panic: (.*)", err)
            if m:
                site = m.group(1)[:200]
            res_cr.append({"id": bad[0], "rc": rc, "panic": site, "stderr_tail": err[-1500:],
                           "scenario": [s for s in todo if s["id"] == bad[0]][0]})
            done_ids = ended | {bad[0]}
            todo = [s for s in todo if s["id"] not in done_ids]
        return res_tr, res_cr

    with cf.ThreadPoolExecutor(max_workers=len(shards) or 1) as ex:
        futs = [ex.submit(work, i, s) for i, s in enumerate(shards)]
        for f in futs:
            t, c = f.result()
            traces += t
            crashed += c
    return traces, crashed


def project(raw_path, crashed_ids=()):
    """raw driver trace -> {scenario id: [abstract events]}; incomplete scenarios (no 'end') are dropped."""
    per = {}
    for e in vlib.read_ndjson(raw_path) if os.path.exists(raw_path) else []:
        per.setdefault(e.get("tr"), []).append(e)
    out = {}
    for sid, evs in per.items():
        evs.sort(key=lambda e: e["seq"])
        # the tracer's scenario id is process-global: leftovers of the previous scenario of this child may precede "init",
        # and goroutines of this scenario may still log after its "end" line
        while evs and evs[0]["ev"] != "init":
            evs.pop(0)
        ends = [i for i, e in enumerate(evs) if e["ev"] == "end"]
        if not evs or not ends or sid in crashed_ids:
            continue
        evs = evs[:ends[0] + 1]
        a = []
        ini = evs[0]
        def have_list(kind, n):
            return {"evens": [i for i in range(n) if i % 2 == 0], "odds": [i for i in range(n) if i % 2 == 1],
                    "firsthalf": list(range((n + 1) // 2)), "none": []}.get(kind or "all", list(range(n)))
        a.append({"ev": "init", "np": ini["np"], "plen": ini["plen"], "honest": bool(ini["honest"]),
                  # a piece without data is trivially correct in storage; good0 = pieces already right in the pre-existing files
                  "good": sorted(set([i for i, n in enumerate(ini.get("nonpad", [])) if n == 0]) | set(ini.get("good0") or [])),
                  "sid": sid, "obsw": not ini.get("realfs"),
                  "layout": ini["layout"],
                  "peers": [{"ip": p["ip"], "have": have_list(p.get("have"), ini["np"])} for p in ini["peers"]]})
        for e in evs[1:]:
            k = e["ev"]
            if k == "sto" and e["op"] == "write" and e["phase"] == "exit":
                pcs = e.get("piece") or []
                pg = e.get("pgood") or [False] * len(pcs)
                if not pcs:
                    a.append({"ev": "w", "p": -1, "cls": e.get("class", "n/a"), "err": "err" in e, "pgood": False})
                for p, g in zip(pcs, pg):
                    a.append({"ev": "w", "p": p, "cls": e.get("class", "n/a"), "err": "err" in e, "pgood": bool(g)})
            elif k == "snap":
                a.append({"ev": "snap", "t": e["t_ms"], "status": e["status"], "have": e["have"], "done": e["done"], "banned": e["banned"],
                          "conns": e["connectedIPs"], "writing": e["writing"], "pickerNil": bool(e["pickerNil"]),
                          "wsr": [[w[0], w[1], w[2], w[3]] for w in e["webseedRanges"]],
                          "plist": [{"ip": p["addr"].rsplit(":", 1)[0], "choking": bool(p["peerChoking"]), "piece": p["piece"]}
                                    for p in e["peerList"]]})
            elif k == "wire" and e["dir"] == "rx" and e["kind"] in ("have", "bitfield", "haveall"):
                ps = [e["index"]] if e["kind"] == "have" else e.get("bits", [])
                a.append({"ev": "rep", "kind": e["kind"], "pieces": ps})
            elif k == "stats":
                x = {"ev": "stats", "have": e["have"], "completed": e["completed"]}
                if not a or a[-1] != x:
                    a.append(x)
            elif k == "complete":
                a.append({"ev": "complete", "filesOK": bool(e["filesOK"])})
            elif k == "timeout":
                # what the harness itself failed to do (scripted peer could not connect, ...) is part of the diagnosis
                hs = ["%s:%s" % (x.get("conn", ""), x.get("what")) + ("(%s)" % x["err"][:60] if x.get("err") else "") for x in evs
                      if (x["ev"] == "conn" and x.get("what") in ("refused", "hs-fail")) or x["ev"] == "harness"]
                a.append({"ev": "timeout", "what": e["what"], "t": e["t_ms"],
                          "info": ("harness=[%s] " % ",".join(hs) if hs else "") + " ".join("%s=%s" % (k, e[k]) for k in ("status", "have", "peers", "downloads", "hasInfo", "infoDownloads", "banned",
                                                                         "lastErr", "silentMs", "waitedMs") if k in e)})
            elif k == "expect":
                a.append({"ev": "expect", "what": e["what"], "ok": bool(e["ok"]), "sentBad": e["sentBad"], "ip": e["ip"]})
            elif k == "redial":
                a.append({"ev": "redial", "ip": e["ip"], "accepted": bool(e["accepted"])})
            elif k in ("disk", "disk-mutate", "disk-lost"):
                a.append({"ev": k, "class": e["class"]})
            elif k == "drop":
                a.append({"ev": "drop"})
            elif k == "resume":
                a.append({"ev": "resume", "bits": e["bits"]})
        out[sid] = a
    return out


def fam_of(sc):
    """family signature of a scenario (policies, sources, timing action, start mode) for violation signatures"""
    return "+".join(sorted(p.get("policy", "?") + ("/meta-" + p["meta"] if p.get("meta") else "") for p in sc.get("peers", []))) + \
        ("|ws:" + ",".join(w["policy"] for w in sc.get("webseeds", [])) if sc.get("webseeds") else "") + \
        ("|timing" + ("-" + sc["timing"][0]["do"] if sc["timing"][0].get("do") != "stopstart" else "") if sc.get("timing") else "") + \
        ("|magnet" if sc.get("magnet") else "") + ("|prefill-" + sc["prefill"] if sc.get("prefill") else "") + \
        ("|after-" + sc["after"] + ("-" + sc["loseFiles"] if sc.get("loseFiles") else "") if sc.get("after") else "") + \
        ("|realfs" if sc.get("realfs") else "") + ("|wsmax%d" % sc["wsMax"] if sc.get("wsMax") else "") + \
        ("|dropstallers" if any(p.get("trigger") for p in sc.get("peers", [])) else "")


TIME_BASED = ("C10.live", "C10.idle")      # bounded-time judgements: re-executed in isolation before they are reported


def tlc_pass(ctx, abstract):
    """One TLC pass over all traces; returns [(sid, tag, position in that trace)] for every failed obligation."""
    order = sorted(abstract)
    if not order:
        return []
    cur = ctx.path("abs.ndjson")
    index = []
    with open(cur, "w") as fh:
        for sid in order:
            for e in abstract[sid]:
                fh.write(json.dumps(e, separators=(",", ":")) + "\n")
            index.append((sid, len(abstract[sid])))
    res = ctx.tlc_validate("Trace_Transfer", cur, ntraces=len(order), timeout=1800)
    if res["hwm"] is not None and not res["ok"]:
        raise vlib.MachineryError("Trace_Transfer could not explain line %s (driver/spec mismatch):\n%s" % (res["hwm"], res["out"][-2500:]))
    out = []
    for tag, line in res["viols"]:
        n = 0
        for sid, ln in index:
            if n + ln >= line:
                break
            n += ln
        out.append((sid, tag, line - n))
    return out


def judge(ctx, abstract, scen_by_id, own_prefixes, other_note, drv=None):
    """abstract: {sid: events}. One TLC pass validates all traces; Trace_Transfer prints '@@VIOL tag line' for every failed
    obligation. Tags starting with one of own_prefixes are violations of this property; the others belong to another
    property's check and are only counted. Time-based candidates (TIME_BASED) are reported only if the same scenario fails the
    same obligation again when it is re-executed (drv given) with at most one other scenario running; candidates that do not
    reproduce are listed in the evidence (unreproduced_timing_candidates)."""
    foreign = {}
    found = tlc_pass(ctx, abstract)
    own = lambda tag: any(tag.startswith(p) for p in own_prefixes)
    again = None
    cand = sorted({sid for sid, tag, _ in found if tag in TIME_BASED and own(tag)})
    if cand and drv:
        vlib.log("re-executing %d time-based candidate scenario(s) in isolation" % len(cand))
        raws, crashed = run_scenarios(ctx, drv, [scen_by_id[i] for i in cand], nproc=2, per_timeout=90, tag="re")
        abs2 = {}
        for rp in raws:
            abs2.update(project(rp, {c["id"] for c in crashed}))
        again = {(sid, tag) for sid, tag, _ in tlc_pass(ctx, abs2)} | {(sid, t) for sid in cand if sid not in abs2 for t in TIME_BASED}
    seen = set()
    for sid, tag, pos in found:
        ev = abstract[sid][pos - 1] if 0 < pos <= len(abstract[sid]) else {}
        sc = scen_by_id.get(sid, {})
        sig = "tag=%s layout=%s fam=%s ev=%s" % (tag, re.sub(r"\d+$", "", sc.get("layout") or "?"), fam_of(sc), ev.get("ev"))
        if (sid, tag) in seen:
            continue
        seen.add((sid, tag))
        if own(tag):
            if tag in TIME_BASED and again is not None and (sid, tag) not in again:
                ctx.extra.setdefault("unreproduced_timing_candidates", []).append({"signature": sig, "scenario": sc, "event": ev})
                vlib.log("time-based candidate not reproduced in isolation (not reported): %s" % sig)
                continue
            ctx.violation(tag, sig, "download scenario violates %s at %s" % (tag, json.dumps(ev)[:200]),
                          {"scenario": sc, "abstract_trace": abstract[sid][:pos]})
        else:
            foreign.setdefault(tag, []).append(sig)
    return foreign
