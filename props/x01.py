"""X01 — choking / unchoking (spec/Unchoker.tla, MC_Unchoker, MC_UnchokerAlg, MC_UnchokerGen, Trace_Unchoker; driver harness/x01).

Specification-coverage extension (not one of the 20 listed properties; not in MANIFEST.json).
1. design level: the envelope's per-call obligations imply the slot bound for every interleaving and are jointly
   satisfiable (MC_Unchoker); liveness of the optimistic slot under strong fairness of the draw (MC_Unchoker_live;
   fails as it must with M = 0); the algorithm of unchoker.go against the envelope (MC_UnchokerAlg: as-is predicted to
   fail exactly X01.f / X01.a, the repaired algorithm passes).
2. implementation -> specification: histories (TLC simulation of MC_UnchokerGen + seeded random + fairness runs) are
   replayed into the real Unchoker with stub peers; Trace_Unchoker judges every call in one TLC pass.
"""
import json, os, re
import vlib

PREDICTED = {"X01.f", "X01.a.reg", "X01.a.opt"}


def run(ctx):
    ctx.level = "model_checking"
    ctx.cov["rule"] = ("call histories of the Unchoker API (Connect / Interested+FastUnchoke / NotInterested / TickUnchoke with rate "
                       "vectors / HandleDisconnect) in the torrent loop's discipline; non-trivial = contains a tick with >= 2 interested "
                       "peers; distinct = distinct sequences of (call, arguments, messages, resulting flags)")
    ctx.assumptions += ["peers are stubs implementing unchoker.Peer (rates and interest scripted); the real peer.Peer methods are "
                        "one-line field accessors / SendMessage wrappers (internal/peer/peer.go) and are not exercised here",
                        "the optimistic draw uses the unseeded global math/rand/v2 source: every draw is accepted by the envelope; "
                        "only the fairness runs depend on it (false-alarm probability < 1e-7 per check run)"]
    # ---------------------------------------------------------------- 1. design level
    if not os.environ.get("VERIF_SKIP_MC"):       # development knob (mutation runs change the implementation only)
        design_level(ctx)
    implementation(ctx)


def design_level(ctx):
    ctx.tlc_mc("MC_Unchoker", "MC_Unchoker.cfg", timeout=600, workers=4)
    ctx.tlc_mc("MC_UnchokerAlg", "MC_UnchokerAlg_fixed.cfg", timeout=600, workers=4)
    ctx.tlc_mc("MC_UnchokerAlg", "MC_UnchokerAlg_asis_known.cfg", timeout=600, workers=4)
    ok, out = ctx.tlc_mc("MC_UnchokerAlg", "MC_UnchokerAlg_asis.cfg", timeout=600, expect_ok=False, workers=4)
    pred = set(re.findall(r'av = \{([^}]*)\}', out)[-1].replace('"', "").replace(" ", "").split(",")) if not ok else set()
    if ok or not pred or not pred <= PREDICTED:
        raise vlib.MachineryError("MC_UnchokerAlg_asis: expected a counterexample with tags in %s, got ok=%s tags=%s" % (PREDICTED, ok, pred))
    ctx.extra["design_level_prediction_asis"] = sorted(pred)
    ctx.tlc_mc("MC_UnchokerAlg", "MC_UnchokerAlg_fixed_live.cfg", timeout=600, workers=4)
    if not ctx.quick():
        ctx.tlc_mc("MC_Unchoker", "MC_Unchoker_live.cfg", timeout=900, workers=4)
        ok0, out0 = ctx.tlc_mc("MC_Unchoker", "MC_Unchoker_live_m0.cfg", timeout=900, expect_ok=False, workers=4)
        if ok0 or "Temporal properties were violated" not in out0 and "EventuallyUnchoked was violated" not in out0:
            raise vlib.MachineryError("MC_Unchoker_live_m0: fairness must FAIL without an optimistic slot")
        ctx.tlc_mc("MC_UnchokerAlg", "MC_UnchokerAlg_asis_live.cfg", timeout=600, workers=4)
        for c in ("MC_Unchoker_n0m1.cfg", "MC_Unchoker_n2m1.cfg", "MC_Unchoker_n1m0.cfg", "MC_Unchoker_n0m0.cfg", "MC_Unchoker_4.cfg"):
            ctx.tlc_mc("MC_Unchoker", c, timeout=1500, workers=6)
        for c in ("MC_UnchokerAlg_fixed_4.cfg", "MC_UnchokerAlg_fixed_n0m1.cfg", "MC_UnchokerAlg_fixed_n1m0.cfg",
                  "MC_UnchokerAlg_asis_known_4.cfg"):
            ctx.tlc_mc("MC_UnchokerAlg", c, timeout=1500, workers=6)


def implementation(ctx):
    # ---------------------------------------------------------------- 2. implementation -> specification
    items, _ = ctx.tlc_gen("MC_UnchokerGen", ctx.pick("MC_UnchokerGen.cfg", "MC_UnchokerGen_5.cfg"),
                           simulate=ctx.pick(150, 1500), depth=ctx.pick(45, 65), timeout=900)
    if len(items) < ctx.pick(100, 1000):
        raise vlib.MachineryError("MC_UnchokerGen produced only %d histories" % len(items))
    sp = ctx.path("scripts.ndjson")
    vlib.write_ndjson(sp, items)
    ctx.extra["tlc_generated_histories"] = len(items)
    drv = ctx.build_go("x01")
    tp = ctx.path("trace.ndjson")
    r = ctx.run_drv(drv, ["-seed", str(ctx.seed), "-scripts", sp, "-n", str(ctx.pick(200, 3000)), "-ops", str(ctx.pick(60, 120)),
                          "-maxpeers", str(ctx.pick(6, 8)), "-fair", str(ctx.pick(4, 40)), "-out", tp])
    ctx.extra["driver"] = json.loads(r.stdout.strip().splitlines()[-1])
    judge(ctx, tp)


def split(path):
    traces, cur = [], []
    for line in open(path):
        e = json.loads(line)
        if e["op"] == "Init":
            if cur:
                traces.append(cur)
            cur = []
        cur.append(e)
    if cur:
        traces.append(cur)
    return traces


def judge(ctx, tp):
    traces = split(tp)
    index, n = [], 0
    for t in traces:
        index.append((n, t))
        n += len(t)
        key = tuple((e["op"], e.get("pe"), tuple(e.get("dl", ())), tuple(e.get("ul", ())), e.get("completed"),
                     tuple((m["pe"], m["m"]) for m in e.get("msgs", ())), tuple(e.get("chk", ())), tuple(e.get("opt", ()))) for e in t)
        ctx.count_case(key, nontrivial_trace(t))
        nt = sum(1 for e in t if e["op"] == "Tick")
        nf = sum(1 for e in t if e["op"] == "Interested")
        for tag in ("X01.a", "X01.c", "X01.d"):
            ctx.oblig(tag, nt + nf)
        for tag in ("X01.b", "X01.f", "X01.g", "X01.h"):
            ctx.oblig(tag, nt)
        ctx.oblig("X01.e", nf)
        if t[0]["fair"] > 0:
            ctx.oblig("X01.l", nt // 3)
    ctx.sample({"trace_prefix": traces[0][:10]})
    res = ctx.tlc_validate("Trace_Unchoker", tp, ntraces=len(traces), timeout=1800)
    if not res["ok"] and res["hwm"] is not None:
        raise vlib.MachineryError("Trace_Unchoker could not explain line %s (driver/spec mismatch, not a verdict):\n%s"
                                  % (res["hwm"], res["out"][-2500:]))
    seen, nrep = set(), 0
    tags = {}
    for tag, line in res["viols"]:
        tags[tag] = tags.get(tag, 0) + 1
        i = max(k for k, (off, _) in enumerate(index) if off < line)
        off, t = index[i]
        pos = line - off                       # 1-based position inside the trace
        sig = signature(tag, t, pos)
        if sig in seen:
            continue
        seen.add(sig)
        if nrep >= 12:
            continue
        if ctx.violation(tag, sig, "unchoker call violates %s at event %d of a recorded history: %s"
                         % (tag, pos, json.dumps(t[pos - 1])[:300]), {"trace": t[:pos]}):
            nrep += 1
    ctx.extra["violated_tags_by_count"] = tags
    if getattr(ctx, "selftest", False):
        selftest(ctx, traces)


def nontrivial_trace(t):
    conn, intr = set(), set()
    for e in t[1:]:
        op, p = e["op"], e.get("pe")
        if op == "Connect": conn.add(p)
        elif op == "Disconnect": conn.discard(p); intr.discard(p)
        elif op == "Interested": intr.add(p)
        elif op == "NotInterested": intr.discard(p)
        elif op == "Tick" and len(intr) >= 2:
            return True
    return False


def signature(tag, t, pos):
    """Class of the violating call: configuration, kind of round, and the cause analysis for the two known defects."""
    ini = t[0]
    np_ = ini["npeers"]
    conn, intr, stale = set(), set(), set()
    chk, opt = [True] * np_, [False] * np_
    ticks = 0
    for e in t[1:pos - 1]:
        op, p = e["op"], e.get("pe")
        if op == "Connect": conn.add(p)
        elif op == "Disconnect": conn.discard(p); intr.discard(p); stale.discard(p)
        elif op == "Interested": intr.add(p)
        elif op == "NotInterested":
            intr.discard(p)
            if not chk[p - 1]:
                stale.add(p)                   # stays unchoked although it lost interest
        elif op == "Tick": ticks += 1
        if "chk" in e:
            chk, opt = e["chk"], e["opt"]
            stale = {q for q in stale if not chk[q - 1]}
    e = t[pos - 1]
    op = e["op"]
    rnd = "-"
    cause = "-"
    if op == "Tick":
        rnd = "opt" if ticks % 3 == 0 else "nonopt"
    c2, o2 = e.get("chk", chk), e.get("opt", opt)
    I = set(intr) | ({e["pe"]} if op == "Interested" else set())
    if tag == "X01.f" and op == "Tick":
        rate = e["ul"] if e["completed"] else e["dl"]
        victims = [q for q in I if not chk[q - 1] and opt[q - 1] and c2[q - 1]]
        reg2 = [q for q in I if not c2[q - 1] and not o2[q - 1]]
        after = all(rate[v - 1] <= rate[r - 1] for v in victims for r in reg2)
        full = len(reg2) >= ini["N"]
        cause = "cut=%s regular=%s" % ("after" if after else "before", "full" if full else "notfull")
    elif tag in ("X01.a.reg", "X01.a.opt"):
        want_opt = tag.endswith("opt")
        cls = [q for q in I if q in conn and not c2[q - 1] and o2[q - 1] == want_opt]
        if op == "Interested" and not chk[e["pe"] - 1]:
            cause = "stale-unchoked-peer-regains-interest"
        elif any(q in stale for q in cls):
            cause = "stale-holder-in-class"
    return "tag=%s op=%s round=%s N=%d M=%d cause=%s" % (tag, op, rnd, ini["N"], ini["M"], cause)


def selftest(ctx, traces):
    """Binding demonstration: drop one recorded message / flip one recorded flag and require the rejection."""
    for t in traces:
        for k, e in enumerate(t):
            if e["op"] == "Tick" and e["msgs"]:
                bad = [dict(x) for x in t[:k + 1]]
                bad[k]["msgs"] = bad[k]["msgs"][1:]
                p = ctx.path("selftest.ndjson")
                vlib.write_ndjson(p, bad)
                res = ctx.tlc_validate("Trace_Unchoker", p, ntraces=0)
                if not any(tag == "X01.d" for tag, _ in res["viols"]):
                    raise vlib.MachineryError("selftest: a dropped message was not rejected")
                print("selftest ok: dropped message rejected as X01.d", flush=True)
                return
