"""C09 — piece-selection safety (spec/Picker.tla, MC_Picker, Trace_Picker; driver harness/c09)."""
import json, os
import vlib


def run(ctx):
    ctx.level = "model_checking"
    ctx.cov["rule"] = ("event histories of the picker API in the torrent's calling discipline; a history is non-trivial if it "
                       "contains at least one PickFor/PickWebseed call; distinct = distinct sequences of (op, args, result)")
    ctx.assumptions += ["peers are peer.Peer values without sockets; web-seed position is set by the harness (urldownloader shim)",
                        "file-edge set is computed independently by the driver from the generated layout"]
    # 1. design level: the per-call obligations imply the global invariants, for every interleaving
    ctx.tlc_mc("MC_Picker", "MC_Picker.cfg", timeout=900)
    if not ctx.quick():
        ctx.tlc_mc("MC_Picker", "MC_Picker_seq.cfg", timeout=1800)
    # round 3: life-cycle configurations and episodes (stream with failed hash checks / end game with a common allowed-fast
    # set and more peers than the limit). OFF by default until a full run on the unchanged tree has been timed on an idle
    # machine: enable with VERIF_C09_LIFE=1.
    life = os.environ.get("VERIF_C09_LIFE", "") == "1"
    if life:
        for c in ("stream", "endgame"):
            ctx.tlc_mc("MC_PickerLife", "MC_PickerLife_%s.cfg" % c, timeout=1800)
            ok, out = ctx.tlc_mc("MC_PickerLife", "MC_PickerLife_%s_wit.cfg" % c, timeout=1800, expect_ok=False)
            if ok or "is violated" not in out:
                raise vlib.MachineryError("MC_PickerLife_%s_wit.cfg: the witness state is not reachable, the configuration is vacuous "
                                          "for the class it was written for\n%s" % (c, out[-2000:]))
    # 2. implementation -> specification
    drv = ctx.build_go("c09")
    ntr = ctx.pick(300, 6000)
    nops = ctx.pick(70, 120)
    chunk = 1500
    done = 0
    k = 0
    while done < ntr:
        n = min(chunk, ntr - done)
        tp = ctx.path("tr%d.ndjson" % k)
        ctx.run_drv(drv, ["-seed", str(ctx.seed * 1000 + k), "-n", str(n), "-ops", str(nops), "-out", tp,
                          "-maxpeers", str(ctx.pick(4, 6)), "-maxpieces", str(ctx.pick(10, 16)), "-nbig", str(max(1, n // 10)), "-nsteal", str(max(1, n // ctx.pick(2, 6)))]
                    + (["-nstream", str(max(1, n // ctx.pick(6, 15))), "-nendgame", str(max(1, n // ctx.pick(6, 15)))] if life else []))
        judge(ctx, tp)
        done += n
        k += 1


def split_traces(path):
    traces, cur = [], []
    for line in open(path):
        if line.startswith('{"edge"') or '"op":"Init"' in line:
            if cur:
                traces.append(cur)
            cur = []
        cur.append(line)
    if cur:
        traces.append(cur)
    return traces


def judge(ctx, tp):
    traces = split_traces(tp)
    for t in traces:
        evs = [json.loads(x) for x in t]
        key = tuple((e["op"], e.get("pe"), e.get("p"), e.get("s"), e.get("r"), e.get("b"), e.get("e")) for e in evs)
        nontrivial = any(e["op"] in ("Pick", "StartWebseed") for e in evs)
        ctx.count_case(key, nontrivial)
        ctx.oblig("C09.pick", sum(1 for e in evs if e["op"] == "Pick"))
        ctx.oblig("C09.webseed", sum(1 for e in evs if e["op"] == "StartWebseed"))
    ctx.sample({"trace_prefix": [json.loads(x) for x in traces[0][:12]]})
    remaining = traces
    for attempt in range(8):
        cur = ctx.path("cur.ndjson")
        with open(cur, "w") as fh:
            for t in remaining:
                fh.writelines(t)
        res = ctx.tlc_validate("Trace_Picker", cur, ntraces=len(remaining), timeout=1200)
        if res["ok"]:
            return
        hw = res["hwm"]
        if hw is None:
            raise vlib.MachineryError("trace validation failed without position:\n" + res["out"][-3000:])
        # locate the trace containing line hw (1-based)
        n = 0
        for i, t in enumerate(remaining):
            if n + len(t) >= hw:
                break
            n += len(t)
        bad = remaining[i]
        pos = hw - n
        if res["invariant"] is None:
            raise vlib.MachineryError("trace not explained by the specification at line %d (%s) — driver/spec mismatch, not a verdict\n%s"
                                      % (hw, bad[pos - 1][:300] if pos - 1 < len(bad) else "?", res["out"][-2000:]))
        tag = "?"
        import re
        m = re.search(r'viol = "([^"]*)"', res["state"] or "")
        if m and m.group(1):
            tag = m.group(1)
        elif res["invariant"] != "NoViolation":
            tag = "C09.inv." + res["invariant"]
        ev = json.loads(bad[pos - 1]) if pos - 1 < len(bad) else {}
        cfg = json.loads(bad[0])
        sig = "tag=%s op=%s seq=%s limit=%s nsrc=%s" % (tag, ev.get("op"), cfg.get("seq"), cfg.get("limit"), cfg.get("nsrc"))
        ctx.violation(tag, sig, "picker call violates %s at event %d of a recorded history: %s" % (tag, pos, json.dumps(ev)[:300]),
                      {"trace": [json.loads(x) for x in bad[:pos]], "spec_state": res["state"]})
        remaining = remaining[:i] + remaining[i + 1:]
        if not remaining:
            return
    raise vlib.MachineryError("too many violating traces")
