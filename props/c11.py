"""C11 — peer wire encoding is protocol-exact and round-trips through the reader.

spec/WireCodec.tla (reference codec), spec/Wire.tla (writer -> transport -> reader), MC_Wire (every fragmentation;
MC_Wire_cut*: + the connection breaks inside any frame after any number of its bytes),
WireGen (TLC prints encodings), Trace_Wire (judge); driver harness/c11.
"""
import json, os, random, re, threading
import vlib

U32 = [0, 1, 2 ** 31, 2 ** 32 - 1]


def L32(v):
    return [v >> 16, v & 0xFFFF]


def LB(v):
    out = []
    while v > 0:
        out.insert(0, v & 0xFFFF)
        v >>= 16
    return out


def A(s):
    return list(s.encode() if isinstance(s, str) else s)


# ----------------------------------------------------------------------------------------------- message constructors
def simple(k):
    return {"k": k}


def idx(k, i):
    return {"k": k, "index": L32(i)}


def req(k, i, b, l):
    return {"k": k, "index": L32(i), "begin": L32(b), "length": L32(l)}


def pay(m, rng, plen=None, pdata=None):
    if pdata is not None:
        m.update({"plen": len(pdata), "pdata": list(pdata), "haspdata": True, "pseed": 0})
    else:
        m.update({"plen": plen, "pdata": [], "haspdata": False, "pseed": rng.randrange(1, 1 << 30)})
    return m


def piece(rng, i, b, plen=None, pdata=None):
    return pay({"k": "piece", "index": L32(i), "begin": L32(b)}, rng, plen, pdata)


def bitfield(rng, plen=None, pdata=None):
    return pay({"k": "bitfield"}, rng, plen, pdata)


def port(p):
    return {"k": "port", "port": p}


def xhs(extid, m, v, yourip, msize, reqq):
    return {"k": "ext_handshake", "extid": extid, "m": [{"key": A(k), "id": i} for k, i in m], "v": A(v), "yourip": A(yourip),
            "metadata_size": LB(msize), "reqq": LB(reqq)}


def xmeta(rng, extid, typ, pc, total, plen=None, pdata=None):
    return pay({"k": "ext_metadata", "extid": extid, "msg_type": typ, "piece": LB(pc), "total_size": LB(total)}, rng, plen, pdata)


def xpex(extid, added, dropped):
    return {"k": "ext_pex", "extid": extid, "added": A(added), "dropped": A(dropped)}


def hs(reserved, ih, pid):
    return {"k": "handshake", "reserved": list(reserved), "ih": list(ih), "pid": list(pid)}


def unknown(rng, mid, pdata):
    return pay({"k": "unknown", "id": mid}, rng, None, pdata)


EMPTY = ["choke", "unchoke", "interested", "not_interested", "have_all", "have_none"]
STD_M = [("ut_metadata", 1), ("ut_pex", 2)]


def rbytes(rng, n):
    return bytes(rng.randrange(256) for _ in range(n))


def rand_m(rng):
    c = rng.randrange(4)
    if c == 0:
        return []
    if c == 1:
        return list(STD_M)
    names = ["ut_metadata", "ut_pex", "ut_holepunch", "lt_donthave", "upload_only", "ut_comment", "a", "ut_", "ut_pex2", "Z", "share_mode"]
    rng.shuffle(names)
    return [(n, rng.choice([0, 1, 2, 3, 127, 255])) for n in names[:rng.randrange(1, 6)]]


def rand_u32(rng):
    return rng.choice(U32 + [rng.randrange(2 ** 32), rng.randrange(70000), 65535, 65536, 2 ** 31 - 1])


class Gen:
    """Seeded population of messages. reader=True restricts to what the client's own reader is specified to accept
    back (ids of our own extension table, request/piece lengths within the 16 KiB block limit)."""

    def __init__(self, seed, tier):
        self.rng = random.Random(seed)
        self.q = tier == "quick"

    def boundary(self, reader):
        rng, q = self.rng, self.q
        out = [simple(k) for k in EMPTY]
        for k in ("have", "allowed_fast"):
            out += [idx(k, v) for v in U32] + [idx(k, rand_u32(rng)) for _ in range(2)]
        for k in ("request", "cancel", "reject"):
            for i in U32:
                for b in U32:
                    for l in U32:
                        if reader and k == "request" and l > 16384:
                            continue
                        out.append(req(k, i, b, l))
            out += [req(k, rand_u32(rng), rand_u32(rng), rng.choice([16384, 16383, 1 << 14, rng.randrange(16385)])) for _ in range(4)]
        for i in U32:
            for b in U32:
                for n in ([0, 1, 16383, 16384] if not q else [rng.choice([0, 1]), rng.choice([16383, 16384])]):
                    out.append(piece(rng, i, b, plen=n))
        out += [piece(rng, rand_u32(rng), rand_u32(rng), plen=rng.randrange(16385)) for _ in range(6)]
        out.append(piece(rng, 3, 16384, pdata=[0, 0, 0, 1, 2]))
        for bits in range(0, 18):
            nb = (bits + 7) // 8
            d = bytearray(rbytes(rng, nb))
            if bits % 8 and nb:
                d[-1] &= (0xFF << (8 - bits % 8)) & 0xFF
            out.append(bitfield(rng, pdata=d))
        for n in [8192, 16391, 16392, 16393] + ([] if q else [16384, 40000, 1 << 20]):
            out.append(bitfield(rng, plen=n))
        out += [port(p) for p in [0, 1, 32768, 65535, rng.randrange(65536), 6881]]
        out += self.ext(reader)
        return out

    def ext(self, reader):
        rng, q = self.rng, self.q
        out = []
        vs = ["", "Rain 2.2.1", rbytes(rng, 300), "x" * 16380, rbytes(rng, 16400), rbytes(rng, 17000), "µTorrent 3.5"]
        small_v = ["", "Rain 2.2.1", rbytes(rng, 40), "µTorrent 3.5"]
        ips = [b"", bytes([127, 0, 0, 1]), rbytes(rng, 4), rbytes(rng, 16)]
        sizes = U32 + [16384, 65536] + ([] if q else [2 ** 40, 2 ** 53])
        reqqs = [0, 1, 250, 2 ** 31 - 1, 2 ** 32 - 1] + ([] if q else [2 ** 40])
        eid = (lambda own: own) if reader else (lambda own: rng.choice([own, own, 0, 1, 2, 3, 255]))
        out.append(xhs(eid(0), [], "", b"", 0, 0))
        out.append(xhs(eid(0), STD_M, "Rain 2.2.1", bytes([10, 0, 0, 1]), 0, 250))
        for v in vs[2:6] if q else vs[2:6] * 2:      # dictionaries that outgrow the writer's 16 KiB + 13 buffer
            out.append(xhs(eid(0), rand_m(rng), v, rng.choice(ips), rng.choice(sizes), rng.choice(reqqs)))
        for _ in range(30 if q else 300):
            out.append(xhs(eid(0), rand_m(rng), rng.choice(small_v), rng.choice(ips), rng.choice(sizes), rng.choice(reqqs)))
        pcs = [0, 1, 65535, 65536, 2 ** 31, 2 ** 32 - 1]
        tots = [0, 1, 16384, 16385, 2 ** 31, 2 ** 32 - 1] + ([] if q else [2 ** 40])
        for typ in (0, 2):
            for pc in pcs:
                out.append(xmeta(rng, eid(1), typ, pc, rng.choice([0, 0, rng.choice(tots)]), pdata=[]))
        for n in [0, 1, 16383, 16384]:
            for _ in range(1 if q else 4):
                out.append(xmeta(rng, eid(1), 1, rng.choice(pcs), rng.choice(tots), plen=n))
        out.append(xmeta(rng, eid(1), 1, 1, 16392, pdata=A("d1:ai1eee")))         # piece that continues like bencode
        out.append(xmeta(rng, eid(1), 1, 0, 5, pdata=A("i42e4:spam")))
        for _ in range(8 if q else 60):
            out.append(xmeta(rng, eid(1), rng.choice([0, 1, 2]), rand_u32(rng), rng.choice(tots), plen=rng.choice([0, 1, 2, 100, 5000])))
        for na in [0, 1, 50, 200]:
            for nd in [0, 1, 50, 200]:
                out.append(xpex(eid(2), rbytes(rng, 6 * na), rbytes(rng, 6 * nd)))
        return out

    def random_msg(self, reader):
        rng = self.rng
        c = rng.randrange(12)
        if c == 0:
            return simple(rng.choice(EMPTY))
        if c == 1:
            return idx(rng.choice(["have", "allowed_fast"]), rand_u32(rng))
        if c in (2, 3):
            k = rng.choice(["request", "cancel", "reject"])
            l = rng.choice([16384, 1, 0, 16383]) if (reader and k == "request") else rng.choice([16384, rand_u32(rng)])
            return req(k, rand_u32(rng), rand_u32(rng), l)
        if c in (4, 5):
            return piece(rng, rng.randrange(4), rng.choice([0, 16384, 32768]), plen=rng.choice([0, 1, 5, 100, 16384, 16383, rng.randrange(16385)]))
        if c == 6:
            return bitfield(rng, pdata=rbytes(rng, rng.randrange(0, 4)))
        if c == 7:
            return port(rng.randrange(65536))
        if c == 8:
            return xhs(0, rand_m(rng), rng.choice(["", "Rain 2.2.1"]), rng.choice([b"", rbytes(rng, 4), rbytes(rng, 16)]),
                       rng.choice(U32 + [30000]), rng.choice([0, 250]))
        if c == 9:
            return xmeta(rng, 1, rng.choice([0, 1, 2]), rng.randrange(4), rng.choice([0, 40000]), plen=rng.choice([0, 0, 1, 300, 16384]))
        if c == 10:
            return xpex(2, rbytes(rng, 6 * rng.randrange(4)), rbytes(rng, 6 * rng.randrange(3)))
        return simple(rng.choice(["unchoke", "interested"]))

    def noise(self):
        rng = self.rng
        if rng.randrange(2):
            return {"k": "keepalive"}
        return unknown(rng, rng.choice([10, 11, 12, 13, 18, 19, 21, 99, 255]), rbytes(rng, rng.choice([0, 0, 4, 9])))


def build_cases(ctx, scheds=()):
    g = Gen(ctx.seed * 7919 + (0 if ctx.quick() else 1), ctx.tier)
    rng = g.rng
    wcases, rcases, genmsgs = [], [], []

    # ---- writer direction: boundary population packed into scripts of 1..5 messages + scripted situations
    pop = g.boundary(False)
    rng.shuffle(pop)
    i = 0
    while i < len(pop):
        n = rng.randrange(1, 6)
        wcases.append({"case": "w", "fast": rng.random() < 0.5, "msgs": pop[i:i + n]})
        i += n
    for _ in range(ctx.pick(60, 3000)):
        msgs = [g.random_msg(False) for _ in range(rng.randrange(1, 6))]
        if rng.random() < 0.4:                                   # serve the same request twice (second one -> reject)
            ps = [m for m in msgs if m["k"] == "piece"]
            if ps:
                msgs.insert(rng.randrange(len(msgs) + 1), dict(rng.choice(ps)))
                msgs = msgs[:6]
        wcases.append({"case": "w", "fast": rng.random() < 0.5, "msgs": msgs})
    # what torrent.sendFirstMessage emits
    wcases.append({"case": "w", "fast": True, "msgs": [bitfield(rng, pdata=[0xF0]), xhs(0, STD_M, "Rain 2.2.1", bytes([1, 2, 3, 4]), 12345, 250),
                                                       port(7246), idx("allowed_fast", 3), idx("allowed_fast", 9)]})

    # ---- FAULT: the connection breaks while a frame is being written (Wire!SendCut): the transport takes only the first k
    # bytes of the frame of message cut_at and the Write fails.  Mostly block frames (the upload counter must credit exactly the
    # block bytes taken: k - 13), cut inside the header, on its last byte, inside the block, one byte before its end; also the
    # reject that answers a duplicate request and frames without payload.
    # round 3: quiet on the unchanged tree for seeds 1,2,3 (idle machine) -> on by default; VERIF_C11_CUT=0 switches it off
    for j in range(ctx.pick(90, 2500) if (os.environ.get("VERIF_C11_CUT", "1") != "0") else 0):
        pre = [g.random_msg(False) for _ in range(rng.randrange(3))]
        n = rng.choice([0, 1, 5, 100, 1000, 16383, 16384, 16384, 16384, rng.randrange(16385)])
        blk = piece(rng, rng.randrange(4), rng.choice([0, 16384, 32768]), plen=n)
        msgs = pre + [blk]
        at = len(msgs) - 1
        c = rng.randrange(10)
        if c == 0:                                               # the duplicate of an earlier block is cut (a 17-byte reject)
            msgs.append(dict(blk))
            at += 1
        elif c == 1 and pre:                                     # any other frame is cut
            at = rng.randrange(len(pre))
        elif c == 2:                                             # a second block behind a complete one
            msgs.append(piece(rng, 5, 0, plen=rng.choice([1, 16384, rng.randrange(1, 16385)])))
            at += 1
        k = rng.choice([0, 1, 3, 4, 5, 12, 13, 14, 15, 13 + n // 2, 13 + rng.randrange(n + 1), -1, -2, -1 - rng.randrange(n + 1)])
        wcases.append({"case": "w", "fast": rng.random() < 0.5, "msgs": msgs, "cut_at": at, "cut_k": k,
                       "cut_err": rng.choice(["op", "plain"])})

    # ---- reader direction
    def add_stream(msgs, with_hs, modes):
        ms = []
        if with_hs:
            ms.append(hs(rng.choice([[0] * 8, [0, 0, 0, 0, 0, 0x10, 0, 0x05], list(rbytes(rng, 8))]), rbytes(rng, 20), rbytes(rng, 20)))
        ms += msgs
        tagged = []
        for m in ms:
            gm = dict(m)
            gm.update({"psha": "", "pfirst": [], "plast": []})
            genmsgs.append(gm)
            t = dict(m)
            t["gi"] = len(genmsgs)
            t["variant"] = rng.randrange(64)
            tagged.append(t)
        for mode in modes:
            rcases.append({"case": "r", "hs": with_hs, "chunk": mode, "cseed": rng.randrange(1 << 40), "msgs": tagged,
                           "our_rsv": list(rbytes(rng, 8)), "our_pid": list(rbytes(rng, 20))})

    rpop = g.boundary(True)
    if ctx.quick():                                              # the 3 x 64 request/cancel/reject cube is sampled in the quick tier
        cube = [m for m in rpop if m["k"] in ("request", "cancel", "reject")]
        rest = [m for m in rpop if m["k"] not in ("request", "cancel", "reject")]
        rng.shuffle(cube)
        rpop = rest + cube[:60]
    rng.shuffle(rpop)
    i = 0
    while i < len(rpop):
        n = rng.randrange(1, 6)
        msgs = list(rpop[i:i + n])
        i += n
        if rng.random() < 0.3:
            msgs.insert(rng.randrange(len(msgs) + 1), g.noise())
        modes = ["one", "prefix", "rand"] + (["whole"] if rng.random() < 0.3 else [])
        if not ctx.quick():
            modes += ["rand", "rand", "prefix"]
        add_stream(msgs, rng.random() < 0.25, modes)
    for _ in range(ctx.pick(40, 2000)):
        msgs = [g.random_msg(True) for _ in range(rng.randrange(1, 6))]
        for _ in range(rng.randrange(3)):
            msgs.insert(rng.randrange(len(msgs) + 1), g.noise())
        add_stream(msgs, rng.random() < 0.3, ["one", "prefix", "rand"])
    # ---- TIME: a slow peer.  Blocks arrive in bursts separated by silences that outlast the reader's piece timeout (several per
    # block, each after fresh bytes: the reader keeps the connection AND the position - Wire!Timeout), followed by messages that
    # must still parse exactly; "slowx" adds one silence anywhere (the reader may give up there: exact prefix expected)
    for j in range(ctx.pick(36, 600)):
        pre = [g.random_msg(True) for _ in range(rng.randrange(3))]
        blocks = []
        for _ in range(rng.choice([1, 1, 2, 3])):
            n = rng.choice([3, 4, 5, 17, 18, 100, 1000, 16383, 16384, rng.randrange(3, 16385), rng.randrange(3, 64)])
            blocks.append(piece(rng, rng.randrange(4), rng.choice([0, 16384, 32768]), plen=n))
            blocks += [g.random_msg(True) for _ in range(rng.randrange(3))]
        tail = [g.random_msg(True) for _ in range(rng.randrange(1, 4))]
        if rng.random() < 0.3:
            tail.insert(rng.randrange(len(tail) + 1), g.noise())
        add_stream(pre + blocks + tail, False, ["slow"] + (["slowx"] if j % 3 == 0 else []) + (["slow"] if j % 4 == 0 else []))
    # ---- CONCURRENCY: handshakes of 2..3 connections (distinct info hashes / ids / reserved bits) in flight at once, interleaved
    # as enumerated by TLC (MC_WireConc): "b" = btconn.Accept has reached its Write, which the blocking transport keeps pending,
    # "f" = the transport takes the bytes
    scheds = list(scheds)
    if ctx.quick() and len(scheds) > 48:                          # quick: every 2-connection schedule + a seeded half of the rest
        two = [x for x in scheds if x["n"] == 2]
        three = [x for x in scheds if x["n"] != 2]
        rng.shuffle(three)
        scheds = two + three[:42]
    for sc in scheds * ctx.pick(1, 4):
        conns = []
        same_id = rng.random() < 0.4                               # one client: the same reserved bits and peer id on every connection
        rsv, pid = list(rbytes(rng, 8)), list(rbytes(rng, 20))
        for _ in range(sc["n"]):
            h = hs(rng.choice([[0] * 8, [0, 0, 0, 0, 0, 0x10, 0, 0x05], list(rbytes(rng, 8))]), rbytes(rng, 20), rbytes(rng, 20))
            genmsgs.append(dict(h))
            t = dict(h)
            t["gi"] = len(genmsgs)
            conns.append({"case": "r", "hs": True, "chunk": rng.choice(["one", "whole", "rand", "prefix"]), "cseed": rng.randrange(1 << 40),
                          "msgs": [t], "our_rsv": rsv if same_id else list(rbytes(rng, 8)), "our_pid": pid if same_id else list(rbytes(rng, 20))})
        rcases.append({"case": "chs", "conns": conns, "sched": sc["sched"]})
    # dialing side of the handshake over loopback TCP
    for _ in range(ctx.pick(8, 40)):
        h = hs(rng.choice([[0] * 8, [0, 0, 0, 0, 0, 0x10, 0, 0x05], list(rbytes(rng, 8))]), rbytes(rng, 20), rbytes(rng, 20))
        gm = dict(h)
        genmsgs.append(gm)
        t = dict(h)
        t["gi"] = len(genmsgs)
        rcases.append({"case": "dial", "hs": True, "chunk": rng.choice(["one", "whole", "rand", "prefix"]), "cseed": rng.randrange(1 << 40),
                       "msgs": [t], "our_rsv": list(rbytes(rng, 8)), "our_pid": list(rbytes(rng, 20))})
    return wcases, rcases, genmsgs


# ----------------------------------------------------------------------------------------------- TLC as encoder
def tlc_encode(ctx, genmsgs):
    """WireGen: TLC prints every admissible encoding of the non-payload part of each message."""
    d = ctx._spec_copy()
    vlib.write_ndjson(os.path.join(d, "gen.ndjson"), genmsgs)
    rc, out, dt = ctx._tlc(d, "WireGen.tla", "WireGen.cfg", [], 1200, 1, {"JAVA_TOOL_OPTIONS": "-Xss64m"})
    hp = ctx.path("heads.ndjson")
    n = 0
    with open(hp, "w") as fh:
        for line in out.splitlines():
            line = line.strip()
            if line.startswith('"@@'):
                line = json.loads(line)
            if line.startswith("@@"):
                fh.write(line[2:] + "\n")
                n += 1
    vlib.log("TLC ENC WireGen: %d messages encoded in %.1fs" % (n, dt))
    if n != len(genmsgs):
        raise vlib.MachineryError("WireGen printed %d encodings for %d messages:\n%s" % (n, len(genmsgs), out[-4000:]))
    ctx.extra["tlc_encoded_messages"] = ctx.extra.get("tlc_encoded_messages", 0) + n
    return hp


# ----------------------------------------------------------------------------------------------- judging
def blocks_of(path):
    """A block is what is removed together after a violation: Conn..End, or a single Read line."""
    blocks, cur = [], []
    for line in open(path):
        if '"op":"Conn"' in line and cur:
            blocks.append(cur)
            cur = []
        if '"op":"Read"' in line:
            if cur:
                blocks.append(cur)
                cur = []
            blocks.append([line])
            continue
        cur.append(line)
        if '"op":"End"' in line:
            blocks.append(cur)
            cur = []
    if cur:
        blocks.append(cur)
    return blocks


def short(o, n=24):
    if isinstance(o, list):
        return [short(x, n) for x in o[:n]] + (["...%d more" % (len(o) - n)] if len(o) > n else [])
    if isinstance(o, dict):
        return {k: short(v, n) for k, v in o.items()}
    return o


def msg_key(m):
    return json.dumps({k: v for k, v in m.items() if k not in ("psha", "pfirst", "plast")}, sort_keys=True)


def account(ctx, blocks):
    leads = ctx.extra.setdefault("leads", [])
    for b in blocks:
        evs = [json.loads(x) for x in b]
        fast = None
        for e in evs:
            if e["op"] == "Conn":
                fast = e["fast"]
            elif e["op"] == "Send":
                k = e["m"]["k"]
                ctx.count_case(("w", msg_key(e["m"])), True)
                ctx.oblig("C11.frame")
                if k == "handshake":
                    ctx.oblig("C11.handshake")
                elif k == "keepalive":
                    ctx.oblig("C11.keepalive")
                else:
                    ctx.oblig("C11.id")
                    ctx.oblig("C11.ext" if k.startswith("ext_") else "C11.fields")
                if e["m"].get("plen", 0) > 0:
                    ctx.oblig("C11.payload")
                a = e["w"]["all"]
                if k == "piece" and len(a) == 17 and a[4] == 16 and fast is False and not any(l.get("id") == "reject-without-fast" for l in leads):
                    leads.append({"id": "reject-without-fast",
                                  "what": "peerwriter answers a repeated request with a fast-extension reject (id 16) on a connection where the "
                                          "fast extension was NOT negotiated (BEP 6 allows reject only when both sides set the fast bit); "
                                          "outside the encoding property, reported as a lead only", "frame": a})
            elif e["op"] == "Cut":
                ctx.count_case(("wcut", msg_key(e["m"]), e["w"]["k"], e["w"]["n"], e.get("err")), True)
                ctx.oblig("C11.frame")
                ctx.extra["cut_writes"] = ctx.extra.get("cut_writes", 0) + 1
                if e["m"]["k"] == "piece" and e["w"]["k"] > 13 and e["w"]["n"] > 17:
                    ctx.extra["cut_writes_inside_block"] = ctx.extra.get("cut_writes_inside_block", 0) + 1
                    ctx.oblig("C11.upcount.cut")
            elif e["op"] == "End":
                ctx.oblig("C11.upcount")
            elif e["op"] == "Read":
                ctx.count_case(("r", e["chunk"], tuple(msg_key(m) for m in e["exp"]), tuple(t["pos"] for t in e.get("touts", []))), True)
                ctx.oblig("C11.roundtrip", max(1, len(e["exp"])))
                tol = [t for t in e.get("touts", []) if t["body"] and t["since"] > 0]
                if tol:
                    ctx.extra["reads_with_tolerated_timeouts"] = ctx.extra.get("reads_with_tolerated_timeouts", 0) + 1
                    ctx.extra["tolerated_timeouts"] = ctx.extra.get("tolerated_timeouts", 0) + len(tol)
                    per = {}
                    for t in tol:
                        per[t["mi"]] = per.get(t["mi"], 0) + 1
                    if max(per.values()) >= 2:
                        ctx.extra["blocks_with_2plus_timeouts"] = ctx.extra.get("blocks_with_2plus_timeouts", 0) + sum(1 for v in per.values() if v >= 2)
                if len(e.get("touts", [])) > len(tol):
                    ctx.extra["reads_with_closing_timeout"] = ctx.extra.get("reads_with_closing_timeout", 0) + 1
                if e["chunk"].startswith("chs-"):
                    ctx.extra["concurrent_handshakes"] = ctx.extra.get("concurrent_handshakes", 0) + 1


def judge(ctx, tp, cases=None, max_violations=6):
    blocks = blocks_of(tp)
    account(ctx, blocks)
    if blocks:
        ctx.sample({"block": short([json.loads(x) for x in blocks[0][:3]])})
    remaining = blocks
    fresh = 0
    for attempt in range(30):
        if fresh > max_violations:
            break
        cur = ctx.path("cur.ndjson")
        with open(cur, "w") as fh:
            for b in remaining:
                fh.writelines(b)
        res = ctx.tlc_validate("Trace_Wire", cur, ntraces=len(remaining), timeout=3000)
        if res["ok"]:
            return
        hw = res["hwm"]
        if hw is None:
            raise vlib.MachineryError("trace validation failed without position:\n" + res["out"][-3000:])
        n = 0
        for i, b in enumerate(remaining):
            if n + len(b) >= hw:
                break
            n += len(b)
        bad = remaining[i]
        pos = hw - n
        line = bad[pos - 1] if 0 < pos <= len(bad) else "{}"
        if res["invariant"] is None:
            raise vlib.MachineryError("trace not explained by the specification at line %d (%s) - driver/spec mismatch, not a verdict\n%s"
                                      % (hw, line[:300], res["out"][-2000:]))
        m = re.search(r'viol = "([^"]*)"', res["state"] or "")
        tag = m.group(1) if m and m.group(1) else "C11.inv." + str(res["invariant"])
        e = json.loads(line)
        if e.get("op") == "Send":
            sig = "tag=%s op=Send k=%s plen=%s n=%s" % (tag, e["m"]["k"], e["m"].get("plen", 0), e["w"]["n"])
            if "sched" in e:                                     # concurrent handshakes: the interleaving and the connection
                sig += " sched=%s conn=%s" % (e["sched"], e.get("conn"))
        elif e.get("op") == "Cut":
            sig = "tag=%s op=Cut k=%s plen=%s n=%s taken=%s err=%s" % (tag, e["m"]["k"], e["m"].get("plen", 0), e["w"]["n"], e["w"]["k"], e.get("err"))
        elif e.get("op") == "Read":
            got = [x["k"] for x in e["got"]]
            exp = [x["k"] for x in e["exp"]]
            sig = "tag=%s op=Read chunk=%s exp=%s got=%s err=%s" % (tag, e["chunk"], ",".join(exp), ",".join(got), e.get("err", ""))
            if e.get("touts"):
                sig += " timeouts=%s" % ",".join("%d:%s%d" % (t["mi"], "body+" if t["body"] else "x", t["since"]) for t in e["touts"])
        else:
            sig = "tag=%s op=%s frames=%s sent=%s leftover=%s upl=%s wirepl=%s" % (tag, e.get("op"), e.get("frames"), e.get("sent"),
                                                                                  e.get("leftover"), e.get("upl"), e.get("wirepl"))
            cutl = next((json.loads(x) for x in bad if '"op":"Cut"' in x), None)
            if cutl:                                             # the connection broke inside a frame: which one, where
                sig += " cut=%s/plen%s/n%s/taken%s/err-%s" % (cutl["m"]["k"], cutl["m"].get("plen", 0), cutl["w"]["n"], cutl["w"]["k"], cutl.get("err"))
        case = cases[e["ci"]] if cases is not None and isinstance(e.get("ci"), int) and e["ci"] < len(cases) else None
        fresh += 1 if ctx.violation(tag, sig, "real code contradicts %s: %s" % (tag, json.dumps(short(e, 12))[:400]),
                      {"case": case, "block": short([json.loads(x) for x in bad], 80), "line_in_block": pos,
                       "spec_state": (res["state"] or "")[:1500]}) else 0
        remaining = remaining[:i] + remaining[i + 1:]
        if not remaining:
            return
    vlib.log("more than %d violating blocks in one trace file; not looking further" % max_violations)


def binding_selftest(ctx, tp):
    """Corrupt single recorded fields and require the judge to reject each (the comparison really binds)."""
    blocks = blocks_of(tp)
    send = next((b for b in blocks if any('"op":"Send"' in x and '"k":"request"' in x for x in b)), None)
    read = next((b for b in blocks if '"op":"Read"' in b[0] and '"k":"have"' in b[0]), None)
    tests = []
    if send:
        evs = [json.loads(x) for x in send]
        for e in evs:
            if e["op"] == "Send" and e["m"]["k"] == "request":
                e["w"]["head"][7] ^= 1
                e["w"]["all"] = []
                break
        tests.append(("C11.fields", evs))
        evs2 = [json.loads(x) for x in send]
        evs2[-1]["upl"] += 1
        tests.append(("C11.upcount", evs2))
    if read:
        e = json.loads(read[0])
        for m in e["got"]:
            if m["k"] == "have":
                m["index"][1] ^= 1
                break
        tests.append(("C11.roundtrip", [e]))
    # fault: a block whose frame was cut short, credited with its full length
    cutb = next((b for b in blocks if any('"op":"Cut"' in x and '"k":"piece"' in x for x in b)), None)
    if cutb:
        evs = [json.loads(x) for x in cutb]
        c = next(e for e in evs if e["op"] == "Cut")
        if c["w"]["n"] > 17:
            evs[-1]["upl"] = evs[-1]["upl"] - max(0, c["w"]["k"] - 13) + c["m"]["plen"]
            evs[-1]["wirepl"] = evs[-1]["upl"]
            tests.append(("C11.upcount", evs))
    # time: declare a tolerated expiry of a recorded slow-peer run as one the reader must not survive -> the full delivery is wrong
    slow = next((b for b in blocks if '"op":"Read"' in b[0] and '"chunk":"slow"' in b[0] and '"body":1' in b[0]), None)
    if slow:
        e = json.loads(slow[0])
        t = next((t for t in e["touts"] if t["body"] == 1 and t["since"] > 0 and e["ends"][-1] > t["pos"]), None)
        if t and len(e["got"]) == len([m for m in e["exp"] if m["k"] not in ("keepalive", "unknown")]):
            t["since"] = 0
            tests.append(("C11.roundtrip", [e]))
    # concurrency: a handshake frame that carries one byte of another connection
    chs = next((b for b in blocks if any('"sched"' in x for x in b)), None)
    if chs:
        evs = [json.loads(x) for x in chs]
        for e in evs:
            if e["op"] == "Send":
                e["w"]["head"][30] ^= 1
                break
        tests.append(("C11.handshake", evs))
    ok = 0
    for tag, evs in tests:
        p = ctx.path("selftest.ndjson")
        vlib.write_ndjson(p, evs)
        before = ctx.cov["traces_validated_against_impl"]
        res = ctx.tlc_validate("Trace_Wire", p, ntraces=0, timeout=600)
        ctx.cov["traces_validated_against_impl"] = before
        got = re.search(r'viol = "([^"]*)"', res["state"] or "")
        if res["ok"] or not got or got.group(1) != tag:
            raise vlib.MachineryError("binding self-test: corrupted %s record was not rejected with that tag (got %s)" % (tag, got and got.group(1)))
        ok += 1
    ctx.extra["binding_selftest_rejections"] = ok


def run(ctx):
    ctx.level = "model_checking"
    ctx.cov["rule"] = ("one case = one message handed to the real writer (bytes compared with the TLA+ codec) or one stream of TLC-encoded "
                       "messages fed to the real reader under one chunking; distinct = distinct (direction, message fields, payload length/seed"
                       "[, chunking, stream]) tuples; all are non-trivial")
    ctx.assumptions += [
        "payloads (piece blocks, bitfields, metadata pieces) are compared by length + SHA-1 + first/last 8 bytes, headers byte by byte",
        "round trip is claimed for messages inside the reader's own admission limits (request/piece length <= 16 KiB, frame <= max message size) "
        "and for extension ids of the client's own table (0 handshake, 1 ut_metadata, 2 ut_pex)",
        "a dictionary key whose value is the default (0 / empty) may be present or absent (same message)",
        "writer queue limit, choke-cancel and rate limiting are kept out of the way (they decide whether a piece is sent, not its encoding)",
        "keep-alive emission of the real writer is observed only in the thorough tier (fixed 60 s ticker)"]
    # 1. design level: Decode(any fragmentation of Encode(script)) = script, upload count, injectivity
    replay = getattr(ctx, "replay", None)
    if not os.environ.get("VERIF_C11_NOMC") and not replay:                     # development switch (mutation runs): skip the design-level part
        # LEVEL 2 (thorough) is a superset of LEVEL 1 (quick)
        ctx.tlc_mc("MC_Wire", ctx.pick("MC_Wire.cfg", "MC_Wire_big.cfg"), timeout=ctx.pick(1500, 3000))
        # FAULT: the connection breaks inside any frame after any number of its bytes (Wire!SendCut), every fragmentation
        if (os.environ.get("VERIF_C11_CUT", "1") != "0"):
            ctx.tlc_mc("MC_Wire", ctx.pick("MC_Wire_cut.cfg", "MC_Wire_cut_big.cfg"), timeout=ctx.pick(1500, 3000))
    # several connections at once: every interleaving of Build/Flush keeps every handshake exact; the interleavings are printed
    scheds = []
    if not replay:
        _, cout = ctx.tlc_mc("MC_WireConc", "MC_WireConc.cfg", timeout=900, workers=1)
        for line in cout.splitlines():
            line = line.strip()
            if line.startswith('"@@'):
                scheds.append(json.loads(json.loads(line)[2:]))
        if len(scheds) < 90:
            raise vlib.MachineryError("MC_WireConc printed only %d interleavings" % len(scheds))
        ctx.extra["handshake_interleavings_generated_by_tlc"] = len(scheds)
    # 2. generation + TLC-printed encodings
    drv = ctx.build_go("c11")
    ka = None
    if not ctx.quick() and not replay:                           # the real writer's keep-alive needs its 60 s ticker
        kp, kt = ctx.path("ka_cases.ndjson"), ctx.path("ka_trace.ndjson")
        vlib.write_ndjson(kp, [{"case": "keepalive", "fast": True, "msgs": [], "wait_sec": 75}])
        box = {}

        def ka_run():
            try:
                ctx.run_drv(drv, ["-in", kp, "-out", kt], timeout=200)
                box["ok"] = True
            except Exception as ex:                              # noqa
                box["err"] = ex
        ka = (threading.Thread(target=ka_run), box, kt)
        ka[0].start()
    if getattr(ctx, "replay", None):                             # re-run the real code on the recorded case only
        case = json.load(open(ctx.replay))["detail"]["case"]
        wcases, rcases, genmsgs = [], [case], []
        for m in case.get("msgs", []) + [m for cc in case.get("conns", []) for m in cc["msgs"]]:
            if "gi" in m:
                gm = {k: v for k, v in m.items() if k not in ("gi", "variant")}
                gm.update({"psha": "", "pfirst": [], "plast": []})
                genmsgs.append(gm)
                m["gi"] = len(genmsgs)
        genmsgs = genmsgs or [{"k": "choke"}]
    else:
        wcases, rcases, genmsgs = build_cases(ctx, scheds)
    heads = tlc_encode(ctx, genmsgs)
    # 3. real code
    per = ctx.pick(1000, 2500)
    allc = wcases + rcases
    ctx.extra["writer_scripts"] = len(wcases)
    ctx.extra["reader_streams_x_chunkings"] = len(rcases)
    files = []
    for k in range(0, len(allc), per):
        cp, tp = ctx.path("cases%d.ndjson" % k), ctx.path("trace%d.ndjson" % k)
        vlib.write_ndjson(cp, allc[k:k + per])
        r = ctx.run_drv(drv, ["-in", cp, "-heads", heads, "-out", tp, "-base", str(k)], timeout=1800)
        try:
            st = json.loads(r.stdout.strip().splitlines()[-1])
            ctx.extra["driver_cases_skipped"] = ctx.extra.get("driver_cases_skipped", 0) + st.get("skipped", 0)
        except Exception:
            pass
        files.append(tp)
    # 4. TLC judges
    for tp in files:
        judge(ctx, tp, allc)
    if ka:
        ka[0].join()
        if "err" in ka[1]:
            raise ka[1]["err"]
        judge(ctx, ka[2])
    if not ctx.violations and not ctx.known_hits and not getattr(ctx, "replay", None):   # needs clean recorded blocks to corrupt
        binding_selftest(ctx, files[0])
