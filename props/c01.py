"""C01 — only hash-verified data reaches disk or is reported (spec/TransferObs.tla, Transfer.tla, Trace_Transfer.tla; driver harness/xfer)."""
import json, random
import vlib, xfer_common as xc


def run(ctx):
    ctx.level = "model_checking"
    ctx.cov["rule"] = ("download scenarios = layout class x peer/web-seed policy mix x timing (stop/start at a blocked piece write), run on a real "
                       "leeching Session with recording storage; non-trivial = contains at least one adversarial peer/web seed or a timing action; "
                       "distinct = distinct (layout, unit, policies, timing, mode) tuples")
    ctx.assumptions += ["SHA-1 collision free (ground truth is the only content classified good)",
                        "storage is the recording in-memory provider injected through Config.CustomStorage",
                        "peers/web seeds are scripted on loopback; time-based expectations (ban within 6 s) carry generous slack"]
    ctx.tlc_mc("MC_Transfer", "MC_Transfer.cfg", timeout=900)
    ctx.tlc_mc("MC_Transfer", "MC_Transfer_live.cfg", timeout=900)
    if not ctx.quick():
        ctx.tlc_mc("MC_Transfer", "MC_Transfer_big.cfg", timeout=2400)
    drv = ctx.build_go("xfer")
    rng = random.Random(ctx.seed)
    n = ctx.pick(140, 1600)
    scs = xc.gen_scenarios(rng, n, "c01")
    by_id = {s["id"]: s for s in scs}
    raws, crashed = xc.run_scenarios(ctx, drv, scs, nproc=ctx.pick(8, 12))
    abstract = {}
    for rp in raws:
        abstract.update(xc.project(rp, {c["id"] for c in crashed}))
    for sid, evs in abstract.items():
        s = by_id[sid]
        key = (s["layout"], s["unit"], s.get("seq"), tuple((p["policy"], p.get("k"), p.get("have"), p.get("sole", False)) for p in s["peers"]),
               tuple(w["policy"] for w in s.get("webseeds", [])), tuple(t["n"] for t in s.get("timing", [])))
        nontrivial = any(p["policy"] != "honest" for p in s["peers"]) or any(w["policy"] != "honest" for w in s.get("webseeds", [])) or bool(s.get("timing"))
        ctx.count_case(key, nontrivial)
        ctx.oblig("C01.a(write)", sum(1 for e in evs if e["ev"] == "w"))
        ctx.oblig("C01.b(snap)", sum(1 for e in evs if e["ev"] == "snap"))
        ctx.oblig("C01.c(rep/stats/resume)", sum(1 for e in evs if e["ev"] in ("rep", "stats", "resume")))
        ctx.oblig("C01.d(complete)", sum(1 for e in evs if e["ev"] == "complete"))
        ctx.oblig("C01.e(ban)", sum(1 for e in evs if e["ev"] in ("expect", "redial")))
    if abstract:
        first = sorted(abstract)[0]
        ctx.sample({"scenario": by_id[first], "abstract_trace_prefix": abstract[first][:15]})
    ctx.extra["scenarios_run"] = len(scs)
    ctx.extra["scenarios_judged"] = len(abstract)
    ctx.extra["scenarios_crashed"] = [{"id": c["id"], "panic": c["panic"], "scenario": c["scenario"]} for c in crashed]
    if len(abstract) < 0.8 * len(scs):
        raise vlib.MachineryError("only %d of %d scenarios produced a complete trace (crashed: %d) — not enough to claim the property held"
                                  % (len(abstract), len(scs), len(crashed)))
    for tag in ("C01.a(write)", "C01.b(snap)", "C01.c(rep/stats/resume)", "C01.d(complete)", "C01.e(ban)"):
        if ctx.obligation_counts.get(tag, 0) == 0:
            raise vlib.MachineryError("obligation %s was never evaluated (vacuous run)" % tag)
    foreign = xc.judge(ctx, abstract, by_id, ["C01."], "C10/C04")
    ctx.extra["foreign_tags"] = {k: len(v) for k, v in foreign.items()}
