"""C01 — only hash-verified data reaches disk or is reported (spec/TransferObs.tla, Transfer.tla, Trace_Transfer.tla; driver harness/xfer)."""
import json, random
import vlib, xfer_common as xc


def claims_after(evs, pred):
    """number of claims (snapshot, wire report, stats, resume data, completion) judged after the first event matching pred"""
    for i, e in enumerate(evs):
        if pred(e):
            return sum(1 for x in evs[i:] if x["ev"] in ("snap", "rep", "stats", "resume", "complete"))
    return 0


def run(ctx):
    ctx.level = "model_checking"
    ctx.cov["rule"] = ("download scenarios = layout class x peer/web-seed policy mix x start mode (.torrent / magnet, empty or pre-filled storage) x "
                       "timing (stop/start at a blocked piece write; failed storage write then Start; damage + Verify + Start after completion), "
                       "run on a real leeching Session with recording storage; non-trivial = contains at least one adversarial peer/web seed, "
                       "pre-existing data or a timing/command action; distinct = distinct (layout, unit, policies, timing, mode, start mode) tuples")
    ctx.assumptions += ["SHA-1 collision free (ground truth is the only content classified good)",
                        "storage is the recording in-memory provider injected through Config.CustomStorage",
                        "peers/web seeds are scripted on loopback; time-based expectations (ban within 6 s) carry generous slack"]
    ctx.tlc_mc("MC_Transfer", "MC_Transfer.cfg", timeout=900)
    ctx.tlc_mc("MC_Transfer", "MC_Transfer_live.cfg", timeout=900)
    if not ctx.quick():
        ctx.tlc_mc("MC_Transfer", "MC_Transfer_big.cfg", timeout=2400)
    drv = ctx.build_go("xfer")
    rng = random.Random(ctx.seed)
    n = ctx.pick(175, 2000)
    scs = xc.gen_scenarios(rng, n, "c01")
    scs += xc.gen_heavy(rng, ctx.pick(6, 45), len(scs) + 1, "c01")
    by_id = {s["id"]: s for s in scs}
    raws, crashed = xc.run_scenarios(ctx, drv, scs, nproc=ctx.pick(8, 12), per_timeout=60)
    abstract = {}
    for rp in raws:
        abstract.update(xc.project(rp, {c["id"] for c in crashed}))
    for sid, evs in abstract.items():
        s = by_id[sid]
        key = (s["layout"], s["unit"], s.get("seq"), tuple((p["policy"], p.get("k"), p.get("have"), p.get("sole", False)) for p in s["peers"]),
               tuple(w["policy"] for w in s.get("webseeds", [])), tuple((t.get("do"), t["n"]) for t in s.get("timing", [])),
               bool(s.get("magnet")), s.get("prefill"), s.get("after"))
        nontrivial = any(p["policy"] != "honest" for p in s["peers"]) or any(w["policy"] != "honest" for w in s.get("webseeds", [])) or \
            bool(s.get("timing") or s.get("prefill") or s.get("after"))
        ctx.count_case(key, nontrivial)
        ctx.oblig("C01.a(write)", sum(1 for e in evs if e["ev"] == "w"))
        ctx.oblig("C01.b(snap)", sum(1 for e in evs if e["ev"] == "snap"))
        ctx.oblig("C01.c(rep/stats/resume)", sum(1 for e in evs if e["ev"] in ("rep", "stats", "resume")))
        ctx.oblig("C01.d(complete)", sum(1 for e in evs if e["ev"] == "complete"))
        ctx.oblig("C01.e(ban)", sum(1 for e in evs if e["ev"] in ("expect", "redial")))
        ctx.oblig("C01.b/c(after a failed write)", claims_after(evs, lambda e: e["ev"] == "w" and e["err"] and e["cls"] == "good"))
        ctx.oblig("C01.b/c/d(after damage+verify)", claims_after(evs, lambda e: e["ev"] == "disk-mutate"))
        if s.get("magnet"):
            ctx.oblig("C01.b/c(magnet)", sum(1 for e in evs if e["ev"] in ("snap", "rep", "stats", "resume")))
    if abstract:
        first = sorted(abstract)[0]
        ctx.sample({"scenario": by_id[first], "abstract_trace_prefix": abstract[first][:15]})
    ctx.extra["scenarios_run"] = len(scs)
    ctx.extra["scenarios_judged"] = len(abstract)
    ctx.extra["scenarios_crashed"] = [{"id": c["id"], "panic": c["panic"], "scenario": c["scenario"]} for c in crashed]
    if len(abstract) < 0.8 * len(scs):
        raise vlib.MachineryError("only %d of %d scenarios produced a complete trace (crashed: %d) — not enough to claim the property held"
                                  % (len(abstract), len(scs), len(crashed)))
    for tag in ("C01.a(write)", "C01.b(snap)", "C01.c(rep/stats/resume)", "C01.d(complete)", "C01.e(ban)", "C01.b/c(after a failed write)",
                "C01.b/c/d(after damage+verify)", "C01.b/c(magnet)"):
        if ctx.obligation_counts.get(tag, 0) == 0:
            raise vlib.MachineryError("obligation %s was never evaluated (vacuous run)" % tag)
    foreign = xc.judge(ctx, abstract, by_id, ["C01."], "C10/C04", drv=drv)
    ctx.extra["foreign_tags"] = {k: len(v) for k, v in foreign.items()}
