"""C19 — private torrents use only their trackers (spec/Private.tla, MC_Private*.cfg, MC_PrivateGen, Trace_Private; driver harness/c19).

1. design level: TLC exhaustive over the 32 configurations (private x DHT x PEX x sibling x file/magnet) and every interleaving with
   <= MaxHist environment events; the same model with one guard left out (MC_Private_asis_*.cfg) must violate an invariant
   (the invariants notice each guard).
2. TLC generates the message histories (MC_PrivateGen); they are combined with the encodings of the private key and the
   DHT/PEX switches and replayed against a real torrent.Session by harness/c19 (child processes).
3. the recorded traces are projected to the events of Trace_Private.tla and judged by TLC in one pass (@@VIOL tag line).
"""
import concurrent.futures as cf
import json, os, random, re, subprocess, threading
import vlib

# encodings of the "private" key in the info dict and their value class as named in Private.tla.  The reading is fixed by the
# specification (Private!IsPrivateEncoding, fail-safe): private iff present and not integer 0 / string "0" / empty string.
# EVERY encoding is judged against that reading (C19.flag and all other obligations); where the client's own reading
# (Stats().Private, or the refusal of magnet metadata) differs is recorded in the evidence as well.
ENCV = {"absent": "absent", "i1": "int:1", "i0": "int:0", "i2": "int:2", "im1": "int:-1", "s1": "str:1", "s0": "str:0", "se": "str:",
        "sx": "str:x", "list": "list", "elist": "list", "dict": "dict", "edict": "dict", "ibig": "int:big"}
ENCS = list(ENCV)
PUBLIC_VALUES = {"absent", "int:0", "str:0", "str:"}        # mirror of Private!PublicValues (used for the control counters only)
KIND = {"out": "tracker", "man": "manual", "in1": "incoming", "in2": "incoming", "pexa": "pex", "pexd": "pex", "dhtp": "dht"}
DHT_SETTLE = 1700
INFLIGHT_MS = 300       # connections / ut_pex messages logged less than this after the refusal of the metadata count as in flight before it
INFLIGHT_DHT_MS = 500   # same for KRPC queries (the defect it guards shows up anywhere within 1 s after the refusal)
INFLIGHT_LOOP_MS = 400  # ... when the refusal was logged by the torrent's loop itself (slow-stop scenarios): only the way of the datagram is in flight
SLOWSTOP = {"slowstop": 2000, "dhtminann": 150}    # environment fault "tracker slow to answer the stopped event" + configuration dht-min-announce-interval
RERUN_TAGS = ("C19.metadata.leak.dht.stopping",)    # scheduling-dependent observations: candidates, re-executed in isolation


def S(do, peer="", k=""):
    return {"do": do, "peer": peer, "k": k}


def fixed_scenarios():
    out = []

    def add(**kw):
        kw.setdefault("pex", True)
        kw.setdefault("dht", False)
        kw.setdefault("mode", "file")
        kw.setdefault("steps", [])
        out.append(kw)

    for e in ENCS:      # every encoding: incoming peer + PEX message from the tracker's peer + Magnet()
        add(enc=e, steps=[S("in", "in1"), S("pex", "out", "ad"), S("magnet")])
    for e in ENCS:      # every encoding through a magnet link (the tracker's peer serves the metadata)
        add(enc=e, mode="magnet", pre=([S("pex", "out", "a")] if e in ("i1", "absent", "s1") else []), steps=[S("manual"), S("magnet")])
    for e in ("i1", "absent", "s1", "i0"):    # PEX switched off
        add(enc=e, pex=False, steps=[S("manual"), S("pex", "man", "a"), S("in", "in1"), S("in", "in2")])
    for e in ("i1", "absent", "sx"):            # PEX from an incoming peer / dropped list only / after stop-start
        add(enc=e, steps=[S("in", "in1"), S("in", "in2"), S("pex", "in1", "d"), S("addtracker")])
        add(enc=e, steps=[S("stopstart"), S("pex", "out", "a"), S("announce")])
    # DHT switched on (slower: the session hands one request per second to its DHT node)
    for e in ("i1", "absent"):
        add(enc=e, dht=True, steps=[S("port", "out")], dhtbit=True)
        add(enc=e, dht=True, pex=False, steps=[S("in", "in1"), S("port", "in1")])
    for e in ("i1", "absent", "list"):
        add(enc=e, dht=True, sibling=True, pex=False, steps=[])
    for e in ("i1", "absent", "s1", "i0", "dict"):
        add(enc=e, dht=True, mode="magnet", steps=[S("manual")])
    add(enc="i1", dht=True, mode="magnet", steps=[S("stopstart")])
    for e in ("i1", "absent", "s1"):            # the torrent is loaded from its resume record by a new session
        add(enc=e, steps=[S("restart"), S("in", "in1"), S("pex", "out", "a"), S("magnet")])
    add(enc="i1", dht=True, steps=[S("restart"), S("port", "out")])
    # the torrent is loaded by a new session from a resume record in each state (no bitfield: added stopped / partial / complete)
    for e in ("i1", "absent", "s1", "list"):
        for rs in ("nobf", "partial", "full"):
            add(enc=e, resume=rs, steps=[S("in", "in1"), S("magnet")] + ([S("addtracker")] if rs == "nobf" else []))
    add(enc="i1", resume="nobf", steps=[S("stop"), S("restart"), S("start"), S("magnet")])
    add(enc="i1", steps=[S("stop"), S("restart"), S("magnet"), S("start"), S("in", "in1")])
    # Magnet() in every life-cycle state of the handle: before the metadata, running, stopped, removed, session closed, racing a removal
    for e in ("i1", "absent", "s1", "dict"):
        add(enc=e, steps=[S("magnet"), S("stop"), S("magnet"), S("start"), S("remove"), S("magnet")])
        add(enc=e, steps=[S("in", "in1"), S("close"), S("magnet")])
        add(enc=e, steps=[S("magnetrace"), S("magnet")])
        add(enc=e, resume="nobf", steps=[S("stop"), S("remove"), S("magnet")])
    for e in ("i1", "absent"):
        add(enc=e, mode="magnet", pre=[S("magnet")], steps=[S("magnet"), S("remove"), S("magnet")])
        add(enc=e, mode="magnet", pre=[S("magnet")], steps=[S("close"), S("magnet")])
        add(enc=e, resume="full", steps=[S("magnetrace")])
    # a co-tenant (public torrent / magnet link of the same session announcing to the same tracker URL) was added first
    for e in ("i1", "s1", "absent", "list"):
        for co in ("file", "magnet"):
            add(enc=e, cotenant=co, steps=[S("in", "in1"), S("announce"), S("magnet")])
    add(enc="i1", cotenant="file", steps=[S("restart"), S("announce")])
    add(enc="i1", cotenant="magnet", resume="nobf", steps=[S("in", "in1")])
    add(enc="i1", cotenant="file", resume="partial", steps=[S("stopstart")])
    add(enc="i1", cotenant="magnet", mode="magnet", steps=[S("manual")])
    # the tracker is slow to answer the "stopped" event: the torrent that refused private metadata stays in Stopping state
    # (DHT on; the announcer queues a request every dhtminann ms while the torrent runs)
    for e in ("i1", "i1", "s1", "dict", "absent"):
        add(enc=e, dht=True, mode="magnet", steps=[], **SLOWSTOP)
    add(enc="i1", dht=True, mode="magnet", cotenant="file", steps=[S("magnet")], **SLOWSTOP)
    add(enc="i2", dht=True, mode="magnet", pre=[S("pex", "out", "a")], steps=[S("manual")], **SLOWSTOP)
    return out


def generated_scenarios(ctx, rng, n, ndht):
    items, _ = ctx.tlc_gen("MC_PrivateGen", ctx.pick("MC_PrivateGen_3.cfg", "MC_PrivateGen_4.cfg"), timeout=600)
    hs = [h for h in items if isinstance(h, list) and h]
    if len(hs) < 500:
        raise vlib.MachineryError("history generator produced only %d histories" % len(hs))
    ctx.extra["histories_generated_by_tlc"] = len(hs)
    hs.sort(key=lambda h: json.dumps(h, sort_keys=True))
    out = []
    for i in range(n):
        h = rng.choice(hs)
        enc = rng.choice(["i1", "i1", "i1", "absent"] + ENCS)
        dht = i < ndht
        mode = "magnet" if rng.random() < 0.25 else "file"
        sc = {"enc": enc, "pex": rng.random() < 0.8, "dht": dht, "mode": mode, "steps": [dict(s) for s in h], "dhtbit": rng.random() < 0.3}
        if mode == "file" and not dht and rng.random() < 0.3:
            sc["resume"] = rng.choice(["nobf", "nobf", "partial", "full"])
        if dht and mode == "file" and rng.random() < 0.4:
            sc["sibling"] = True
        if rng.random() < 0.2:
            sc["cotenant"] = rng.choice(["file", "magnet"])
        if dht and mode == "magnet" and rng.random() < 0.5:
            sc.update(SLOWSTOP)
        if mode == "magnet" and rng.random() < 0.4:
            sc["pre"] = [S("pex", "out", rng.choice(["a", "d", "ad"]))] + ([S("magnet")] if rng.random() < 0.5 else [])
        out.append(sc)
    return out


def run_scenarios(ctx, drv, scenarios, nproc, per_timeout):
    """child processes with crash containment (BEGIN/END markers); returns raw trace files and crashed records."""
    shards = [s for s in (scenarios[i::nproc] for i in range(nproc)) if s]
    crashed, traces = [], []

    def work(i, shard):
        res_tr, res_cr = [], []
        todo = list(shard)
        part = 0
        while todo:
            part += 1
            sp = ctx.path("sc-%d-%d.ndjson" % (i, part))
            tp = ctx.path("raw-%d-%d.ndjson" % (i, part))
            with open(sp, "w") as fh:
                for s in todo:
                    fh.write(json.dumps(s) + "\n")
            try:
                r = subprocess.run([drv, "run", "-scenarios", sp, "-out", tp], cwd=ctx.scratch, env=vlib.GOENV,
                                   capture_output=True, text=True, timeout=per_timeout * len(todo) + 30)
                rc, out, err = r.returncode, r.stdout, r.stderr
            except subprocess.TimeoutExpired as ex:
                so = ex.stdout or ""
                rc, out, err = -9, so.decode() if isinstance(so, bytes) else so, "watchdog"
            res_tr.append(tp)
            begun = [int(x) for x in re.findall(r"^BEGIN (\d+)$", out, re.M)]
            ended = set(int(x) for x in re.findall(r"^END (\d+)$", out, re.M))
            if rc == 0:
                break
            bad = [b for b in begun if b not in ended]
            if not bad:
                raise vlib.MachineryError("c19 child failed outside a scenario: rc=%s %s" % (rc, err[-2000:]))
            m = re.search(r"panic: (.*)", err)
            res_cr.append({"id": bad[0], "rc": rc, "panic": m.group(1)[:200] if m else "", "stderr_tail": err[-1500:]})
            done_ids = ended | {bad[0]}
            todo = [s for s in todo if s["id"] not in done_ids]
        return res_tr, res_cr

    with cf.ThreadPoolExecutor(max_workers=len(shards) or 1) as ex:
        for f in [ex.submit(work, i, s) for i, s in enumerate(shards)]:
            t, c = f.result()
            traces += t
            crashed += c
    return traces, crashed


def project(raw_path, info):
    """raw driver events -> {sid: abstract events}; info[sid] collects facts for evidence."""
    per = {}
    for e in vlib.read_ndjson(raw_path) if os.path.exists(raw_path) else []:
        if "sid" in e:              # the scenario whose goroutine logged the event (not the scenario current at that moment)
            per.setdefault(e["sid"], []).append(e)
    out = {}
    for sid, evs in per.items():
        evs.sort(key=lambda e: e["seq"])
        if not evs or evs[0]["ev"] != "init" or not any(e["ev"] == "end" for e in evs):
            continue
        ini = evs[0]
        fin = [e for e in evs if e["ev"] == "obs" and e["tag"] == "final"]
        meta = [e for e in evs if e["ev"] == "meta"]
        fact = {"enc": ini["enc"], "mode": ini["mode"], "adderr": next((e["err"] for e in evs if e["ev"] == "adderr"), None),
                "reading": None, "portrx": sum(1 for e in evs if e["ev"] == "portrx"),
                "advpex": sum(1 for e in evs if e["ev"] == "exths_rx" and e.get("advpex")),
                "skips": [e["what"] for e in evs if e["ev"] == "skip"], "stray": sum(1 for e in evs if e["ev"] == "stray")}
        info[sid] = fact
        if fact["adderr"] is not None or not fin:
            continue
        if ini["mode"] == "magnet":
            oc = meta[0]["outcome"] if meta else "none"
            reading = True if oc == "refused" else (bool(fin[-1]["private"]) if oc == "adopted" else None)
        else:
            reading = bool(fin[-1]["private"])
        fact["reading"] = reading
        encv = ENCV[ini["enc"]]
        priv = encv not in PUBLIC_VALUES
        fact["priv"], fact["encv"] = priv, encv
        a = [{"ev": "init", "sid": sid, "encv": encv, "priv": priv, "dht": bool(ini["dht"]), "pex": bool(ini["pex"]),
              "sibling": bool(ini["sibling"]), "mode": ini["mode"], "co": ini.get("co", "none"), "slowstop": ini.get("slowstop", 0)}]
        seen_ident = set()
        na, tprev = 0, evs[0]["t_ms"]
        for e in evs[1:]:
            k = e["ev"]
            for x in a[na:]:
                x["t"] = tprev
            na = len(a)
            tprev = e["t_ms"]
            if k in ("start", "stop", "stopped", "trkreply", "addpeer", "sibling", "dhtvalues"):
                a.append({"ev": k})
            elif k == "reload":
                a.append({"ev": "reload", "bf": e["bf"] == 1})
                fact.setdefault("reloads", []).append(e["bf"])
            elif k == "gone":
                a.append({"ev": "gone", "how": e["how"]})
                fact.setdefault("gone", []).append(e["how"])
            elif k == "conn" and e["dir"] == "in":
                a.append({"ev": "conn_in"})
            elif k == "exths_tx":
                a.append({"ev": "exths", "p": KIND[e["peer"]]})
            elif k in ("pexmsg", "port"):
                a.append({"ev": k, "p": KIND[e["peer"]]})
            elif k == "dial" and not e.get("hs"):
                fact["unattributed"] = fact.get("unattributed", 0) + 1     # no handshake could be read: not attributable to the torrent
            elif k == "dial":
                a.append({"ev": "dial", "src": e["src"], "who": "t1" if e["who"] in ("t1", "?") else "sib", "lst": e["lst"]})
            elif k == "pexrx":
                a.append({"ev": "pexrx", "p": KIND[e["peer"]]})
            elif k == "dht" and e.get("match") == 1 and e["q"] in ("get_peers", "announce_peer"):
                a.append({"ev": "dhtq", "q": e["q"], "who": e["who"] or "?"})
            elif k == "meta":
                a.append({"ev": "meta", "outcome": e["outcome"], "loop": e.get("at") == "loop"})
            elif k == "magnet":
                a.append({"ev": "magnet", "err": bool(e["err"])})
            elif k == "ident":
                key = (e["what"], e["where"], e["cls"])
                if key not in seen_ident:
                    seen_ident.add(key)
                    a.append({"ev": "ident", "what": e["what"], "cls": e["cls"], "where": e["where"], "val": e["val"][:40]})
            elif k == "obs":
                a.append({"ev": "obs", "private": bool(e["private"]), "snapPrivate": bool(e.get("snapPrivate", e["private"])),
                          "qpex": e["addrPEX"], "qdht": e["addrDHT"], "dhtAnnouncer": bool(e.get("dhtAnnouncer", 0)), "pexPeers": e.get("pexPeers", 0),
                          "srcs": sorted(set(e["srcs"]) | set(e.get("snapSrcs", []))), "status": e["status"], "hasInfo": bool(e.get("hasInfo", 0))})
            elif k == "end":
                a.append({"ev": "end"})
                break
        for x in a[na:]:
            x["t"] = tprev
        out[sid] = reorder_inflight(a)
    return out


def reorder_inflight(a):
    """Events are numbered when the harness goroutine that saw them logs them.  A connection / KRPC query / ut_pex message that the
    client produced just before it refused the metadata may be logged just after the harness noticed the refusal: observations
    logged within INFLIGHT_MS after a 'meta refused' line are placed before it."""
    out = list(a)
    i = 0
    while i < len(out):
        e = out[i]
        if e["ev"] == "meta" and e["outcome"] == "refused":
            j = i + 1
            moved = []
            rest = []
            for x in out[i + 1:]:
                if (x["ev"] in ("dial", "pexrx") and x["t"] < e["t"] + INFLIGHT_MS) or \
                        (x["ev"] in ("dhtq", "dhtvalues") and x["t"] < e["t"] + (INFLIGHT_LOOP_MS if e.get("loop") else INFLIGHT_DHT_MS)):
                    moved.append(x)
                else:
                    rest.append(x)
            out = out[:i] + moved + [e] + rest
            i += len(moved)
        i += 1
    return out


def sc_class(sc):
    return "enc=%s mode=%s pex=%d dht=%d sib=%d resume=%s co=%s slowstop=%d steps=%s" % (sc["enc"], sc.get("mode", "file"), sc.get("pex", False), sc.get("dht", False),
                                                           sc.get("sibling", False), sc.get("resume") or "-", sc.get("cotenant") or "-", sc.get("slowstop", 0),
                                                           ",".join(":".join(x for x in (s["do"], s.get("peer", ""), s.get("k", "")) if x)
                                                                    for s in (sc.get("pre") or []) + [S("|")] + sc["steps"]))


def run(ctx):
    ctx.level = "model_checking"
    ctx.cov["rule"] = ("scenario = encoding of the private key x (file | magnet) x PEX switch x DHT switch x sibling magnet x message history "
                       "(TLC-generated: AddPeer, incoming peers, PEX added/dropped from each connected peer, port messages, Magnet(), re-announce, "
                       "stop, start, stop/start, AddTracker, restart = Session.Close + NewSession on the same database, RemoveTorrent / Session.Close with the handle kept, "
                       "Magnet() racing RemoveTorrent) x state of the resume record a new session loads the torrent from (none / no bitfield / partial / complete); "
                       "every scripted peer advertises ut_pex; non-trivial = the torrent is private by the fail-safe "
                       "reading of its encoding; distinct = distinct (encoding, mode, switches, history) tuples")
    ctx.assumptions += ["address sources are told apart by the listener a connection arrives at: the tracker's, the user's, the PEX added / dropped and the "
                        "DHT stub's address each have their own 127.0.0.x listener",
                        "negative observations use a settle window (300 ms after the last step; DHT: until a query with the info-hash was seen, else 1.7 s, "
                        "plus 0.4 s); the same windows show the positive behaviour on public torrents (controls counted in evidence)",
                        "reading of the private key (Private!IsPrivateEncoding): private iff present and not integer 0 / string \"0\" / empty string; every "
                        "encoding (integers, strings, lists, dictionaries, oversized integer) is judged against it",
                        "a magnet link added for an info-hash the session also holds as private torrent asks the DHT on its own behalf (its metadata is "
                        "unknown); only the private torrent's behaviour is judged in that scenario"]
    # 1. design level (in worker threads, concurrently with the scenarios)
    lock = threading.Lock()
    orig_copy = ctx._spec_copy

    def locked_copy():
        with lock:
            return orig_copy()
    ctx._spec_copy = locked_copy
    with cf.ThreadPoolExecutor(max_workers=6) as ex:
        futs = []
        if not os.environ.get("VERIF_C19_NOMC"):      # development switch: skip the design-level runs
            futs = design_level(ctx, ex)
        scenarios_level(ctx)
        for f in futs:
            f.result()


def design_level(ctx, ex):
    futs = [ex.submit(ctx.tlc_mc, "MC_Private", ctx.pick("MC_Private.cfg", "MC_Private_h6.cfg"), 1800, ctx.pick(6, 8))]
    asis = ctx.pick(["pexrecv", "dhtrecv", "pending", "loadident", "magnetgone", "pendinglate", "sharedtracker"],
                    ["pexrecv", "dhtrecv", "pending", "adopt", "pexsend", "dhtstart", "magnet", "loadident", "magnetgone", "pendinglate", "sharedtracker"])
    noticed = {}
    ctx.extra["guards_noticed_by_invariant"] = noticed

    def one(g):
        ok, out = ctx.tlc_mc("MC_Private", "MC_Private_asis_%s.cfg" % g, timeout=900, workers=2, expect_ok=False)
        m = re.search(r"Invariant (\S+) is violated", out)
        if ok or not m:
            raise vlib.MachineryError("design model without guard %s satisfies every invariant: the invariants are blind to it\n%s" % (g, out[-1500:]))
        noticed[g] = m.group(1)
    futs += [ex.submit(one, g) for g in asis]
    return futs


def scenarios_level(ctx):
    # 2. scenarios against the real session
    drv = ctx.build_go("c19")
    rng = random.Random(ctx.seed)
    scs = fixed_scenarios() + generated_scenarios(ctx, rng, ctx.pick(70, 1400), ctx.pick(8, 160))
    for i, sc in enumerate(scs):
        sc["id"] = i + 1
        sc["seed"] = 1000 + i
        sc["settleMs"] = DHT_SETTLE if sc.get("dht") else 300
        sc.setdefault("sibling", False)
    by_id = {sc["id"]: sc for sc in scs}
    # DHT scenarios are slow: spread them first
    order = sorted(scs, key=lambda s: (not s.get("dht"), s["id"]))
    raws, crashed = run_scenarios(ctx, drv, order, nproc=ctx.pick(10, 12), per_timeout=30)
    info, abstract = {}, {}
    for rp in raws:
        abstract.update(project(rp, info))
    ctx.extra["scenarios_run"] = len(scs)
    ctx.extra["scenarios_judged"] = len(abstract)
    for c in crashed:
        sc = by_id[c["id"]]
        ctx.violation("C19.crash", "tag=C19.crash site=%s %s" % (re.sub(r"0x[0-9a-f]+|\d{3,}", "N", c["panic"])[:100], sc_class(sc)),
                      "client crashed in a private-torrent scenario: %s" % c["panic"], {"scenario": sc, "stderr": c["stderr_tail"]})
    # reading table of the encodings (evidence)
    table = {}
    for sid, f in info.items():
        r = "add-error" if f["adderr"] is not None else {True: "private", False: "public", None: "undetermined"}[f["reading"]]
        table.setdefault(f["enc"], {}).setdefault(f["mode"] + ":" + r, 0)
        table[f["enc"]][f["mode"] + ":" + r] += 1
    ctx.extra["client_reading_of_encodings"] = table
    ctx.extra["client_reading_differs_from_failsafe_reading"] = sorted({"%s(%s) %s: client=%s spec=%s" % (f["enc"], f["encv"], f["mode"],
                                                                          "private" if f["reading"] else "public", "private" if f["priv"] else "public")
                                                                         for f in info.values() if f.get("reading") is not None and "priv" in f and f["reading"] != f["priv"]})
    ctx.extra["port_messages_sent_to_peers_of_private_torrents"] = sum(f["portrx"] for f in info.values() if f.get("priv"))
    ctx.extra["extension_handshakes_advertising_ut_pex_on_private_torrents"] = sum(f["advpex"] for f in info.values() if f.get("priv"))
    ctx.extra["connections_without_handshake_not_judged"] = sum(f.get("unattributed", 0) for f in info.values())
    ctx.extra["stray_requests_of_other_harness_processes_ignored"] = sum(f.get("stray", 0) for f in info.values())
    ctx.extra["harness_skips"] = sorted({w for f in info.values() for w in f["skips"]})
    if len(abstract) < 0.9 * (len(scs) - sum(1 for f in info.values() if f["adderr"] is not None)):
        raise vlib.MachineryError("only %d of %d scenarios produced a judgeable trace" % (len(abstract), len(scs)))
    # controls: the windows and the scripted environment do show each behaviour on torrents that may show it
    # life-cycle states really reached (a reload of a record WITHOUT bitfield is the state in which nothing but the info dict tells
    # the loader that the torrent is private)
    lc = {"reload_nobitfield_private": 0, "reload_bitfield_private": 0, "reload_unreadable": 0, "gone_private": {}, "magnet_calls_private": {}}
    for sid, f in info.items():
        if not f.get("priv"):
            continue
        for b in f.get("reloads", []):
            lc["reload_nobitfield_private" if b == 0 else "reload_bitfield_private" if b == 1 else "reload_unreadable"] += 1
        for h in f.get("gone", []):
            lc["gone_private"][h] = lc["gone_private"].get(h, 0) + 1
    for sid, evs in abstract.items():
        if not evs[0]["priv"]:
            continue
        st = "before-metadata" if evs[0]["mode"] == "magnet" else "running"
        for e in evs[1:]:
            if e["ev"] == "stop": st = "stopped"
            elif e["ev"] == "start": st = "running" if st != "before-metadata" else st
            elif e["ev"] == "meta": st = {"adopted": "running", "refused": "refused"}.get(e["outcome"], st)
            elif e["ev"] == "gone": st = "gone:" + e["how"]
            elif e["ev"] == "magnet": lc["magnet_calls_private"][st] = lc["magnet_calls_private"].get(st, 0) + 1
    ctx.extra["life_cycle_states_reached"] = lc
    if lc["reload_nobitfield_private"] == 0 or lc["reload_bitfield_private"] == 0 or len(lc["gone_private"]) < 3:
        raise vlib.MachineryError("life-cycle states not reached by the scenarios: %s" % lc)
    ctl = {"pex_dial_public": 0, "pex_sent_public": 0, "dht_query_public": 0, "dht_dial_public": 0, "magnet_ok_public": 0, "adopted_public": 0,
           "refused_private": 0, "magnet_err_private": 0, "tracker_dial_private": 0, "manual_dial_private": 0}
    dropped_dialled = [0]
    for sid, evs in abstract.items():
        ini = evs[0]
        pub = not ini["priv"]
        nontrivial = ini["priv"]
        for e in evs[1:]:
            k = e["ev"]
            if pub and k == "dial" and e["src"] == "pex": ctl["pex_dial_public"] += 1
            if pub and k == "dial" and e.get("lst") == "pexd": dropped_dialled[0] += 1
            if pub and k == "pexrx": ctl["pex_sent_public"] += 1
            if pub and k == "dhtq": ctl["dht_query_public"] += 1
            if pub and k == "dial" and e["src"] == "dht": ctl["dht_dial_public"] += 1
            if pub and k == "magnet" and not e["err"]: ctl["magnet_ok_public"] += 1
            if pub and k == "meta" and e["outcome"] == "adopted": ctl["adopted_public"] += 1
            if not pub and k == "meta" and e["outcome"] == "refused": ctl["refused_private"] += 1
            if not pub and k == "magnet" and e["err"]: ctl["magnet_err_private"] += 1
            if not pub and k == "dial" and e["src"] == "tracker": ctl["tracker_dial_private"] += 1
            if not pub and k == "dial" and e["src"] == "manual": ctl["manual_dial_private"] += 1
            if k == "dial": ctx.oblig("C19.sources(dial)")
            if k == "pexmsg": ctx.oblig("C19.pex.acted(pexmsg)")
            if k == "exths": ctx.oblig("C19.pex.sent(exths)")
            if k == "dhtq" or k == "dhtvalues": ctx.oblig("C19.dht")
            if k == "magnet": ctx.oblig("C19.magnet")
            if k == "meta": ctx.oblig("C19.metadata")
            if k == "ident": ctx.oblig("C19.identity")
            if k == "reload": ctx.oblig("C19.identity(reload)")
            if k == "gone": ctx.oblig("C19.magnet(gone)")
            if k == "obs": ctx.oblig("C19.flag/obs")
        ctx.count_case(sc_class(by_id[sid]), nontrivial)
    ctx.extra["controls"] = ctl
    try:
        # the new axes were really exercised: a private torrent announced while a co-tenant held the same tracker URL; a refusing torrent
        # stayed in Stopping state for more than one DHT tick after DHT queries for it had been seen at the ticks before
        ax = {"cotenant_private_announces": 0, "cotenant_kinds": {}, "slowstop_refusals_stopping_over_1s": 0, "slowstop_refusals_with_dht_tick_before": 0,
              "stopping_window_ms": []}
        for sid, evs in abstract.items():
            ini = evs[0]
            if ini["priv"] and ini["co"] != "none":
                n = sum(1 for e in evs if e["ev"] == "ident" and e["what"] == "ua")
                ax["cotenant_private_announces"] += n
                if n:
                    ax["cotenant_kinds"][ini["co"] + ":" + ini["mode"]] = ax["cotenant_kinds"].get(ini["co"] + ":" + ini["mode"], 0) + 1
            if ini["priv"] and ini["slowstop"]:
                for i, e in enumerate(evs):
                    if e["ev"] == "meta" and e["outcome"] == "refused" and e.get("loop"):
                        st = next((x for x in evs[i + 1:] if x["ev"] == "stopped"), None)
                        if st is not None:
                            ax["stopping_window_ms"].append(st["t"] - e["t"])
                            if st["t"] - e["t"] >= 1000:
                                ax["slowstop_refusals_stopping_over_1s"] += 1
                                if any(x["ev"] == "dhtq" for x in evs[:i]):
                                    ax["slowstop_refusals_with_dht_tick_before"] += 1
        ax["stopping_window_ms"] = sorted(ax["stopping_window_ms"])[:40]
        ctx.extra["new_axes_exercised"] = ax
        if ax["cotenant_private_announces"] == 0 or ax["slowstop_refusals_with_dht_tick_before"] == 0:
            # (recorded, not fatal: under heavy machine load the slow-stop scenarios may miss the DHT tick)
            ctx.extra["new_axes_not_reached"] = True
    except Exception as ex:      # evidence only: never decides the outcome
        ctx.extra["new_axes_exercised_error"] = repr(ex)
    ctx.extra["remark_addresses_of_the_pex_dropped_list_dialled_by_public_torrents"] = dropped_dialled[0]
    # (refused_private / magnet_err_private are the property's own positive side: counted, not required)
    missing = [k for k, v in ctl.items() if v == 0 and k not in ("refused_private", "magnet_err_private")]
    if missing:
        raise vlib.MachineryError("controls not observed (the harness could not have seen the corresponding leak): %s" % missing)
    k0 = sorted(abstract)[0]
    ctx.sample({"scenario": by_id[k0], "abstract_trace_prefix": abstract[k0][:16]})
    # 3. TLC judge
    notes, seen = {}, set()
    candidates = {}
    unrepro = []
    ctx.extra["unreproduced_timing_candidates"] = unrepro
    for tag, sid, pos in tlc_judge(ctx, abstract, "abs.ndjson"):
        if tag in RERUN_TAGS:
            candidates.setdefault((tag, sc_class(by_id[sid])), sid)
            continue
        report(ctx, tag, sid, pos, abstract, by_id, notes, seen)
    # scheduling-dependent observations are candidates: the scenario is re-executed in isolation (up to three times) and only
    # what shows again is reported
    for (tag, cls), sid in sorted(candidates.items())[:4]:
        again = None
        for attempt in range(3):
            raws, _ = run_scenarios(ctx, drv, [by_id[sid]], nproc=1, per_timeout=40)
            ab2 = {}
            for rp in raws:
                ab2.update(project(rp, {}))
            hits = [(t, s2, p2) for t, s2, p2 in tlc_judge(ctx, ab2, "abs-rerun.ndjson") if t == tag] if ab2 else []
            if hits:
                again = (hits[0], ab2)
                break
        if again:
            (t, s2, p2), ab2 = again
            report(ctx, t, s2, p2, ab2, by_id, notes, seen)
        else:
            unrepro.append({"tag": tag, "scenario": cls})
    ctx.extra["notes_outside_the_property"] = {k: {"count": len(v), "example": v[0]} for k, v in notes.items()}


def tlc_judge(ctx, abstract, name):
    """-> [(tag, sid, position in the scenario's abstract trace)] as printed by Trace_Private (@@VIOL)"""
    order = sorted(abstract)
    cur = ctx.path(name)
    index = []
    with open(cur, "w") as fh:
        for sid in order:
            for e in abstract[sid]:
                fh.write(json.dumps(e, separators=(",", ":")) + "\n")
            index.append((sid, len(abstract[sid])))
    res = ctx.tlc_validate("Trace_Private", cur, ntraces=len(order), timeout=1500)
    if res["hwm"] is not None and not res["ok"]:
        raise vlib.MachineryError("Trace_Private could not explain line %s (driver/spec mismatch):\n%s" % (res["hwm"], res["out"][-2500:]))
    out = []
    for tag, line in res["viols"]:
        n = 0
        for sid, ln in index:
            if n + ln >= line:
                break
            n += ln
        out.append((tag, sid, line - n))
    return out


def report(ctx, tag, sid, pos, abstract, by_id, notes, seen):
    if True:
        ev = abstract[sid][pos - 1]
        sc = by_id[sid]
        ini = abstract[sid][0]
        if tag.startswith("NOTE"):
            notes.setdefault(tag, []).append(sc_class(sc))
            return
        # the stimulus class that explains the observation: which peer kinds sent PEX / whether DHT values were returned
        before = abstract[sid][:pos]
        pexfrom = sorted({e["p"] for e in before if e["ev"] == "pexmsg"})
        refused = any(e["ev"] == "meta" and e["outcome"] == "refused" for e in before)
        life = "-"
        for e in before:
            if e["ev"] == "reload": life = "reloaded:" + ("bitfield" if e["bf"] else "nobitfield")
            elif e["ev"] == "gone": life = "gone:" + e["how"]
            elif e["ev"] == "stop" and not life.startswith("gone"): life = "stopped"
            elif e["ev"] == "start" and life == "stopped": life = "-"
        bads = [""]
        if ev["ev"] == "obs" and tag == "C19.sources.connected":
            bads = [s for s in ev["srcs"] if s not in ("tracker", "manual", "incoming")] or [""]
        for bad in bads:
            sig = "tag=%s mode=%s reading=%s pex=%d dht=%d sibling=%d ev=%s src=%s q=%s what=%s cls=%s pexfrom=%s dhtvalues=%d after=%s bad=%s life=%s cotenant=%s slowstop=%d" % (
                tag, ini["mode"], ini["encv"], ini["pex"], ini["dht"], ini["sibling"], ev["ev"], ev.get("src", "-"),
                ev.get("q", "-"), ev.get("what", "-"), ev.get("cls", "-"), "+".join(pexfrom) or "-",
                any(e["ev"] == "dhtvalues" for e in before), "refused" if refused else "-", bad or "-", life, ini.get("co", "none"), ini.get("slowstop", 0))
            if (sig, tag) in seen:
                continue
            seen.add((sig, tag))
            ctx.violation(tag, sig, "private-torrent scenario violates %s at %s" % (tag, json.dumps(ev)[:200]),
                          {"scenario": sc, "abstract_trace": abstract[sid][:pos]})
