"""C20 — no data races or lock-ups under concurrent API use while transferring
(spec/Locks.tla, MC_Locks*.cfg, MC_LocksPrint, Trace_Locks.tla; drivers harness/c20 (stress) and harness/c20x (static extractor)).

Lock-up half  : model checking of Locks.tla (every interleaving of 2-3 concurrent operations + background writers + loops);
                bound to the code by (i) the static extractor (step sequences of the spec == order of Lock/RLock/db.Update/
                sendCommand calls in the sources, per function) and (ii) replay of every lock-up cycle TLC finds in the
                transcription of the tree AS IT IS as a stress recipe on the real Session (child process, watchdog, goroutine dump).
Data-race half: schedule sampling; the Go race detector is the observer of the ownership rule of Locks.tla
                (each report -> trace event unsyncAccess, judged by Trace_Locks: no action permits it).
"""
import json, os, re, shutil, subprocess, threading, time
import vlib

# ----------------------------------------------------------------------------------------------------------------------
# (i) structural conformance: extractor output  vs  step sequences printed by MC_LocksPrint
# ----------------------------------------------------------------------------------------------------------------------
# spec operation -> function of package torrent whose flattened main path it transcribes (default: same name)
ROOT_OF = {
    "Session.Stats": "Session.initMetrics",        # functional gauges: the literals are the code run by Stats()
}
INLINE_LITS = {"Session.initMetrics"}
# goroutines that are processes of their own in the model (or that wait on nothing but timers / closeC)
GO_IGNORED = {"Session.checkTorrent", "torrent.run", "Session.processDHTResults", "Session.updateStatsLoop",
              "Session.blocklistReloader", "Session.runOnCompleteCmd", "torrent.notifyWebseedRetry"}
# exported entry points that are not operations of the model, with the reason
NOT_MODELLED = {
    "NewSession": "constructor: runs before the session is shared",
    "Session.AddURI": "dispatcher: addURL -> AddTorrent | addMagnet (both modelled)",
    "Torrent.NotifyComplete": "returns a channel", "Torrent.NotifyMetadata": "returns a channel", "Torrent.NotifyClose": "returns a channel",
}
PRIMS = {"RL", "RU", "WL", "WU", "DBB", "DBE", "RES", "SEND", "RECV", "CHSEND", "CHRECV", "CLOSE", "WAIT", "JOIN", "EXT", "GO", "SELECT"}


def select_blocks(r):
    cases = r.split(",")
    return not any(c == "default" or c.endswith("After()") or c == "recv:C" for c in cases)


class Code:
    def __init__(self, x):
        self.funcs = x["funcs"]
        self.resumer = x["resumer"]
        self._flat = {}

    def flatten(self, fn, stack=(), each=False, g=0, lits=False):
        """main path of fn with the calls inlined: list of (k, r, each, g, alt)"""
        key = (fn, each, g, lits)
        if key in self._flat:
            return self._flat[key]
        out = []
        f = self.funcs.get(fn)
        if f is None or fn in stack:
            return out
        for e in f["events"]:
            k, r = e["k"], e["r"]
            alt = bool(e.get("alt"))
            ee = each or bool(e.get("loop"))
            gg = g + int(e.get("g", 0))
            if alt and k != "GO":
                continue
            if k == "CALL":
                out += self.flatten(r.lstrip("?"), stack + (fn,), ee, gg)
            elif k == "LIT":
                if lits or fn in INLINE_LITS:
                    out += self.flatten(r, stack + (fn,), ee, gg)
            elif k == "GO":
                if r == "lit":
                    out.append((k, r, ee, gg, alt))
                elif r.startswith("ext:") or r in GO_IGNORED:
                    continue
                elif self.flatten(r.lstrip("?"), stack + (fn,)) or r.lstrip("?") in FORCE_GO:
                    out.append((k, r.lstrip("?"), ee, gg, alt))
            elif k == "SELECT":
                if select_blocks(r):
                    out.append((k, r, ee, gg, alt))
            elif k.startswith("?"):
                raise vlib.MachineryError("extractor: unresolved lock receiver in %s: %s %s (line %s)" % (fn, k, r, e.get("line")))
            else:
                out.append((k, r, ee, gg, alt))
        self._flat[key] = out
        return out

    def reach(self, fn, seen=None):
        seen = set() if seen is None else seen
        if fn in seen or fn not in self.funcs:
            return seen
        seen.add(fn)
        for e in self.funcs[fn]["events"]:
            if e["k"] in ("CALL", "LIT"):
                self.reach(e["r"].lstrip("?"), seen)
        return seen


FORCE_GO = {"torrent.resolveAndAddPeer"}     # its as-is program is empty, the go statement is still a step of AddPeer


def fmt(seq):
    return " ; ".join("%s %s%s%s%s" % (k, r, " each" if ea else "", " g%d" % g if g else "", " alt" if alt else "") for k, r, ea, g, alt in seq)


def spec_seq(js):
    return [(s["k"], s["r"], bool(s["each"]), int(s["g"]), bool(s["alt"])) for s in js]


WITNESS = {"StartAll": "Session.StartAll", "StopAll": "Session.StopAll", "resolveAndAddPeer": "torrent.resolveAndAddPeer",
           "moveTorrent": "Session.loadExistingTorrent", "reserveID": "Session.AddTorrent", "cleanLive": "Session.CleanDatabase", "cleanReset": "Session.CleanDatabase",
           "compactLocks": "Session.CompactDatabase", "dhtDropOnStop": "torrent.stop"}


def conformance(ctx, xjson, progs, meta):
    """progs: op -> {frozenset(fx): sequence}. Returns (fixed_set, report): the set of repairs that the SOURCES contain (each
    repair is recognised on its witness operation) and, for that set, equality of every program with the sources.
    Raises MachineryError when the spec does not transcribe the sources."""
    code = Code(xjson)
    problems = []
    fixed = set()
    for name in meta["fixnames"]:
        w = WITNESS.get(name)
        if w is None or w not in progs:
            problems.append("repair %s has no witness operation" % name)
            continue
        got = code.flatten(ROOT_OF.get(w, w))
        if got == progs[w].get(frozenset([name])) and got != progs[w].get(frozenset()):
            fixed.add(name)
        else:
            # several repairs may meet in one witness operation: the sources then equal the program of a larger subset
            for sub, prog in progs[w].items():
                if name in sub and got == prog and got != progs[w].get(frozenset(sub - {name})):
                    fixed.add(name)
                    break
    variant = {}
    compared = 0
    overrides = {}
    for op, pv in sorted(progs.items()):
        root = ROOT_OF.get(op, op)
        if root not in code.funcs:
            problems.append("%s: function %s not found in the sources" % (op, root))
            continue
        got = code.flatten(root)
        rel = set().union(*pv.keys()) if pv else set()
        want = pv.get(frozenset(fixed & rel))
        compared += 1
        if got == want:
            variant[op] = "+".join(sorted(fixed & rel)) or "as-is"
        else:
            problems.append("%s (%s):\n     code : %s\n     spec : %s   [repairs in force: %s]" % (op, root, fmt(got), fmt(want or []), sorted(fixed & rel)))
            overrides[op] = got
    # resumer: every method is exactly one write transaction
    for m, evs in code.resumer.items():
        ks = [e["k"] for e in evs if e["k"] not in ("LIT",)]
        if m == "update":
            ok = ks == ["DBB", "DBE"]
        else:
            ok = ks in (["DBB", "DBE"], ["CALL"]) and all(e["r"] in ("Update", "Resumer.update") for e in evs if e["k"] != "LIT")
        if not ok:
            problems.append("boltdbresumer.%s is not a single db.Update: %s" % (m, [(e["k"], e["r"]) for e in evs]))
    # loop envelope: everything reachable from torrent.run is made of the balanced atoms of the spec
    atoms = [spec_seq(a) for a in meta["atoms"]]
    atom_locks = {(a[0][0], a[0][1]) for a in atoms if len(a) == 2}
    loop_funcs = code.reach("torrent.run") - {"torrent.run", "sendCommand", "recvResponse"}
    ok_send = {"errC", "portC", "Response", "errCC", "portCC"}
    for fn in sorted(loop_funcs):
        held = None
        for e in code.funcs[fn]["events"]:
            k, r = e["k"], e["r"]
            if k in ("RL", "WL"):
                if held is not None or (k, r) not in atom_locks:
                    problems.append("loop handler %s: nested / unknown lock %s %s (line %s)" % (fn, k, r, e.get("line")))
                held = (k, r)
            elif k in ("RU", "WU"):
                if held is None or held[1] != r or held[0][0] != k[0]:
                    problems.append("loop handler %s: unbalanced %s %s (line %s)" % (fn, k, r, e.get("line")))
                held = None
            elif k in ("RES", "DBB", "CALL", "SEND", "RECV", "CHRECV", "WAIT", "JOIN") and held is not None and not (k == "CALL" and not code.flatten(r.lstrip("?"))):
                problems.append("loop handler %s: %s %s while holding %s (line %s)" % (fn, k, r, held, e.get("line")))
            elif k == "CHSEND" and r not in ok_send:
                problems.append("loop handler %s: blocking send on %s (line %s) is not part of the loop envelope" % (fn, r, e.get("line")))
            elif k in ("DBB", "SEND", "RECV", "WAIT") or (k == "CHRECV") or (k == "SELECT" and select_blocks(r)):
                problems.append("loop handler %s: %s %s (line %s) is not part of the loop envelope" % (fn, k, r, e.get("line")))
            elif k == "EXT" and r not in ("dht.AddNode",):
                problems.append("loop handler %s: external call %s (line %s) is not part of the loop envelope" % (fn, r, e.get("line")))
    # coverage: every exported entry point that blocks somewhere is an operation of the model (or a concatenation of them)
    roots_code = {ROOT_OF.get(o, o) for o in progs}
    flat_of = {o: code.flatten(ROOT_OF.get(o, o)) for o in progs}
    uncovered = []
    for fn, f in sorted(code.funcs.items()):
        if not f.get("exported") or f.get("recv") not in ("Session", "Torrent", "rpcHandler", ""):
            continue
        if fn in roots_code or fn in NOT_MODELLED:
            continue
        fl = code.flatten(fn)
        if not fl:
            continue
        # concatenation of modelled programs?
        cands = [p for p in flat_of.values() if p]

        def split(rest, depth=0):
            if not rest:
                return True
            if depth > 12:
                return False
            return any(rest[:len(p)] == p and split(rest[len(p):], depth + 1) for p in cands)
        rest = [] if split(list(fl)) else fl
        if rest:
            uncovered.append("%s: %s" % (fn, fmt(fl)))
    if uncovered:
        problems.append("exported entry points that block but are not operations of Locks.tla:\n     " + "\n     ".join(uncovered))
    # static lead for the ownership rule (informational): goroutine roots other than the loop that call loop handlers
    loop_only = {fn for fn in loop_funcs if fn.startswith("torrent.handle") or fn in ("torrent.dialAddresses", "torrent.start", "torrent.stop")}
    leads = []
    for fn in sorted(code.funcs):
        if fn in loop_funcs or fn == "torrent.run":
            continue
        for e in code.funcs[fn]["events"]:
            if e["k"] == "CALL" and e["r"].lstrip("?") in loop_only:
                leads.append("%s calls %s (line %s)" % (fn, e["r"], e.get("line")))
    rep = {"compared": compared, "variant": variant, "loop_functions": len(loop_funcs), "static_ownership_leads": leads}
    rep["problems"] = problems
    rep["overrides"] = overrides
    # Response channels created without buffer (Locks.tla: Unbuffered), by the command the creating function sends
    unbuf, odd = set(), []
    for fn, f in sorted(code.funcs.items()):
        for c in f.get("chans", []) or []:
            if c["r"] != "Response":
                continue
            cmds = [e["r"] for e in f["events"] if e["k"] == "SEND"]
            if c["cap"] == 0 and cmds:
                unbuf.add(cmds[0])
            elif c["cap"] < 0:
                odd.append("%s line %s" % (fn, c.get("line")))
    rep["unbuffered"] = sorted(unbuf)
    rep["unbuffered_unknown"] = odd
    return fixed, rep


def stale_message(problems):
    return ("Locks.tla does not transcribe the sources any more (the SPEC is out of date; not a verdict):\n  - " + "\n  - ".join(problems))


def parse_printed(items):
    progs, meta = {}, None
    for it in items:
        if it.get("kind") == "prog":
            progs.setdefault(it["op"], {})[frozenset(it["fx"])] = spec_seq(it["prog"])
        elif it.get("kind") == "meta":
            meta = it
    if not progs or meta is None:
        raise vlib.MachineryError("MC_LocksPrint printed nothing")
    return progs, meta


# ----------------------------------------------------------------------------------------------------------------------
# TLC helpers (cfg with the Fixed set detected from the sources)
# ----------------------------------------------------------------------------------------------------------------------
def tla_prog(seq):
    return "<<" + ", ".join('[k |-> "%s", r |-> "%s", each |-> %s, g |-> %d, alt |-> %s]' % (k, r, "TRUE" if ea else "FALSE", g, "TRUE" if alt else "FALSE")
                            for k, r, ea, g, alt in seq) + ">>"


def tlc_with_fixed(ctx, module, cfg, fixed, timeout, workers=None, generator=False, unbuf=None, over=None):
    d = ctx._spec_copy()
    if unbuf:
        cpath = os.path.join(d, cfg)
        ctxt = open(cpath).read()
        ctxt = re.sub(r"(?m)^\s*Unbuffered\s*=.*$", "  Unbuffered = {" + ", ".join('"%s"' % u for u in sorted(unbuf)) + "}", ctxt)
        open(cpath, "w").write(ctxt)
    if over:
        mp = os.path.join(d, module + ".tla")
        mt = open(mp).read()
        fun = " @@ ".join('("%s" :> %s)' % (o, tla_prog(sq)) for o, sq in sorted(over.items()))
        mt2 = re.sub(r"(?m)^SrcOverDef == NoOver\s*$", "SrcOverDef == " + fun, mt)
        if mt2 == mt:
            raise vlib.MachineryError("cannot set SrcOverDef in " + module)
        open(mp, "w").write(mt2)
    cp = os.path.join(d, cfg)
    txt = open(cp).read()
    lit = "{" + ", ".join('"%s"' % f for f in sorted(fixed)) + "}"
    txt2 = re.sub(r"(?m)^\s*Fixed\s*=.*$", "  Fixed = " + lit, txt)
    if txt2 == txt and "Fixed = " + lit not in txt:
        raise vlib.MachineryError("cannot set Fixed in " + cfg)
    open(cp, "w").write(txt2)
    rc, out, dt = ctx._tlc(d, module + ".tla", cfg, [], timeout, workers or max(2, min(8, vlib.NCPU // 2)))
    gen, dist, depth = ctx._parse_counts(out)
    ok = rc == 0 and "Model checking completed. No error has been found" in out
    ctx.mc_runs.append({"module": module, "cfg": cfg, "fixed": sorted(fixed), "generated": gen, "distinct": dist, "depth": depth,
                        "ok": ok, "wall_s": round(dt, 1), "generator": generator})
    ctx.cov["states"] += dist
    ctx.cov["transitions"] += gen
    vlib.log("TLC %s/%s Fixed=%s: %d generated, %d distinct, depth %d, %.1fs ok=%s" % (module, cfg, lit, gen, dist, depth, dt, ok))
    items = []
    for line in out.splitlines():
        line = line.strip()
        if line.startswith('"@@'):
            try:
                items.append(json.loads(json.loads(line)[2:]))
            except Exception:
                pass
    return ok, out, items


def cycles_of(items):
    """group the lock-up states printed by the generator into wait-for cycles (set of core parties)"""
    cyc = {}
    for it in items:
        if it.get("kind") != "lockup":
            continue
        core = tuple(sorted((p["op"], "DB" if p["k"] in ("DBB", "DBX") else p["k"], p["m"]) for p in it["procs"] if p["core"]))
        if not core:
            continue
        c = cyc.setdefault(core, {"parties": core, "states": 0, "example": it, "ops": set()})
        c["states"] += 1
        c["ops"] |= set(it.get("ops", []))
    return cyc


def shape_of(parties):
    return "+".join(sorted({m for _, _, m in parties}))


def recipe_ops(parties, extra=()):
    """the operations of the cycle; when the event loop itself is a core party, also the operations that brought it there
    (they have returned in the lock-up state: the closer, the stopper, the caller that left recvResponse)"""
    ops = {op for op, _, _ in parties}
    if "torrent.run" in ops:
        ops |= set(extra)
    return sorted(ops)


# ----------------------------------------------------------------------------------------------------------------------
# goroutine dumps
# ----------------------------------------------------------------------------------------------------------------------
RAIN = "github.com/cenkalti/rain/v2/"
PRIMS_DUMP = [("sync.(*RWMutex).RLock", "RL"), ("sync.(*RWMutex).Lock", "WL"), ("go.etcd.io/bbolt.(*DB).beginRWTx", "DB"),
              ("go.etcd.io/bbolt.(*DB).Close", "DB"), ("sync.(*WaitGroup).Wait", "WAITALL"),
              (RAIN + "torrent.sendCommand", "SEND"), (RAIN + "torrent.recvResponse", "RECV"),
              (RAIN + "torrent.(*torrent).Close", "WAITDONE")]


def parse_dump(txt):
    gs = []
    for blk in re.split(r"\n\s*\n", txt):
        lines = blk.strip().splitlines()
        if not lines:
            continue
        m = re.match(r"goroutine (\d+) \[([^\]]*)\]:", lines[0])
        if not m:
            continue
        frames = []
        for ln in lines[1:]:
            if ln.startswith("\t") or ln.startswith("created by"):
                continue
            fm = re.match(r"^(.*)\((?:[^()]*|\.\.\.)\)$", ln.strip())
            frames.append(fm.group(1) if fm else ln.strip())
        g = {"id": int(m.group(1)), "state": m.group(2), "frames": frames, "prim": None, "at": None}
        for i, f in enumerate(frames):
            hit = [k for (pat, k) in PRIMS_DUMP if f.startswith(pat)]
            if hit:
                if hit[0] == "WAITDONE" and "chan receive" not in g["state"]:
                    continue
                g["prim"] = hit[0]
                break
            if f.startswith(RAIN) and "/internal/verif/" not in f and not f.startswith(RAIN + "internal/resumer"):
                break     # running / waiting inside rain code below any primitive we know: not a lock wait
        if g["prim"] is None:
            # a plain sync.Mutex (Session.mPeerRequests); RWMutex.Lock also passes through Mutex.Lock but was recognised above
            for f in frames:
                if f.startswith("sync.(*Mutex).Lock"):
                    g["prim"] = "ML"
                    break
                if f.startswith(RAIN) and "/internal/verif/" not in f:
                    break
        for f in frames:
            if f.startswith(RAIN + "torrent."):
                g["at"] = re.sub(r"(\.func\d+|\.\d+|-fm)+$", "", f[len(RAIN):])   # closures are inlined or not, build dependent
                break
        gs.append(g)
    return gs


def root_pat(op):
    if op == "torrent.run":
        return "torrent.(*torrent).run"
    r, _, n = op.partition(".")
    return "torrent.(*%s).%s" % (r, n)


def match_party(gs, party, used):
    op, k, m = party
    if k == "REPLY":     # the loop blocked in  req.Response <- answer
        for g in gs:
            if g["id"] not in used and g["state"].startswith("chan send") and any(f.startswith(RAIN + "torrent.(*torrent).run") for f in g["frames"]):
                g["prim"] = "REPLY"
                return g
        return None
    for g in gs:
        if g["id"] in used or g["prim"] != k:
            continue
        fr = [f[len(RAIN):] for f in g["frames"] if f.startswith(RAIN)]
        if k == "WL" and m == "mTorrents":
            ok = any(f.startswith("torrent.(*Session).") for f in fr)     # any registry writer: insertTorrent, removeTorrentFromClient, Close, add ...
        else:
            pat = root_pat(op)
            ok = any(f == pat or f.startswith(pat + ".") for f in fr)
        if ok:
            return g
    return None


PRIM_ORDER = {"REPLY": 7, "RL": 0, "WL": 1, "DB": 2, "WAITALL": 3, "WAITDONE": 4, "SEND": 5, "RECV": 6}


def confirm_cycle(gs, parties):
    """every party of the predicted cycle must be found blocked at its primitive; returns the observed parties
    'PRIM:innermost frame of package torrent', ordered by primitive then name"""
    used, obs = set(), []
    for p in parties:
        g = match_party(gs, p, used)
        if g is None:
            return None
        used.add(g["id"])
        obs.append((PRIM_ORDER.get(g["prim"], 9), "%s:%s" % (g["prim"], g["at"])))
    return [x for _, x in sorted(obs)]


HELPER_PKGS = ("internal/verifier.", "internal/allocator.", "internal/announcer.")


def loop_join(gs):
    """The event loop of a torrent is blocked JOINING one of its helper goroutines (X.Close() = close(closeC); <-doneC, called
    from stop()), and the helper cannot end. Returns the observed parties: the loop's site (frame of package torrent that
    called Close) and what the helper goroutines are blocked on; None when no loop is blocked in a join."""
    loops, helpers = set(), set()
    for g in gs:
        fr = [f[len(RAIN):] for f in g["frames"] if f.startswith(RAIN) and "/internal/verif/" not in f]
        if not fr:
            continue
        st = g["state"].split(",")[0].replace(" ", "_")
        if any(f.startswith("torrent.(*torrent).run") for f in fr) and fr[0].startswith(HELPER_PKGS) and fr[0].endswith(".Close") and st == "chan_receive":
            loops.add("loop:%s>%s@%s" % (g["at"], strip_closure(fr[0]).replace("internal/", ""), st))
        elif any(f.startswith(HELPER_PKGS) and re.search(r"\)\.Run(\.|$)", f) for f in fr) and st in ("chan_send", "chan_receive", "sync.Mutex.Lock", "semacquire", "sync.RWMutex.Lock", "sync.RWMutex.RLock"):
            top = strip_closure(fr[0]).replace("internal/", "")
            helpers.add("%s@%s" % (top, st))
    if not loops:
        return None
    return sorted(loops) + sorted(helpers)


def blocked_summary(gs):
    out = set()
    for g in gs:
        if g["prim"] and g["at"]:
            out.add("%s@%s" % (g["at"], g["prim"]))
        elif g["at"] and any(f.startswith(RAIN + "torrent.(*torrent).run") for f in g["frames"]) and not g["frames"][0].startswith(RAIN + "torrent.(*torrent).run"):
            if g["state"].split(",")[0] in ("chan send", "chan receive", "select", "sync.Mutex.Lock", "semacquire", "sync.Cond.Wait"):
                out.add("loop:%s@%s" % (g["at"], g["state"].split(",")[0].replace(" ", "_")))
    return sorted(out)


# ----------------------------------------------------------------------------------------------------------------------
# race-detector reports
# ----------------------------------------------------------------------------------------------------------------------
ACC = re.compile(r"^(Write|Read|Previous write|Previous read|Atomic write|Atomic read|Previous atomic write|Previous atomic read) at (0x[0-9a-f]+) by (goroutine \d+|main goroutine):")


def drop_replayed(frames):
    """The restored stack of a 'previous' access sometimes carries, between two occurrences of one real frame, the frames of
    calls that frame made EARLIER and that have returned (e.g. ... rpcHandler.AddTorrent | bbolt.Update .. Session.AddTorrent |
    rpcHandler.AddTorrent, runtime.call32 ...). Keep the innermost part up to the first occurrence and resume at the last."""
    out, i = [], 0
    while i < len(frames):
        f = frames[i]
        last = max(j for j in range(i, len(frames)) if frames[j] == f)
        out.append(f)
        i = last + 1
    return out


def parse_races(txt):
    """-> list of (access1, access2); access = {kind, frames (innermost first)}. The detector restores stacks from a shadow
    stack that may still hold frames of a previous user of the goroutine structure BELOW the goroutine's entry function:
    every access stack is cut after the entry function (the closure / go-wrapper of the function named first in the
    'Goroutine N created at' block of the same report)."""
    reps = []
    for blk in txt.split("=================="):
        if "WARNING: DATA RACE" not in blk:
            continue
        accs, cur, creators, cg = [], None, {}, None
        for line in blk.splitlines():
            m = ACC.match(line)
            if m:
                cur = {"kind": m.group(1), "frames": [], "g": m.group(3)}
                accs.append(cur)
                cg = None
                continue
            m = re.match(r"^Goroutine (\d+) \(", line)
            if m:
                cur = None
                cg = "goroutine " + m.group(1)
                continue
            fm = re.match(r"^  (\S.*)\(\)$", line)
            if not fm:
                continue
            if cur is not None:
                cur["frames"].append(fm.group(1))
            elif cg is not None and cg not in creators:
                creators[cg] = fm.group(1)
        for a in accs[:2]:
            c = creators.get(a["g"])
            cut = None
            for i, f in enumerate(a["frames"]):
                if a["g"] == "main goroutine" and f == "main.main":
                    cut = i
                    break
                if c and f.startswith(c + ".") and re.search(r"\.(func|gowrap)\d+(\.\d+)*$", f):
                    cut = i
                    break
            if cut is not None:
                a["frames"] = a["frames"][:cut + 1]
            a["frames"] = drop_replayed(a["frames"])
        if len(accs) >= 2:
            reps.append(accs[:2])
    return reps


def norm_fn(f):
    """github.com/cenkalti/rain/v2/torrent.(*torrent).dialAddresses.func1 -> ('torrent.dialAddresses', display)"""
    d = f[len(RAIN):] if f.startswith(RAIN) else f
    d = re.sub(r"-fm$", "", d)                      # method value wrapper
    base = re.sub(r"(\.func\d+|\.gowrap\d+|\.\d+)+$", "", d)
    m = re.match(r"^torrent\.\(\*?(\w+)\)\.(\w+)$", base)
    if m:
        return m.group(1) + "." + m.group(2), d
    m = re.match(r"^torrent\.(\w+)\.(\w+)$", base)
    if m:
        return m.group(1) + "." + m.group(2), d
    m = re.match(r"^torrent\.(\w+)$", base)
    if m:
        return m.group(1), d
    return None, d


def canon_side(frames, loop_funcs):
    """('loop', f) for the event-loop goroutine, f = its innermost frame of package torrent; otherwise ('ext', f) with f = the
    accessor OUTSIDE the loop: the caller of the outermost loop-owned function on the stack (resolveAndAddPeer -> handleNewPeers
    -> ..., announcer.announce -> announcerFields), else the innermost frame of package torrent, else the top rain frame."""
    rain = [f for f in frames if f.startswith(RAIN) and "/internal/verif/" not in f]
    if not rain:
        if any(f.startswith("net/rpc.(*Server).sendResponse") for f in frames):
            return "ext", "rpc-reply-encoder"      # the RPC server serialises the reply after rain's handler returned
        real = frames[:next((i for i, f in enumerate(frames) if f.startswith(("main.", RAIN + "internal/verif/"))), len(frames))]
        if len(real) == len(frames):               # no harness frame either: a goroutine of a library rain started
            nz = [f for f in frames if not f.startswith("runtime.")]
            return "ext", "extern:" + (nz[0] if nz else "?")
        return None, None
    rain = [re.sub(r"-fm$", "", f) for f in rain]
    inner = next((f for f in rain if f.startswith(RAIN + "torrent.")), rain[0])[len(RAIN):]
    if any(f.startswith(RAIN + "torrent.(*torrent).run") for f in frames):
        return "loop", inner
    idx = None
    for i, f in enumerate(rain):              # rain[0] is the innermost
        if re.search(r"\.gowrap\d+$", f):
            continue
        n, _ = norm_fn(f)
        if n is not None and n in loop_funcs:
            idx = i                           # keep the OUTERMOST one
    if idx is not None:
        for f in rain[idx + 1:]:
            if not re.search(r"\.gowrap\d+$", f):
                return "ext", f[len(RAIN):]
        return "ext", rain[idx][len(RAIN):]
    # an accessor method of a torrent called by a session-wide API method (CompactDatabase -> t.torrent.InfoHash()):
    # the API method is the accessor outside the loop
    if re.match(r"^torrent\.\(\*?[tT]orrent\)\.", inner):
        for f in rain:
            m = re.match(r"^torrent\.\(\*Session\)\.([A-Z]\w*)", f[len(RAIN):])
            if m:
                return "ext", "torrent.(*Session)." + m.group(1)
    return "ext", inner


THIRD_PARTY = set()


def strip_closure(f):
    return re.sub(r"(\.func\d+|\.gowrap\d+|\.\d+|-fm)+$", "", f) if f else f


def race_events(txt, loop_funcs):
    evs, harness = {}, []
    for a, b in parse_races(txt):
        ra, fa = canon_side(a["frames"], loop_funcs)
        rb, fb = canon_side(b["frames"], loop_funcs)
        fa, fb = strip_closure(fa), strip_closure(fb)      # closures are inlined or not depending on the build
        if fa and fb and fa.startswith("extern:") and fb.startswith("extern:"):
            THIRD_PARTY.add((fa, fb))                      # both stacks entirely inside a library (e.g. the DHT node): not rain's memory
            continue
        if fa is None or fb is None:
            # one side never enters rain code: rain memory touched from the harness, or a harness-only race
            if fa is None and fb is None:
                harness.append((a["frames"][:3], b["frames"][:3]))
                continue
            fa = fa or "harness:" + (a["frames"][0] if a["frames"] else "?")
            fb = fb or "harness:" + (b["frames"][0] if b["frames"] else "?")
            ra, rb = ra or "ext", rb or "ext"
        sides = sorted([(0 if ra == "ext" else 1, fa, ra, "W" if "rite" in a["kind"] else "R"),
                        (0 if rb == "ext" else 1, fb, rb, "W" if "rite" in b["kind"] else "R")])
        A, B = sides
        sa = A[1]
        sb = ("loop:" + B[1]) if B[2] == "loop" else B[1]
        key = (sa, sb)
        e = evs.setdefault(key, {"op": "unsyncAccess", "a": sa, "b": sb, "n": 0, "kinds": set()})
        e["n"] += 1
        e["kinds"].add(A[3] + B[3])
    out = []
    for k in sorted(evs):
        e = evs[k]
        e["kinds"] = ",".join(sorted(e["kinds"]))
        out.append(e)
    return out, harness


# ----------------------------------------------------------------------------------------------------------------------
# children
# ----------------------------------------------------------------------------------------------------------------------
class Child:
    def __init__(self, ctx, binpath, name, args, wall, race):
        self.ctx, self.name, self.args, self.wall, self.race = ctx, name, args, wall, race
        self.dir = ctx.path("runs", name, "x")
        self.dir = os.path.dirname(self.dir)
        self.out = os.path.join(self.dir, "result.json")
        env = dict(vlib.GOENV)
        env["GORACE"] = "halt_on_error=0 exitcode=0 log_path=%s" % os.path.join(self.dir, "race")
        env["GOTRACEBACK"] = "all"
        self.t0 = time.time()
        self.errf = open(os.path.join(self.dir, "stderr.txt"), "w")
        self.p = subprocess.Popen([binpath] + args + ["-dir", self.dir, "-out", self.out], cwd=self.dir, env=env,
                                  stdout=subprocess.DEVNULL, stderr=self.errf)
        self.killed = False
        self.th = threading.Thread(target=self._reap, daemon=True)
        self.th.start()

    def _reap(self):
        try:
            self.rc = self.p.wait(timeout=max(1, self.wall))
        except subprocess.TimeoutExpired:
            self.killed = True
            self.p.send_signal(3)               # SIGQUIT: the Go runtime dumps every goroutine to stderr
            try:
                self.rc = self.p.wait(timeout=20)
            except subprocess.TimeoutExpired:
                self.p.kill()
                self.rc = self.p.wait()
        self.t1 = time.time()

    def wait(self):
        self.th.join()
        self.errf.close()
        self.stderr = open(os.path.join(self.dir, "stderr.txt"), errors="replace").read()
        self.result = None
        if os.path.exists(self.out):
            try:
                self.result = json.load(open(self.out))
            except Exception:
                self.result = None
        self.racelog = ""
        for f in sorted(os.listdir(self.dir)):
            if f.startswith("race."):
                self.racelog += open(os.path.join(self.dir, f), errors="replace").read()
        self.racelog += self.stderr if "WARNING: DATA RACE" in self.stderr else ""
        dp = os.path.join(self.dir, "goroutines.txt")
        self.dump = open(dp, errors="replace").read() if os.path.exists(dp) else ""
        # free the disk space of the sessions, keep the small files
        for f in os.listdir(self.dir):
            fp = os.path.join(self.dir, f)
            if os.path.isdir(fp):
                shutil.rmtree(fp, ignore_errors=True)
        return self


def classify_crash(stderr):
    m = re.search(r"fatal error: (concurrent map [a-z ]+)", stderr)
    if m:
        return "race", "fatal error: " + m.group(1)
    m = re.search(r"panic: (Torrent \(id=\S+\) does not respond\.)", stderr)
    if m:
        return "lockup", "health check: torrent loop does not respond"
    m = re.search(r"fatal error: all goroutines are asleep - deadlock!", stderr)
    if m:
        return "lockup", "fatal error: all goroutines are asleep"
    m = re.search(r"(?m)^(panic: .*|fatal error: .*)$", stderr)
    if m:
        return "other", m.group(1)[:200]
    return None, None


def crash_site(stderr):
    """rain frames of the first goroutine printed after the panic / fatal error line"""
    m = re.search(r"(?ms)^(?:panic: |fatal error: ).*?\n\ngoroutine \d+ \[[^\]]*\]:\n(.*?)\n\n", stderr)
    if not m:
        return "?"
    fr = []
    for ln in m.group(1).splitlines():
        if ln.startswith("\t"):
            continue
        fm = re.match(r"^(.*)\((?:.*)\)$", ln.strip())
        f = fm.group(1) if fm else ln.strip()
        if f.startswith(RAIN) and "/internal/verif/" not in f:
            fr.append(f[len(RAIN):])
    return "<".join(fr[:3]) or "?"


def events_of_child(ch, run_name, all_cycles, loop_funcs, expect_parties=None):
    """trace lines of one child + detail for the violations"""
    evs = [{"op": "Init", "run": run_name}]
    detail = {}
    r = ch.result
    if r is None and ch.rc not in (0, 3) and "C20-DRIVER-ERROR" in ch.stderr:
        raise vlib.MachineryError("driver error in %s: %s" % (run_name, ch.stderr[-1500:]))
    if r is not None:
        for name, c in sorted(r["calls"].items()):
            evs.append({"op": "calls", "name": name, "n": int(c["N"]), "ret": int(c["Ret"])})
    races, harness = race_events(ch.racelog, loop_funcs)
    if harness:
        raise vlib.MachineryError("data race inside the harness itself (not a verdict): %s" % (harness[:2],))
    for e in races:
        evs.append(e)
    hang = r.get("hang") if r else None
    dump = ch.dump
    if ch.killed and not hang:
        # the child did not even get to its own watchdog: use the SIGQUIT dump
        dump = ch.stderr
        hang = {"op": "?", "worker": -1, "after_ms": int(ch.wall * 1000)}
    if hang:
        gs = parse_dump(dump)
        obs, parties = None, None
        cands = ([expect_parties] if expect_parties else []) + [c["parties"] for c in all_cycles.values()]
        for ps in cands:
            obs = confirm_cycle(gs, ps)
            if obs:
                parties = ps
                break
        shape = shape_of(parties) if obs else "unexplained"
        if not obs:
            lj = loop_join(gs)
            if lj:
                obs, shape = lj, "loopjoin"
        e = {"op": "hang", "name": hang["op"], "confirmed": 1 if obs else 0,
             "shape": shape,
             "cycle": " ".join(obs) if obs else " ".join(blocked_summary(gs)[:12]),
             "after_ms": int(hang["after_ms"])}
        evs.append(e)
        detail["hang"] = {"predicted_parties": parties, "observed": obs, "blocked": blocked_summary(gs),
                          "calls": r["calls"] if r else None, "goroutines": dump[:60000]}
    cls, what = classify_crash(ch.stderr) if (ch.rc not in (0, 3) or r is None) and not ch.killed else (None, None)
    if cls:
        evs.append({"op": "crash", "class": cls, "what": what, "site": crash_site(ch.stderr)})
        detail["crash"] = ch.stderr[-20000:]
    elif r is None and not ch.killed:
        raise vlib.MachineryError("child %s ended with status %s without result:\n%s" % (run_name, ch.rc, ch.stderr[-3000:]))
    evs.append({"op": "end", "ok": 1 if (ch.rc == 0 and r is not None and not hang) else 0})
    return evs, detail


# ----------------------------------------------------------------------------------------------------------------------
def run(ctx):
    ctx.level = "model_checking"
    ctx.cov["rule"] = ("lock-up half: TLC states of Locks.tla; an evaluation = one real API/RPC call made by a stress child; "
                       "non-trivial/distinct = distinct (operation, outcome class) pairs and distinct race-detector pairs / lock-up cycles")
    ctx.assumptions += [
        "the step sequences of Locks.tla are compared with the sources structurally (harness/c20x: order of Lock/RLock/Unlock/db.Update/"
        "resumer/sendCommand calls per function, main path, calls inlined); lock identity is by field name",
        "sync.RWMutex is modelled with writer preference; bbolt db.Update = one writer mutex, db.View never waits",
        "the torrent loop is an envelope: any sequence of {resumer write, mBitfield read section, mBitfield write section} between commands",
        "data-race half: the Go race detector is the observer of the ownership rule; schedules are SAMPLED (seeded call mixes), not enumerated",
        "DHT node, RPC HTTP server shutdown and the resource manager are not resources of the model",
    ]
    quick = ctx.quick()
    # ---- 1. structural conformance ------------------------------------------------------------------------------------
    xbin = ctx.build_go("c20x")
    xr = ctx.run_drv(xbin, [vlib.REPO], timeout=120)
    xjson = json.loads(xr.stdout)
    items, _ = ctx.tlc_gen("MC_LocksPrint", "MC_LocksPrint.cfg", timeout=600)
    progs, meta = parse_printed(items)
    fixed, rep = conformance(ctx, xjson, progs, meta)
    # A mismatch means the spec must be brought up to date (exit 2 at the end). The real session is still stressed first:
    # an observed lock-up or race is a verdict of its own, whatever the state of the spec.
    stale = stale_message(rep["problems"]) if rep["problems"] else None
    if stale:
        vlib.log("WARNING: " + stale)
    code = Code(xjson)
    loop_funcs = {f.replace("torrent.", "torrent.", 1) for f in (code.reach("torrent.run") - {"torrent.run"})}
    ctx.extra["conformance"] = rep
    ctx.extra["fixed_in_sources"] = sorted(fixed)
    ctx.oblig("conformance.programs", rep["compared"])
    vlib.log("conformance: %d programs equal to the sources; repaired transcriptions in force: %s" % (rep["compared"], sorted(fixed) or "none"))
    # ---- 2. design level: the repaired transcription has no lock-up -----------------------------------------------------
    allfix = set(meta["fixnames"])
    mc_to = 1500
    if fixed != allfix or not quick:
        ok, out, _ = tlc_with_fixed(ctx, "MC_Locks", "MC_Locks_fixed.cfg", allfix, mc_to)
        if not ok:
            raise vlib.MachineryError("the repaired design (Fixed = all) has a lock-up or TLC failed:\n" + out[-4000:])
    if not quick:
        for cfg in ("MC_Locks_fixed_all.cfg", "MC_Locks_fixed_bg.cfg", "MC_Locks_fixed_t.cfg", "MC_Locks_live.cfg"):
            ok, out, _ = tlc_with_fixed(ctx, "MC_Locks", cfg, allfix, 3000)
            if not ok:
                raise vlib.MachineryError("%s failed on the repaired design:\n%s" % (cfg, out[-4000:]))
    # ---- 3. the tree as it is: TLC generates the lock-up cycles ---------------------------------------------------------
    cycles = {}
    # Round-3 extension, OFF by default (VERIF_C20_SRCMODEL=1 turns it on; not yet run end-to-end on the unchanged tree):
    # the model of the tree as it is takes (a) the capacity of the Response channels and (b) the step sequences of the
    # operations that equal no transcription of Locks.tla FROM THE SOURCES, and MC_Locks_hyp.cfg adds probe recipes.
    SRCMODEL = os.environ.get("VERIF_C20_SRCMODEL") == "1"
    src_unbuf = set(rep.get("unbuffered", [])) if SRCMODEL else set()
    if src_unbuf:
        src_unbuf.add("statsCommandC")        # Torrent.Stats represents the four queries in the MC choices
    src_over = {o: q for o, q in rep.get("overrides", {}).items() if q} if SRCMODEL else {}
    ctx.extra["source_model"] = {"enabled": SRCMODEL, "unbuffered": sorted(rep.get("unbuffered", [])), "overridden": sorted(rep.get("overrides", {}))}
    for cfg in (["MC_Locks_asis.cfg"] if quick else ["MC_Locks_asis.cfg", "MC_Locks_asis_t.cfg"]):
        ok, out, its = tlc_with_fixed(ctx, "MC_Locks", cfg, fixed, 3000, generator=True, unbuf=src_unbuf, over=src_over)
        if not ok:
            raise vlib.MachineryError("generator run %s failed:\n%s" % (cfg, out[-4000:]))
        for k, c in cycles_of(its).items():
            if k in cycles:
                cycles[k]["states"] += c["states"]
            else:
                cycles[k] = c
    if SRCMODEL:
        # probes: the interleavings in which the design rules of the command protocol matter (TLC: MC_Locks_hyp.cfg)
        ok, out, its = tlc_with_fixed(ctx, "MC_Locks", "MC_Locks_hyp.cfg", set(meta["fixnames"]), 3000, generator=True)
        if not ok:
            raise vlib.MachineryError("generator run MC_Locks_hyp.cfg failed:\n" + out[-4000:])
        hyp = cycles_of(its)
        if not any(p[1] == "REPLY" for k in hyp for p in k):
            raise vlib.MachineryError("MC_Locks_hyp.cfg: the REPLY action was not explored (vacuous)")
        ctx.extra["probe_cycles"] = [{"parties": ["%s:%s:%s" % p for p in k], "ops": sorted(c["ops"])} for k, c in sorted(hyp.items())]
        for k, c in hyp.items():
            cycles.setdefault(k, c)
    shapes = {}
    for k, c in cycles.items():
        shapes.setdefault(shape_of(k), []).append(c)
    ctx.extra["model_cycles"] = [{"parties": ["%s:%s:%s" % p for p in k], "lockup_states": c["states"]} for k, c in sorted(cycles.items())]
    vlib.log("model of the tree as it is: %d distinct lock-up cycles in %d shapes" % (len(cycles), len(shapes)))
    # ---- 4. drivers -----------------------------------------------------------------------------------------------------
    drv = ctx.build_go("c20")
    drv_race = ctx.build_go("c20", race=True)
    trace, details = [], {}
    nrun = [0]

    def add(ch, label, expect=None):
        nrun[0] += 1
        name = "%s#%d" % (label, nrun[0])
        evs, det = events_of_child(ch, name, cycles, loop_funcs, expect)
        base = len(trace)
        for i, e in enumerate(evs):
            details[base + i + 1] = (name, e, det)
        trace.extend(evs)
        r = ch.result
        if r:
            for opn, c in r["calls"].items():
                ctx.add_cases(int(c["N"]), [(opn, "err" if c["Err"] else "ok", "panic" if c["Panic"] else "")])
            ctx.oblig("C20.lockup", sum(int(c["N"]) for c in r["calls"].values()))
            if r.get("panics"):
                ctx.extra.setdefault("caller_panics_not_judged", [])
                for pz in r["panics"][:3]:
                    if len(ctx.extra["caller_panics_not_judged"]) < 6:
                        ctx.extra["caller_panics_not_judged"].append(pz[:400])
        return evs

    # 4a. stress recipes of the predicted cycles (non-race binary: the faster the loops the sooner the cycle closes)
    todo = []
    for sh, cs in sorted(shapes.items()):
        cs = sorted(cs, key=lambda c: (recipe_ops(c["parties"], c.get("ops", ()) if SRCMODEL else ()), c["parties"]))
        seen_ops = set()
        for c in cs:
            ro = tuple(recipe_ops(c["parties"], c.get("ops", ()) if SRCMODEL else ()))
            if ro in seen_ops:
                continue
            seen_ops.add(ro)
            todo.append((sh, c))
            if quick and len(seen_ops) >= 1:
                break
    par = 4
    rec_dur, rec_lim = (10000, 6000) if quick else (20000, 8000)
    reproduced = 0
    for i in range(0, len(todo), par):
        batch = []
        for j, (sh, c) in enumerate(todo[i:i + par]):
            ro = recipe_ops(c["parties"], c.get("ops", ()) if SRCMODEL else ())
            ch = Child(ctx, drv, "recipe%d" % (i + j), ["recipe", "-ops", ",".join(ro), "-dur", str(rec_dur), "-limit", str(rec_lim),
                                                          "-seed", str(ctx.seed)], wall=rec_dur / 1000 + rec_lim / 1000 + 60, race=False)
            batch.append((ch, sh, c, ro))
        for ch, sh, c, ro in batch:
            ch.wait()
            evs = add(ch, "recipe:" + "+".join(ro), expect=c["parties"])
            if any(e["op"] == "hang" and e["confirmed"] for e in evs):
                reproduced += 1
    ctx.extra["recipes"] = {"run": len(todo), "reproduced": reproduced}
    if todo:
        vlib.log("stress recipes: %d run, %d reproduced a lock-up on the real session" % (len(todo), reproduced))
    # 4b. generic stress under the race detector
    skip_all = "Session.StartAll,Session.StopAll,rpc.StartAllTorrents,rpc.StopAllTorrents"
    predicted = bool(cycles)
    plan = []   # (label, args, wall)
    sd = ctx.seed
    if quick:
        plan.append(("stress:all", ["stress", "-mix", "all", "-dur", "25000", "-workers", "6", "-seed", str(sd), "-limit", "20000"], 25 + 20 + 60))
        if predicted:
            plan.append(("stress:all-noAll", ["stress", "-mix", "all", "-skip", skip_all, "-dur", "40000", "-workers", "6", "-seed", str(sd + 100), "-limit", "30000"], 40 + 30 + 60))
        plan.append(("stress:compact", ["stress", "-mix", "compact", "-skip", skip_all if predicted else "", "-dur", "12000", "-workers", "4", "-seed", str(sd + 200), "-limit", "30000"], 12 + 30 + 60))
        plan.append(("stress:move", ["stress", "-mix", "move", "-skip", skip_all if predicted else "", "-dur", "12000", "-workers", "4", "-seed", str(sd + 300), "-limit", "30000"], 12 + 30 + 60))
    else:
        for k in range(2):
            plan.append(("stress:all", ["stress", "-mix", "all", "-dur", "45000", "-workers", "6", "-seed", str(sd * 10 + k), "-limit", "30000"], 45 + 30 + 90))
        for k in range(4 if predicted else 2):
            plan.append(("stress:all-noAll", ["stress", "-mix", "all", "-skip", skip_all if predicted else "", "-dur", "75000", "-workers", str(4 + 2 * (k % 3)),
                                              "-seed", str(sd * 10 + 100 + k), "-limit", "40000"], 75 + 40 + 90))
        for mix in ("compact", "move", "dht"):
            plan.append(("stress:" + mix, ["stress", "-mix", mix, "-skip", skip_all if predicted else "", "-dur", "45000", "-workers", "5",
                                           "-seed", str(sd * 10 + 200), "-limit", "40000"], 45 + 40 + 90))
    # 4c. command histories issued DURING allocation / verification and with a busy DHT announcer (harness/c20/phases.go):
    #     the loop joins its helper goroutines in stop(); judged by the watchdog (every call returns within -limit)
    if quick:
        plan.append(("phases", ["phases", "-dur", "22000", "-seed", str(sd + 400), "-limit", "15000"], 22 + 15 + 60))
    else:
        for k in range(3):
            plan.append(("phases" if k < 2 else "phases:race", ["phases", "-dur", "60000", "-seed", str(sd * 10 + 400 + k), "-limit", "20000"], 60 + 20 + 90))
    par = 4 if quick else 5
    summary = []
    queue = [(label, _drop_empty_skip(args), wall, 0) for (label, args, wall) in plan]
    k = 0
    while queue:
        batch, queue = queue[:par], queue[par:]
        started = []
        for (label, args, wall, gen) in batch:
            k += 1
            race = not (label == "phases")       # the lock-up histories need no race detector (and run 3-4x more histories without it)
            started.append((Child(ctx, drv_race if race else drv, "s%d" % k, args, wall, race), label, args, wall, gen))
        for ch, label, args, wall, gen in started:
            ch.wait()
            evs = add(ch, label)
            r = ch.result or {}
            crashed = any(e["op"] == "crash" for e in evs)
            planned = int(args[args.index("-dur") + 1])
            ran = int((ch.t1 - ch.t0) * 1000)
            summary.append({"run": label, "gen": gen, "planned_ms": planned, "ran_ms": ran, "calls": sum(int(c["N"]) for c in r.get("calls", {}).values()),
                            "races": sum(1 for e in evs if e["op"] == "unsyncAccess"), "hang": any(e["op"] == "hang" for e in evs),
                            "crash": next((e["what"] for e in evs if e["op"] == "crash"), None), "downloaded": r.get("downloaded", 0)})
            # a child that died early (a panic of the code under test kills the whole process) is continued with another seed
            left = planned - ran
            if crashed and gen < 3 and left > 8000:
                a2 = list(args)
                a2[a2.index("-dur") + 1] = str(left)
                a2[a2.index("-seed") + 1] = str(int(a2[a2.index("-seed") + 1]) + 7919 * (gen + 1))
                queue.append((label, a2, left / 1000 + 100, gen + 1))
    ctx.extra["children"] = summary
    # ---- 5. the judge ---------------------------------------------------------------------------------------------------
    tp = ctx.path("trace.ndjson")
    slim = []
    for e in trace:
        e2 = {k: v for k, v in e.items() if isinstance(v, (str, int))}
        slim.append(e2)
    vlib.write_ndjson(tp, slim)
    ncalls = sum(e["n"] for e in trace if e["op"] == "calls")
    nret = sum(e["ret"] for e in trace if e["op"] == "calls")
    res = ctx.tlc_validate("Trace_Locks", tp, ntraces=nrun[0], timeout=900)
    if not res["ok"]:
        raise vlib.MachineryError("trace not explained by Trace_Locks (driver/spec mismatch, not a verdict) at line %s:\n%s"
                                  % (res["hwm"], res["out"][-2500:]))
    viols = [(int(n), t) for n, t in re.findall(r'@@VIOL (\d+) ([^"\s]+)', res["out"])]
    ctx.oblig("C20.race", sum(1 for e in trace if e["op"] == "unsyncAccess"))
    ctx.extra["stress"] = {"children": nrun[0], "calls": ncalls, "returned": nret,
                           "race_pairs": sorted({(e["a"], e["b"]) for e in trace if e["op"] == "unsyncAccess"}),
                           "race_reports": sum(e["n"] for e in trace if e["op"] == "unsyncAccess"),
                           "hangs": [{k: e[k] for k in ("name", "shape", "confirmed", "cycle")} for e in trace if e["op"] == "hang"],
                           "crashes": [{k: e[k] for k in ("class", "what", "site")} for e in trace if e["op"] == "crash"]}
    if THIRD_PARTY:
        ctx.extra["third_party_races_not_judged"] = sorted(THIRD_PARTY)[:20]
    ctx.sample({"run": trace[0]["run"], "first_events": slim[:6]})
    for e in trace:
        if e["op"] == "unsyncAccess":
            ctx.add_cases(0, [("race", e["a"], e["b"])])
    seen = set()
    for line, tag in viols:
        name, e, det = details[line]
        if e["op"] == "unsyncAccess":
            sig = "race a=%s b=%s" % (e["a"], e["b"])
            what = "unsynchronised accesses (%s) by two goroutines: %s  <->  %s (%d race-detector report(s) in %s)" % (e["kinds"], e["a"], e["b"], e["n"], name)
            d = {"run": name, "event": e}
        elif e["op"] == "hang":
            sig = "cycle=[%s] shape=%s" % (e["cycle"], e["shape"]) if e["confirmed"] else "hang op=%s blocked=[%s]" % (e["name"], e["cycle"])
            what = ("lock-up reproduced on the real session in %s: call %s did not return within %d ms; goroutine dump shows %s"
                    % (name, e["name"], e["after_ms"], e["cycle"]))
            d = {"run": name, "event": e, "dump": det.get("hang")}
        elif e["op"] == "crash":
            sig = "crash %s at=%s" % (e["what"], e["site"])
            what = "child %s died: %s at %s" % (name, e["what"], e["site"])
            d = {"run": name, "event": e, "stderr": det.get("crash")}
        else:
            sig = "noreturn run=%s" % name.split("#")[0]
            what = "calls still in flight at the end of %s" % name
            d = {"run": name}
        if (tag, sig) in seen:
            continue
        seen.add((tag, sig))
        ctx.violation(tag, sig, what, d)
    if getattr(ctx, "selftest", False):
        selftest(ctx, slim, xjson, progs, meta)
    if stale:
        raise vlib.MachineryError(stale)
    if ncalls < 200 and not ctx.violations and not ctx.known_hits:
        raise vlib.MachineryError("the stress children made only %d calls: nothing was exercised" % ncalls)


def selftest(ctx, slim, xjson, progs, meta):
    """binding demonstration: corrupted inputs must be rejected"""
    import copy
    # 1. a trace whose `calls` line claims more returns than calls is not a behaviour of Trace_Locks
    bad = copy.deepcopy(slim)
    i = next(k for k, e in enumerate(bad) if e["op"] == "calls")
    bad[i]["ret"] = bad[i]["n"] + 1
    tp = ctx.path("selftest.ndjson")
    vlib.write_ndjson(tp, bad)
    res = ctx.tlc_validate("Trace_Locks", tp, timeout=600)
    if res["ok"] or res["hwm"] != i:
        raise vlib.MachineryError("selftest: corrupted trace line %d was accepted (hwm=%s)" % (i + 1, res["hwm"]))
    # 2. swapping two lock steps in the extracted sources must be noticed by the conformance check
    x2 = copy.deepcopy(xjson)
    ev = x2["funcs"]["Session.updateStats"]["events"]
    ev[0], ev[1] = ev[1], ev[0]
    _, rep = conformance(ctx, x2, progs, meta)
    if not any("Session.updateStats" in p for p in rep["problems"]):
        raise vlib.MachineryError("selftest: reordered lock steps of updateStats were not noticed")
    # 3. a synthetic race-detector report becomes the expected event
    rpt = ("==================\nWARNING: DATA RACE\nWrite at 0x00c000000001 by goroutine 7:\n  " + RAIN + "torrent.(*torrent).handleStopped()\n      x.go:1 +0x1\n  "
           + RAIN + "torrent.(*torrent).run()\n      x.go:2 +0x1\n  " + RAIN + "torrent.newTorrent.gowrap1()\n      x.go:3 +0x1\n\n"
           "Previous read at 0x00c000000001 by goroutine 9:\n  " + RAIN + "torrent.(*torrent).Files()\n      y.go:1 +0x1\n  main.x()\n      m.go:1 +0x1\n\n"
           "Goroutine 7 (running) created at:\n  " + RAIN + "torrent.newTorrent()\n      x.go:9 +0x1\n\nGoroutine 9 (running) created at:\n  main.y()\n      m.go:2 +0x1\n==================\n")
    evs, _ = race_events(rpt, set())
    if [(e["a"], e["b"]) for e in evs] != [("torrent.(*torrent).Files", "loop:torrent.(*torrent).handleStopped")]:
        raise vlib.MachineryError("selftest: race report parsed as %s" % evs)
    vlib.log("selftest: corrupted trace rejected at line %d; reordered lock steps noticed; race report parsed" % (i + 1))


def _drop_empty_skip(args):
    out, i = [], 0
    while i < len(args):
        if args[i] == "-skip" and i + 1 < len(args) and args[i + 1] == "":
            i += 2
            continue
        out.append(args[i])
        i += 1
    return out


if __name__ == "__main__":       # development helper:  python3 props/c20.py <extractor.json> <tlc-print-output>
    import sys
    x = json.load(open(sys.argv[1]))
    its = []
    for ln in open(sys.argv[2]):
        ln = ln.strip()
        if ln.startswith('"@@'):
            its.append(json.loads(json.loads(ln)[2:]))
    pg, mt = parse_printed(its)
    fx, rp = conformance(None, x, pg, mt)
    print(sorted(fx), rp["compared"], rp["static_ownership_leads"])
    if rp["problems"]:
        print(stale_message(rp["problems"]))
