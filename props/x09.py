"""X09 — Startup: allocation -> decision (trust stored bitfield | fresh | verify) -> verification -> running, with
Stop / Verify / Start and I/O errors at every step (spec/Startup.tla, MC_Startup*, Trace_Startup; driver harness/x09).

Specification-coverage extension (not one of the 20 listed properties).
1. design level: MC_Startup.cfg / MC_Startup_padwhole.cfg — the INTENDED machine (FixNames = {size, allocstop}) satisfies
   X09.trust / handles / nocheck / check / err / sized for every interleaving of commands, allocator / verifier steps, I/O errors
   and detectable external file changes while stopped; MC_Startup_asis*.cfg — the machine AS IT IS violates X09.trust
   (expected counterexamples = named deviations DEV.size, DEV.allocstop).
2. implementation -> specification: seeded scenarios (file states absent / ok / damaged / short, padding and empty files,
   gates that hold or fail the k-th Open / ReadAt, commands issued at the gate, external changes while stopped) and the directed
   counterexamples of 1. are run against a real torrent.Session over the recording in-memory storage; Trace_Startup judges them.
3. binding self-check: one corrupted field (exists / have / phase) must be rejected.
"""
import json, os, re
import vlib

DEV_EXPECT = {"size": "X09.trust", "allocstop": "X09.trust", "allocerr": "X09.trust"}


def expect_fail(ctx, module, cfg, what, timeout=600):
    ok, out = ctx.tlc_mc(module, cfg, timeout=timeout, expect_ok=False, workers=4)
    if ok or not re.search(what, out):
        raise vlib.MachineryError("%s/%s: expected a counterexample (%s), got ok=%s\n%s" % (module, cfg, what, ok, out[-1500:]))
    return out


def design_level(ctx):
    ctx.tlc_mc("MC_Startup", "MC_Startup_padwhole.cfg", timeout=600, workers=4)
    expect_fail(ctx, "MC_Startup", "MC_Startup_asis_padwhole.cfg", "Invariant Trust is violated")
    if not ctx.quick():
        expect_fail(ctx, "MC_Startup", "MC_Startup_asis.cfg", "Invariant Trust is violated")
        ctx.tlc_mc("MC_Startup", "MC_Startup.cfg", timeout=1200, workers=8)
        expect_fail(ctx, "MC_Startup", "MC_Startup_asis_size.cfg", "Invariant Trust is violated")
        expect_fail(ctx, "MC_Startup", "MC_Startup_asis_allocstop.cfg", "Invariant Trust is violated")


def split_traces(path):
    """-> list of (first line no (1-based), lines) per history."""
    out, cur, start = [], [], 1
    with open(path) as fh:
        for i, ln in enumerate(fh, 1):
            if '"op":"Init"' in ln and cur:
                out.append((start, cur))
                cur, start = [], i
            cur.append(ln)
    if cur:
        out.append((start, cur))
    return out


def classify(lines, upto):
    """class of the history prefix that led to the violating line: last external change + aborted allocation after it."""
    env, abort, prev = "none", False, None
    for ln in lines[:upto]:
        e = json.loads(ln)
        if e["op"] == "Env":
            env, abort = e["k"], False
        if e["op"] == "Snap":
            if prev == "Alloc" and e["ph"] == "Stopping":
                abort = True
            prev = e["ph"]
    return "env=%s%s" % (env, "+allocabort" if abort else "")


def judge(ctx, trace, info, label):
    """one TLC pass; the first violation of each history is reported (later ones may be consequences)."""
    hist = split_traces(trace)
    res = ctx.tlc_validate("Trace_Startup", trace, ntraces=len(hist), timeout=900)
    if not res["ok"] and not res["viols"] or res["hwm"] is not None:
        hwm = res["hwm"] or 0
        idx = max([i for i, (s, _) in enumerate(hist) if s <= max(hwm, 1)] or [0])
        s, lines = hist[idx]
        head = json.loads(lines[0])
        meta = next((m for m in info if m["tr"] == head.get("tr")), {})
        ctxl = "".join(lines[max(0, hwm - s - 6):hwm - s + 2])
        raise vlib.MachineryError("%s: trace line %d of history %s (%s) is not explained by Trace_Startup (driver/spec mismatch)\n%s\nsteps=%s"
                                  % (label, hwm, head.get("tr"), head.get("layout"), ctxl, meta.get("steps")))
    found, seen = [], set()
    for tag, ln in sorted(res["viols"], key=lambda x: x[1]):
        idx = max(i for i, (s, _) in enumerate(hist) if s <= ln)
        if idx in seen:
            continue
        seen.add(idx)
        s, lines = hist[idx]
        head = json.loads(lines[0])
        meta = next((m for m in info if m["tr"] == head.get("tr")), {})
        found.append({"tag": tag, "class": classify(lines, ln - s + 1), "tr": head.get("tr"), "layout": head.get("layout"),
                      "directed": meta.get("directed", ""), "steps": meta.get("steps"), "line": lines[ln - s].strip()})
    return found


def run(ctx):
    ctx.level = "model_checking"
    ctx.cov["rule"] = ("histories of one torrent's start pipeline over the recording storage: initial file states x gates (hold / fail the "
                       "k-th Open / ReadAt) x command at the gate x external change while stopped; non-trivial = contains a gate hit, an "
                       "injected error or an external change; distinct = distinct (layout, step list)")
    ctx.assumptions += ["the storage is harness/vh's in-memory provider, whose Open mirrors filestorage.Open (missing file: created at full "
                        "length, exists=false; existing file of another size: resized, exists=true); filestorage itself is not driven",
                        "no peers / trackers: the running state is observed only until the next command",
                        "external changes happen only while the torrent is Stopped; a content change at unchanged size is not detectable "
                        "without a hash check and is not held against the stored bitfield (X09.trust is about existence / size changes)"]
    if not os.environ.get("VERIF_SKIP_MC"):
        design_level(ctx)
    binp = ctx.build_go("x09")
    n = ctx.pick(40, 400)
    trace = ctx.path("x09-trace.ndjson")
    r = ctx.run_drv(binp, ["run", "-seed", str(ctx.seed), "-n", str(n), "-out", trace], timeout=ctx.pick(300, 1500))
    info = json.loads(r.stdout.strip().splitlines()[-1])
    seen = set()
    for m in info:
        key = json.dumps(m["steps"])
        nontriv = any(("(" in s) for s in m["steps"]) or len(m["steps"]) > 4
        if key not in seen:
            seen.add(key)
            ctx.count_case("history", nontriv)
    ctx.sample({"history": info[min(7, len(info) - 1)]})
    # observation counters
    cnt = {}
    with open(trace) as fh:
        prev = None
        for ln in fh:
            e = json.loads(ln)
            if e["op"] == "Init":
                prev = None
            if e["op"] == "Snap":
                if prev and prev != e["ph"]:
                    k = "%s->%s" % (prev, e["ph"])
                    cnt[k] = cnt.get(k, 0) + 1
                prev = e["ph"]
            if e["op"] in ("Open", "Read") and e.get("err"):
                cnt["err." + e["op"]] = cnt.get("err." + e["op"], 0) + 1
            if e["op"] == "Env":
                cnt["env." + e["k"]] = cnt.get("env." + e["k"], 0) + 1
    ctx.extra["transitions_observed"] = cnt
    for k, v in cnt.items():
        ctx.oblig("X09.obs." + k, v)
    found = judge(ctx, trace, info, "scenarios")
    ctx.extra["violating_histories"] = found[:20]
    reported = set()
    for f in found:
        sig = "%s:%s" % (f["tag"], f["class"])
        if sig in reported:
            continue
        reported.add(sig)
        ctx.violation(f["tag"], sig, "start pipeline: %s in history %s (layout %s, steps %s)" % (f["tag"], f["tr"], f["layout"], f["steps"]),
                      json.dumps(f))
    # the directed counterexamples must reproduce the predicted deviation (or be repaired): record which
    pred = {}
    for d, tag in DEV_EXPECT.items():
        hit = [f for f in found if f["directed"] == d]
        pred[d] = hit[0]["tag"] if hit else "not reproduced (repaired?)"
    ctx.extra["directed_deviations"] = pred
    # binding self-check
    for field in ("exists", "have", "phase"):
        t2 = ctx.path("x09-corrupt-%s.ndjson" % field)
        r2 = ctx.run_drv(binp, ["run", "-seed", str(ctx.seed), "-n", "12", "-out", t2, "-corrupt", field], timeout=300)
        info2 = json.loads(r2.stdout.strip().splitlines()[-1])
        base = {(f["tr"], f["tag"]) for f in found if f["tr"] <= 12}
        try:
            f2 = judge(ctx, t2, info2, "corrupt-" + field)
            got = {(f["tr"], f["tag"]) for f in f2}
            rejected = bool(got - base)
        except vlib.MachineryError as ex:
            if "not explained" not in str(ex):
                raise
            rejected = True
        if not rejected:
            raise vlib.MachineryError("binding self-check: corrupted field %s was accepted" % field)
        ctx.oblig("X09.binding." + field, 1)
