"""C18 — blocklist semantics are exact, filtered addresses never enter / leave the candidate queue.

spec/Admission.tla, MC_Admission (design level), MC_AdmissionGen (TLC as input generator),
Trace_Admission (judge); driver harness/c18 (+ shim harness/shim/internal/addrlist/zz_verif_c18.go).

The check is a list of sub-checks (SUBCHECKS).  A sub-check contributes
  * background TLC jobs            (st.bg(...))
  * trace files of the real code   (st.add_trace(name, path, weight))  judged by Trace_Admission
  * a post() hook that sees every failed obligation found in its traces.
All recorded traces of all sub-checks are cut at their "Init" lines, packed into a few chunks and judged by
TLC processes running in parallel; the trace specification prints one  @@VIOL <line> <tag>  per failed obligation
and goes on, so one pass judges everything (known findings do not hide other violations).
sub_contact: session-level contact obligations (real torrent.Session on loopback addresses, harness/c18/contact.go);
its observations (ops C*) are judged by the TrC* actions of Trace_Admission against the same `rules`.
"""
import hashlib, json, os, re, shutil, subprocess, threading, time
from concurrent.futures import ThreadPoolExecutor
import vlib

SPEC = os.path.join(vlib.VERIF, "spec")


# ------------------------------------------------------------------------------------------------ local TLC runner
class St:
    """Shared state of one run of the check."""

    def __init__(self, ctx):
        self.ctx = ctx
        self.lock = threading.Lock()
        self.n = 0
        self.pool = ThreadPoolExecutor(max_workers=4)
        self.jobs = []          # (label, future)
        self.traces = []        # dict(name, path, weight, sub)
        self.drv = None
        self.viols = {}         # trace name -> [(pos_in_trace_file, tag, context)]

    def tlc(self, module, cfg, workers=1, extra=(), timeout=1500, trace=None, java=""):
        """Run TLC on a private copy of spec/ ; returns (rc, out, seconds).  Does not touch ctx."""
        with self.lock:
            self.n += 1
            d = self.ctx.path("c18tlc%d" % self.n, "x")
        d = os.path.dirname(d)
        for f in os.listdir(SPEC):
            if f.endswith((".tla", ".cfg")) and ("Admission" in f):
                shutil.copy(os.path.join(SPEC, f), d)
        if trace:
            os.symlink(trace, os.path.join(d, "trace.ndjson"))
        cmd = ["tlc", "-workers", str(workers), "-metadir", os.path.join(d, "meta"), "-config", cfg] + list(extra) + [module + ".tla"]
        env = dict(os.environ)
        env["JAVA_TOOL_OPTIONS"] = ("-Xss64m -XX:ParallelGCThreads=%d " % max(2, min(workers, 4)) + java).strip()
        t = time.time()
        for attempt in (1, 2):
            try:
                r = subprocess.run(cmd, cwd=d, capture_output=True, text=True, timeout=timeout, env=env)
            except subprocess.TimeoutExpired:
                subprocess.run(["pkill", "-f", "tlc2.TL[C].*-metadir " + re.escape(os.path.join(d, "meta")) + " "], capture_output=True)
                raise vlib.MachineryError("TLC timeout (%ss) on %s/%s" % (timeout, module, cfg))
            # killed from outside (signal) without a TLC verdict: run it once more
            if attempt == 1 and (r.returncode < 0 or r.returncode in (137, 143)) and "Error:" not in r.stdout:
                vlib.log("TLC %s/%s was killed (rc=%d), running it again" % (module, cfg, r.returncode))
                shutil.rmtree(os.path.join(d, "meta"), ignore_errors=True)
                continue
            break
        shutil.rmtree(os.path.join(d, "meta"), ignore_errors=True)
        return r.returncode, r.stdout + r.stderr, time.time() - t

    def bg(self, label, fn, *a, **kw):
        self.jobs.append((label, self.pool.submit(fn, *a, **kw)))

    def join(self):
        res = {}
        for label, fut in self.jobs:
            res[label] = fut.result()
        self.jobs = []
        return res

    def add_trace(self, sub, name, path, weight=1.0):
        self.traces.append({"sub": sub, "name": name, "path": path, "weight": weight})


def counts(out):
    return vlib.Ctx._parse_counts(out)


def mc(st, cfg, expect_ok=True, workers=4, timeout=1500):
    """Exhaustive run of MC_Admission with cfg; returns the record for ctx.mc_runs (folded in by the main thread)."""
    rc, out, dt = st.tlc("MC_Admission", cfg, workers=workers, timeout=timeout)
    gen, dist, depth = counts(out)
    ok = rc == 0 and "Model checking completed. No error has been found" in out
    rec = {"module": "MC_Admission", "cfg": cfg, "generated": gen, "distinct": dist, "depth": depth, "ok": ok, "wall_s": round(dt, 1)}
    vlib.log("TLC MC MC_Admission/%s: %d generated, %d distinct, depth %d, %.1fs, ok=%s" % (cfg, gen, dist, depth, dt, ok))
    if expect_ok and not ok:
        raise vlib.MachineryError("TLC model checking of MC_Admission/%s failed (design-level spec error):\n%s" % (cfg, out[-5000:]))
    if not expect_ok:
        m = re.search(r"Invariant (\S+) is violated", out)
        rec["expected_counterexample"] = m.group(1) if m else None
        if ok or not m or m.group(1) != "PopSafe":
            raise vlib.MachineryError("MC_Admission/%s was expected to produce a counterexample:\n%s" % (cfg, out[-3000:]))
    return rec


def mc_ban(st, cfg, expect_inv=None):
    """Exhaustive run of AdmissionBan (lifetime of a ban: order of ban and re-dial, stop/start); expect_inv = the invariant
    that TLC must find violated (model of the code as it is / of a mutation), None = no error expected."""
    rc, out, dt = st.tlc("AdmissionBan", cfg, workers=2, timeout=600)
    g, dist, depth = counts(out)
    ok = rc == 0 and "Model checking completed. No error has been found" in out
    m = re.search(r"Invariant (\S+) is violated", out)
    rec = {"module": "AdmissionBan", "cfg": cfg, "generated": g, "distinct": dist, "depth": depth, "ok": ok, "wall_s": round(dt, 1)}
    vlib.log("TLC MC AdmissionBan/%s: %d generated, %d distinct, %.1fs, ok=%s%s" % (cfg, g, dist, dt, ok, (" violated=" + m.group(1)) if m else ""))
    if expect_inv is None and not ok:
        raise vlib.MachineryError("TLC model checking of AdmissionBan/%s failed (design-level spec error):\n%s" % (cfg, out[-4000:]))
    if expect_inv is not None:
        rec["expected_counterexample"] = m.group(1) if m else None
        if ok or not m or m.group(1) != expect_inv:
            raise vlib.MachineryError("AdmissionBan/%s was expected to violate %s:\n%s" % (cfg, expect_inv, out[-3000:]))
    return rec


def gen(st, cfg, outpath, timeout=1500, simulate=0, depth=0):
    """TLC as generator: the '@@' + JSON strings printed by MC_AdmissionGen go to outpath (ndjson).
    simulate=N: N random behaviours of the specification (tlc -simulate) instead of the exhaustive enumeration."""
    extra = ["-simulate", "num=%d" % simulate, "-depth", str(depth), "-seed", str(st.ctx.seed)] if simulate else []
    rc, out, dt = st.tlc("MC_AdmissionGen", cfg, workers=1, timeout=timeout, extra=extra)
    n = 0
    with open(outpath, "w") as fh:
        for line in out.splitlines():
            line = line.strip()
            if line.startswith('"@@'):
                fh.write(json.loads(line)[2:] + "\n")
                n += 1
    g, dist, depth = counts(out)
    vlib.log("TLC GEN MC_AdmissionGen/%s: %d items, %d states, %.1fs rc=%d" % (cfg, n, dist, dt, rc))
    if rc != 0 or n == 0:
        raise vlib.MachineryError("TLC generator MC_AdmissionGen/%s failed:\n%s" % (cfg, out[-4000:]))
    return {"cfg": cfg, "items": n, "generated": g, "distinct": dist, "wall_s": round(dt, 1)}


def drive(st, args, timeout=900):
    r = st.ctx.run_drv(st.drv, args, timeout=timeout)
    try:
        return json.loads(r.stdout.strip().splitlines()[-1])["events"]
    except Exception:
        raise vlib.MachineryError("driver output not understood: %r" % r.stdout[-500:])


# ------------------------------------------------------------------------------------------------ sub-checks
def sub_design(ctx, st):
    """Design level: range = prefix semantics, segment-tree design = naive definition, queue invariants."""
    st.bg("mc_bl", mc, st, ctx.pick("MC_Admission_bl4.cfg", "MC_Admission_bl5.cfg"), True, ctx.pick(4, 6))
    st.bg("mc_q", mc, st, "MC_Admission_q.cfg", True, 4)
    # the code's Pop (no look at the reloaded rules): TLC must find  Push ; Reload ; Pop
    st.bg("mc_q_asis", mc, st, "MC_Admission_q_asis.cfg", False, 2)
    # lifetime of a ban: recorded before the peer is closed and kept across stop/start it holds for good; the code as it is
    # (closePeer - which dials queued addresses - before the ban is recorded) and the mutation "stop() re-creates the ban list"
    # each let TLC find a dial to a banned IP
    st.bg("mc_ban", mc_ban, st, "MC_AdmissionBan.cfg")
    st.bg("mc_ban_asis", mc_ban, st, "MC_AdmissionBan_asis.cfg", "NeverDialBanned")
    st.bg("mc_ban_stopclears", mc_ban, st, "MC_AdmissionBan_stopclears.cfg", "NeverDialBanned")


def sub_blocklist(ctx, st):
    """internal/blocklist (+ stree, resolver) against the naive definition."""
    bits = ctx.pick(4, 5)
    lists = ctx.path("gen_lists.ndjson")
    g = gen(st, "MC_AdmissionGen_lists%d.cfg" % bits, lists)
    ctx.extra.setdefault("generators", []).append(g)
    seed = str(ctx.seed)
    jobs = [("bl_lists", ["-mode", "lists", "-in", lists, "-bits", str(bits), "-seed", seed], 1.0),
            ("bl_concrete", ["-mode", "concrete", "-seed", seed], 3.0),
            ("bl_random", ["-mode", "blrandom", "-seed", seed, "-n", str(ctx.pick(3, 8)), "-rules", str(ctx.pick(1500, 3000)),
                           "-queries", str(ctx.pick(250, 400))], 100.0),
            ("misc", ["-mode", "misc", "-seed", seed, "-n", str(ctx.pick(200, 2000))], 1.0)]
    for name, args, w in jobs:
        p = ctx.path("tr_%s.ndjson" % name)
        drive(st, args + ["-out", p])
        st.add_trace("blocklist", name, p, w)


def sub_queue(ctx, st):
    """internal/addrlist as a bounded priority set."""
    seed = str(ctx.seed)
    # (generator config, capacities, number of simulated behaviours or 0 = exhaustive enumeration)
    plan = ctx.pick([("MC_AdmissionGen_ops2.cfg", "1,2", 0), ("MC_AdmissionGen_ops3c.cfg", "2", 0), ("MC_AdmissionGen_sim8.cfg", "2,3", 25)],
                    [("MC_AdmissionGen_ops3w.cfg", "2", 0), ("MC_AdmissionGen_ops4c.cfg", "1,2", 0), ("MC_AdmissionGen_sim12.cfg", "1,2,3", 150)])
    for i, (cfg, caps, nsim) in enumerate(plan):
        sp = ctx.path("gen_ops%d.ndjson" % i)
        g = gen(st, cfg, sp, simulate=nsim, depth=13)   # every behaviour ends when K operations are reached
        ctx.extra.setdefault("generators", []).append(g)
        p = ctx.path("tr_q_scripts%d.ndjson" % i)
        drive(st, ["-mode", "qscripts", "-in", sp, "-caps", caps, "-seed", seed, "-out", p])
        st.add_trace("queue", "q_scripts%d" % i, p, 1.0)
    p = ctx.path("tr_q_random.ndjson")
    drive(st, ["-mode", "qrandom", "-seed", seed, "-n", str(ctx.pick(300, 4000)), "-ops", str(ctx.pick(40, 60)), "-out", p])
    st.add_trace("queue", "q_random", p, 1.2)


def contact_plan(ctx):
    """Scenarios kind:out:inc:trk:variant (switches of the three Blocklist* config flags; variant = list shape / reload shape)."""
    base = ["static:1:1:1:0", "static:0:0:0:1", "static:1:0:0:2", "static:0:1:0:0", "static:0:0:1:1",
            "dup:1:1:1:0", "reload:1:1:1:0", "reload:1:0:0:1", "banned:1:1:1:0", "banq:1:1:1:0", "yourip:1:1:1:0",
            # ban -> stop/start (variant 0), Verify on the running torrent (1), two restarts (2) -> the banned IP offered again by
            # user, tracker, ut_pex and itself; bandup: the banned IP is queued under a second port while its peer holds the only dial slot
            "banrs:1:1:1:0", "banrs:1:1:1:1", "bandup:1:1:1:0"]
    if ctx.quick():
        return base
    more = ["static:%d:%d:%d:%d" % (o, i, t, v) for o in (0, 1) for i in (0, 1) for t in (0, 1) for v in (0, 1, 2)]
    more += ["dup:1:1:1:1", "dup:0:0:0:2", "reload:1:1:1:2", "reload:1:1:0:3", "banned:0:0:0:1", "banned:1:1:1:2", "banq:0:0:0:1", "banq:1:1:1:2", "yourip:0:0:0:1", "yourip:1:1:1:2",
             "banrs:0:0:0:2", "banrs:1:0:1:1", "banrs:0:1:0:0", "bandup:0:0:0:1", "bandup:1:1:1:2"]
    return base + more + base[5:]


def sub_contact(ctx, st):
    """Session level: a real torrent.Session on loopback addresses never contacts what it must not (harness/c18/contact.go)."""
    plan = contact_plan(ctx)
    nproc = ctx.pick(3, 4)
    shards = [plan[i::nproc] for i in range(nproc)]
    settle = ctx.pick(400, 600)

    def work(i, shard):
        p = ctx.path("raw_contact%d.ndjson" % i)
        r = ctx.run_drv(st.drv, ["-mode", "contact", "-scenarios", ",".join(shard), "-seed", str(ctx.seed * 100 + i), "-settle", str(settle),
                                 "-out", p], timeout=60 + 25 * len(shard), check=False)
        begun = re.findall(r"^BEGIN (\d+) (\S+)$", r.stdout, re.M)
        ended = set(re.findall(r"^END (\d+)$", r.stdout, re.M))
        if r.returncode != 0:
            bad = [b for b in begun if b[0] not in ended]
            raise vlib.MachineryError("contact driver died (rc=%d) in scenario %s:\n%s" % (r.returncode, bad[:1], r.stderr[-3000:]))
        return p, shard

    def collect(outs):
        # keep the scenarios whose positive controls were all observed (CEnd.ok); the others are not judged
        kept, skipped = [], []
        for p, shard in outs:
            cur, k = [], -1
            for line in open(p):
                if '"op":"Init"' in line:
                    cur, k = [], k + 1
                cur.append(line)
                if '"op":"CEnd"' in line:
                    e = json.loads(line)
                    if e["ok"]:
                        cur.insert(2, json.dumps({"op": "CNote", "what": "scenario", "scenario": shard[k]}, separators=(",", ":")) + "\n")
                        kept.append(cur)
                    else:
                        skipped.append({"scenario": shard[k], "missing": e["missing"]})
                    cur = []
        return kept, skipped

    with ThreadPoolExecutor(max_workers=nproc) as ex:
        outs = [f.result() for f in [ex.submit(work, i, sh) for i, sh in enumerate(shards) if sh]]
    kept, skipped = collect(outs)
    # a scenario whose positive controls did not show up (loaded machine: a control dial / announce later than its deadline) is
    # run again, alone (one process, nothing else of this check running beside it), up to two times; what comes up is judged
    # like the rest.  Without this a scenario kind that occurs once in the plan (bandup, banq, yourip ... in the quick tier)
    # silently drops out of the run.
    first_skipped = list(skipped)
    for attempt in (1, 2):
        if not skipped:
            break
        again = [x["scenario"] for x in skipped]
        vlib.log("contact: %d scenario(s) without their positive controls, run again alone (attempt %d): %s" % (len(again), attempt, again[:6]))
        k2, skipped = collect([work(100 + attempt, again)])
        kept += k2
    ctx.extra["contact_scenarios_rerun"] = {"first_pass_not_judged": first_skipped[:10], "still_not_judged": [x["scenario"] for x in skipped][:10]}
    kinds_plan = {x.split(":")[0] for x in plan}
    kinds_judged = {json.loads(l)["scenario"].split(":")[0] for sc in kept for l in sc[2:3]}
    if kinds_plan - kinds_judged:
        vlib.log("note: contact scenario kinds not judged in this run: %s" % sorted(kinds_plan - kinds_judged))
    ctx.extra["contact_kinds_not_judged"] = sorted(kinds_plan - kinds_judged)
    ctx.extra["contact_scenarios"] = {"run": len(plan), "judged": len(kept), "not_judged": skipped[:10]}
    if len(kept) * 3 < len(plan) * 2:
        raise vlib.MachineryError("contact scenarios: only %d of %d came up (positive controls missing): %s" % (len(kept), len(plan), skipped[:5]))
    out = ctx.path("tr_contact.ndjson")
    with open(out, "w") as fh:
        for sc in kept:
            fh.writelines(sc)
            for line in sc:
                for op in ("CDial", "CAccept", "CAnnounce", "CWebseed", "CBan"):
                    if '"op":"%s"' % op in line:
                        ctx.oblig("C18.contact." + op[1:].lower(), 1)
            # situations: the banned address offered again after a restart of the torrent / queued under a second port
            txt = "".join(sc)
            if '"kind":"banrs"' in txt and '"op":"CBan"' in txt:
                after = txt.split('"what":"start"', 1)[1] if '"what":"start"' in txt else ""
                ctx.oblig("C18.contact.ban.offered_after_restart", sum(after.count(w) for w in ('"manual-offer"', '"tracker-offer"', '"pex-offer"')))
            if '"kind":"bandup"' in txt and '"op":"CBan"' in txt:
                ctx.oblig("C18.contact.ban.same_ip_queued", 1)
    st.add_trace("contact", "contact", out, 1.0)


SUBCHECKS = [sub_design, sub_blocklist, sub_queue, sub_contact]


# ------------------------------------------------------------------------------------------------ judging
def ipstr(h):
    return "%d.%d.%d.%d" % (h[0] >> 8, h[0] & 255, h[1] >> 8, h[1] & 255)


def rng_of(ln):
    v = (ln["ip"][0] << 16) | ln["ip"][1]
    p = ln["p"]
    m = 0 if p == 0 else (0xFFFFFFFF << (32 - p)) & 0xFFFFFFFF
    f = v & m
    return f, f | (~m & 0xFFFFFFFF)


class Seg:
    __slots__ = ("trace", "start", "lines", "weight", "full")

    def __init__(self, trace, start, weight):
        self.trace, self.start, self.lines, self.weight, self.full = trace, start, [], weight, True


def segments(ctx, st):
    """Cut every trace file at its "Init" lines ("Reinit" lines stay with their Init)."""
    segs = []
    nontrivial_ops = ('"op":"Query"', '"op":"Push"', '"op":"Pop"', '"op":"Resolve"', '"op":"Prio"', '"op":"CDial"', '"op":"CAccept"', '"op":"CAnnounce"')
    for tr in st.traces:
        cur = None
        sub = None       # sub-trace (Init or Reinit) for the coverage count
        pool_hdr = ""

        def close_sub():
            if sub:
                txt = pool_hdr + "".join(sub)
                ctx.count_case(hashlib.sha1(txt.encode()).digest(), any(k in txt for k in nontrivial_ops))
        with open(tr["path"]) as fh:
            for i, line in enumerate(fh):
                if line.startswith('{"bl"') and '"op":"Init"' in line:
                    close_sub()
                    cur = Seg(tr, i, 0.0)
                    segs.append(cur)
                    sub = []
                    pool_hdr = line
                elif '"op":"Reinit"' in line:
                    close_sub()
                    sub = []
                if cur is None:
                    raise vlib.MachineryError("trace %s does not start with Init" % tr["name"])
                cur.lines.append(line)
                sub.append(line)
                cur.weight += tr["weight"] * (1.0 + len(line) / 4000.0)
                count_line(ctx, line)
        close_sub()
    return segs


def count_line(ctx, line):
    if '"op":"Query"' in line:
        ctx.oblig("C18.blocked", line.count("true") + line.count("false"))
        ctx.oblig("C18.blocked.true", line.count("true"))
    elif '"op":"Reload"' in line:
        ctx.oblig("C18.reload", 1)
        if '"err":true' in line:
            ctx.oblig("C18.reload.refused", 1)
    elif '"op":"Push"' in line:
        ctx.oblig("C18.q.push", 1)
    elif '"op":"Pop"' in line:
        ctx.oblig("C18.q.pop", 1)
        if '"r":0,' not in line:
            ctx.oblig("C18.q.pop.nonempty", 1)
    elif '"op":"Reset"' in line:
        ctx.oblig("C18.q.reset", 1)
    elif '"op":"SetCip"' in line:
        ctx.oblig("C18.q.setcip", 1)
    elif '"op":"Resolve"' in line:
        ctx.oblig("C18.resolve", 1)
    elif '"op":"Prio"' in line:
        ctx.oblig("C18.prio", 1)


def pack(segs, nchunks):
    chunks = [{"w": 0.0, "segs": []} for _ in range(nchunks)]
    for s in sorted(segs, key=lambda s: -s.weight):
        c = min(chunks, key=lambda c: c["w"])
        c["segs"].append(s)
        c["w"] += s.weight
    return [c for c in chunks if c["segs"]]


def judge_chunk(st, idx, chunk, cfg="Trace_Admission.cfg"):
    """Write the chunk, run Trace_Admission on it; returns (violations [(seg, offset, tag)], states, seconds)."""
    path = st.ctx.path("chunk%d.ndjson" % idx)
    starts = []
    n = 0
    with open(path, "w") as fh:
        for s in chunk["segs"]:
            starts.append(n)
            fh.writelines(s.lines)
            n += len(s.lines)
    rc, out, dt = st.tlc("Trace_Admission", cfg, workers=1, trace=path, timeout=3000, java="-Xmx6g")
    gen_, dist, depth = counts(out)
    m = re.search(r"@@REJECT\s+(\d+)\s+(\d+)", out)
    if m or rc != 0 or "No error has been found" not in out:
        pos = int(m.group(1)) if m else -1
        where = ""
        if 0 <= pos < n:
            k = max(i for i, b in enumerate(starts) if b <= pos)
            where = "%s: %s" % (chunk["segs"][k].trace["name"], chunk["segs"][k].lines[pos - starts[k]][:400])
        raise vlib.MachineryError("trace not explained by the specification (driver/spec mismatch, not a verdict) at line %d of chunk %d (tlc rc=%d)\n%s\n%s"
                                  % (pos + 1, idx, rc, where, out[-3000:]))
    if dist != n:
        raise vlib.MachineryError("chunk %d: %d lines but %d states" % (idx, n, dist))
    viols = []
    for vm in re.finditer(r'@@VIOL (\d+) (\S+?)"?\s*$', out, re.M):
        l = int(vm.group(1)) - 1           # 0-based line of the chunk
        k = max(i for i, b in enumerate(starts) if b <= l)
        viols.append((chunk["segs"][k], l - starts[k], vm.group(2)))
    return viols, dist, gen_, dt, n


def explain(seg, off, tag):
    """Signature (for KNOWN_FINDINGS matching), one-line description and replay material for one failed obligation."""
    evs = [json.loads(x) for x in seg.lines[:off + 1]]
    # the (sub-)trace the event belongs to
    b = max(i for i, e in enumerate(evs) if e["op"] in ("Init", "Reinit"))
    init = dict(evs[0])
    if evs[b]["op"] == "Reinit":
        init["cap"] = evs[b]["cap"]
    hist = evs[b + 1:]
    e = hist[-1]
    pool = init.get("pool") or []
    rules = []
    for x in hist[:-1] + ([e] if e["op"] == "Reload" else []):
        if x["op"] == "Reload" and not x["err"]:
            rules = [l for l in x["lines"] if l["k"] == "cidr"]
    rtxt = ",".join("%s/%d" % (ipstr(l["ip"]), l["p"]) for l in rules[:8]) + ("..." if len(rules) > 8 else "")
    sig = "tag=%s op=%s" % (tag, e["op"])
    what = "%s violated by %s" % (tag, json.dumps(e)[:300])
    if tag == "C18.blocked":
        rs = [rng_of(l) for l in rules]
        for h, a in zip(e["ips"], e["ans"]):
            v = (h[0] << 16) | h[1]
            want = any(f <= v <= t for f, t in rs)
            if want != a:
                sig += " want=%s ip=%s nrules=%d rules=[%s]" % ("blocked" if want else "free", ipstr(h), len(rules), rtxt)
                what = "Blocked(%s) = %s but the loaded rules [%s] say %s" % (ipstr(h), a, rtxt, want)
                break
    elif e["op"].startswith("C"):
        ci = next((x for x in hist if x["op"] == "CInit"), {})
        scn = next((x.get("scenario") for x in hist if x["op"] == "CNote" and x.get("what") == "scenario"), "?")
        ip = str(e.get("a", "")).split(":")[0]
        sig += " kind=%s sw=%d%d%d ip=%s via=%s" % (ci.get("kind"), ci.get("out", 0), ci.get("inc", 0), ci.get("trk", 0), ip, e.get("via", "-"))
        offers = [x.get("a") for x in hist if x["op"] == "CNote" and "offer" in str(x.get("what"))]
        what = ("%s: the session contacted %s (%s) in scenario %s [rules %s; banned/connected state in the history]; offers so far: %s"
                % (tag, e.get("a"), e["op"], scn, rtxt, offers[-6:]))
    elif e["op"] == "Panic":
        sig += " in=%s msg=%s" % (e.get("in"), re.sub(r"\d+", "N", str(e.get("msg")))[:120])
        what = "the real code panics in %s: %s (input %s)" % (e.get("in"), e.get("msg"), json.dumps(e.get("arg"))[:200])
    elif tag.startswith("C18.resolve"):
        sig += " ip=%s port=%d res=%s rules=[%s]" % (ipstr(e["ip"]), e["port"], e["res"], rtxt)
    elif e["op"] in ("Push", "Pop", "Reset"):
        if tag == "C18.pop.blocked":
            r = e["r"]
            a = pool[r - 1]
            # did a Reload happen between the moment the address entered the queue and this Pop?
            entered, inq = -1, set()
            for i, x in enumerate(hist[:-1]):
                if x["op"] in ("Push", "Pop", "Reset"):
                    now = {y[0] for y in x["q"]}
                    if r in now and r not in inq:
                        entered = i
                    inq = now
            reloaded = any(x["op"] == "Reload" and not x["err"] for x in hist[entered + 1:-1])
            sig += " cause=%s" % ("reload-after-push" if (entered >= 0 and reloaded) else "other")
            what = ("Pop hands %s:%d to the dialer although the loaded rules [%s] block it (%s)"
                    % (ipstr(a["ip"]), a["port"], rtxt, "queued before the reload" if reloaded else "no reload since it was queued"))
        else:
            sig += " bl=%s full=%s" % (init["bl"], e["len"] >= init["cap"])
    # replay material: the whole history if it is short, otherwise from the last accepted Reload on
    # (the blocklist state depends on nothing earlier; long histories only occur in blocklist traces)
    h = hist
    if len(h) > 400:
        k = max([i for i, x in enumerate(h[:-1]) if x["op"] == "Reload" and not x["err"]] or [len(h) - 40])
        h = h[k:]
    detail = {"init": init, "history": h, "rules_in_force": rtxt, "trace": seg.trace["name"]}
    scn = next((x.get("scenario") for x in hist if x["op"] == "CNote" and x.get("what") == "scenario"), None)
    if scn:
        detail["scenario"] = scn
    return sig, what, detail


def judge_all(ctx, st):
    segs = segments(ctx, st)
    nch = ctx.pick(6, 8)
    chunks = pack(segs, nch)
    # binding demonstration (BUILDING.md rule 6): corrupt two recorded fields, the judge must object to exactly those
    demo = binding_demo(ctx, st, segs)
    futs = []
    with ThreadPoolExecutor(max_workers=nch + 1) as ex:
        for i, c in enumerate(chunks):
            futs.append(ex.submit(judge_chunk, st, i, c))
        fdemo = ex.submit(judge_chunk, st, 99, demo["chunk"]) if demo else None
        results = [f.result() for f in futs]
        rdemo = fdemo.result() if fdemo else None
    if demo:
        got = sorted((off, tag) for (_, off, tag) in rdemo[0] if (off, tag) in demo["expect"])
        if got != sorted(demo["expect"]):
            raise vlib.MachineryError("binding demonstration failed: corrupted fields %s, judge reported %s"
                                      % (demo["expect"], [(o, t) for (_, o, t) in rdemo[0]]))
        ctx.extra["binding_demo"] = {"corrupted": [list(x) for x in demo["expect"]], "rejected": True}
    allv = []
    nlines = 0
    for viols, dist, gen_, dt, n in results:
        ctx.cov["states"] += dist
        ctx.cov["transitions"] += gen_
        nlines += n
        allv += viols
    ntr = sum(1 for s in segs for l in s.lines if '"op":"Init"' in l or '"op":"Reinit"' in l)
    ctx.cov["traces_validated_against_impl"] += ntr
    ctx.extra["trace_lines_judged"] = nlines
    ctx.extra["judge_wall_s"] = round(max(r[3] for r in results), 1)
    vlib.log("TLC VAL Trace_Admission: %d lines in %d chunks, %d traces, %d failed obligations, slowest chunk %.1fs"
             % (nlines, len(chunks), ntr, len(allv), ctx.extra["judge_wall_s"]))
    # report: one ctx.violation per distinct signature (at most 12 replays), counts for all
    bysig = {}
    for seg, off, tag in allv:
        sig, what, detail = explain(seg, off, tag)
        ent = bysig.setdefault(sig if len(sig) < 300 else sig[:300], {"n": 0, "tag": tag, "what": what, "detail": detail})
        ent["n"] += 1
    ctx.extra["failed_obligations"] = {k: v["n"] for k, v in list(bysig.items())[:50]}
    for k, (sig, ent) in enumerate(sorted(bysig.items(), key=lambda kv: (kv[1]["tag"], kv[0]))):
        if k >= 12:
            vlib.log("... %d more distinct violation signatures not reported individually" % (len(bysig) - 12))
            break
        ent["detail"]["occurrences"] = ent["n"]
        ctx.violation(ent["tag"], sig, ent["what"], ent["detail"])
    return allv


def binding_demo(ctx, st, segs):
    """A small extra chunk: one blocklist trace with one Blocked() answer flipped, one queue trace with Len off by one."""
    bl = next((s for s in segs if s.trace["name"] == "bl_concrete"), None)
    qs = next((s for s in segs if s.trace["name"] == "q_random" and any('"op":"Push"' in l for l in s.lines)), None)
    if not bl or not qs:
        return None
    expect = []
    b2 = Seg(bl.trace, 0, 0)
    b2.lines = list(bl.lines[:60])
    for i, l in enumerate(b2.lines):
        if '"op":"Query"' in l:
            e = json.loads(l)
            e["ans"][0] = not e["ans"][0]
            b2.lines[i] = json.dumps(e, separators=(",", ":")) + "\n"
            expect.append((i, "C18.blocked"))
            break
    q2 = Seg(qs.trace, 0, 0)
    q2.lines = list(qs.lines)
    for i, l in enumerate(q2.lines):
        if '"op":"Push"' in l:
            e = json.loads(l)
            e["len"] += 1
            q2.lines[i] = json.dumps(e, separators=(",", ":")) + "\n"
            expect.append((i, "C18.q.len"))
            break
    if len(expect) != 2:
        return None
    return {"chunk": {"w": 0, "segs": [b2, q2]}, "expect": expect}


def queue_situations(ctx, st):
    """Vacuity evidence for the queue obligations: how often the interesting situations occurred (from q_random)."""
    tr = next((t for t in st.traces if t["name"] == "q_random"), None)
    if not tr:
        return
    sit = {"push_at_capacity": 0, "push_with_port0": 0, "push_with_self": 0, "push_with_blocked": 0, "push_equal_priority": 0,
           "push_same_addr_twice": 0, "pop_after_reload": 0, "source_change": 0, "eviction": 0,
           "client_address_changes": 0, "push_with_self_after_change": 0, "pop_own_address_queued_before_change": 0}
    init, rules, prevq, reloaded, moved = None, [], [], False, False
    for line in open(tr["path"]):
        e = json.loads(line)
        op = e["op"]
        if op == "Init":
            init, rules, prevq, reloaded, moved = e, [], [], False, False
            continue
        if op == "Reload":
            if not e["err"]:
                rules = [rng_of(l) for l in e["lines"] if l["k"] == "cidr"]
            reloaded = True
            continue
        if op == "SetCip":
            init = dict(init, cip=e["cip"], pool=[dict(a, prio=pr) for a, pr in zip(init["pool"], e["prios"])])
            moved = True
            sit["client_address_changes"] += 1
            continue
        if op not in ("Push", "Pop", "Reset"):
            continue
        pool = init["pool"]
        if op == "Push":
            b = [pool[i - 1] for i in e["addrs"]]
            vals = [((a["ip"][0] << 16) | a["ip"][1]) for a in b]
            if e["len"] == init["cap"] and e["addrs"]:
                sit["push_at_capacity"] += 1
            if any(a["port"] == 0 for a in b):
                sit["push_with_port0"] += 1
            if any(a["port"] == init["port"] and (a["ip"] == init["cip"] or a["ip"][0] >> 8 == 127) for a in b):
                sit["push_with_self"] += 1
                if moved and any(a["port"] == init["port"] and a["ip"] == init["cip"] for a in b):
                    sit["push_with_self_after_change"] += 1
            if init["bl"] and any(f <= v <= t for v in vals for f, t in rules):
                sit["push_with_blocked"] += 1
            pr = [tuple(a["prio"]) for a in b] + [tuple(pool[x[0] - 1]["prio"]) for x in prevq]
            if len(set(pr)) < len(pr):
                sit["push_equal_priority"] += 1
            keys = [(tuple(a["ip"]), a["port"]) for a in b]
            if len(set(keys)) < len(keys):
                sit["push_same_addr_twice"] += 1
            old = {x[0]: x[1] for x in prevq}
            if any(x[0] in old and old[x[0]] != x[1] for x in e["q"]):
                sit["source_change"] += 1
            newa = {x[0] for x in e["q"]}
            gone = [a for a in old if a not in newa]
            if gone and e["len"] == init["cap"]:
                sit["eviction"] += 1
        if op == "Pop" and reloaded and e["r"]:
            sit["pop_after_reload"] += 1
        # observation, not judged: an address queued before the client learned that it is its own is handed out
        if op == "Pop" and e["r"] and pool[e["r"] - 1]["port"] == init["port"] and pool[e["r"] - 1]["ip"] == init["cip"]:
            sit["pop_own_address_queued_before_change"] += 1
        prevq = e["q"]
    ctx.extra["queue_situations_in_random_histories"] = sit
    for k, v in sit.items():
        if v == 0 and k not in ("push_with_self",):
            vlib.log("note: situation %s did not occur in the random histories of this seed" % k)


def replay(ctx, st):
    """./check C18 --replay <file>: re-execute the recorded history on the real code and judge it again."""
    rp = json.load(open(ctx.replay))
    d = rp["detail"]
    if d.get("scenario"):       # a session-level scenario: run it again (3 times), judge the new recordings
        p = ctx.path("tr_replay.ndjson")
        drive(st, ["-mode", "contact", "-scenarios", ",".join([d["scenario"]] * 3), "-out", p, "-settle", "600"])
        st.add_trace("replay", "replay", p, 1.0)
        segs = segments(ctx, st)
        viols, dist, gen_, dt, n = judge_chunk(st, 0, {"w": 0, "segs": segs})
        vlib.log("replay: scenario %s run 3 times, %d failed obligations" % (d["scenario"], len(viols)))
        seen = set()
        for seg, off, tag in viols:
            sig, what, detail = explain(seg, off, tag)
            if sig not in seen:
                seen.add(sig)
                ctx.violation(tag, sig, what, detail)
        return
    src = ctx.path("replay_in.ndjson")
    vlib.write_ndjson(src, [d["init"]] + d["history"])
    p = ctx.path("tr_replay.ndjson")
    drive(st, ["-mode", "replay", "-in", src, "-out", p])
    st.add_trace("replay", "replay", p, 1.0)
    segs = segments(ctx, st)
    viols, dist, gen_, dt, n = judge_chunk(st, 0, {"w": 0, "segs": segs})
    ctx.cov["traces_validated_against_impl"] += len(segs)
    vlib.log("replay: %d events re-executed, %d failed obligations" % (n, len(viols)))
    seen = set()
    for seg, off, tag in viols:
        sig, what, detail = explain(seg, off, tag)
        if sig not in seen:
            seen.add(sig)
            ctx.violation(tag, sig, what, detail)


def run(ctx):
    ctx.level = "model_checking"
    ctx.cov["rule"] = ("a case is one recorded trace of the real code (one blocklist object with its sequence of Reload/Blocked/Resolve calls, "
                       "or one AddrList with its sequence of Push/Pop/Reset/Reload calls); non-trivial if it contains a judged answer "
                       "(Query/Resolve/Prio) or a queue operation; distinct = distinct recorded traces (hash of the trace text)")
    ctx.assumptions += [
        "the BEP 40 priority function is taken as given (checked only against the BEP 40 examples and for symmetry); priorities are computed by the real peerpriority.Calculate",
        "queue content is read through an overlay-only read-only shim (VerifDump) of internal/addrlist",
        "the client address the list refers to may change between operations (SetCip): the own-address filter and the priority of later pushes follow the current value; queued elements keep their priority; the same ip:port may then be queued under its old and its new priority; an own address queued BEFORE the change and popped after it is only counted (queue_situations), not judged",
        "which element is evicted from a full queue and what happens to two different addresses of equal priority is left open (the code evicts the oldest; the newer equal-priority address replaces the older)",
        "any address of a network denotes the network (host bits are masked, as blocklist_test.go expects); lines that are not a.b.c.d/n with 0<=n<=32 are malformed; IPv6 lines/queries are recorded, not judged",
        "session-level contact obligations (real sockets) are a separate sub-check",
    ]
    st = St(ctx)
    try:
        st.drv = ctx.build_go("c18")
        if getattr(ctx, "replay", None):
            replay(ctx, st)
            return
        only = [x for x in os.environ.get("VERIF_C18_SUBS", "").split(",") if x]    # development aid: e.g. blocklist,queue
        for sub in SUBCHECKS:
            if not only or sub.__name__[4:] in only:
                sub(ctx, st)
        judge_all(ctx, st)
        queue_situations(ctx, st)
        res = st.join()
        for label, rec in res.items():
            ctx.mc_runs.append(rec)
            ctx.cov["states"] += rec["distinct"]
            ctx.cov["transitions"] += rec["generated"]
        if res.get("mc_ban_asis"):
            ctx.extra["design_counterexample_ban_as_is"] = ("TLC: with closePeer (-> dialAddresses) before the ban is recorded, %s fails by "
                                                            "Offer X:a (dialled) ; Offer X again (queued, no free slot) ; Corrupt X:a -> X dialled"
                                                            % res["mc_ban_asis"].get("expected_counterexample"))
        ce = res.get("mc_q_asis")
        if ce:
            ctx.extra["design_counterexample_as_is"] = ("TLC: with the code's Pop (no look at the rules at pop time) invariant %s fails by "
                                                        "Push ; Reload ; Pop" % ce.get("expected_counterexample"))
        for t in st.traces:
            if t["name"] in ("bl_lists", "q_random", "q_scripts0"):
                with open(t["path"]) as fh:
                    ctx.sample({"trace": t["name"], "prefix": [next(fh).strip()[:700] for _ in range(4)]})
    finally:
        st.pool.shutdown(wait=True, cancel_futures=True)
