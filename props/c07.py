"""C07 — path confinement (spec/Paths.tla, MC_Paths, PathsGen, Trace_Paths; driver harness/c07, shim torrent/zz_verif_c07.go)."""
import json, os, re, threading, time
import vlib


def run(ctx):
    ctx.level = "model_checking"
    ctx.cov["rule"] = ("one evaluation = one run (recording storage | real filestorage | session add+start+remove | tar extraction) of one "
                       "concretisation of one TLC-generated symbolic torrent / tar entry name; non-trivial = the real code accepted the "
                       "input; distinct = distinct (run kind, layout, symbolic case, concretisation index)")
    ctx.assumptions += [
        "completeness over all strings is by symbol classes (letter, dot, slash, backslash, NUL, space, invalid UTF-8, >255-byte run); "
        "each class is sampled by a few concrete strings (seeded), components have at most 3 symbols, torrents at most 2-3 files",
        "paths are judged lexically (no symlinks are planted inside the sandbox); platform = Linux (backslash is an ordinary character)",
        "layout without the torrent-id level: the torrent's own directory is the data directory itself, so damage to OTHER torrents' "
        "files inside the shared data directory (RemoveTorrent of a torrent named '.') is not counted",
        "tar entry names containing NUL cannot be encoded by archive/tar and are skipped (counted in driver stats)",
        "archives as sequences of typed entries (family TL): a symbolic / hard link entry named inside the destination with a target "
        "place inside or outside it (sibling directory, sentinel files one / two / three levels up, another torrent's directory, the "
        "data directory, the destination itself; absolute and relative link names), followed by a regular or directory entry at or "
        "below the link's name, a chain of two links, a harmless entry before; no link is planted in the sandbox by the driver itself; "
        "the archive reaches readData directly (the HTTP handler in front of it and the sending side generateTar are not driven)",
        "alternative sources of a validated value (families U, V): name.utf-8 / path.utf-8 independent of the plain keys (absent, "
        "present-but-empty, harmless, dangerous), duplicate dictionary keys (alternative first / last), 'length' next to 'files', "
        "BitComet padding names with / without attr; run with NewInfo flags (utf8,pad) = (on,on) New+resume v3, (on,off) v2, (off,off) v1; "
        "families A-C alternate (on,on) / (off,off) by concretisation; the session path always uses metainfo.New",
        "colliding paths (family W): pairs of raw paths that the cleaner / the join map onto one path ('/' vs '_', invalid byte vs U+FFFD "
        "vs another invalid byte, > 255-byte names differing only in the part cut out (extension kept, multi-byte cut), '.' and empty "
        "components), plain duplicates and near misses, adjacent or separated by a third file, x attr 'p' / BitComet padding name on "
        "either file x pad flag on / off; within one case a symbol is one concrete string; case-insensitive or Unicode-normalising "
        "file systems are outside the platform assumption (Linux: byte-wise names)"]
    mc_err = []

    def mc():
        try:
            ctx.tlc_mc("MC_Paths", "MC_Paths.cfg", timeout=1800, workers=4)
            ok, out = ctx.tlc_mc("MC_Paths", "MC_Paths_hole.cfg", timeout=1800, workers=2, expect_ok=False)
            if ok or "Invariant NoHole is violated" not in out:
                raise vlib.MachineryError("vacuity guard: the model of the filter as found has no hole (NoHole not violated)")
            mark(ctx, "MC_Paths_hole.cfg", "NoHole")
            # alternative sources (name.utf-8 / path.utf-8): the validated value must be the value that is used
            ctx.tlc_mc("MC_PathsAlt", "MC_PathsAlt.cfg", timeout=1800, workers=4)
            ok, out = ctx.tlc_mc("MC_PathsAlt", "MC_PathsAlt_hole.cfg", timeout=1800, workers=2, expect_ok=False)
            if ok or "Invariant NoOrderHole is violated" not in out:
                raise vlib.MachineryError("vacuity guard: validating the plain keys while using the utf-8 keys shows no hole in the model")
            mark(ctx, "MC_PathsAlt_hole.cfg", "NoOrderHole")
            if not ctx.quick():
                ctx.tlc_mc("MC_Paths", "MC_Paths_full.cfg", timeout=3000, workers=4)
                ctx.tlc_mc("MC_Paths", "MC_Paths_big.cfg", timeout=3600, workers=4)
                ctx.tlc_mc("MC_PathsAlt", "MC_PathsAlt_big.cfg", timeout=3600, workers=4)
        except Exception as ex:
            mc_err.append(ex)

    def mc_dup():
        try:
            # duplicate detection x cleaning x padding marks x parsing mode (pad flag on / off)
            ctx.tlc_mc("MC_PathsDup", "MC_PathsDup.cfg", timeout=1800, workers=4)
            for cfg, inv in (("MC_PathsDup_raw.cfg", "NoRawHole"), ("MC_PathsDup_padskip.cfg", "NoPadSkipHole")):
                ok, out = ctx.tlc_mc("MC_PathsDup", cfg, timeout=1800, workers=2, expect_ok=False)
                if ok or "Invariant %s is violated" % inv not in out:
                    raise vlib.MachineryError("vacuity guard: the weakened duplicate check (%s) shows no hole in the model" % inv)
                mark(ctx, cfg, inv)
            # archives as sequences of typed entries: the name check is complete because the extraction as found never
            # creates a link; recreating link entries (name checked only) lets a later entry be written through one
            ctx.tlc_mc("MC_PathsTar", "MC_PathsTar.cfg", timeout=1800, workers=2)
            ok, out = ctx.tlc_mc("MC_PathsTar", "MC_PathsTar_links.cfg", timeout=1800, workers=2, expect_ok=False)
            if ok or "Invariant TarComplete is violated" not in out:
                raise vlib.MachineryError("vacuity guard: extraction that recreates link entries shows no escape in the model")
            mark(ctx, "MC_PathsTar_links.cfg", "TarComplete")
            if not ctx.quick():
                ctx.tlc_mc("MC_PathsDup", "MC_PathsDup_big.cfg", timeout=3000, workers=4)
                ctx.tlc_mc("MC_PathsTar", "MC_PathsTar_big.cfg", timeout=3000, workers=4)
        except Exception as ex:
            mc_err.append(ex)

    th = threading.Thread(target=mc)
    th.start()
    th2 = threading.Thread(target=mc_dup)
    th2.start()
    time.sleep(0.3)
    if getattr(ctx, "replay", None):
        rep = json.load(open(ctx.replay))
        init = rep["detail"]["init"]
        if init.get("run") == "tar" and init.get("arch"):
            items = [{"kind": "tarseq", "arch": init["arch"], "pred": {}}]
        elif init.get("run") == "tar":
            items = [{"kind": "tar", "entry": init["entry"], "pred": 0}]
        else:
            sym = dict(init["sym"])
            sym["sess"] = 1
            items = [{"kind": "torrent", "t": sym, "pred": {}}]
    else:
        items, _ = ctx.tlc_gen("PathsGen", ctx.pick("PathsGen.cfg", "PathsGen_thorough.cfg"), timeout=2400)
        if len(items) < 1000:
            raise vlib.MachineryError("generator produced only %d cases" % len(items))
    cases_path = ctx.path("cases.json")
    json.dump(items, open(cases_path, "w"))
    drv = ctx.build_go("c07")
    tp = ctx.path("trace.ndjson")
    scr = os.path.dirname(ctx.path("drv", "x"))
    r = ctx.run_drv(drv, ["-cases", cases_path, "-out", tp, "-scratch", scr, "-seed", str(ctx.seed),
                          "-conc", str(ctx.pick(2, 2)), "-sessconc", str(ctx.pick(1, 2))], timeout=ctx.pick(1800, 3600))
    stats = json.loads(r.stdout.strip().splitlines()[-1])
    ctx.extra["driver"] = stats
    ctx.extra["generated_cases"] = len(items)
    lines = vlib.read_ndjson(tp)
    judge(ctx, lines, stats)
    th.join()
    th2.join()
    if mc_err:
        raise mc_err[0]


def mark(ctx, cfg, inv):
    """two MC threads append to ctx.mc_runs: find the run by its config"""
    for r in reversed(ctx.mc_runs):
        if r["cfg"] == cfg:
            r["expected_violation"] = inv
            return


def symstr(path):
    return "/".join("".join(c["s"]) or "ε" for c in path)


def judge(ctx, lines, stats):
    keep = ("op", "withid", "file", "path", "out", "kind")
    slim = ctx.path("slim.ndjson")
    vlib.write_ndjson(slim, [{k: d[k] for k in keep if k in d} for d in lines])
    res = ctx.tlc_validate("Trace_Paths", slim, ntraces=stats.get("init.rec", 0) + stats.get("init.fs", 0) + stats.get("init.sess", 0)
                           + stats.get("init.tar", 0), timeout=1800, heap="6g")
    if not res["ok"]:
        raise vlib.MachineryError("trace not explained by the specification at line %s — driver/spec mismatch, not a verdict\n%s"
                                  % (res["hwm"], res["out"][-2500:]))
    viol = {}
    for m in re.finditer(r'@@V (\d+) ([A-Za-z0-9_.\-]+)', res["out"]):
        viol[int(m.group(1))] = m.group(2)
    mach = [i for i, t in viol.items() if t.startswith("M.")]
    if mach:
        raise vlib.MachineryError("driver and specification disagree on the resolution of a path at line %d: %s"
                                  % (mach[0], json.dumps(lines[mach[0] - 1])[:600]))
    # bookkeeping
    cur = None
    for d in lines:
        if d["op"] == "Init":
            cur = d
            ctx.count_case((d["run"], d["withid"], json.dumps(d.get("sym") or d.get("entry") or d.get("arch")), d.get("k")), d["acc"] == 1)
        elif d["op"] == "Open":
            ctx.oblig("C07.confined")
            ctx.oblig("C07.distinct")
        elif d["op"] == "Fs":
            ctx.oblig({"created": "C07.created", "gone": "C07.remove", "modified": "C07.modified"}[d["kind"]])
    ctx.oblig("C07.created", stats.get("fs.created", 0) - stats.get("fs.created.logged", 0))  # inside creations not logged one by one
    ctx.oblig("C07.remove", 4 * (stats.get("init.fs", 0) + stats.get("init.sess", 0) + stats.get("init.tar", 0)))  # 4 sentinels per run
    ctx.oblig("C07.modified", 4 * (stats.get("init.fs", 0) + stats.get("init.sess", 0) + stats.get("init.tar", 0)))  # content of the 4 sentinels
    ctx.extra["violating_lines"] = len(viol)
    ctx.extra["family_TL"] = {k: v for k, v in stats.items() if k.startswith("tl.")}
    if not getattr(ctx, "replay", None) and (stats.get("tl.runs", 0) < 200 or stats.get("tl.model.escapes-if-links-were-recreated", 0) < 100):
        raise vlib.MachineryError("vacuous run: family TL (archives with link entries) hardly exercised: %s" % ctx.extra["family_TL"])
    ctx.extra["model_prediction"] = {k[6:]: v for k, v in stats.items() if k.startswith("model.")}
    # family W: the model's acceptance prediction per parsing mode must agree with the code on every case where the code
    # REJECTS (a rejection the model does not predict = the near misses / hidden files are over-rejected: evidence only);
    # an acceptance the model does not predict is reported by C07.distinct on the opened paths
    wm = [d for d in lines if d["op"] == "Init" and d.get("fam") == "W" and d["run"] == "rec"]
    ctx.extra["family_W"] = {"runs": len(wm), "accepted": sum(d["acc"] for d in wm),
                             "accepted_pad_off": sum(d["acc"] for d in wm if d.get("pad") == 0)}
    if not getattr(ctx, "replay", None) and (stats.get("accepted.rec", 0) < 100 or stats.get("opens", 0) < 100):
        raise vlib.MachineryError("vacuous run: almost nothing was accepted / opened")
    # one verdict per signature class
    seen = {}
    cur = None
    for i, d in enumerate(lines, 1):
        if d["op"] == "Init":
            cur = d
            continue
        if i not in viol:
            continue
        tag = viol[i]
        sym = cur.get("sym") or {}
        name = "".join(sym.get("name", [])) if sym else ""
        if cur["run"] == "tar" and cur.get("arch"):
            # class of the archive: entry types in order, where the link points, where the following entry sits
            arch = cur["arch"]
            lk = [e for e in arch if e["typ"] in ("sym", "hard")]
            tgt = "none"
            if lk:
                e = lk[-1]
                tgt = "inside" if e["up"] == 0 and e["down"] else "dest-itself" if e["up"] == 0 else "outside-up%d%s" % (e["up"], "-file" if any(
                    c in (["#keep"], ["#up1"], ["#up2"]) for c in e["down"]) else "-dir")
            cls = "tar-seq types=%s link-target=%s" % ("+".join(e["typ"] for e in arch), tgt)
        elif cur["run"] == "tar":
            # class of the entry name, not the name itself (one verdict per class: a broken prefix check hits hundreds of names)
            kinds = sorted({"empty" if not c else "dot" if c == ["D"] else "dotdot" if c == ["D", "D"] else "other" for c in cur.get("entry", [])})
            cls = "tar entry-kinds=" + "+".join(kinds)
        else:
            nm = name.strip("P")
            ncls = "dotdot" if nm == "DD" else "dot" if nm == "D" else "has-slash" if "S" in name else "other"
            src = "plain"
            if sym.get("fam") == "U":
                src = "utf8-keys"
            elif sym.get("fam") == "W":
                src = "collide-%s pad=%s" % (sym.get("ck"), cur.get("pad"))
            elif sym.get("fam") == "V":
                src = "dup-" + sym["dup"]["kind"] if sym.get("dup", {}).get("kind", "none") != "none" else sym.get("extra", "none")
            cls = "name=%s src=%s" % (ncls, src)
        sig = "tag=%s run=%s withid=%d %s" % (tag, cur["run"], cur["withid"], cls)
        seen.setdefault(sig, []).append((cur, d))
    for sig, xs in sorted(seen.items()):
        cur, d = xs[0]
        tag = sig.split()[0][4:]
        ctx.sample({"signature": sig, "count": len(xs), "torrent": cur.get("sym") or cur.get("entry") or cur.get("names"), "path": symstr(d["path"])})
        ctx.violation(tag, sig,
                      "%d recorded path(s) violate %s; first: run=%s layout=%s symbolic torrent=%s path=%s" % (
                          len(xs), tag, cur["run"], "with-id" if cur["withid"] else "no-id", json.dumps(cur.get("sym") or cur.get("entry") or cur.get("names")),
                          symstr(d["path"])),
                      {"count": len(xs), "init": cur, "event": d, "others": [json.dumps(c.get("sym") or c.get("entry") or c.get("names")) for c, _ in xs[1:8]]})
    ok_lines = sum(1 for i, d in enumerate(lines, 1) if d["op"] in ("Open", "Fs") and i not in viol)
    ctx.extra["confined_paths_judged"] = ok_lines
    if lines:
        for d in lines:
            if d["op"] == "Open" and d["out"] == 0:
                ctx.sample({"open": symstr(d["path"]), "verdict": "confined"})
                break
