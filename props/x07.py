"""X07 — byte and piece accounting reported to the user is conserved
(spec/StatsObs.tla, Stats.tla, MC_Stats*, MC_StatsGen, Trace_Stats; driver harness/x07).

Specification-coverage extension (not one of the 20 listed properties; not in MANIFEST.json).
1. design level: the algorithm of the code (handlePieceMessage / handlePieceWriteDone / handleWebseedPieceResult /
   BlockUploaded / updateStats / Close / newTorrent / updateSeedDuration) as a state machine in abstract units against the
   obligations of StatsObs: the repaired algorithm passes; the algorithm as it is fails exactly the predicted tags, each of
   them individually reachable, and nothing else; deliberate mutations of the algorithm are rejected by the envelope.
2. implementation -> specification: accounting histories (TLC simulation of MC_StatsGen + seeded scenario families) are run
   against a real torrent.Session with scripted seeders / web seed / leechers, stop / start / verify, Session.Close +
   NewSession and SIGKILL + NewSession on the same database; the environment's ground truth (wire, disk, connections) and
   every Stats() / Session.Stats() report are judged by Trace_Stats in one TLC pass.
"""
import concurrent.futures as cf
import json, os, random, re, subprocess, threading
import vlib

PREDICTED = {"X07.a.dl", "X07.a.wa", "X07.a.sub", "X07.a.use", "X07.f.sess", "X07.b.clean", "X07.e.seed", "X07.b.mono.sf"}
# every predicted tag is individually reachable by the algorithm as it is (all the others ignored)
ONLY = {"MC_Stats_asis_only_a_dl.cfg": "X07.a.dl", "MC_Stats_asis_only_a_wa.cfg": "X07.a.wa", "MC_Stats_asis_only_a_sub.cfg": "X07.a.sub",
        "MC_Stats_asis_only_a_use.cfg": "X07.a.use", "MC_Stats_asis_only_f_sess.cfg": "X07.f.sess", "MC_Stats_asis_only_b_clean.cfg": "X07.b.clean",
        "MC_Stats_asis_seed_only_e_seed.cfg": "X07.e.seed", "MC_Stats_asis_seed_only_b_mono.cfg": "X07.b.mono.sf"}
LAYOUTS = ["single", "multi", "empties", "padmid", "padalign", "padend", "odd", "onepiece", "padwhole"]
PADDED = {"padmid", "padalign", "padend", "padwhole"}
NPIECES = {"single": 3, "multi": 3, "empties": 3, "padmid": 4, "padalign": 3, "padend": 2, "odd": 4, "onepiece": 1, "padwhole": 3}


def run(ctx):
    ctx.level = "model_checking"
    ctx.cov["rule"] = ("accounting histories of one or two torrents over up to three session lifetimes (downloads from scripted peers with "
                       "honest / duplicating / unrequested / re-requested-after-choke / corrupting / invalid policies, split and end-game "
                       "sources, web seed honest / corrupt / beside a peer, uploads to scripted leechers, stop / start / verify, periodic "
                       "resume write, clean Close, SIGKILL); non-trivial = at least one judged quiescent report after traffic; distinct = "
                       "distinct (family, layout, operation sequence, report values)")
    ctx.assumptions += [
        "ground truth is what the scripted environment did: piece messages written by scripted seeders, bytes served by the scripted web "
        "seed, blocks received by scripted leechers, pieces byte-identical on disk; a lower bound is due only at quiescent points and only "
        "for traffic known to have been handled (connection still open, or closed by the client because of that very block, or every "
        "piece on disk with one source per block); otherwise only the upper bound and the relations between the counters are judged",
        "SeededFor is sampled by a 1 s ticker and by Stats(): tolerance 1.1 s per stop/start cycle (over) and per stop (under) + 150 ms; "
        "speeds are 1-minute EWMAs ticked every 5 s: only sign, zero-when-stopped and ETA consistency are judged",
        "session BytesDownloaded is documented as 'from peers': web-seed bytes are not expected in it"]
    # the two parts are independent: the exhaustive runs proceed while the scenarios are recorded
    box = {}
    th = None
    if not os.environ.get("VERIF_SKIP_MC"):          # development knob (mutation runs change the implementation only)
        def bg():
            try:
                design_level(ctx)
            except BaseException as ex:                # re-raised on the main thread
                box["ex"] = ex
        th = threading.Thread(target=bg)
        th.start()
    try:
        implementation(ctx)
    finally:
        if th:
            th.join()
    if "ex" in box:
        raise box["ex"]


# ------------------------------------------------------------------------------------------------ 1. design level
def design_level(ctx):
    lock = threading.Lock()
    orig = ctx._spec_copy

    def locked_copy():
        with lock:
            return orig()
    ctx._spec_copy = locked_copy
    q = ctx.quick()
    jobs = []          # (cfg, expect_ok, workers)

    def add(cfg, ok=True, workers=3):
        jobs.append((cfg, ok, workers))
    # the repaired algorithm satisfies the envelope
    add("MC_Stats_fixed_q1.cfg"); add("MC_Stats_fixed_q2.cfg"); add("MC_Stats_fixed_ul_q.cfg"); add("MC_Stats_fixed_seed.cfg")
    # the algorithm as it is: fails (predicted), and nothing but the predicted tags fails
    add("MC_Stats_asis.cfg", ok=False)
    add("MC_Stats_asis_known_q1.cfg"); add("MC_Stats_asis_known_q2.cfg")
    add("MC_Stats_asis_seed.cfg", ok=False); add("MC_Stats_asis_seed_tol.cfg")
    # the repairs shipped as fixes/X07-*.diff: nothing fails but what is knowingly left (close window, stop/start sampling)
    add("MC_Stats_diff_q1.cfg"); add("MC_Stats_diff_q2.cfg"); add("MC_Stats_diff_seed.cfg")
    add("MC_Stats_mut_dbl.cfg", ok=False)
    if not q:
        add("MC_Stats_fixed.cfg", workers=5); add("MC_Stats_fixed_big.cfg", workers=8)
        add("MC_Stats_asis_known.cfg", workers=5); add("MC_Stats_diff.cfg", workers=4)
        add("MC_Stats_fixed_ul.cfg"); add("MC_Stats_asis_ul.cfg")
        for c in ONLY:
            add(c, ok=False)
        for m in ("nowaste", "nohashwaste", "prehash", "nopersist"):
            add("MC_Stats_mut_%s.cfg" % m, ok=False)
    res = {}

    def work(j):
        cfg, ok, workers = j
        return cfg, ctx.tlc_mc("MC_Stats", cfg, timeout=ctx.pick(600, 2400), expect_ok=ok, workers=workers)
    with cf.ThreadPoolExecutor(max_workers=ctx.pick(6, 5)) as ex:
        for cfg, (ok, out) in ex.map(work, jobs):
            res[cfg] = (ok, out)
    ctx._spec_copy = orig

    def tags_of(out):
        m = re.findall(r'av = \{([^}]*)\}', out)
        return set(m[-1].replace('"', "").replace(" ", "").split(",")) - {""} if m else set()
    pred = {}
    for cfg, ok, _ in jobs:
        if ok:
            continue
        got_ok, out = res[cfg]
        tags = tags_of(out)
        if got_ok or not tags:
            raise vlib.MachineryError("%s: expected a counterexample (the envelope must reject this variant), got ok=%s tags=%s" % (cfg, got_ok, tags))
        pred[cfg] = sorted(tags)
        if "_asis" in cfg and not tags <= PREDICTED:
            raise vlib.MachineryError("%s: the algorithm as it is violates %s, not predicted (%s)" % (cfg, tags - PREDICTED, PREDICTED))
        if cfg in ONLY and tags != {ONLY[cfg]}:
            raise vlib.MachineryError("%s: expected exactly %s, got %s" % (cfg, ONLY[cfg], tags))
    ctx.extra["design_level_counterexample_tags"] = pred


# ------------------------------------------------------------------------------------------------ 2. scenarios
class Builder:
    def __init__(self, rng):
        self.rng = rng
        self.out = []
        self.sid = 0

    def add(self, fam, lives, **kw):
        self.sid += 1
        sc = {"id": self.sid, "fam": fam, "seed": self.rng.randrange(1, 1 << 30), "unit": self.rng.choice([16384, 16384, 8192, 5000]),
              "layout": kw.pop("layout", None) or self.rng.choice(LAYOUTS), "ntor": kw.pop("ntor", 1), "lives": lives}
        sc.update(kw)
        for lf in sc["lives"]:
            lf.setdefault("end", "close")
            if any(o["op"] == "resume" for o in lf["ops"]):
                lf["rwi"] = 400
        self.out.append(sc)
        return sc


class IPs:
    def __init__(self):
        self.n = 10

    def __call__(self):
        self.n += 1
        return "127.0.0.%d" % self.n


def peer(ip, policy="honest", **kw):
    d = {"name": policy + ip.rsplit(".", 1)[1], "ip": ip, "policy": policy}
    d.update(kw)
    return d


def dl(peers, goal="complete", t=1, **kw):
    d = {"op": "dl", "t": t, "peers": peers, "goal": goal}
    d.update(kw)
    return d


def dl_kind(kind, rng, ip, t=1):
    """driver operations for one abstract download step; returns (ops, scenario options)"""
    if kind in ("honest", "dup", "unreq"):
        return [dl([peer(ip(), kind, noFast=rng.random() < 0.3)], t=t)], {}
    if kind == "chokere":
        return [dl([peer(ip(), kind, k=rng.randint(1, 3), noFast=True)], t=t)], {}
    if kind == "listen":
        return [dl([peer(ip(), "honest", listen=True)], t=t)], {}
    if kind in ("corrupt", "oob", "oobbegin"):
        return [dl([peer(ip(), kind, k=rng.randint(1, 3), noFast=rng.random() < 0.3)], goal="banned", t=t), dl([peer(ip(), "honest")], t=t)], {}
    if kind == "split":
        return [dl([peer(ip(), "honest", have="evens"), peer(ip(), "honest", have="odds")], t=t)], {}
    if kind == "endgame":
        return [dl([peer(ip(), "honest", multi=True), peer(ip(), "honest", multi=True)], t=t)], {"endgame": 2}
    raise ValueError(kind)


def expand(abstract, rng):
    """abstract history of MC_StatsGen -> (lives, scenario options)"""
    ip = IPs()
    lives, cur, opts = [], [], {}
    for a in abstract:
        if a.startswith("dl:"):
            ops, o = dl_kind(a[3:], rng, ip)
            cur += ops
            opts.update(o)
        elif a == "dlhalf":
            cur.append(dl([peer(ip(), "honest", have="evens")], goal="stable"))
        elif a in ("ul", "ulhang", "uldup"):
            cur.append({"op": "ul", "t": 1, "n": rng.randint(1, 4), "hang": a == "ulhang", "dupReq": a == "uldup"})
        elif a == "wait":
            cur.append({"op": "wait", "n": rng.choice([150, 400, 1200])})
        elif a == "waitquiet":
            cur.append({"op": "wait", "n": rng.choice([100, 300]), "noPoll": True})
        elif a in ("stop", "start", "verify", "half", "drop", "resume", "sample"):
            cur.append({"op": a, "t": 1})
        elif a in ("close", "crash"):
            lives.append({"ops": cur, "end": a})
            cur = []
    cur.append({"op": "sample", "t": 1})
    lives.append({"ops": cur, "end": "close"})
    return lives, opts


def families(b, rng, n):
    """seeded scenario families aimed at the obligations (every family at least once per n // len)"""
    fams = ["restart", "junk", "liar", "split", "endgame", "ws_only", "ws_corrupt", "ws_peer", "stopstart", "seedtick", "verify",
            "two", "resume_crash", "hang", "listen", "seedlong"]
    k = 0
    while len(b.out) < n:
        fam = fams[k % len(fams)]
        lay = LAYOUTS[(k // len(fams) * 5 + k) % len(LAYOUTS)]
        k += 1
        ip = IPs()
        ul = lambda **kw: dict({"op": "ul", "t": 1, "n": rng.randint(1, 4)}, **kw)
        smp = {"op": "sample", "t": 1}
        if fam == "restart":
            ops, o = dl_kind("honest", rng, ip)
            b.add(fam, [{"ops": ops + [ul(), {"op": "drop"}]}, {"ops": [smp, ul(dupReq=True)], "end": rng.choice(["close", "crash"])}, {"ops": [smp]}],
                  layout=lay, **o)
        elif fam == "junk":
            ops, o = dl_kind(rng.choice(["dup", "unreq", "chokere"]), rng, ip)
            b.add(fam, [{"ops": ops, "end": rng.choice(["close", "crash"])}, {"ops": [smp]}], layout=lay, **o)
        elif fam == "liar":
            kind = rng.choice(["corrupt", "corrupt", "oob", "oobbegin"])
            ops, o = dl_kind(kind, rng, ip)
            b.add(fam + ":" + kind, [{"ops": ops + [{"op": "resume"}, ul()], "end": "crash"}, {"ops": [smp]}], layout=lay, **o)
        elif fam == "split":
            ops, o = dl_kind("split", rng, ip)
            b.add(fam, [{"ops": ops + [ul()]}, {"ops": [smp]}], layout=lay if lay != "onepiece" else "single", **o)
        elif fam == "endgame":
            ops, o = dl_kind("endgame", rng, ip)
            b.add(fam, [{"ops": ops}, {"ops": [smp]}], layout=lay, unit=rng.choice([16384, 32768]), **o)
        elif fam == "ws_only":
            b.add(fam, [{"ops": [dl([], ws=True), ul()], "end": rng.choice(["close", "crash"])}, {"ops": [smp]}], layout=lay, wsPolicy="honest")
        elif fam == "ws_corrupt":
            b.add(fam, [{"ops": [dl([], ws=True, goal="wsfail"), dl([peer(ip(), "honest")])]}, {"ops": [smp]}], layout=lay, wsPolicy="corrupt",
                  wsk=rng.randrange(0, 8))
        elif fam == "ws_peer":
            b.add(fam, [{"ops": [dl([peer(ip(), "honest", multi=True)], ws=True)]}, {"ops": [smp]}], layout=lay, wsPolicy="honest",
                  wsDelay=rng.choice([0, 20, 60]))
        elif fam == "stopstart":
            lay2 = lay if NPIECES[lay] > 1 else "single"
            b.add(fam, [{"ops": [dl([peer(ip(), "honest", have="evens")], goal="stable"), {"op": "stop", "t": 1}, {"op": "start", "t": 1},
                                 dl([peer(ip(), rng.choice(["honest", "dup"]))]), {"op": "stop", "t": 1}], "end": rng.choice(["close", "crash"])},
                        {"ops": [smp, {"op": "start", "t": 1}, ul()]}], layout=lay2)
        elif fam == "seedtick":    # stop / start inside one ticker period, no Stats() call in between
            ops, o = dl_kind("honest", rng, ip)
            b.add(fam, [{"ops": ops + [{"op": "wait", "n": rng.choice([300, 1150])}, {"op": "stop", "t": 1, "noPoll": True},
                                       {"op": "wait", "n": rng.choice([100, 400, 700]), "noPoll": True}, {"op": "start", "t": 1, "noPoll": True},
                                       {"op": "wait", "n": 1250}]},
                        {"ops": [{"op": "wait", "n": 300}]}], layout=lay, **o)
        elif fam == "seedlong":    # a long seeding interval: SeededFor must advance (lower bound)
            ops, o = dl_kind("honest", rng, ip)
            b.add(fam, [{"ops": ops + [{"op": "wait", "n": 2300, "noPoll": True}, smp, {"op": "resume"}], "end": "crash"},
                        {"ops": [{"op": "wait", "n": 400}]}], layout=lay, **o)
        elif fam == "verify":
            ops, o = dl_kind("honest", rng, ip)
            b.add(fam, [{"ops": ops + [{"op": "verify", "t": 1}, {"op": "start", "t": 1}, ul()]}, {"ops": [smp]}], layout=lay, **o)
        elif fam == "two":
            o1, _ = dl_kind(rng.choice(["honest", "dup"]), rng, ip, t=1)
            o2, _ = dl_kind("honest", rng, ip, t=2)
            b.add(fam, [{"ops": o1 + o2 + [ul(t=2), ul(t=1), {"op": "half", "t": 1}, {"op": "drop"}]},
                        {"ops": [smp, ul(t=2)], "end": rng.choice(["close", "crash"])}, {"ops": [smp]}], layout=lay, ntor=2)
        elif fam == "resume_crash":    # a crash between two resume writes loses at most the increments since the last one
            lay2 = lay if NPIECES[lay] > 1 else "multi"
            b.add(fam, [{"ops": [dl([peer(ip(), "honest", have="evens")], goal="stable"), {"op": "resume"}, dl([peer(ip(), "honest")]), ul()],
                         "end": "crash"}, {"ops": [smp]}], layout=lay2)
        elif fam == "hang":
            ops, o = dl_kind("honest", rng, ip)
            b.add(fam, [{"ops": ops + [ul(hang=True), ul()]}, {"ops": [smp]}], layout=lay, **o)
        elif fam == "listen":     # a peer the client dials (outgoing); it holds half of the pieces, so it is still connected at the quiescent point
            lay2 = lay if NPIECES[lay] > 1 else "odd"
            b.add(fam, [{"ops": [dl([peer(ip(), "honest", listen=True, have="evens")], goal="stable"), dl([peer(ip(), "honest")]), ul()]}, {"ops": [smp]}],
                  layout=lay2)


def implementation(ctx):
    rng = random.Random(ctx.seed * 7919 + (0 if ctx.quick() else 1))
    b = Builder(rng)
    items, _ = ctx.tlc_gen("MC_StatsGen", ctx.pick("MC_StatsGen.cfg", "MC_StatsGen_12.cfg"), simulate=ctx.pick(14, 110), depth=20, timeout=600)
    if len(items) < ctx.pick(10, 80):
        raise vlib.MachineryError("MC_StatsGen produced only %d histories" % len(items))
    ctx.extra["tlc_generated_histories"] = len(items)
    for it in items:
        lives, opts = expand(it["ops"], rng)
        has_half = any(o["op"] == "dl" and o["goal"] == "stable" for lf in lives for o in lf["ops"])
        lay = rng.choice([x for x in LAYOUTS if not (has_half and NPIECES[x] == 1)])
        b.add("sim", lives, layout=lay, **opts)
    families(b, rng, len(b.out) + ctx.pick(34, 300))
    scenarios = b.out
    if getattr(ctx, "replay", None):
        scenarios = [json.loads(open(ctx.replay).read())["detail"]["scenario"]]
    rawin = os.environ.get("VERIF_X07_RAWIN")           # development knob: judge recorded raw traces again
    if rawin:
        raw = sorted(os.path.join(rawin, f) for f in os.listdir(rawin) if f.startswith("raw-"))
    else:
        drv = ctx.build_go("x07")
        raw = run_scenarios(ctx, drv, scenarios, nproc=ctx.pick(8, 10))
        if os.environ.get("VERIF_X07_RAWOUT"):
            os.makedirs(os.environ["VERIF_X07_RAWOUT"], exist_ok=True)
            for f in raw:
                subprocess.run(["cp", f, os.environ["VERIF_X07_RAWOUT"]])
    judge(ctx, raw, {s["id"]: s for s in scenarios})


def run_scenarios(ctx, drv, scenarios, nproc):
    """nproc parent processes (harness/x07 run), each runs its scenarios one after the other, one child per lifetime"""
    shards = [scenarios[i::nproc] for i in range(nproc)]
    shards = [s for s in shards if s]

    def work(i, shard):
        sp, tp, wd = ctx.path("sc-%d.ndjson" % i), ctx.path("raw-%d.ndjson" % i), ctx.path("work-%d" % i, "x")
        vlib.write_ndjson(sp, shard)
        try:
            r = subprocess.run([drv, "run", "-scenarios", sp, "-out", tp, "-work", os.path.dirname(wd)], cwd=ctx.scratch, env=vlib.GOENV,
                               capture_output=True, text=True, timeout=60 + 45 * len(shard))
        except subprocess.TimeoutExpired:
            raise vlib.MachineryError("x07 driver watchdog (shard %d)" % i)
        if r.returncode != 0:
            raise vlib.MachineryError("x07 driver failed rc=%s: %s" % (r.returncode, (r.stdout + r.stderr)[-3000:]))
        return tp
    with cf.ThreadPoolExecutor(max_workers=len(shards)) as ex:
        return list(ex.map(lambda a: work(*a), enumerate(shards)))


# ------------------------------------------------------------------------------------------------ judging
KEEP = {"init": ("ntor",), "tor": ("t", "np", "plen", "dlen", "total"), "how": (), "op": (), "close": (), "closed": (), "end": (), "crash": (),
        "life": (), "blk": ("t", "c", "i", "n", "cls"), "bad": ("t", "c", "i", "n", "piece"), "ws": ("t", "n", "cls"), "req": ("t", "n"),
        "got": ("t", "c", "n"), "conns": ("t", "upto", "ulsure", "peers", "pin", "pout", "hsin", "avail", "wssure", "wsbadsure"),
        "disk": ("t", "good"), "cmd": ("t", "op", "ms"), "persisted": ("t",), "db": ("t", "dl", "ul", "wa", "sf"), "panic": (),
        "sess": ("q", "torrents", "peers", "dl", "ul", "spdl", "spul"),
        "stats": ("t", "q", "ms0", "ms", "status", "dl", "ul", "wa", "sf", "completed", "incomplete", "total", "padding", "alloc", "have", "missing",
                  "avail", "np", "peers", "pin", "pout", "hs", "hsin", "hsout", "spdl", "spul", "eta", "haveset")}


def project(raw_files):
    """raw driver output -> {sid: (abstract events for Trace_Stats, raw events)}; scenarios with harness trouble are set aside"""
    per, trouble = {}, {}
    for f in raw_files:
        for e in vlib.read_ndjson(f):
            per.setdefault(e["sid"], []).append(e)
    out = {}
    for sid, evs in per.items():
        hs = [e for e in evs if e["ev"] == "harness"]
        if hs or evs[-1]["ev"] != "end" or (not evs[-1]["ok"] and not any(e["ev"] == "panic" for e in evs)):
            trouble[sid] = [h.get("what") for h in hs] or ["incomplete"]
            continue
        a, last = [], {}
        for e in evs:
            k = e["ev"]
            if k not in KEEP:
                continue
            x = {"ev": k}
            for f in KEEP[k]:
                if f in e:
                    x[f] = e[f]
            if k == "stats":
                if not e["q"]:
                    key = tuple(x.get(f) for f in KEEP[k] if f not in ("ms", "ms0"))
                    if last.get(e["t"]) == key:
                        continue        # an in-flight report identical to the previous one
                    last[e["t"]] = key
                    x["haveset"] = []
                else:
                    last.pop(e["t"], None)
            a.append(x)
        out[sid] = (a, evs)
    return out, trouble


def judge(ctx, raw_files, scen):
    proj, trouble = project(raw_files)
    ctx.extra["scenarios_run"] = len(scen)
    ctx.extra["scenarios_set_aside_harness"] = {str(k): v for k, v in list(trouble.items())[:8]}
    ctx.extra["scenarios_set_aside"] = len(trouble)
    if len(trouble) > max(3, len(scen) // 6):
        raise vlib.MachineryError("too many scenarios with harness trouble: %d of %d: %s" % (len(trouble), len(scen), list(trouble.items())[:6]))
    order = sorted(proj)
    tp = ctx.path("abs.ndjson")
    index = []
    with open(tp, "w") as fh:
        for sid in order:
            a = proj[sid][0]
            for e in a:
                fh.write(json.dumps(e, separators=(",", ":")) + "\n")
            index.append((sid, len(a)))
    miss = vacuity(ctx, proj, scen)
    res = ctx.tlc_validate("Trace_Stats", tp, ntraces=len(order), timeout=2400)
    if not res["ok"] and res["hwm"] is not None:
        raise vlib.MachineryError("Trace_Stats could not explain line %s (driver/spec mismatch, not a verdict):\n%s" % (res["hwm"], res["out"][-2500:]))
    report(ctx, res["viols"], index, proj, scen)
    if miss and not ctx.violations:      # (a counter that never moves is reported by the judge first)
        raise vlib.MachineryError("vacuity guard: no non-trivial evaluation of %s" % miss)
    if getattr(ctx, "selftest", False):
        dirty = {locate(index, line)[0] for _, line in res["viols"]}
        selftest(ctx, proj, [sid for sid in order if sid not in dirty])      # corrupt only histories that were accepted as recorded


def locate(index, line):
    n = 0
    for sid, ln in index:
        if n + ln >= line:
            return sid, line - n
        n += ln
    return index[-1][0], 0


def report(ctx, viols, index, proj, scen):
    seen, tags, nrep = set(), {}, 0
    for tag, line in viols:
        tags[tag] = tags.get(tag, 0) + 1
        sid, pos = locate(index, line)
        a = proj[sid][0]
        sc = scen.get(sid, {})
        sig = signature(tag, sc, a, pos)
        if sig in seen:
            continue
        seen.add(sig)
        e = a[pos - 1] if 0 < pos <= len(a) else {}
        if nrep < 12 and ctx.violation(tag, sig, "accounting history violates %s at event %d: %s" % (tag, pos, json.dumps(e)[:400]),
                                       {"scenario": sc, "abstract_trace_tail": a[max(0, pos - 40):pos]}):
            nrep += 1
    ctx.extra["violated_tags_by_count"] = tags


def signature(tag, sc, a, pos):
    """class of the violating history: family, policies, padding, the event, and the cause analysis of the known defects
    (computed from the recorded events of the session lifetime in which the report was taken)"""
    e = a[pos - 1] if 0 < pos <= len(a) else {}
    fam = sc.get("fam", "?")
    pol = sorted({p["policy"] for lf in sc.get("lives", []) for o in lf["ops"] for p in o.get("peers", [])})
    pad = int(sc.get("layout") in PADDED)
    ws = sc.get("wsPolicy", "") or "-"
    cause = "-"
    start = max([i for i in range(pos) if a[i]["ev"] == "life"] or [0])
    pre = a[start:pos - 1]
    t = e.get("t")
    tor = next((x for x in a if x["ev"] == "tor" and x["t"] == t), None)
    mine = [x for x in pre if x.get("t") == t]
    if e.get("ev") == "stats" and tor:
        hist = [x for x in a[:pos - 1] if x.get("t") == t]                  # the whole history of this torrent (the counters persist)
        run, nlives = 0, 1 + sum(1 for x in a[:pos - 1] if x["ev"] == "life")
        for x in hist:                                                      # everything that was put on the wire for it; a crash restarts from the database
            if x["ev"] in ("blk", "ws"):
                run += x["n"]
            elif x["ev"] == "db":
                run = x["dl"]
        lastdb = max([i for i, x in enumerate(hist) if x["ev"] == "db"] or [-1])
        prev = max((x for x in hist[lastdb + 1:] if x["ev"] == "stats"), key=lambda x: x["sf"], default=None)      # the report that set the floor
        oob = any(x["ev"] == "blk" and x["cls"] == "J" and x["n"] == 16 for x in hist)          # the invalid-index message of policy oob
        badpad = any(x["ev"] == "bad" and 0 <= x.get("piece", -1) < tor["np"] and tor["dlen"][x["piece"]] < tor["plen"][x["piece"]] for x in hist)
        if tag in ("X07.a.dl", "X07.a.sub", "X07.a.use") and oob and "oob" in pol and e["wa"] >= 16 and e["dl"] < run:
            cause = "invalid-index-block-wasted-not-downloaded"
        elif tag == "X07.a.dl" and ws != "-" and 0 < e["dl"] - run <= e["padding"] * nlives:
            cause = "webseed-piece-counts-padding"
        elif tag in ("X07.a.wa", "X07.a.sub", "X07.a.use") and badpad:
            cause = "hashfail-wastes-padding"
        elif tag == "X07.b.mono.sf" and prev and prev["status"] == "Seeding" and 0 < prev["sf"] - e["sf"] <= 2000:
            cause = "stale-tick-timestamp"
        elif tag == "X07.a.pieces" and e["status"] in ("Allocating", "Verifying") and e["have"] == 0 and e["missing"] == 0 and e["np"] == tor["np"]:
            cause = "missing-zero-while-checking"
    if tag == "X07.b.floor.sf" and e.get("ev") == "db":
        known = next((x for x in reversed(a[:pos - 1]) if x["ev"] == "stats" and x["t"] == e["t"] and x["q"]), None)
        if known and known["status"] == "Seeding" and 0 < known["sf"] - e["sf"] <= 2000:
            cause = "stale-tick-timestamp"
    return "tag=%s fam=%s pol=%s ws=%s pad=%d ev=%s q=%s cause=%s" % (tag, fam.split(":")[0], "+".join(pol) or "-", ws, pad, e.get("ev"),
                                                                    int(bool(e.get("q"))), cause)


def vacuity(ctx, proj, scen):
    """per obligation: how many judged evaluations were non-trivial (measured on the recorded events)"""
    n = {}

    def inc(k, v=1):
        n[k] = n.get(k, 0) + v
    for sid, (a, evs) in proj.items():
        sc = scen.get(sid, {})
        key = (sc.get("fam"), sc.get("layout"), tuple((o["op"], o.get("goal"), tuple(p["policy"] for p in o.get("peers", []))) for lf in sc.get("lives", [])
                                                      for o in lf["ops"]),
               tuple((e["dl"], e["ul"], e["wa"], e["have"]) for e in a if e["ev"] == "stats" and e["q"]))
        traffic = any(e["ev"] in ("blk", "ws", "got") for e in a)
        ctx.count_case(key, traffic and any(e["ev"] == "stats" and e["q"] for e in a))
        lo = {"dl": 0, "wa": 0, "ul": 0}
        crashed = False
        lives = 0
        for e in a:
            k = e["ev"]
            if k == "stats":
                if e["q"]:
                    inc("X07.a.q_reports")
                    if e["dl"] > 0: inc("X07.a.dl")
                    if e["wa"] > 0: inc("X07.a.wa")
                    if e["ul"] > 0: inc("X07.a.ul")
                    if 0 < e["have"] < e["np"]: inc("X07.a.partial_have")
                    if e["padding"] > 0 and e["have"] > 0: inc("X07.a.padded_completed")
                    if e["peers"] > 0: inc("X07.d.peers")
                    if e["hsin"] > 0: inc("X07.d.handshakes")
                    if e["status"] == "Downloading" and e["avail"] > 0: inc("X07.d.available")
                    if e["pout"] > 0: inc("X07.d.outgoing")
                    if e["status"] == "Seeding" and e["sf"] > 0: inc("X07.e.seeding")
                    if e["status"] == "Stopped": inc("X07.e.stopped")
                    if crashed:
                        inc("X07.b.reload_after_crash")
                        crashed = False
                    if lives > 1: inc("X07.b.reports_after_restart")
                else:
                    inc("X07.a.inflight_reports")
                if e["spdl"] > 0 or e["spul"] > 0: inc("X07.e.speed_nonzero")
                if e["eta"] >= 0: inc("X07.e.eta")
            elif k == "blk":
                inc("X07.c.blocks_" + e["cls"])
            elif k == "bad": inc("X07.a.hashfail")
            elif k == "ws": inc("X07.a.webseed_responses")
            elif k == "db":
                crashed = True
                inc("X07.b.crash")
                if e["dl"] > 0 or e["ul"] > 0: inc("X07.b.crash_with_persisted_counters")
            elif k == "persisted": inc("X07.b.confirmed_resume_write")
            elif k == "closed": inc("X07.b.clean_close")
            elif k == "life": lives += 1
            elif k == "sess" and e["q"]:
                inc("X07.f.sess")
                if e["dl"] > 0 or e["ul"] > 0: inc("X07.f.sess_nonzero")
            elif k == "cmd" and e["op"] in ("stop", "start", "verify"): inc("X07.e.cmd_" + e["op"])
        if sc.get("ntor", 1) > 1: inc("X07.f.two_torrents")
        # lost increments: a crash whose database holds less than the last report
        last = {}
        for e in a:
            if e["ev"] == "stats":
                last[e["t"]] = e
            elif e["ev"] == "db" and e["t"] in last and (e["dl"] < last[e["t"]]["dl"] or e["ul"] < last[e["t"]]["ul"]):
                inc("X07.b.crash_lost_increments")
    for k, v in sorted(n.items()):
        ctx.oblig(k, v)
    need = ["X07.a.dl", "X07.a.wa", "X07.a.ul", "X07.a.hashfail", "X07.a.webseed_responses", "X07.a.padded_completed", "X07.c.blocks_J",
            "X07.c.blocks_M", "X07.d.peers", "X07.d.handshakes", "X07.d.available", "X07.d.outgoing", "X07.e.seeding", "X07.e.stopped", "X07.b.crash",
            "X07.b.clean_close", "X07.b.confirmed_resume_write", "X07.b.crash_lost_increments", "X07.b.crash_with_persisted_counters",
            "X07.f.sess_nonzero", "X07.f.two_torrents"]
    ctx.sample({"scenario": next(iter(scen.values())), "trace_prefix": next(iter(proj.values()))[0][:12]})
    return [] if getattr(ctx, "replay", None) else [k for k in need if not n.get(k)]


# ------------------------------------------------------------------------------------------------ self-test
def selftest(ctx, proj, order):
    """Binding demonstration: corrupt one recorded counter / fact at a time and require the rejection with the right tag."""
    def find(pred):
        for sid in order:
            a = proj[sid][0]
            for k, e in enumerate(a):
                if pred(a, k, e):
                    return [dict(x) for x in a], k
        raise vlib.MachineryError("selftest: no suitable event")
    cases = []
    a, k = find(lambda a, k, e: e["ev"] == "stats" and e["q"] and e["dl"] > 0)
    a[k]["dl"] += 1
    cases.append(("downloaded+1", a[:k + 1], "X07.a.dl"))
    a, k = find(lambda a, k, e: e["ev"] == "stats" and e["q"] and e["dl"] > 0)
    a[k]["dl"] -= 1
    cases.append(("downloaded-1", a[:k + 1], "X07.a.dl"))
    a, k = find(lambda a, k, e: e["ev"] == "stats" and e["q"] and e["ul"] > 0)
    a[k]["ul"] += 16384
    cases.append(("uploaded+block", a[:k + 1], "X07.a.ul"))
    a, k = find(lambda a, k, e: e["ev"] == "stats" and e["q"] and e["wa"] > 0)
    a[k]["wa"] = 0
    cases.append(("wasted=0", a[:k + 1], "X07.a.wa"))
    a, k = find(lambda a, k, e: e["ev"] == "stats" and e["q"] and e["have"] > 0)
    a[k]["completed"] -= 1
    a[k]["incomplete"] += 1
    cases.append(("completed-1", a[:k + 1], "X07.a.bytes.completed"))
    a, k = find(lambda a, k, e: e["ev"] == "stats" and e["q"] and e["peers"] > 0)
    a[k]["peers"] += 1
    cases.append(("peers+1", a[:k + 1], "X07.d.peers"))
    a, k = find(lambda a, k, e: e["ev"] == "stats" and e["q"] and e["status"] == "Stopped" and any(x["ev"] == "stats" and x["sf"] > 0 for x in a[:k]))
    a[k]["sf"] += 5000
    cases.append(("seededfor+5s-while-stopped", a[:k + 1], "X07.e.seed.over"))
    a, k = find(lambda a, k, e: e["ev"] == "db" and e["dl"] > 0)
    j = next(i for i in range(k + 1, len(a)) if a[i]["ev"] == "stats")
    a[j]["dl"] *= 2
    cases.append(("double-add-on-reload", a[:j + 1], "X07.b.reload"))
    a, k = find(lambda a, k, e: e["ev"] == "sess" and e["q"] and e["ul"] > 0)
    a[k]["ul"] -= 1
    cases.append(("session-uploaded-1", a[:k + 1], "X07.f.uploaded"))
    a, k = find(lambda a, k, e: e["ev"] == "stats" and e["q"] and e["dl"] > 0 and k > 0 and any(x["ev"] == "closed" for x in a[:k]))
    a[k]["dl"] -= 1
    cases.append(("lost-after-clean-close", a[:k + 1], "X07.b.mono.dl"))
    for name, tr, want in cases:
        p = ctx.path("selftest.ndjson")
        vlib.write_ndjson(p, tr)
        res = ctx.tlc_validate("Trace_Stats", p, ntraces=0)
        last = [t for t, line in res["viols"] if line == len(tr)]
        if want not in last:
            raise vlib.MachineryError("selftest %s: expected %s at the corrupted line, got %s" % (name, want, res["viols"][-5:]))
        print("selftest ok: %s rejected as %s" % (name, want), flush=True)
