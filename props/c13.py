"""C13 — magnet metadata is adopted only if it hashes to the link's info-hash
(spec/Metadata.tla, MC_Metadata*, MC_Metadata_gen, Trace_Metadata; driver harness/c13).

The check is a LIST OF SUB-CHECKS (SUBCHECKS at the bottom):

  design   exhaustive TLC runs of Metadata.tla: safety (C13.adopt, C13.cap) for arbitrary liars in the design AS CODED,
           liveness (C13.live) of the code as it is without connection losses and of the repaired design with them;
           the as-is design WITH connection losses is expected to violate C13.live: TLC's counterexample is turned into
           an end-to-end scenario and replayed on the real code (sub-check e2e decides).
  gen      TLC as generator (MC_Metadata_gen): magnet tuples, block-delivery histories, peer-policy vectors.
  idl      real internal/infodownloader.InfoDownloader fed through the real ut_metadata codec; Trace_Metadata judges.
  magnet   real internal/magnet New()/String(); Trace_Metadata judges every parse / round trip.
  e2e      real Session.AddURI(magnet) + scripted peers (policy vectors, late-honest schedules); Trace_Metadata judges
           C13.cap / C13.adopt / C13.private / C13.live (bounded time, violations confirmed by a slow re-run).

Every sub-check but design/gen RECORDS traces of the real code and returns a Rec; judge_all() then lets TLC
(Trace_Metadata) judge all recorded traces in as few runs as possible.
"""
import collections, json, os, random, re
import vlib


# ----------------------------------------------------------------------------------------------- helpers

def split_traces(path):
    """[(first_line_number, [events...])], every trace starts with an Init line."""
    traces, cur, n = [], None, 0
    for line in open(path):
        n += 1
        line = line.strip()
        if not line:
            continue
        e = json.loads(line)
        if e.get("op") == "Init":
            cur = (n, [e])
            traces.append(cur)
        elif cur is not None:
            cur[1].append(e)
    return traces


def validate(ctx, path, ntraces, timeout=1500):
    """One TLC run judges the whole file; returns {line_number: tag} of failed obligations."""
    res = ctx.tlc_validate("Trace_Metadata", path, ntraces=ntraces, timeout=timeout, heap="6g")
    if not res["ok"]:
        hw = res["hwm"]
        line = ""
        if hw is not None:
            with open(path) as fh:
                for i, l in enumerate(fh, 1):
                    if i == hw + 1:
                        line = l[:400]
                        break
        raise vlib.MachineryError("trace not explained by Trace_Metadata at line %s (%s) - driver/spec mismatch, not a verdict\n%s"
                                  % (hw, line.strip(), res["out"][-2500:]))
    return {int(l): t for l, t in re.findall(r'@@VIOL (\d+) ([A-Za-z0-9_.]+)', res["out"])}


class Rec:
    """Recorded traces of one sub-check, waiting for the judge.  traces: list of event lists (each starts with Init);
    perline: every line after the Init is a judgement of its own (magnet); on_viol(ctx, evs, k, tag) reports."""
    def __init__(self, name, traces, on_viol, perline=False):
        self.name, self.traces, self.on_viol, self.perline = name, traces, on_viol, perline


def judge_all(ctx, recs, max_lines=60000):
    """Validate the traces of several sub-checks with as few TLC runs as possible (one per max_lines lines)."""
    units = []                      # (rec, evs) ; a per-line trace is cut into pieces that repeat its Init line
    for r in recs:
        for evs in r.traces:
            if r.perline and len(evs) > max_lines // 2:
                step = max_lines // 2
                for a in range(1, len(evs), step):
                    units.append((r, [evs[0]] + evs[a:a + step]))
            else:
                units.append((r, evs))
    i = 0
    while i < len(units):
        part, n = [], 0
        while i < len(units) and (not part or n + len(units[i][1]) <= max_lines):
            part.append(units[i])
            n += len(units[i][1])
            i += 1
        pp = ctx.path("judge_part.ndjson")
        with open(pp, "w") as fh:
            for _, evs in part:
                for e in evs:
                    fh.write(json.dumps(e, separators=(",", ":")) + "\n")
        viols = validate(ctx, pp, len(part))
        first = 1
        for r, evs in part:
            for k in range(len(evs)):
                tag = viols.get(first + k)
                if tag:
                    r.on_viol(ctx, evs, k, tag)
                    if not r.perline:
                        break
            first += len(evs)


def write_cases(path, cases):
    with open(path, "w") as fh:
        for c in cases:
            fh.write(json.dumps(c, separators=(",", ":")) + "\n")


# ----------------------------------------------------------------------------------------------- design

def sub_design(ctx):
    # one run, 2 peers, arbitrary liars, three design modes: safety (C13.adopt, C13.cap, ...) in all of them - the design as
    # coded with and without connection losses, and the repaired design (startInfoDownloaders after every closePeer) -
    # and liveness (C13.live) in the two modes in which it is expected to hold
    ctx.tlc_mc("MC_Metadata", "MC_Metadata.cfg", timeout=900)
    # arrival order and index labels: 3 blocks (two of equal size), queue lengths 1..3, honest peers answering in any order,
    # "swap" liars (right payloads under exchanged indexes): safety and liveness
    ctx.tlc_mc("MC_Metadata", "MC_Metadata_order.cfg", timeout=900)
    if not ctx.quick():
        # 3 peers: safety as coded (duplicates accepted or refused), liveness as coded without losses, repaired with losses
        ctx.tlc_mc("MC_Metadata", "MC_Metadata_big.cfg", timeout=2400)
        ctx.tlc_mc("MC_Metadata", "MC_Metadata_live3nd.cfg", timeout=2400)
        ctx.tlc_mc("MC_Metadata", "MC_Metadata_live3.cfg", timeout=2400)
    # the design AS CODED with connection losses: TLC is expected to find the stall; its counterexample becomes a scenario
    ok, out = ctx.tlc_mc("MC_Metadata", "MC_Metadata_asis.cfg", timeout=900, expect_ok=False)
    ctx.mc_runs[-1]["expected"] = "liveness counterexample: this is the design as coded, with connection losses"
    ctx.extra["design_asis_live"] = "holds" if ok else "violated (counterexample replayed on the real code by sub-check e2e)"
    ctx.cex_scenario = None
    if not ok:
        if "Temporal property LiveAll was violated" not in out and "Temporal properties were violated" not in out:
            raise vlib.MachineryError("MC_Metadata_asis failed, but not with the expected liveness counterexample:\n" + out[-3000:])
        ctx.cex_scenario = scenario_from_cex(out)
        ctx.sample({"design_counterexample_scenario": ctx.cex_scenario})


def scenario_from_cex(out):
    """Turn TLC's counterexample (sequence of states) into a policy vector + schedule class (best effort)."""
    states = re.split(r"\nState \d+: ", out)[1:]
    pol = None
    order, closed_after_honest, honest_hs_seen = [], False, False
    prev = None
    par = 1
    for st in states:
        m = re.search(r'pol \|-> <<([^>]*)>>', st)
        if m and pol is None:
            pol = [x.strip().strip('"') for x in m.group(1).split(",")]
        mp = re.search(r'par \|-> (\d+)', st)
        if mp:
            par = int(mp.group(1))
        m = re.search(r'/\\ pst = <<([^>]*)>>', st)
        if not m:
            continue
        cur = [x.strip().strip('"') for x in m.group(1).split(",")]
        if prev is not None and pol:
            for i, (a, b) in enumerate(zip(prev, cur)):
                if a != b and b == "hs":
                    order.append(i)
                    if pol[i] == "honest":
                        honest_hs_seen = True
                if a != b and b == "closed" and honest_hs_seen:
                    closed_after_honest = True
        prev = cur
    if not pol:
        raise vlib.MachineryError("cannot read the counterexample of MC_Metadata_asis")
    for i in range(len(pol)):
        if i not in order:
            order.append(i)
    return {"k": "e2e", "pols": [pol[i] for i in order], "nb": 2, "par": par, "late": 1 if closed_after_honest else 0,
            "priv": 0, "from": "design-counterexample"}


# ----------------------------------------------------------------------------------------------- generator

def sub_gen(ctx):
    items, _ = ctx.tlc_gen("MC_Metadata_gen", ctx.pick("MC_Metadata_gen_q.cfg", "MC_Metadata_gen_t.cfg"), timeout=1500)
    by = collections.defaultdict(list)
    for it in items:
        by[it.get("k")].append(it)
    if not by["mag"] or not by["idl"] or not by["e2e"]:
        raise vlib.MachineryError("generator produced no cases: %s" % {k: len(v) for k, v in by.items()})
    ctx.gen = by
    ctx.extra["generated_cases"] = {k: len(v) for k, v in by.items()}


# ----------------------------------------------------------------------------------------------- idl

def idl_sig(evs, k, tag):
    e = evs[k]
    size = next((x["size"] for x in evs if x["op"] == "New"), 0)
    nb = (size + 16383) // 16384
    if e["op"] == "Got":
        i = e["i"]
        want = min((i + 1) * 16384, size) - i * 16384 if 0 <= i < nb else None
        rel = "inrange" if 0 <= i < nb else "outofrange"
        ln = "exact" if want == e["len"] else ("short" if want is not None and e["len"] < want else "long")
        return "idl tag=%s op=Got index=%s len=%s err=%d done=%d" % (tag, rel, ln, e["err"], e["done"])
    return "idl tag=%s op=%s" % (tag, e["op"])


def sub_idl(ctx):
    drv = ctx.drv
    cases = ctx.gen["idl"]
    if ctx.quick():      # seeded half of the exhaustive family; the thorough tier replays all of it
        random.Random(ctx.seed).shuffle(cases)
        cases = cases[:len(cases) // 2]
    cp = ctx.path("cases_idl.ndjson")
    write_cases(cp, cases)
    tp = ctx.path("idl.ndjson")
    r = ctx.run_drv(drv, ["-mode", "idl", "-cases", cp, "-n", str(ctx.pick(1000, 15000)), "-seed", str(ctx.seed), "-out", tp], timeout=900)
    ctx.extra["idl_driver"] = json.loads(r.stdout.strip().splitlines()[-1])
    traces = split_traces(tp)
    dup_accept = premature = 0
    for first, evs in traces:
        key = tuple((e["op"], e.get("i"), e.get("len"), e.get("cls"), e.get("err"), e.get("q"), tuple(e.get("reqs", ()))) for e in evs[1:])
        ctx.count_case(("idl", evs[1].get("size"), evs[0]["tsize"]) + key, any(e["op"] == "Got" for e in evs))
        got = set()
        for e in evs:
            if e["op"] == "Got":
                ctx.oblig("C13.idl.accept")
                if e["err"] == 0:
                    ctx.oblig("C13.idl.bytes")
                    if e["i"] in got:
                        dup_accept += 1
                        if e["done"] == 1 and "zero" in e["cont"]:
                            premature += 1
                    got.add(e["i"])
                if e["done"] == 1:
                    ctx.oblig("C13.idl.done")
                    ctx.oblig("C13.idl.hash")
            elif e["op"] == "Req":
                ctx.oblig("C13.idl.req")
    # not a verdict (the hash check of the torrent backs it up): duplicates of a requested block are accepted and counted
    ctx.extra.setdefault("observations", {})["idl_duplicate_block_accepted"] = dup_accept
    ctx.extra["observations"]["idl_done_with_missing_block_after_duplicate"] = premature
    ctx.sample({"idl_trace": traces[len(traces) // 2][1][:8]})
    return Rec("idl", [evs for _, evs in traces], idl_viol)


def idl_viol(ctx, evs, k, tag):
    size = next((x["size"] for x in evs if x["op"] == "New"), 0)
    case = {"k": "idlx", "size": size, "tsize": evs[0]["tsize"], "q": evs[0]["q"],
            "steps": [{f: e[f] for f in ("op", "q", "i", "len", "cls", "ts") if f in e} for e in evs[2:k + 1] if e["op"] in ("Req", "Got")]}
    ctx.violation(tag, idl_sig(evs, k, tag),
                  "InfoDownloader violates %s at event %d of a recorded history: %s" % (tag, k, json.dumps(evs[k])[:300]),
                  {"kind": "idl", "case": case, "history": evs[:k + 1]})


# ----------------------------------------------------------------------------------------------- magnet

def sub_magnet(ctx):
    drv = ctx.drv
    cp = ctx.path("cases_mag.ndjson")
    write_cases(cp, ctx.gen["mag"])
    tp = ctx.path("mag.ndjson")
    r = ctx.run_drv(drv, ["-mode", "mag", "-cases", cp, "-n", str(ctx.pick(500, 10000)), "-seed", str(ctx.seed), "-out", tp], timeout=600)
    ctx.extra["magnet_driver"] = json.loads(r.stdout.strip().splitlines()[-1])
    lines = [json.loads(l) for l in open(tp)]
    order_changed = 0
    for e in lines[1:]:
        c = e["c"]
        ctx.count_case(("mag", e["dir"], c["hf"], c["xt"], c["name"], c["enc"], tuple(c["tiers"]), c["trform"], tuple(c["peers"]), c["extra"]), True)
        ctx.oblig("C13.magnet." + ("parse" if e["dir"] == "parse" else "roundtrip"))
        if e.get("order") == 0:
            order_changed += 1
    ctx.extra.setdefault("observations", {})["magnet_tier_order_changed_by_roundtrip"] = order_changed
    ctx.sample({"magnet_line": {k: v for k, v in lines[len(lines) // 2].items()}})
    return Rec("magnet", [lines], mag_viol, perline=True)


def mag_viol(ctx, evs, k, tag):
    e = evs[k]
    c = e["c"]
    sig = "magnet tag=%s dir=%s hf=%s xt=%s enc=%s name=%s trform=%s tiers=%s peers=%s must=%d err=%d" % (
        tag, e["dir"], c["hf"], c["xt"], c["enc"], c["name"], c["trform"], "-".join(map(str, c["tiers"])),
        "+".join(c["peers"]) or "none", e["must"], e["err"])
    case = dict(c)
    case["k"] = "mag"
    ctx.violation(tag, sig, "magnet %s: %s on %s" % (e["dir"], tag, e["link"][:300]), {"kind": "magnet", "case": case, "line": e})


# ----------------------------------------------------------------------------------------------- e2e

NO_RESTART = ("drop", "junk", "proto")


def pick_e2e(ctx, cases, n):
    """Deterministic (seeded) choice of n scenarios; the classes that matter are always replayed:
    core  <<liar, honest>> with one slot and a late honest peer - the liar holds the only slot when the honest peer
          shows up, for EVERY liar policy (each way of losing a slot must hand it on: C13.live);
    stall vectors whose slot holders all leave without the ut_metadata handler (the listed finding);
    order arrival order / index labels: honest peers that answer the pipelined requests in reverse order (ord = 1), alone
          and behind every kind of liar, and the "swap" liar (genuine payloads in genuine order, two equal-size blocks
          carrying each other's index) on metadata of >= 3 blocks - both layouts (lay);
    cap   a peer announcing more than MaxMetadataSize ("over", "huge") next to other ut_metadata peers with a free slot
          (ParallelMetadataDownloads = 2): every later event that re-runs the peer selection - another peer's extension
          handshake, a reject, a closed liar - must pass the oversized peer by (C13.cap at every selection, not once);
    priv  private info dictionaries; cover = at least one scenario per policy; the rest is a seeded sample."""
    rnd = random.Random(ctx.seed)
    for i, c in enumerate(cases):
        c["id"] = i
    core, stall, priv, rest, order, order2, cap, cap3 = [], [], [], [], [], [], [], []
    for c in cases:
        pols = c["pols"]
        c.setdefault("ord", 0)
        c.setdefault("lay", 0)
        if c["ord"] == 1 or ("swap" in pols and c["nb"] >= 3):
            if len(pols) == 1 or (c["par"] == 1 and "swap" in pols):
                order.append(c)          # always replayed
            else:
                order2.append(c)         # <<liar, honest>> with a reordering honest peer: seeded sample (thorough: all)
        elif len(pols) == 2 and pols[1] == "honest" and c["par"] == 1 and c["late"] == 1 and c["nb"] == 2:
            core.append(c)
        elif len(pols) == 2 and c["par"] == 2 and any(p in ("over", "huge") for p in pols) and c["nb"] == 2:
            cap.append(c)
        elif len(pols) == 3 and c["par"] == 2 and any(p in ("over", "huge") for p in pols[:2]):
            cap3.append(c)
        elif c["late"] == 1 and "honest" in pols and all(p in NO_RESTART for p in pols[:c["par"]]):
            stall.append(c)
        elif c["priv"] == 1 and pols[0] in ("honest", "total", "forge", "garbage"):
            priv.append(c)
        else:
            rest.append(c)
    for l in (stall, priv, rest, order2, cap, cap3):
        rnd.shuffle(l)
    cap.sort(key=lambda c: "honest" not in c["pols"])        # (stable) the ones with an honest second peer first
    cap3.sort(key=lambda c: not any(p in ("reject", "garbage", "drop", "stall") for p in c["pols"][:2]))
    chosen = (core + order + order2[:(8 if ctx.quick() else len(order2))] + cap[:(10 if ctx.quick() else len(cap))]
              + cap3[:(6 if ctx.quick() else 60)] + stall[:max(2, n // 25)] + priv[:max(3, n // 20)])
    seen = set(p for c in chosen for p in c["pols"])
    for c in rest:                      # one scenario per policy at least
        if any(p not in seen for p in c["pols"]):
            chosen.append(c)
            seen.update(c["pols"])
    ids = {c["id"] for c in chosen}
    for c in rest:
        if len(chosen) >= n:
            break
        if c["id"] not in ids:
            chosen.append(c)
            ids.add(c["id"])
    return chosen


def e2e_sig(evs, tag):
    init = evs[0]
    pol = init["pol"]
    asked, gone = [], set()          # asked: peers in the order of their first request
    for e in evs:
        if e["op"] == "PeerReq" and e["p"] not in asked:
            asked.append(e["p"])
        elif e["op"] == "PeerGone":
            gone.add(e["p"])
    honest = [p for p in range(1, len(pol) + 1) if pol[p - 1] == "honest"]
    # asked peers that are still connected; the ones that never answer ("stall") are snubbed by the deadline and hold no slot
    askers_alive = sorted(p for p in asked if p not in gone and pol[p - 1] not in ("honest", "stall"))
    stalled = sorted(p for p in asked if p not in gone and pol[p - 1] == "stall")
    left = sorted(pol[p - 1] for p in asked if p in gone)
    # the peer that was asked last holds the slot that was handed on last (the order in which the scripted peers NOTICE
    # that they were closed says nothing about the order in which the client closed them)
    last_asked = pol[asked[-1] - 1] if asked else "none"
    sig = ("e2e tag=%s pols=%s par=%d private=%s honest_asked=%d askers_alive=%d stalled=%d left=%s last_asked=%s"
           % (tag, ",".join(pol), init["par"], str(init["private"]).lower(), int(any(p in asked for p in honest)),
              len(askers_alive), len(stalled), ",".join(left) or "none", last_asked))
    if init.get("ord") or init.get("lay"):      # the order / layout axes (absent = as before: listed findings keep matching)
        moved = sum(1 for e in evs if e["op"] == "PeerData" and e["cls"] == "moved")
        sig += " ord=%d lay=%d nb=%d moved=%d" % (init.get("ord", 0), init.get("lay", 0), (init["tsize"] + 16383) // 16384, moved)
    return sig


def is_known(ctx, tag, sig):
    return any(k["kind"] == "known" and k["property"] == ctx.prop and k.get("obligation", tag) == tag
               and re.search(k.get("match", ""), sig) for k in ctx.known)


def record_e2e(ctx, cases, name, deadline_ms, jobs):
    cp = ctx.path("cases_%s.ndjson" % name)
    write_cases(cp, cases)
    tp = ctx.path("%s.ndjson" % name)
    r = ctx.run_drv(ctx.drv, ["-mode", "e2e", "-cases", cp, "-seed", str(ctx.seed), "-out", tp, "-j", str(jobs),
                              "-deadline", str(deadline_ms)], timeout=2400)
    st = json.loads(r.stdout.strip().splitlines()[-1])
    traces = [evs for _, evs in split_traces(tp)]
    incomplete = [evs for evs in traces if evs[-1]["op"] != "End"]
    if len(incomplete) > max(2, len(traces) // 10):
        raise vlib.MachineryError("e2e: %d of %d scenarios could not be set up:\n%s" % (len(incomplete), len(traces), r.stderr[-2000:]))
    return st, traces


def live_text(evs):
    return ("metadata not fetched although an honest peer is connected (%s, ParallelMetadataDownloads=%d, waited %d ms, status %s)"
            % (",".join(evs[0]["pol"]), evs[0]["par"], evs[-1].get("ms", 0), evs[-1].get("status")))


def sub_e2e(ctx):
    cases = pick_e2e(ctx, ctx.gen["e2e"], ctx.pick(100, 900))
    if ctx.cex_scenario:
        c = dict(ctx.cex_scenario)
        c["id"] = 100000
        cases.insert(0, c)
    st, traces = record_e2e(ctx, cases, "e2e", ctx.pick(6000, 8000), ctx.pick(12, 16))
    ctx.extra["e2e_driver"] = st
    ctx.e2e_byid = {c["id"]: c for c in cases}
    ctx.e2e_confirm = []
    for evs in traces:
        end = evs[-1]
        if end["op"] != "End":
            continue
        c = ctx.e2e_byid.get(end.get("id"), {})
        ctx.count_case(("e2e", tuple(evs[0]["pol"]), evs[0]["par"], c.get("late"), c.get("nb"), evs[0]["private"],
                        c.get("ord", 0), c.get("lay", 0)), True)
        # order axis actually exercised: data messages that arrived in another order than the index order / under a moved index
        seq = collections.defaultdict(list)
        for e in evs:
            if e["op"] == "PeerData":
                seq[e["p"]].append(e["i"])
                if e["cls"] == "moved":
                    ctx.extra.setdefault("observations", {}).setdefault("e2e_moved_blocks_sent", 0)
                    ctx.extra["observations"]["e2e_moved_blocks_sent"] += 1
        if any(evs[0]["pol"][p - 1] == "honest" and q != sorted(q) for p, q in seq.items()):
            ctx.extra.setdefault("observations", {}).setdefault("e2e_honest_out_of_order_scenarios", 0)
            ctx.extra["observations"]["e2e_honest_out_of_order_scenarios"] += 1
        ctx.oblig("C13.cap", sum(1 for e in evs if e["op"] == "PeerReq"))
        ctx.oblig("C13.adopt", end["adopted"])
        if "honest" in evs[0]["pol"]:
            ctx.oblig("C13.live")
        if evs[0]["private"]:
            ctx.oblig("C13.private")
    ctx.sample({"e2e_trace": traces[min(3, len(traces) - 1)][:14]})
    return Rec("e2e", traces, e2e_viol)


def e2e_viol(ctx, evs, k, tag):
    sig = e2e_sig(evs, tag)
    scenario = ctx.e2e_byid.get(evs[-1].get("id"))
    if tag == "C13.live" and not is_known(ctx, tag, sig) and not getattr(ctx, "e2e_confirming", False):
        # a missed deadline may be the machine, not the code: such scenarios are re-run with a threefold deadline first
        ctx.e2e_confirm.append(scenario)
    elif tag == "C13.live":
        ctx.violation(tag, sig, live_text(evs), {"kind": "e2e", "case": scenario, "trace": evs})
    else:
        ctx.violation(tag, sig, "end-to-end scenario violates %s: %s" % (tag, json.dumps(evs[k])[:300]), {"kind": "e2e", "case": scenario, "trace": evs})


def e2e_confirm(ctx):
    if not getattr(ctx, "e2e_confirm", None):
        return
    ctx.e2e_confirming = True
    _, traces = record_e2e(ctx, ctx.e2e_confirm, "e2e_confirm", 3 * ctx.pick(6000, 8000), 16)
    before = len(ctx.violations) + len(ctx.known_hits)
    judge_all(ctx, [Rec("e2e_confirm", traces, e2e_viol)])
    ctx.extra["e2e_live_rerun"] = "%d scenario(s) re-run with the threefold deadline" % len(ctx.e2e_confirm)


# ----------------------------------------------------------------------------------------------- replay

def replay(ctx):
    d = json.load(open(ctx.replay))["detail"]
    kind, case = d["kind"], d["case"]
    ctx.cex_scenario = None
    if kind == "e2e":
        case = dict(case)
        case["id"] = 0
        ctx.e2e_byid = {0: case}
        ctx.e2e_confirm = []
        ctx.e2e_confirming = True          # report directly
        _, traces = record_e2e(ctx, [case], "replay", 3 * 6000, 1)
        rec = Rec("e2e", traces, e2e_viol)
    else:
        cp = ctx.path("replay_case.ndjson")
        write_cases(cp, [case])
        tp = ctx.path("replay.ndjson")
        ctx.run_drv(ctx.drv, ["-mode", "idl" if kind == "idl" else "mag", "-cases", cp, "-n", "0", "-seed", str(ctx.seed), "-out", tp])
        if kind == "idl":
            rec = Rec("idl", [evs for _, evs in split_traces(tp)], idl_viol)
        else:
            rec = Rec("magnet", [[json.loads(l) for l in open(tp)]], mag_viol, perline=True)
    judge_all(ctx, [rec])


# ----------------------------------------------------------------------------------------------- entry

SUBCHECKS = [("design", sub_design), ("gen", sub_gen), ("idl", sub_idl), ("magnet", sub_magnet), ("e2e", sub_e2e)]


def run(ctx):
    ctx.level = "model_checking"
    ctx.cov["rule"] = ("cases = block-delivery histories of one InfoDownloader (distinct sequences of call, argument classes and "
                       "results), magnet parameter tuples x direction (parse / String->New / export), end-to-end scenarios "
                       "(policy vector, ParallelMetadataDownloads, schedule class, metadata blocks, private flag, answer order of the "
                       "honest peers, info layout); all are non-trivial "
                       "except histories without any delivery")
    ctx.assumptions += ["hash abstraction in the design model: assembled bytes are good iff the size is the true size and every block "
                        "holds the honest bytes (the trace level uses real SHA-1)",
                        "scripted peers connect from 127.0.0.N over plain TCP; snub timeout (RequestTimeout) 500 ms, "
                        "MaxMetadataSize 64 KiB; C13.live is judged with a deadline of 6-8 s; a miss that is not a listed finding is "
                        "confirmed by a re-run with the threefold deadline before it is reported",
                        "lower-case base32 info-hashes may be refused (only a wrong hash would be a violation)"]
    ctx.drv = ctx.build_go("c13")
    if getattr(ctx, "replay", None):       # re-run the real code on the recorded case only, TLC judges again
        return replay(ctx)
    only = [x for x in os.environ.get("C13_ONLY", "").split(",") if x]     # development aid: run selected sub-checks
    ctx.cex_scenario = None
    recs = []
    for name, f in SUBCHECKS:
        if only and name != "gen" and name not in only:
            continue
        r = f(ctx)
        if r is not None:
            recs.append(r)
    # implementation -> specification: TLC judges everything that was recorded
    judge_all(ctx, recs, max_lines=ctx.pick(70000, 60000))
    e2e_confirm(ctx)
