"""X06, session-level part (imported by props/x06.py): scripted web seeds + peers against a real torrent.Session
(harness/x06 e2e), judged by Trace_WebseedSess in one TLC pass."""
import json
import vlib


def session(ctx):
    drv = getattr(ctx, "_x06_drv", None) or ctx.build_go("x06")
    tp = ctx.path("sess.ndjson")
    n = ctx.pick(20, 80)
    nlong = ctx.pick(0, 2)
    r = ctx.run_drv(drv, ["e2e", "-seed", str(ctx.seed), "-n", str(n), "-long", str(nlong), "-par", str(ctx.pick(6, 8)), "-out", tp],
                    timeout=1500)
    ctx.extra["driver_session"] = json.loads(r.stdout.strip().splitlines()[-1])
    traces, cur = [], []
    for line in open(tp):
        e = json.loads(line)
        if e["op"] == "Init":
            if cur:
                traces.append(cur)
            cur = []
        cur.append(e)
    if cur:
        traces.append(cur)
    index, off = [], 0
    st = {}

    def inc(k, v=1):
        st[k] = st.get(k, 0) + v
    for t in traces:
        index.append((off, t))
        off += len(t)
        ini = t[0]
        ops = [e["op"] for e in t]
        outcome = tuple(sorted(set(o for o in ops if o in ("Done", "NotDone", "Skip", "Hang", "Crash", "Due", "Stopped"))))
        ctx.count_case(("sess", ini["kind"], ini["idx"], outcome), "Skip" not in ops)
        inc("kind." + ini["kind"])
        for o in ("Done", "NotDone", "Skip", "SrcErr", "SrcCorrupt", "Stopped", "Due", "Gor"):
            if o in ops:
                inc("has." + o)
        snaps = [e for e in t if e["op"] == "Snap"]
        inc("snaps", len(snaps))
        if any(len(e["ranges"]) >= 2 for e in snaps):
            inc("two_running")
        if any(r[2] - r[1] >= 2 for e in snaps for r in e["ranges"]):
            inc("multi_piece_range")
        # a range that was cut while it ran (StopAt by a peer or by another web seed)
        seen = {}
        for e in snaps:
            for r in e["ranges"]:
                k = (r[0], r[1])
                if k in seen and r[2] < seen[k]:
                    inc("truncated_range")
                seen[k] = r[2]
        ctx.oblig("X06.e", len(snaps) + ops.count("Done"))
        ctx.oblig("X06.d", ops.count("SrcReq") + ops.count("Due"))
        ctx.oblig("X06.c", ops.count("Gor") + ops.count("Stopped"))
    ctx.extra["session_situations"] = st
    need = {"has.Done": ctx.pick(8, 30), "has.SrcErr": 4, "has.SrcCorrupt": 1, "has.Stopped": 2, "has.Due": 4, "two_running": 3,
            "multi_piece_range": 5, "truncated_range": 1, "snaps": 300}
    missing = {k: (st.get(k, 0), v) for k, v in need.items() if st.get(k, 0) < v}
    res = ctx.tlc_validate("Trace_WebseedSess", tp, ntraces=len(traces), timeout=1200)
    if not res["ok"] and res["hwm"] is not None:
        raise vlib.MachineryError("Trace_WebseedSess could not explain line %s (driver/spec mismatch, not a verdict):\n%s"
                                  % (res["hwm"], res["out"][-2500:]))
    seen, nrep, tags = set(), 0, {}
    for tag, line in res["viols"]:
        tags[tag] = tags.get(tag, 0) + 1
        i = max(k for k, (o, _) in enumerate(index) if o < line)
        o, t = index[i]
        pos = line - o
        ini = t[0]
        sig = "tag=%s sess kind=%s%s" % (tag, ini["kind"], " long" if ini.get("long") else "")
        if tag == "X06.a.sessdata":         # how the stored piece differs: the mark of a buffer with two owners, or something else
            bc = t[pos - 1].get("badclass", "-")
            sig += " cause=" + ("buffer-reused:" + bc if bc in ("zeros", "other-piece") else "other:" + bc)
        if sig in seen:
            continue
        seen.add(sig)
        if nrep >= 12:
            continue
        brief = [e for e in t[:pos] if e["op"] != "Snap"][-25:] + [t[pos - 1]]
        if ctx.violation(tag, sig, "session scenario %s (#%d) violates %s at event %d: %s"
                         % (ini["kind"], ini["idx"], tag, pos, json.dumps(t[pos - 1])[:300]), {"init": ini, "events": brief}):
            nrep += 1
    ctx.extra["violated_tags_by_count_session"] = tags
    if not ctx.violations:                  # (a broken implementation may well keep the driver from getting there)
        if missing:
            raise vlib.MachineryError("session driver did not produce the situations (have, need): %s" % missing)
        if st.get("has.Skip", 0) > len(traces) // 3:
            raise vlib.MachineryError("too many session scenarios could not be set up: %s" % st)
