"""C06 — untrusted metainfo is rejected or well-formed; starting it terminates
(spec/Metainfo.tla, MC_Metainfo, MetainfoGen, Trace_Metainfo; driver harness/c06)."""
import json, os, re, threading
import vlib


def proj_class(d):
    if any(x["neg"] == 1 and x["m"] for x in d["lens"]):
        return "neg"
    tot = 0
    for x in d["lens"]:
        v = 0
        for limb in reversed(x["m"]):
            v = v * 10000 + limb
        tot += v
    return "ovf" if tot > 2 ** 63 - 1 else "ok"


def in_class(d):
    if d.get("strwide"):
        return "strlen-wide"       # a string declares its length with 10+ digits (family StrLenVars / MetainfoScan.tla)
    if d.get("overrun"):
        return "strlen-overrun"
    if d.get("depth", 0) >= 100000:
        return "deep-nesting"
    return "plain"


def run(ctx):
    ctx.level = "model_checking"
    ctx.cov["rule"] = ("one evaluation = one call (metainfo.New | NewInfo v1/v2 | NewPieces | Session.AddTorrent | AddTorrent+Start | "
                       "low-limit session: AddTorrent, AddURI(http, scripted server), resume record + NewSession + Start, "
                       "AddURI(magnet) + metadata peer + allocation) of "
                       "the real code on one generated or mutated input, judged by TLC; non-trivial = the call accepted the input or "
                       "ended in an event; distinct = distinct (site, projection of the accepted description, event)")
    ctx.assumptions += [
        "hang = one call burns more CPU than 1 s (quick; 1.5 s thorough) + 0.3 ms per piece, and again more than 4x that when re-run alone (piece construction, start) / 150 s (parser phase; 10 s for an input of at most 64 KiB), or is silent for 60/240 s",
        "declared string lengths: 15 values (2^31-1 .. forty nines, among them the values that wrap a 32/64-bit word to the true length, "
        "to a negative length and back onto the same token) x 7 positions of a .torrent on two representative dictionaries; "
        "the byte-level mutations of these inputs are judged like all mutations",
        "runaway allocation = live heap above 1 GiB (piece construction, start) / 3 GiB (parser) or allocated bytes above 16 MiB + 256 x input",
        "piece construction and Start are run on representatives of every distinct accepted projection (PL, N, lengths, padding); "
        "in the quick tier the projections with a negative or >= 2^62 length are a seeded sample",
        "resume versions 1/2 are driven at metainfo.NewInfo only (sites ni1/ni2); the resume-record (version 3, bbolt record + NewSession + Start), "
        "magnet (info dictionary served by a scripted ut_metadata peer, then allocation + piece construction) and file paths of a session with "
        "lowered limits (MaxPieces 3, MaxTorrentSize 64 KiB) are driven on one representative of every distinct accepted projection "
        "and on a seeded sample of 24 info dictionaries that the parser refuses",
        "URL path: AddURI against scripted servers with TorrentAddHTTPTimeout = 500 ms; hang = the call has not returned after time-out + 5 s"]
    # 1. design level (in parallel with generation and the driver)
    mc_err = []

    def mc():
        try:
            ctx.tlc_mc("MC_Metainfo", "MC_Metainfo.cfg", timeout=1800, workers=4)
            # HTTP source: the deadline covers the whole exchange and the read is capped, whatever the server does;
            # the design whose deadline covers the head only must fail (vacuity guard of the model)
            ctx.tlc_mc("MetainfoFetch", "MC_MetainfoFetch.cfg", timeout=600, workers=2)
            ok, _ = ctx.tlc_mc("MetainfoFetch", "MC_MetainfoFetch_hdronly.cfg", timeout=600, workers=2, expect_ok=False)
            if ok:
                raise vlib.MachineryError("MC_MetainfoFetch_hdronly.cfg (time-out covers the head only) was expected to violate Bounded")
            # declared string lengths: the range-checked pre-scan stays inside the buffer and moves forward on EVERY byte
            # string over the scan alphabet; the design whose accumulator wraps must fail both ways (vacuity guards)
            ctx.tlc_mc("MetainfoScan", ctx.pick("MC_MetainfoScan.cfg", "MC_MetainfoScan_big.cfg"), timeout=1200, workers=2)
            for cfg, what in (("MC_MetainfoScan_wrap_crash.cfg", "InBuffer"), ("MC_MetainfoScan_wrap_hang.cfg", "Bounded")):
                ok, _ = ctx.tlc_mc("MetainfoScan", cfg, timeout=600, workers=2, expect_ok=False)
                if ok:
                    raise vlib.MachineryError("%s (length accumulator wraps) was expected to violate %s" % (cfg, what))
            if not ctx.quick():
                ctx.tlc_mc("MC_Metainfo", "MC_Metainfo_big.cfg", timeout=3000, workers=4)
        except Exception as ex:  # re-raised in the main thread
            mc_err.append(ex)

    th = threading.Thread(target=mc)
    th.start()
    # 2. TLC as generator -> driver
    if getattr(ctx, "replay", None):
        rep = json.load(open(ctx.replay))
        cases_path = ctx.path("replay.hex")
        open(cases_path, "w").write(rep["detail"]["hex"] + "\n")
        ngen = 1
    else:
        import time
        time.sleep(0.3)
        items, _ = ctx.tlc_gen("MetainfoGen", ctx.pick("MetainfoGen.cfg", "MetainfoGen_thorough.cfg"), timeout=2400)
        if len(items) < 1000:
            raise vlib.MachineryError("generator produced only %d cases" % len(items))
        cases_path = ctx.path("cases.json")
        json.dump(items, open(cases_path, "w"))
        ngen = len(items)
    drv = ctx.build_go("c06")
    tp = ctx.path("trace.ndjson")
    scr = ctx.path("drv", "x")
    r = ctx.run_drv(drv, ["-mode", "parent", "-cases", cases_path, "-out", tp, "-scratch", os.path.dirname(scr), "-seed", str(ctx.seed),
                          "-mut", str(ctx.pick(1, 2)), "-workers", str(ctx.pick(8, 10)), "-reps", str(ctx.pick(1, 2)),
                          "-maxbad", str(ctx.pick(6, 40)), "-cpums", str(ctx.pick(1000, 1500)), "-rejsample", str(ctx.pick(40, 20))],
                    timeout=ctx.pick(1800, 3600))
    stats = json.loads(r.stdout.strip().splitlines()[-1])
    ctx.extra["driver"] = stats
    lines = vlib.read_ndjson(tp)
    # 3. the judge
    judge(ctx, tp, lines, stats)
    th.join()
    if mc_err:
        raise mc_err[0]


def judge(ctx, tp, lines, stats):
    keep = ("op", "id", "site", "acc", "pl", "n", "lens", "pad", "priv", "size", "lim", "maxn", "maxsz", "st", "steps", "ev", "where", "akb", "ikb", "ret", "ms", "tmo")
    slim = ctx.path("slim.ndjson")
    vlib.write_ndjson(slim, [{k: d[k] for k in keep} for d in lines])
    res = ctx.tlc_validate("Trace_Metainfo", slim, ntraces=len(lines), timeout=1500, heap="6g")
    if not res["ok"]:
        raise vlib.MachineryError("trace not explained by the specification at line %s — driver/spec mismatch, not a verdict\n%s"
                                  % (res["hwm"], res["out"][-2500:]))
    viol = {}
    for m in re.finditer(r'@@V (\d+) (\S+?)"?\s', res["out"]):
        viol[int(m.group(1))] = m.group(2).strip('"')
    # coverage bookkeeping
    ctx.cov["evaluations"] += sum(v for k, v in stats.items() if k.startswith("calls."))
    for d in lines:
        nontrivial = d["acc"] == 1 or d["ev"] != ""
        ctx.count_case((d["site"], d["acc"], d["pl"], d["n"], d["lens"], d["pad"], d["ev"], d["where"]), nontrivial)
        ctx.cov["evaluations"] -= 1
        if d["acc"] == 1:
            ctx.oblig("C06.wellformed")
        if d["st"] == 1:
            ctx.oblig("C06.work")
    ncalls = sum(v for k, v in stats.items() if k.startswith("calls."))
    for t in ("C06.crash", "C06.hang", "C06.oom", "C06.alloc"):
        ctx.oblig(t, ncalls)
    acc_ok = [d for i, d in enumerate(lines, 1) if d["acc"] == 1 and i not in viol]
    ctx.extra["accepted_and_wellformed"] = len(acc_ok)
    ctx.extra["violating_lines"] = len(viol)
    if acc_ok:
        d = acc_ok[0]
        ctx.sample({"site": d["site"], "case": d.get("case"), "pl": d["pl"], "n": d["n"], "lens": d["lens"], "verdict": "well-formed"})
    if not acc_ok and not getattr(ctx, "replay", None):
        raise vlib.MachineryError("vacuous run: no accepted well-formed description was judged")
    # verdicts, one per signature class
    seen = {}
    for i in sorted(viol):
        d = lines[i - 1]
        tag = viol[i]
        sig = "tag=%s site=%s where=%s proj=%s in=%s" % (tag, d["site"], d["where"] or "-", proj_class(d), in_class(d))
        seen.setdefault(sig, []).append(d)
    for sig, ds in sorted(seen.items()):
        d = ds[0]
        tag = sig.split()[0][4:]
        ctx.sample({"signature": sig, "count": len(ds), "case": d.get("case")})
        ctx.violation(tag, sig,
                      "%d call(s) of the real code violate %s; first: site=%s input=%s" % (len(ds), tag, d["site"], (d.get("case") or "")[:300]),
                      {"count": len(ds), "line": {k: d[k] for k in d if k not in ("stderr",)}, "hex": d.get("hex"),
                       "stderr": d.get("stderr"), "other_inputs": [x.get("case") for x in ds[1:6]]})
