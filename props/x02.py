"""X02 — peer exchange sender (spec/Pex.tla, MC_Pex, MC_PexGen, Trace_Pex; driver harness/x02, shim internal/peer/zz_verif_x02.go).

Specification-coverage extension (not one of the 20 listed properties; not in MANIFEST.json).
1. design level (MC_Pex): the per-message obligations imply that the receiver's picture of our peer set differs from the
   truth only by what is pending, for every interleaving; a conforming message always exists; the picture becomes exact once
   the torrent stops changing (liveness, WF of the flush); the algorithm of pexlist / newPEX against the envelope (as-is
   predicted to fail X02.d only, repaired passes).
2. implementation -> specification: torrent-level histories (TLC simulation of MC_PexGen + seeded random + bursts over the
   50-entry limits) are replayed into the REAL pex goroutine (real one-minute ticker, fake clock of testing/synctest), the
   real pexlist and the real peerconn writer; the ut_pex messages are decoded from the socket bytes; Trace_Pex judges.
"""
import json, os, re
import vlib


def run(ctx):
    ctx.level = "model_checking"
    ctx.cov["rule"] = ("per remote peer: the history of Start / Add / Drop calls and the ut_pex messages it was sent (decoded from the "
                       "wire); non-trivial = at least two messages; distinct = distinct sequences of (event, arguments, time)")
    ctx.assumptions += ["IPv4 contacts only (rain listens on tcp4; tracker.CompactPeer has no IPv6 form)",
                        "time is the fake clock of testing/synctest: the real time.Ticker of pex.run fires exactly on the minute; "
                        "harness operations never coincide with a flush instant",
                        "the torrent loop's calling discipline (torrent_peer.go, torrent_close.go, torrent_pex.go) is re-enacted by the "
                        "driver; that private torrents never call StartPEX is C19's obligation"]
    # ---------------------------------------------------------------- 1. design level
    if not os.environ.get("VERIF_SKIP_MC"):       # development knob (mutation runs change the implementation only)
        design_level(ctx)
    implementation(ctx)


def design_level(ctx):
    ctx.tlc_mc("MC_Pex", "MC_Pex.cfg", timeout=600, workers=4)
    ctx.tlc_mc("MC_Pex", "MC_PexAlg_fixed.cfg", timeout=600, workers=4)
    ctx.tlc_mc("MC_Pex", "MC_PexAlg_asis_known.cfg", timeout=600, workers=4)
    ok, out = ctx.tlc_mc("MC_Pex", "MC_PexAlg_asis.cfg", timeout=600, expect_ok=False, workers=4)
    found = re.findall(r'av = \{([^}]*)\}', out)
    pred = set(found[-1].replace('"', "").replace(" ", "").split(",")) if (not ok and found) else set()
    if ok or pred != {"X02.d"}:
        raise vlib.MachineryError("MC_PexAlg_asis: expected a counterexample for X02.d only, got ok=%s tags=%s" % (ok, pred))
    ctx.extra["design_level_prediction_asis"] = sorted(pred)
    ctx.tlc_mc("MC_Pex", "MC_Pex_live.cfg", timeout=600, workers=4)
    if not ctx.quick():
        for c in ("MC_Pex_l1.cfg", "MC_Pex_4.cfg", "MC_PexAlg_fixed_l2.cfg"):
            ctx.tlc_mc("MC_Pex", c, timeout=1800, workers=6)


def implementation(ctx):
    # ---------------------------------------------------------------- 2. implementation -> specification
    items, _ = ctx.tlc_gen("MC_PexGen", ctx.pick("MC_PexGen.cfg", "MC_PexGen_8.cfg"), simulate=ctx.pick(60, 1500),
                           depth=ctx.pick(45, 75), timeout=900)
    if len(items) < ctx.pick(40, 1000):
        raise vlib.MachineryError("MC_PexGen produced only %d histories" % len(items))
    sp = ctx.path("scripts.ndjson")
    vlib.write_ndjson(sp, items)
    ctx.extra["tlc_generated_histories"] = len(items)
    drv = ctx.build_go("x02")
    tp = ctx.path("trace.ndjson")
    r = ctx.run_drv(drv, ["-seed", str(ctx.seed), "-scripts", sp, "-n", str(ctx.pick(40, 1500)), "-big", str(ctx.pick(3, 60)), "-out", tp],
                    check=False, timeout=1200)
    if r.returncode != 0:
        crash(ctx, r)
        return
    ctx.extra["driver"] = json.loads([x for x in r.stdout.splitlines() if x.startswith("{")][-1])
    judge(ctx, tp)


def crash(ctx, r):
    """The process died: a panic inside rain's PEX code is a finding, anything else is machinery."""
    err = r.stderr + r.stdout
    m = re.search(r"panic: (.*)", err)
    frames = re.findall(r"github.com/cenkalti/rain/v2/(internal/(?:peer|pexlist|peerconn)[\w/.()*]*)", err)
    if m and frames:
        ctx.violation("X02.panic", "tag=X02.panic where=%s what=%s" % (frames[0], m.group(1)[:80]),
                      "the PEX sender panicked: %s" % m.group(1)[:200], {"stderr": err[-4000:]})
        return
    raise vlib.MachineryError("driver x02 exit %d:\n%s" % (r.returncode, err[-5000:]))


def split(path):
    traces, cur = [], []
    for line in open(path):
        e = json.loads(line)
        if e["op"] == "Init":
            if cur:
                traces.append(cur)
            cur = []
        cur.append(e)
    if cur:
        traces.append(cur)
    return traces


def judge(ctx, tp):
    traces = split(tp)
    index, n = [], 0
    big = {"added_at_limit": 0, "dropped_at_limit": 0, "first_message_over_limit": 0, "recent_list_full": 0}
    for t in traces:
        index.append((n, t))
        n += len(t)
        key = tuple((e["op"], e.get("a"), e.get("t"), tuple(e.get("added", ())), tuple(e.get("dropped", ())),
                     tuple(e.get("initial", ())), tuple(e.get("recent", ())), tuple(e.get("list", ()))) for e in t)
        msgs = [e for e in t if e["op"] == "Msg"]
        ctx.count_case(key, len(msgs) >= 2 or any(e["op"] == "RsAdd" for e in t))
        for tag in ("X02.a", "X02.b", "X02.c", "X02.d", "X02.e", "X02.f", "X02.g", "X02.i"):
            ctx.oblig(tag, len(msgs))
        ctx.oblig("X02.g.late", sum(1 for e in t if e["op"] in ("At", "Add", "Drop", "Msg")))
        ctx.oblig("X02.r", sum(1 for e in t if e["op"] == "RsAdd"))
        # limit situations by the history, not by what the code sent: pending entries >= L at a later flush
        pa, pd, k, L = set(), set(), 0, t[0]["L"]
        for e in t:
            if e["op"] == "Start":
                pa = set(e["initial"]) - {t[0]["self"]}
                pd = set(e["recent"]) - set(e["initial"])
            elif e["op"] == "Add": pa.add(e["a"]); pd.discard(e["a"])
            elif e["op"] == "Drop": pd.add(e["a"]); pa.discard(e["a"])
            elif e["op"] == "Msg":
                if k > 0 and len(pa) >= L: big["added_at_limit"] += 1
                if k > 0 and len(pd) >= L: big["dropped_at_limit"] += 1
                if k == 0 and len(pa) > L: big["first_message_over_limit"] += 1
                pa -= set(e["added"]); pd -= set(e["dropped"]); k += 1
        big["recent_list_full"] += sum(1 for e in t if e["op"] == "RsAdd" and len(e["list"]) == t[0]["R"])
    ctx.extra["limit_situations_exercised"] = big
    if min(big.values()) == 0:
        raise vlib.MachineryError("a limit situation was not exercised (vacuous run): %s" % big)
    ctx.sample({"trace_prefix": traces[0][:10]})
    res = ctx.tlc_validate("Trace_Pex", tp, ntraces=len(traces), timeout=2400)
    if not res["ok"] and res["hwm"] is not None:
        raise vlib.MachineryError("Trace_Pex could not explain line %s (driver/spec mismatch, not a verdict):\n%s"
                                  % (res["hwm"], res["out"][-2500:]))
    seen, nrep, tags = set(), 0, {}
    for tag, line in res["viols"]:
        tags[tag] = tags.get(tag, 0) + 1
        i = max(k for k, (off, _) in enumerate(index) if off < line)
        off, t = index[i]
        pos = line - off
        sig = signature(tag, t, pos)
        if sig in seen:
            continue
        seen.add(sig)
        if nrep >= 12:
            continue
        if ctx.violation(tag, sig, "PEX sender violates %s at event %d of a recorded history: %s"
                         % (tag, pos, json.dumps(t[pos - 1])[:300]), {"trace": t[:pos]}):
            nrep += 1
    ctx.extra["violated_tags_by_count"] = tags
    if getattr(ctx, "selftest", False):
        selftest(ctx, traces)


def signature(tag, t, pos):
    ini, e = t[0], t[pos - 1]
    nmsg = sum(1 for x in t[:pos - 1] if x["op"] == "Msg")
    sig = "tag=%s op=%s msg=%s" % (tag, e["op"], "-" if e["op"] != "Msg" else ("first" if nmsg == 0 else "later"))
    if tag == "X02.d":
        start = next((x for x in t if x["op"] == "Start"), {"recent": [], "initial": []})
        lists = [k for k in ("added", "dropped") if ini["self"] in e.get(k, [])]
        sig += " list=%s self_in_recent=%d" % ("+".join(lists), int(ini["self"] in start["recent"]))
    elif e["op"] == "Msg":
        sig += " nadded=%s ndropped=%s" % (cls(len(e["added"]), ini["L"]), cls(len(e["dropped"]), ini["L"]))
    return sig


def cls(n, lim):
    return "0" if n == 0 else ("<=L" if n <= lim else ">L")


def selftest(ctx, traces):
    """Binding demonstration: an address repeated in a recorded message must be rejected."""
    for t in traces:
        for k, e in enumerate(t):
            if e["op"] == "Msg" and k > 3 and e["added"]:
                bad = [dict(x) for x in t[:k + 1]]
                bad[k]["added"] = bad[k]["added"] + bad[k]["added"][:1]
                p = ctx.path("selftest.ndjson")
                vlib.write_ndjson(p, bad)
                res = ctx.tlc_validate("Trace_Pex", p, ntraces=0)
                if not any(tag == "X02.b.dup" for tag, _ in res["viols"]):
                    raise vlib.MachineryError("selftest: a duplicated entry was not rejected")
                print("selftest ok: duplicated entry rejected as X02.b.dup", flush=True)
                return
