"""X08 "LeechProto" - protocol discipline of rain as a downloader on its peer connections (spec/LeechProto.tla, MC_LeechProto,
MC_LeechProtoAlg, Trace_LeechProto; driver harness/x08).

Specification-coverage extension (not one of the 20 listed properties).
1. design level: the per-message obligations (what may be requested at all, interest declarations, first message, have
   announcements, cancels) imply the global forms and are jointly satisfiable for every interleaving of connect / disconnect,
   the peer's messages, verification of a piece here or elsewhere (MC_LeechProto*); under weak fairness of the owed messages
   every connection is infinitely often closed or quiet (MC_LeechProto_live); the algorithm of the torrent loop's handlers
   as it is against the obligations (MC_LeechProtoAlg*).
2. implementation -> specification: a real torrent.Session downloads from up to three scripted peers driven by one goroutine
   with a barrier echo after every stimulus; Trace_LeechProto judges the wire history of all connections in one TLC pass.
"""
import json, os, re
import vlib


def run(ctx):
    ctx.level = "model_checking"
    ctx.cov["rule"] = ("wire histories of all connections of one downloading session (scenario classes plain / resume / corrupt / "
                       "stopstart / seeding / af / endgame (take-over of a stalled piece) / nocomplete; fast on/off, bitfield / partial / lazy announcements, choke cycles, allowed-fast, "
                       "rejects, up to 3 peers); non-trivial = contains a choke with requests outstanding, a reject, an allowed-fast "
                       "grant, a second connection, a stop/start or a corrupt piece; distinct = distinct sequences of (op, conn, kind, piece, block)")
    ctx.assumptions += ["rain's verified set is bracketed per step by the loop snapshots (hook H1) at the previous and at this barrier; "
                        "obligations that need the exact set are judged only where both bounds agree",
                        "the scripted peers are honest about BEP 3 / BEP 6 (serve only outstanding requests, reject or serve everything "
                        "after a choke with fast extension) except for the corrupting peer of class `corrupt`; hostile peers are X04 / C17",
                        "after completion and for a seeding session no barrier echo exists (rain holds every piece): those phases use a "
                        "400 ms quiet period instead",
                        "deviation accepted by the envelope: a newly verified piece is not announced to a peer that announced it itself "
                        "(torrent_write.go: 'Skip peers having the piece to save bandwidth'); counted in evidence (skiphave_used)"]
    if not os.environ.get("VERIF_SKIP_MC"):
        design_level(ctx)
    implementation(ctx)


def design_level(ctx):
    ctx.tlc_mc("MC_LeechProto", "MC_LeechProto.cfg", timeout=600, workers=4)
    ctx.tlc_mc("MC_LeechProto", "MC_LeechProto_live.cfg", timeout=600, workers=4)
    if os.path.exists(os.path.join(vlib.VERIF, "spec", "MC_LeechProtoAlg.tla")):
        alg(ctx)
    if not ctx.quick():
        ctx.tlc_mc("MC_LeechProto", "MC_LeechProto_2c.cfg", timeout=900, workers=4)


def alg(ctx):
    """The algorithm of the loop's handlers as it is: conforms with the deviation `skiphave`, and is predicted to fail the strict
    X08.have.all without it (directed scenario = every bar counted as skiphave_used in the recorded histories)."""
    ctx.tlc_mc("MC_LeechProtoAlg", "MC_LeechProtoAlg.cfg", timeout=600, workers=4)
    ok, out = ctx.tlc_mc("MC_LeechProtoAlg", "MC_LeechProtoAlg_strict.cfg", timeout=600, workers=2, expect_ok=False)
    if ok or "Invariant AInvQuiet is violated" not in out:
        raise vlib.MachineryError("MC_LeechProtoAlg_strict: expected a counterexample of AInvQuiet (X08.have.all), got ok=%s\n%s" % (ok, out[-1500:]))
    ctx.extra["design_level_prediction_asis"] = {"strict_have_all": "violated (a peer that announced the piece gets no have)"}


def split(path):
    traces, cur = [], []
    for line in open(path):
        e = json.loads(line)
        if e["op"] == "Init":
            if cur:
                traces.append(cur)
            cur = []
        cur.append(e)
    if cur:
        traces.append(cur)
    return traces


def implementation(ctx):
    drv = ctx.build_go("x08")
    tp = ctx.path("trace.ndjson")
    nscn = ctx.pick(10, 64)
    r = ctx.run_drv(drv, ["-seed", str(ctx.seed), "-n", str(nscn), "-out", tp], timeout=1500)
    info = json.loads(r.stdout.strip().splitlines()[-1])
    ctx.extra["driver"] = info
    if info.get("machinery"):
        raise vlib.MachineryError("driver: %s" % info["machinery"][:3])
    traces = split(tp)
    index, n, tot = [], 0, {}
    g = lambda k: tot.get(k, 0)

    def c(k, x=1):
        tot[k] = tot.get(k, 0) + x

    for t in traces:
        index.append((n, t))
        n += len(t)
        conns, nontriv = {}, False
        nconn = 0
        for e in t[1:]:
            op, k = e["op"], e.get("k")
            if op == "conn":
                conns[e["c"]] = {"fast": e["fast"], "out": set(), "chokd": True, "ph": set(), "annc": set(), "af": set()}
                nconn += 1
                c("conn_fast" if e["fast"] else "conn_nofast")
                if nconn > 1:
                    nontriv = True
                continue
            if op in ("stop",):
                nontriv = True
                c("stops")
                conns = {}
                continue
            if op == "closed":
                conns.pop(e["c"], None)
                continue
            if op == "end":
                c("ends")
                c("ends_complete" if e["complete"] else "ends_incomplete")
                continue
            cc = conns.get(e.get("c"))
            if cc is None:
                continue
            if op == "bar":
                c("bars")
                if cc["ph"] - set(e["hi"]):
                    c("bars_wanted")
                if cc["ph"] and cc["ph"] <= set(e["lo"]):
                    c("bars_nothing_wanted")
                if set(e["lo"]):
                    c("bars_have_due")
                if (set(e["lo"]) - cc["annc"]) & cc["ph"]:
                    c("skiphave_used")
            elif op == "tx":
                if k in ("bitfield", "haveall"):
                    cc["ph"] |= set(e["set"])
                elif k == "have":
                    cc["ph"].add(e["i"])
                elif k == "choke":
                    if cc["out"]:
                        nontriv = True
                        c("choke_outstanding_fast" if cc["fast"] else "choke_outstanding_nofast")
                    cc["chokd"] = True
                    if not cc["fast"]:
                        cc["out"] = set()
                elif k == "unchoke":
                    cc["chokd"] = False
                elif k == "af":
                    cc["af"].add(e["i"])
                    nontriv = True
                elif k in ("piece", "reject"):
                    cc["out"].discard((e["i"], e["b"], e["n"]))
                    if k == "reject":
                        nontriv = True
            elif op == "rx":
                c("rx_" + k)
                if k == "request":
                    if cc["chokd"]:
                        c("requests_while_choked_af")
                    if e["i"] in cc["af"]:
                        c("requests_af_piece")
                    cc["out"].add((e["i"], e["b"], e["n"]))
                elif k == "cancel":
                    cc["out"].discard((e["i"], e["b"], e["n"]))
                elif k in ("bitfield", "haveall", "havenone"):
                    cc["annc"] |= set(e["set"])
                    if e["set"]:
                        c("first_nonempty")
                elif k == "have":
                    cc["annc"].add(e["i"])
        if t[0]["cls"] in ("corrupt", "stopstart"):
            nontriv = True
        key = tuple((e["op"], e.get("c"), e.get("k"), e.get("i"), e.get("b")) for e in t[1:]) + (t[0]["cls"],)
        ctx.count_case(key, nontriv)
    ctx.sample({"trace_prefix": traces[0][:10]})
    ctx.oblig("X08.req", g("rx_request"))
    ctx.oblig("X08.req.choked.allowed_fast", g("requests_while_choked_af"))
    ctx.oblig("X08.int.alt", g("rx_interested") + g("rx_notinterested"))
    ctx.oblig("X08.int.alt.notinterested", g("rx_notinterested"))
    ctx.oblig("X08.int.missing", g("bars_wanted"))
    ctx.oblig("X08.int.stale", g("bars_nothing_wanted"))
    ctx.oblig("X08.first", g("rx_bitfield") + g("rx_haveall") + g("rx_havenone"))
    ctx.oblig("X08.first.content.nonempty", g("first_nonempty"))
    ctx.oblig("X08.have", g("rx_have"))
    ctx.oblig("X08.have.all", g("bars_have_due"))
    ctx.oblig("X08.cancel.out", g("rx_cancel"))
    ctx.oblig("X08.live.complete", g("ends"))
    ctx.extra["counters"] = tot
    vac = [k for k, v in ctx.obligation_counts.items() if k.startswith("X08.") and v == 0]
    res = ctx.tlc_validate("Trace_LeechProto", tp, ntraces=len(traces), timeout=1800)
    if not res["ok"] and res["hwm"] is not None:
        raise vlib.MachineryError("Trace_LeechProto could not explain line %s (driver/spec mismatch, not a verdict):\n%s"
                                  % (res["hwm"], res["out"][-2500:]))
    report(ctx, res, index)
    if vac and not ctx.violations and not ctx.known_hits:
        raise vlib.MachineryError("vacuous obligations (never exercised by the recorded histories): %s" % vac)
    if getattr(ctx, "selftest", False):
        selftest(ctx, traces)


def signature(tag, t, pos):
    """Class of the violating message: scenario class, message kind, fast?, and what the connection looked like."""
    e = t[pos - 1]
    cid = e.get("c")
    fast, chokd, first, nconn = 0, 1, 0, 0
    for x in t[1:pos - 1]:
        if x["op"] == "conn":
            nconn += 1
        if x.get("c") != cid:
            continue
        if x["op"] == "conn":
            fast, chokd, first = int(x["fast"]), 1, 0
        elif x["op"] == "tx" and x["k"] == "choke":
            chokd = 1
        elif x["op"] == "tx" and x["k"] == "unchoke":
            chokd = 0
        elif x["op"] == "rx":
            first = 1
    return "tag=%s cls=%s op=%s k=%s fast=%d chokd=%d said=%d multi=%d" % (tag, t[0]["cls"], e["op"], e.get("k", "-"), fast, chokd, first,
                                                                        int(nconn > 1))


def report(ctx, res, index):
    seen, nrep, tags = set(), 0, {}
    for tag, line in res["viols"]:
        tags[tag] = tags.get(tag, 0) + 1
        if tag.startswith("X08.machinery"):
            raise vlib.MachineryError("%s at line %d of the trace file" % (tag, line))
        i = max(k for k, (off, _) in enumerate(index) if off < line)
        off, t = index[i]
        pos = line - off
        sig = signature(tag, t, pos)
        if sig in seen:
            continue
        seen.add(sig)
        if nrep >= 12:
            continue
        if ctx.violation(tag, sig, "%s violated at event %d of scenario %d (%s): %s"
                         % (tag, pos, t[0]["scn"], t[0]["cls"], json.dumps(t[pos - 1])[:300]), {"trace": t[:pos]}):
            nrep += 1
    ctx.extra["violated_tags_by_count"] = tags


def selftest(ctx, traces):
    """Binding demonstration: corrupt one recorded field and require the rejection."""
    done = set()

    def mutate(t, k, f, tag, what):
        bad = [json.loads(json.dumps(x)) for x in t[:k + 1]]
        f(bad)
        p = ctx.path("selftest.ndjson")
        vlib.write_ndjson(p, bad)
        res = ctx.tlc_validate("Trace_LeechProto", p, ntraces=0)
        if not any(tg in tag.split("|") for tg, _ in res["viols"]):
            raise vlib.MachineryError("selftest: %s was not rejected as %s (got %s)" % (what, tag, res["viols"]))
        print("selftest ok: %s rejected as %s" % (what, tag), flush=True)

    for t in traces:
        if t[0]["cls"] == "seeding":
            continue
        for k, e in enumerate(t):
            if e["op"] != "rx":
                continue
            if "req" not in done and e["k"] == "request":
                def f(bad):
                    bad[k]["i"] = t[0]["resv"]
                mutate(t, k, f, "X08.req.announced", "a request for a piece nobody announced")

                def f2(bad):
                    bad[k]["lo"] = sorted(set(bad[k]["lo"]) | {e["i"]})
                    bad[k]["hi"] = sorted(set(bad[k]["hi"]) | {e["i"]})
                mutate(t, k, f2, "X08.req.held", "a request for a piece rain holds")

                def f3(bad):
                    for x in bad[:k]:
                        if x["op"] == "rx" and x["c"] == e["c"] and x["k"] == "interested":
                            x["k"] = "other"
                mutate(t, k, f3, "X08.req.interest|X08.int.missing", "a request without a preceding interested")
                done.add("req")
            if "have" not in done and e["k"] == "have":
                def f(bad):
                    bad.append(dict(bad[k]))
                mutate(t, k, f, "X08.have.dup", "a doubled have")
                done.add("have")
            if "first" not in done and e["k"] == "bitfield" and e["set"]:
                def f(bad):
                    bad[k]["set"] = bad[k]["set"][1:]
                mutate(t, k, f, "X08.first.content", "a bitfield with a verified piece missing")
                done.add("first")
            if "int" not in done and e["k"] == "interested":
                def f(bad):
                    bad.append(dict(bad[k]))
                mutate(t, k, f, "X08.int.alt", "a repeated interested")
                done.add("int")
        if len(done) == 4:
            return
    raise vlib.MachineryError("selftest: no suitable events found (%s)" % sorted(done))
